"""
Replay of real traces through the executable Lean model: translation of a trace of dyn_rt.run into
model events (+ the reactions observed on the implementation), one request line per trace and layer.

Layer A (AJ/Model/Run.lean): starting of jobs, window slots, nesting.
Layer B (AJ/Model/Full.lean): exits, cancellation, verdicts, shutdown.
"""
import re
from dyn_gen import index

# Which differences between the model and the implementation break which property's tie (DESIGN.md 3.3).
# A property depends on the components its theorems use; `env:*` / `guard` differences (the trace is not a
# behaviour of the model at all: an assumption about asyncio or the job bodies failed, or the run took an exit
# the model does not take) concern every property.  Components:
#   start       which jobs are started (entry set, successors after a completion)
#   slot-limit  a job took a slot although the window was full
#   eager       the clock advanced although a queued job could take a free slot
#   urgent      the clock advanced although a wait could return / a cancellation or relay step was pending,
#               or past an armed deadline
#   exit        whether a run leaves its main loop in reaction to a completion
#   cancel      which tasks are cancelled when a run leaves its loop
#   verdict     value returned / exception raised by a run          diag     failed_time_out / failed_critical
#   sd          which jobs receive co_shutdown()                     sdto     which handlers are cancelled
#   sdvalue     value returned by co_shutdown()
ALWAYS = {"env:A1", "env:guard", "guard", "bad", "harness:translate"}
ALL = {"start", "slot-limit", "eager", "urgent", "exit", "cancel", "verdict", "diag", "sd", "sdto", "sdvalue", "final", "stats"}
RELEVANT = {
    "C01": ("A", {"start"}),
    "C02": ("AB", {"start", "exit", "verdict"}),
    "C03": ("AB", ALL),
    "C04": ("AB", {"exit", "verdict", "diag"}),
    "C05": ("AB", {"start", "exit", "cancel", "urgent", "sdto"}),
    "C06": ("AB", ALL),
    "C07": ("A", {"slot-limit"}),
    "C08": ("AB", {"start", "exit", "cancel", "urgent", "verdict", "diag", "sdto"}),
    "C09": ("AB", {"start", "exit", "cancel", "urgent", "verdict", "sdto"}),
    "C10": ("AB", ALL - {"sd", "sdto", "sdvalue"}),
    "C11": ("AB", {"start", "cancel", "urgent", "sd", "sdto"}),
    "C12": ("A", {"start", "eager", "urgent", "slot-limit"}),
    "C13": ("AB", {"cancel", "urgent", "sd", "sdto", "sdvalue"}),
    "C14": ("AB", {"start", "final", "stats"}),
}


def assign_ids(sc):
    """top = 0, a parent before its children, a requirement before its dependants (the model's WF)"""
    ids = {}
    order = []

    def visit(node):
        ids[node["name"]] = len(order)
        order.append(node)
        kids = list(node.get("children", []))
        names = {k["name"] for k in kids}
        placed = []
        remaining = kids[:]
        while remaining:
            progressed = False
            for k in remaining:
                if all((r not in names) or (r in placed) for r in k.get("req", [])):
                    placed.append(k["name"])
                    remaining.remove(k)
                    visit(k)
                    progressed = True
                    break
            if not progressed:          # cyclic (malformed stream): any order
                k = remaining.pop(0)
                placed.append(k["name"])
                visit(k)
    visit(sc["tree"])
    return ids, order


def enc(l):
    l = sorted(l)
    return ",".join(str(x) for x in l) if l else "-"


def cfg_tokens(sc, ids, order):
    info = index(sc)
    n = len(order)
    P = [0] * n
    S, C, F, W, T, X, R = [], [], [], [], [], [], []
    for node in order:
        j = ids[node["name"]]
        par = info[node["name"]]["parent"]
        P[j] = ids[par] if par is not None else 0
        if node["kind"] == "sched":
            S.append(j)
            if node.get("w"):
                W.append("%d:%d" % (j, node["w"]))
            if node.get("T") is not None:
                T.append("%d:%d" % (j, node["T"]))
            if node.get("sdT") is not None:
                X.append("%d:%d" % (j, node["sdT"]))
        if node["crit"]:
            C.append(j)
        if node["forever"]:
            F.append(j)
        if node.get("req"):
            R.append("%d:%s" % (j, ",".join(str(ids[r]) for r in node["req"])))
    return "n=%d P=%s S=%s R=%s C=%s F=%s W=%s T=%s X=%s pure=%d" % (
        n, ",".join(map(str, P)), enc(S), "|".join(R) or "-", enc(C), enc(F),
        ",".join(W) or "-", ",".join(T) or "-", ",".join(X) or "-", 1 if sc["tree"].get("pure") else 0)


def res_token(ids, line):
    kind = line[2]
    if kind == "rcancel":
        return "c"
    if kind == "rret":
        return "t" if line[4] is True else "f"
    x = line[4]
    if x.startswith("job:"):
        return "xj%d" % ids[x[4:]]
    if x.startswith("timeout:"):
        return "xt%d" % ids.get(x[8:], 9999)
    if x.startswith("orch:"):
        return "xo%d" % ids.get(x[5:], 9999)
    return "x?"


def final_tokens(r, ids):
    """-> (fin, stats): the inspection API of every job right after the run (four bits: idle, scheduled, running,
    done) and the four numbers of stats() of every scheduler, for the `final` / `stats` comparison of replayB"""
    fin = ["%d:%s" % (ids[n], "".join("1" if b else "0" for b in v[:4]))
           for n, v in sorted((r.get("final") or {}).items()) if n in ids and ids[n] != 0]
    st = []
    for n, text in sorted((r.get("stats") or {}).items()):
        if n in ids:
            m = re.fullmatch(r"(\d+)D \+ (\d+)R \+ (\d+)I = (\d+)", text) if isinstance(text, str) else None
            st.append("%d:%s" % (ids[n], ".".join(m.groups()) if m else "X"))
    return ",".join(fin) or "-", ",".join(st) or "-"


def why_token(why):
    """the string returned by why() -> the token of Model/Why.lean (`whyTag`); anything unexpected -> X (never equal)"""
    if why == "FINE":
        return "F"
    if why == "a CRITICAL job has raised an exception":
        return "C"
    m = re.fullmatch(r"TIMED OUT after (\d+|None)s", why) if isinstance(why, str) else None
    if m:
        return "TN" if m.group(1) == "None" else "T%d" % int(m.group(1))
    return "X"


def translate(sc, res, trace):
    """-> (ids, order, eventsA, eventsB, diag)"""
    ids, order = assign_ids(sc)
    info = index(sc)
    log = [e for e in trace if e[2] != "snap"]
    A, B = [], []
    now = 0
    ended, hended = set(), set()
    phase = {}              # scheduler -> loop / tidy / shut / shutTidy / over
    pending_react = {}      # scheduler -> True while a wait-return has not been reacted to
    cancel_in_gap = set()   # schedulers cancelled while a reaction was pending
    relay = {}              # scheduler -> wait / tidy (state of its relayed co_shutdown)
    entered = {}            # (scheduler, ctx) -> names of the last sd wait
    excid = {}              # job -> id of the exception its task ended with
    hcancelled = set()
    taken = set()
    # schedulers whose run ends raising an exception of their own orchestration
    crashed = {e[3] for e in log if e[2] == "outfail"} | {e[3] for e in log if e[2] == "rraise" and str(e[4]) == "orch:" + str(e[3])}
    n = len(log)

    def ack_unstarted(K):
        """a task cancelled while queued (or before its first step) finishes at once, without any job-level line"""
        for k in K:
            name = order[k]["name"]
            if name not in taken and name not in ended:
                ended.add(name)
                A.append("A_%d" % k)
                B.append("A_%d" % k)

    def par(x):
        return info.get(x, {}).get("parent")

    def tick(t):
        nonlocal now
        if t > now:
            A.append("T_%d" % (t - now))
            B.append("T_%d" % (t - now))
            now = t

    def step_lines(i, s, ctx):
        """lines i.. that belong to the step of scheduler s's task (ctx) beginning at i, up to and including its
        next suspension / end"""
        out = []
        for e in log[i:]:
            out.append(e)
            if e[3] == s and ((e[2] == "wenter" and e[6] == ctx) or
                              (ctx == "run" and e[2] in ("rret", "rraise", "rcancel")) or
                              (ctx == "relay" and e[2] in ("sdret", "sdexc") and e[5] == "relay")):
                break
        return out

    def reaction(lines, s):
        K = [ids[x[3]] for x in lines if x[2] == "cancel" and par(x[3]) == s]
        S = [ids[x[3]] for x in lines if x[2] == "create" and par(x[3]) == s]
        H = [ids[x[3]] for x in lines if x[2] == "hcreate" and par(x[3]) == s]
        HC = [ids[x[3]] for x in lines if x[2] == "hcancel" and par(x[3]) == s]
        return K, S, H, HC

    def pick_for(s, finline):
        """the critical job whose exception object a critical scheduler re-raises"""
        if finline[2] != "rraise":
            return 0
        for c in info[s]["children"]:
            if c["crit"] and excid.get(c["name"]) == finline[4]:
                return ids[c["name"]]
        return 0

    def finish(s, finline, i):
        """co_run of s ends: the pending return event of its phase carries the verdict"""
        r = res_token(ids, finline)
        pk = pick_for(s, finline)
        v = ""
        # value of the co_shutdown() that just returned, if it did (same loop iteration, before this line)
        for e in reversed(log[:i]):
            if (e[0], e[1]) != (finline[0], finline[1]):
                break
            if e[2] == "sdcall" and e[3] == s:
                break
            if e[2] == "sdret" and e[3] == s and e[5] == "run":
                v = "~V=" + ("n" if e[4] is None else "t" if e[4] else "f")
                break
        ph = phase.get(s)
        if not info[s]["children"]:
            pass        # an empty scheduler is over as soon as it begins (same model step)
        elif ph == "tidy":
            B.append("TR_%d_%d~R=%s%s" % (ids[s], pk, r, v))
        elif ph == "shut":
            B.append("SW_%d_%d~R=%s%s" % (ids[s], pk, r, v))
        elif ph == "shutTidy":
            B.append("SY_%d_%d~R=%s%s" % (ids[s], pk, r, "" if "n" in v else v))
        else:
            B.append("BAD_finish_%d_in_phase_%s" % (ids[s], ph))
        if info[s]["children"]:
            A.append("F_%d_%s" % (ids[s], r))
        phase[s] = "over"
        if finline[2] == "rraise":
            excid[s] = finline[4]

    def react_if_pending(i, s):
        """the line at i is the first line of the step in which s reacts to its last wait-return"""
        if not pending_react.get(s):
            return
        pending_react[s] = False
        lines = step_lines(i, s, "run")
        K, S, H, HC = reaction(lines, s)
        if s in cancel_in_gap:
            cancel_in_gap.discard(s)
            A.append("L_%d_%s" % (ids[s], enc(K)))
            B.append("CA_%d~K=%s" % (ids[s], enc(K)))
            ack_unstarted(K)
            phase[s] = "tidy"
            return
        last = lines[-1]
        stay = last[2] == "wenter" and last[3] == s and last[4] == "main"
        A.append("R_%d_%d_%s_%s" % (ids[s], 0 if stay else 1, enc(K), enc(S)))
        if not stay and s in crashed:
            # the orchestration of s failed in this reaction (its run ends raising an exception of its own making)
            B.append("OF_%d~K=%s" % (ids[s], enc(K)))
        else:
            B.append("R_%d~K=%s~S=%s~L=%d" % (ids[s], enc(K), enc(S), 0 if stay else 1))
        ack_unstarted(K)
        if not stay:
            phase[s] = "tidy"

    for i in range(n):
        e = log[i]
        t, kind, who = e[0], e[2], e[3]
        if kind == "topend":
            break
        # is this line the beginning of a reaction step of some scheduler?
        owner = None
        if kind in ("create", "cancel") and par(who) is not None:
            owner = par(who)
        elif kind == "wenter" and e[6] == "run":
            owner = who
        elif kind == "sdcall" and e[4] == "run":
            owner = who
        elif kind in ("rret", "rraise", "rcancel"):
            owner = who
        if owner is not None and pending_react.get(owner):
            tick(t)
            react_if_pending(i, owner)
        if kind == "cancel" and pending_react.get(who):
            cancel_in_gap.add(who)

        if kind == "rbegin" and par(who) is None:
            tick(t)
            lines = step_lines(i, who, "run")
            _, S, _, _ = reaction(lines, who)
            A.append("B_%s" % enc(S))
            B.append("B~S=%s" % enc(S))
            phase[who] = "loop" if info[who]["children"] else "over"
        elif kind in ("begin", "rbegin") and par(who) is not None:
            # the job obtained its window slot and its body begins (one step of its task: the probe on the queue
            # itself - "take" - is not needed, so the replay does not depend on how Window is implemented)
            j = who
            taken.add(j)
            tick(t)
            S = []
            extra = ""
            if info[j]["kind"] == "sched":
                lines = step_lines(i + 1, j, "run")
                _, S, _, _ = reaction(lines, j)
                phase[j] = "loop" if info[j]["children"] else "over"
                if not info[j]["children"]:
                    extra = "~R=t"
            A.append("G_%d_%s" % (ids[j], enc(S)))
            B.append("G_%d~S=%s%s" % (ids[j], enc(S), extra))
        elif kind in ("end", "raise"):
            tick(t)
            ended.add(who)
            if kind == "raise":
                excid[who] = "job:" + who
            A.append("E_%d_%d" % (ids[who], 1 if kind == "end" else 0))
            B.append("E_%d_%d" % (ids[who], 1 if kind == "end" else 0))
        elif kind == "cdone":
            tick(t)
            ended.add(who)
            A.append("A_%d" % ids[who])
            B.append("A_%d" % ids[who])
        elif kind == "topcancel":
            tick(t)
            A.append("XC")
            B.append("XC")
        elif kind in ("rret", "rraise", "rcancel"):
            tick(t)
            ended.add(who)
            finish(who, e, i)
        elif kind == "wret" and e[4] in ("main", "tidy") and e[6] == "run":
            s = who
            tick(t)
            D = e[5]
            for j in D:      # finished without any job-level line: cancelled while queued / before the first step
                if j not in ended and j in info:
                    ended.add(j)
                    A.append("A_%d" % ids[j])
                    B.append("A_%d" % ids[j])
            if e[4] == "main":
                if D:
                    A.append("W_%d_%s" % (ids[s], enc(ids[x] for x in D)))
                    B.append("W_%d~D=%s" % (ids[s], enc(ids[x] for x in D)))
                    pending_react[s] = True
                else:
                    lines = step_lines(i + 1, s, "run")
                    K, _, _, _ = reaction(lines, s)
                    A.append("L_%d_%s" % (ids[s], enc(K)))
                    B.append("TF_%d~K=%s" % (ids[s], enc(K)))
                    ack_unstarted(K)
                    phase[s] = "tidy"
        elif kind == "wcancel" and e[5] == "run":
            s = who
            tick(t)
            lines = step_lines(i + 1, s, "run")
            K, _, _, HC = reaction(lines, s)
            if e[4] == "main":
                A.append("L_%d_%s" % (ids[s], enc(K)))
                B.append("CA_%d~K=%s" % (ids[s], enc(K)))
                ack_unstarted(K)
                phase[s] = "tidy"
            elif e[4] == "tidy":
                B.append("CA_%d" % ids[s])
            elif e[4] == "sd":
                for x in HC:
                    hcancelled.add(x)
                B.append("CA_%d~HC=%s" % (ids[s], enc(HC)))
                phase[s] = "shutTidy"
            else:
                B.append("CA_%d" % ids[s])
        elif kind == "sdcall":
            s = who
            tick(t)
            if e[4] == "run":
                if phase.get(s) == "tidy":
                    nxt = log[i + 1] if i + 1 < n else None
                    if nxt is not None and (nxt[2] == "hcreate" or (nxt[2] == "wenter" and nxt[3] == s)):
                        lines = step_lines(i + 1, s, "run")
                        _, _, H, _ = reaction(lines, s)
                        B.append("TR_%d_0~H=%s" % (ids[s], enc(H)))
                        phase[s] = "shut"
            else:
                lines = step_lines(i + 1, s, "relay")
                _, _, H, _ = reaction(lines, s)
                last = lines[-1] if lines else None
                extra = ""
                if last is not None and last[2] == "sdret" and last[3] == s:
                    val = "n" if last[4] is None else "t" if last[4] else "f"
                    relay[s] = "done"
                    if val == "n":
                        B.append("HS_%d~H=%s~V=n" % (ids[s], enc(H)))
                    else:
                        # an empty scheduler: nothing to wait for, co_shutdown() returns True in the same step
                        B.append("HS_%d~H=%s" % (ids[s], enc(H)))
                        B.append("SW_%d_0~V=%s" % (ids[s], val))
                else:
                    relay[s] = "wait"
                    B.append("HS_%d~H=%s" % (ids[s], enc(H)))
        elif kind == "wenter" and e[4] in ("sd", "sdtidy"):
            entered[(who, e[6])] = list(e[5])
        elif kind == "wret" and e[4] in ("sd", "sdtidy"):
            s, ctx = who, e[6]
            tick(t)
            D = e[5]
            for j in D:      # handlers that finished without a job-level line
                if j in info and info[j]["kind"] == "job" and j not in hended:
                    hended.add(j)
                    B.append(("HA_%d" if ids[j] in hcancelled else "HE_%d") % ids[j])
            if e[4] == "sd" and sorted(D) != sorted(entered.get((s, ctx), [])):
                lines = step_lines(i + 1, s, ctx)
                _, _, _, HC = reaction(lines, s)
                for x in HC:
                    hcancelled.add(x)
                B.append("ST_%d~HC=%s" % (ids[s], enc(HC)))
                if ctx == "run":
                    phase[s] = "shutTidy"
                else:
                    relay[s] = "tidy"
        elif kind == "wcancel" and e[5] == "relay":
            s = who
            tick(t)
            lines = step_lines(i + 1, s, "relay")
            _, _, _, HC = reaction(lines, s)
            for x in HC:
                hcancelled.add(x)
            B.append("HX_%d~HC=%s" % (ids[s], enc(HC)))
            relay[s] = "tidy"
        elif kind in ("sdret", "sdexc") and e[5] == "relay":
            s = who
            tick(t)
            if relay.get(s) == "wait":
                B.append("SW_%d_0~V=%s" % (ids[s], "t" if e[4] else "f"))
            elif relay.get(s) == "tidy":
                B.append("SY_%d_0" % ids[s] + ("~V=f" if kind == "sdret" else ""))
            relay[s] = "done"
        elif kind == "sde":
            tick(t)
            hended.add(who)
            B.append("HE_%d" % ids[who])
        elif kind == "sdc":
            tick(t)
            hended.add(who)
            B.append("HA_%d" % ids[who])
    diag = []
    for name, (ft, fc, why) in (res.get("diag") or {}).items():
        if name in ids:
            diag.append("%d:%d:%d:%s" % (ids[name], 1 if ft is not False else 0, 1 if fc else 0, why_token(why)))
    return ids, order, A, B, ",".join(diag) or "-"


# the layer-A model each property's theorems are proved on (lean/AJ/Model/Lax.lean, Proofs/LaxA.lean):
#   laxall  = no window limit, no urgency guard on the clock   (C01, C02 at-most-once, C14)
#   laxtime = window limit enforced, no urgency guard          (C07)
#   strict  = everything                                        (C12, and layer A of the layer-B properties)
A_MODE = {"C01": "laxall", "C02": "laxall", "C14": "laxall", "C07": "laxtime"}


def flat_ties(traces, res, drv):
    """C10 (d): the requirement relation of the flattened twin that `dyn_gen.flatten_variant` built and ran is the one
    the theorem `flatten_same_times` speaks about: `AJ.Flat.flatReq` of the nested configuration, computed by the
    driver (component `flatreq`)"""
    pairs = [(traces[i][0], traces[i + 1][0]) for i in range(len(traces) - 1) if traces[i + 1][0].get("twin_of_prev")]
    lines, keep = [], []
    for sc, flat in pairs:
        ids, order = assign_ids(sc)
        lines.append("flatreq %s" % cfg_tokens(sc, ids, order))
        keep.append((sc, flat, ids))
    if not lines:
        return
    for (sc, flat, ids), out in zip(keep, drv.ask(lines)):
        res.count("flatreq")
        name = {v: k for k, v in ids.items()}
        mine = {k["name"]: sorted(set(k["req"])) for k in flat["tree"]["children"]}
        if not out.startswith("ok"):
            res.mismatches.append(("flatreq", {"kind": "scenario", "scenario": sc}, "flattened by the harness: %s" % mine, out[:300]))
            continue
        model = {}
        for item in out[3:].split(";"):
            if item:
                j, _, rs = item.partition(":")
                model[name[int(j)]] = sorted(name[int(r)] for r in rs.split(",") if r)
        if model != mine:
            res.mismatches.append(("flatreq", {"kind": "scenario", "scenario": sc}, "harness twin %s" % mine, "model flatReq %s" % model))


def timing_ties(traces, res, drv):
    """C10 (d): the instants that `AJ.Flat.timingOf` reads off the layer-B history of a run (the functions in which
    `flatten_same_times` is stated) are the instants at which the implementation began / ended each job and each run
    (component `timing`); also counts the twin pairs both of whose histories meet the theorem's hypotheses
    (`plainCheck`)"""
    import dyn_mon
    lines, keep = [], []
    for sc, r, trace in traces:
        if sc.get("busy") or sc.get("rerun") or "hang" in r:
            continue
        try:
            ids, order, A, B, diag = translate(sc, r, trace)
        except Exception:          # noqa
            continue
        lines.append("timing %s ev=%s" % (cfg_tokens(sc, ids, order), ";".join(B)))
        keep.append((sc, r, trace, ids))
    if not lines:
        return
    plain_prev = None
    for (sc, r, trace, ids), out in zip(keep, drv.ask(lines)):
        res.count("timing")
        if not out.startswith("ok "):
            res.mismatches.append(("timing", {"kind": "scenario", "scenario": sc}, "-", out[:300]))
            plain_prev = None
            continue
        f = dict(x.split("=", 1) for x in out[3:].split(" "))
        tab = {k: {int(a): int(b) for a, b in (y.split(":") for y in f[k].split(",") if y)} for k in ("B", "E")}
        v = dyn_mon.View(sc, r, trace)
        bad = []
        if f["acc"] == "1":
            for name, j in ids.items():
                if name in v.began and tab["B"].get(j) != v.began[name][1]:
                    bad.append("begin of %s: implementation t=%d, model %s" % (name, v.began[name][1], tab["B"].get(j)))
                if name in v.began and name in v.stop and tab["E"].get(j) != v.stop[name][1]:
                    bad.append("end of %s: implementation t=%d, model %s" % (name, v.stop[name][1], tab["E"].get(j)))
        if bad:
            res.mismatches.append(("timing", {"kind": "scenario", "scenario": sc}, "; ".join(bad[:4]), out[:300]))
        if f["plain"] == "1":
            res.dist["plain_runs"] = res.dist.get("plain_runs", 0) + 1
            if sc.get("twin_of_prev") and plain_prev:
                res.dist["plain_twin_pairs"] = res.dist.get("plain_twin_pairs", 0) + 1
        plain_prev = f["plain"] == "1" and not sc.get("twin_of_prev")


def replay_all(pid, traces, res, drv):
    """traces: list of (scenario, result, trace). Adds the correspondence differences that matter for `pid`
    to res.mismatches; the others are counted in res.dist["irrelevant_differences"]."""
    layers, relevant = RELEVANT[pid]
    lines, cases = [], []
    for sc, r, trace in traces:
        if sc.get("busy"):
            # time passing while the loop is busy (the model's clock only
            # advances in quiet states: assumption A2) is not an event of the model: judged by the oracles only
            # (a verbose message that the standard output cannot encode - an exception out of the orchestration itself -
            # is one: `orchFail`; so is a top-level run cancelled from outside: `extCancel`)
            res.dist["not_replayed"] = res.dist.get("not_replayed", 0) + 1
            continue
        try:
            ids, order, A, B, diag = translate(sc, r, trace)
        except Exception:          # noqa
            import traceback
            res.mismatches.append(("harness:translate", {"scenario": sc}, "-", traceback.format_exc()[-600:]))
            continue
        cfg = cfg_tokens(sc, ids, order)
        for layer, evl in (("A", A), ("B", B if "B" in layers and not sc.get("rerun") else [])):
            km = res.dist.setdefault("model_events_layer" + layer, {})
            for tok in evl:
                k = re.split(r"[_~]", tok, 1)[0]
                km[k] = km.get(k, 0) + 1
        lines.append("replayA %s mode=%s ev=%s" % (cfg, A_MODE.get(pid, "strict"), ";".join(A)))
        cases.append((sc, "A", len(A)))
        if "B" in layers and not sc.get("rerun"):
            # (a second run of the same object does not shut its jobs down again: `_did_shutdown` is for life)
            fin, stats = final_tokens(r, ids) if "hang" not in r else ("-", "-")
            lines.append("replayB %s diag=%s fin=%s stats=%s ev=%s" % (cfg, diag, fin, stats, ";".join(B)))
            cases.append((sc, "B", len(B)))
    outs = drv.ask(lines)
    nev = {"A": 0, "B": 0}
    other = {}
    for (sc, layer, n), out, line in zip(cases, outs, lines):
        res.count("replay" + layer)
        nev[layer] += n
        if out.startswith("ok"):
            if " cov=" in out:
                km = res.dist.setdefault("model_branches_layerB", {})
                for lab in out.split(" cov=", 1)[1].split(","):
                    if lab:
                        km[lab] = km.get(lab, 0) + 1
            continue
        if not out.startswith("diff"):
            res.mismatches.append(("bad@" + layer, {"kind": "scenario", "scenario": sc, "request": line[:4000]}, "accepted", out[:1500]))
            continue
        for d in out.split(" | ")[1:]:
            parts = d.split(" ", 2)
            comp = parts[1] if len(parts) > 1 else "bad"
            if comp in ALWAYS or comp in relevant:
                res.mismatches.append((comp + "@" + layer, {"kind": "scenario", "scenario": sc, "request": line[:4000]},
                                       "accepted", d[:1500]))
            else:
                other[comp] = other.get(comp, 0) + 1
    res.dist["events_replayed"] = {"layerA": nev["A"], "layerB": nev["B"]}
    res.dist["irrelevant_differences"] = other
