"""
Replay of real traces through the executable Lean model: translation of a trace of dyn_rt.run into
model events (+ the reactions observed on the implementation), one request line per trace.

Layer A (AJ/Model/Run.lean): starting of jobs, window slots, nesting.
Layer B (AJ/Model/Full.lean): exits, cancellation, verdicts, shutdown.
"""
from dyn_gen import index

BEHAV_A = ["env:A1", "env:guard", "impl:start"]


def assign_ids(sc):
    """top = 0, a parent before its children, a requirement before its dependants (the model's WF)"""
    ids = {}
    order = []

    def visit(node):
        ids[node["name"]] = len(order)
        order.append(node)
        kids = list(node.get("children", []))
        names = {k["name"] for k in kids}
        placed = []
        remaining = kids[:]
        while remaining:
            progressed = False
            for k in remaining:
                if all((r not in names) or (r in placed) for r in k.get("req", [])):
                    placed.append(k["name"])
                    remaining.remove(k)
                    visit(k)
                    progressed = True
                    break
            if not progressed:          # cyclic (malformed stream): any order
                k = remaining.pop(0)
                placed.append(k["name"])
                visit(k)
    visit(sc["tree"])
    return ids, order


def enc(l):
    return ",".join(str(x) for x in sorted(l)) if l else "-"


def cfg_tokens(sc, ids, order):
    info = index(sc)
    n = len(order)
    P = [0] * n
    S, C, F, W, T, X, R = [], [], [], [], [], [], []
    for node in order:
        j = ids[node["name"]]
        par = info[node["name"]]["parent"]
        P[j] = ids[par] if par is not None else 0
        if node["kind"] == "sched":
            S.append(j)
            if node.get("w"):
                W.append("%d:%d" % (j, node["w"]))
            if node.get("T") is not None:
                T.append("%d:%d" % (j, node["T"]))
            if node.get("sdT") is not None:
                X.append("%d:%d" % (j, node["sdT"]))
        if node["crit"]:
            C.append(j)
        if node["forever"]:
            F.append(j)
        if node.get("req"):
            R.append("%d:%s" % (j, ",".join(str(ids[r]) for r in node["req"])))
    return "n=%d P=%s S=%s R=%s C=%s F=%s W=%s T=%s X=%s pure=%d" % (
        n, ",".join(map(str, P)), enc(S), "|".join(R) or "-", enc(C), enc(F),
        ",".join(W) or "-", ",".join(T) or "-", ",".join(X) or "-", 1 if sc["tree"].get("pure") else 0)


def res_token(ids, line):
    kind = line[2]
    if kind == "rcancel":
        return "c"
    if kind == "rret":
        return "t" if line[4] is True else "f"
    x = line[4]
    if x.startswith("job:"):
        return "xj%d" % ids[x[4:]]
    if x.startswith("timeout:"):
        return "xt%d" % ids.get(x[8:], 9999)
    return "x?"


def translate_A(sc, trace):
    """list of event strings for replayA"""
    ids, order = assign_ids(sc)
    info = index(sc)
    log = [e for e in trace if e[2] != "snap"]
    evs = []
    now = 0
    ended = set()          # jobs whose end the model has been told about

    def tick(t):
        nonlocal now
        if t > now:
            evs.append("T_%d" % (t - now))
            now = t

    def following(i, s, kinds_stop):
        """lines after position i up to the next suspension / end of scheduler s"""
        out = []
        for e in log[i + 1:]:
            if e[2] in ("wenter", "rret", "rraise", "rcancel") and e[3] == s:
                out.append(e)
                break
            out.append(e)
        return out

    i = 0
    n = len(log)
    while i < n:
        e = log[i]
        t, kind, who = e[0], e[2], e[3]
        if kind == "topend":
            break
        if kind == "rbegin" and info[who]["parent"] is None:
            tick(t)
            fol = following(i, who, None)
            started = [ids[x[3]] for x in fol if x[2] == "create" and info[x[3]]["parent"] == who]
            evs.append("B_%s" % enc(started))
        elif kind == "take":
            j = e[4]
            tick(t)
            if info[j]["kind"] == "sched":
                fol = following(i, j, None)
                started = [ids[x[3]] for x in fol if x[2] == "create" and info[x[3]]["parent"] == j]
            else:
                started = []
            evs.append("G_%d_%s" % (ids[j], enc(started)))
        elif kind in ("end", "raise"):
            tick(t)
            ended.add(who)
            evs.append("E_%d_%d" % (ids[who], 1 if kind == "end" else 0))
        elif kind == "cdone":
            tick(t)
            ended.add(who)
            evs.append("A_%d" % ids[who])
        elif kind in ("rret", "rraise", "rcancel"):
            tick(t)
            ended.add(who)
            if info[who]["children"]:      # an empty scheduler is over as soon as it begins (same model step)
                evs.append("F_%d_%s" % (ids[who], res_token(ids, e)))
        elif kind == "wret" and e[4] in ("main", "tidy"):
            s = who
            tick(t)
            D = e[5]
            # tasks that finished without any job-level line: cancelled while queued / before their first step
            for j in D:
                if j not in ended and j in info:
                    ended.add(j)
                    evs.append("A_%d" % ids[j])
            if e[4] == "main":
                fol = following(i, s, None)
                K = [ids[x[3]] for x in fol if x[2] == "cancel" and info.get(x[3], {}).get("parent") == s]
                started = [ids[x[3]] for x in fol if x[2] == "create" and info[x[3]]["parent"] == s]
                last = fol[-1] if fol else None
                leave = not (last is not None and last[2] == "wenter" and last[3] == s and last[4] == "main")
                if D:
                    evs.append("W_%d_%d_%s_%s_%s" % (ids[s], 1 if leave else 0, enc(K), enc(ids[x] for x in D), enc(started)))
                else:
                    evs.append("L_%d_%s" % (ids[s], enc(K)))
        elif kind == "wcancel" and e[4] == "main":
            s = who
            tick(t)
            fol = following(i, s, None)
            K = [ids[x[3]] for x in fol if x[2] == "cancel" and info.get(x[3], {}).get("parent") == s]
            evs.append("L_%d_%s" % (ids[s], enc(K)))
        i += 1
    return ids, order, evs


def replay_all(pid, traces, res, drv):
    """traces: list of (scenario, result, trace). Adds correspondence mismatches to `res`."""
    lines, cases = [], []
    for sc, r, trace in traces:
        try:
            ids, order, evs = translate_A(sc, trace)
        except Exception as ex:          # noqa
            import traceback
            res.mismatches.append(("harness:translate", {"scenario": sc}, "-", traceback.format_exc()[-400:]))
            continue
        lines.append("replayA %s ev=%s" % (cfg_tokens(sc, ids, order), ";".join(evs)))
        cases.append((sc, len(evs)))
    outs = drv.ask(lines)
    nev = 0
    for (sc, n), out, line in zip(cases, outs, lines):
        res.count("replayA")
        nev += n
        if out.startswith("ok"):
            continue
        parts = out.split(" ", 3)
        comp = parts[2] if len(parts) > 2 else "bad"
        res.mismatches.append((comp, {"kind": "scenario", "scenario": sc, "request": line[:3000]}, "accepted", out))
    res.dist["events_replayed_layerA"] = {"total": nev}
