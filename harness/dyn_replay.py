"""
Replay of real traces through the executable Lean model (correspondence of the dynamic model) and
evaluation of the Lean trace monitors on them.  (Filled in together with lean/AJ/Model/Run.lean.)
"""


def replay_all(pid, traces, res, drv):
    return
