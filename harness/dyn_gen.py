"""
Scenario generators for the dynamic properties (C01-C14).
All random choices come from the `rng` handed in (seeded by VERIF_SEED).
"""
import copy, itertools


def walk(node, parent=None):
    yield node, parent
    for c in node.get("children", []):
        yield from walk(c, node)


def index(sc):
    info = {}
    for n, p in walk(sc["tree"]):
        info[n["name"]] = dict(n, parent=p["name"] if p else None)
    return info


def gen_job(rng, name, never_ok=True, p_forever=0.2, p_exc=0.3, durations=(0, 1, 1, 2, 3)):
    forever = rng.random() < p_forever
    never = never_ok and forever and rng.random() < 0.6
    return dict(kind="job", name=name, d=None if never else rng.choice(durations), k=rng.choice([0, 0, 0, 1, 2, 3]),
                exc=(not never) and rng.random() < p_exc, crit=rng.random() < 0.5, forever=forever,
                ch=rng.choice([0, 0, 0, 2, 3]), sd=rng.choice([0, 0, 0, 1, 3]), h=0, coro=rng.random() < 0.3, req=[],
                peek=rng.choice(["exit_jobs", "list", "dot", "debrief"]) if rng.random() < 0.06 else None,
                cls="print" if rng.random() < 0.1 else None)     # the library's PrintJob when the rest allows it


def contains_never(node):
    """the node is, or contains, a job that never ends by itself (a nested scheduler without timeout that holds one)"""
    if node["kind"] == "job":
        return node["d"] is None
    if node.get("T") is not None:
        return False
    return any(contains_never(c) and not c["forever"] for c in node["children"]) or \
        (bool(node["children"]) and all(c["forever"] for c in node["children"]) and any(contains_never(c) for c in node["children"]))


def may_never_end(node):
    """conservative: the node may run for ever if left alone"""
    if node["kind"] == "job":
        return node["d"] is None
    if node.get("T") is not None:
        return False
    kids = node["children"]
    if not kids:
        return False
    finite = [c for c in kids if not c["forever"]]
    if not finite:
        # ends at the first completion of one of its forever jobs: never if none ever completes
        return all(may_never_end(c) for c in kids)
    return any(may_never_end(c) for c in finite)


def gen_tree(rng, depth=2, max_kids=4, p_sched=0.3, p_edge=0.4, admissible=True, **jobkw):
    """random scenario tree. `admissible`: satisfies the hypotheses of C03 (so the run must terminate)"""
    cnt = [0]

    def name(p):
        cnt[0] += 1
        return "%s%d" % (p, cnt[0])

    def sched(level, top=False):
        nk = rng.randint(1 if top else 0, max_kids)
        kids = []
        for _ in range(nk):
            if level < depth and rng.random() < p_sched:
                kids.append(sched(level + 1))
            else:
                kids.append(gen_job(rng, name("j"), **jobkw))
        for i, k in enumerate(kids):
            k["req"] = [kids[r]["name"] for r in range(i) if rng.random() < p_edge]
        hs = list(range(len(kids)))
        rng.shuffle(hs)
        for k, h in zip(kids, hs):
            k["h"] = h
        T = rng.choice([None, None, None, 0, 1, 2, 3, 5])
        s = dict(kind="sched", name=name("s"), children=kids, w=None, T=T, sdT=rng.choice([None, 1, 1, 2, 3]),
                 crit=rng.random() < 0.5, forever=(not top) and rng.random() < 0.1, h=0, req=[],
                 verbose=rng.random() < 0.1)
        if top:
            s["pure"] = rng.random() < 0.3
        if admissible:
            # each scheduler without a timeout owns a non-forever job
            if T is None and kids and all(k["forever"] for k in kids):
                kids[0]["forever"] = False
                if kids[0]["kind"] == "job" and kids[0]["d"] is None:
                    kids[0]["d"] = 1
            # no non-forever job is, or depends on, a job that never ends
            for k in kids:
                if may_never_end(k):
                    if not k["forever"]:
                        if k["kind"] == "job":
                            k["d"] = 1
                        else:
                            k["T"] = 3
            never = {k["name"] for k in kids if may_never_end(k)}
            changed = True
            while changed:                       # transitive: requiring something that never ends
                changed = False
                for k in kids:
                    if k["name"] not in never and any(r in never for r in k["req"]):
                        if k["forever"]:
                            never.add(k["name"])
                            changed = True
                        else:
                            k["req"] = [r for r in k["req"] if r not in never]
            nnever = sum(1 for k in kids if may_never_end(k))
            w = rng.choice([None, None, 0, 1, 1, 2, 3])
            if w:
                w = max(w, nnever + 1)
            s["w"] = w
        else:
            s["w"] = rng.choice([None, None, 0, 1, 1, 2, 3])
        return s
    return dict(tree=sched(0, top=True))


def shape_key(sc):
    """distinctness key: tree shape + flags + behaviour classes"""
    def k(n):
        if n["kind"] == "job":
            return ("j", n["d"], n["k"], n["exc"], n["crit"], n["forever"], n["ch"], n["sd"], len(n["req"]))
        return ("s", n["w"], n["T"], n["sdT"], n["crit"], n["forever"], n.get("pure"), len(n["req"]), tuple(k(c) for c in n["children"]))
    return repr(k(sc["tree"]))


def flip_variants(sc, rng, max_subsets=6):
    """C06: the same scenario with non-critical returning jobs switched to raising"""
    info = index(sc)
    cands = [n for n, i in info.items() if i["kind"] == "job" and not i["crit"] and i["d"] is not None]
    subsets = [[c] for c in cands]
    for _ in range(3):
        if len(cands) >= 2:
            subsets.append(rng.sample(cands, rng.randint(2, min(3, len(cands)))))
    rng.shuffle(subsets)
    out = []
    for sub in subsets[:max_subsets]:
        a, b = copy.deepcopy(sc), copy.deepcopy(sc)
        for n, _ in walk(a["tree"]):
            if n["name"] in sub:
                n["exc"] = False
                n["cls"] = None         # the same job class in both runs (a PrintJob cannot raise)
        for n, _ in walk(b["tree"]):
            if n["name"] in sub:
                n["exc"] = True
                n["cls"] = None
        out.append((sub, a, b))
    return out


def add_late(sc, rng):
    """the same scenario, but built in two stages separated by inspection calls: some requirement edges are added only
    after the inspection (`late.edges`), some others exist during the inspection and are removed before the run
    (`late.removed`); `sc["tree"]` stays the final graph"""
    sc = copy.deepcopy(sc)
    edges, removed = [], []
    for n, _ in walk(sc["tree"]):
        kids = n.get("children") or []
        for k in kids:
            for r in k.get("req", []):
                if rng.random() < 0.6:
                    edges.append([k["name"], r])
        # pairs that are NOT requirements of the final graph, present only while the graph is inspected
        names = [k["name"] for k in kids]
        for i, k in enumerate(kids):
            for r in names[:i]:
                if r not in k.get("req", []) and rng.random() < 0.15:
                    removed.append([k["name"], r])
    # jobs that are members while the graph is inspected, spliced into a requirement edge (c requires r requires a where
    # the final graph has c requires a), and taken out again with bypass_and_remove() before the run - no sanitize()
    dropped = []
    for n, _ in walk(sc["tree"]):
        if n["kind"] != "sched":
            continue
        for k in n.get("children") or []:
            for r in k.get("req", []):
                if [k["name"], r] not in edges and rng.random() < 0.2 and len(dropped) < 2:
                    dropped.append(dict(name="gone%d" % len(dropped), sched=n["name"], after=r, before=k["name"],
                                        how=rng.choice(["bypass", "bypass", "remove"])))
    if not edges and not removed and not dropped:
        return None
    ops = ["exit_jobs", "list", "dot", "check", "succ", "pred"]
    sc["late"] = dict(edges=edges, removed=removed, dropped=dropped, inspect=rng.sample(ops, rng.randint(1, 3)))
    return sc


def add_between(sc, rng):
    """a `rerun` scenario in which the user edits the objects between the two runs: `sc["tree"]` is what the second
    (judged) run sees; `between` says how the first run differed (attribute values, jobs not yet added, edges not yet
    there, edges still there) and what is called in between"""
    sc = copy.deepcopy(sc)
    attrs, edges, removed, added = {}, [], [], []
    for n, par in walk(sc["tree"]):
        if n["kind"] == "sched":
            f = {}
            if rng.random() < 0.3:
                f["T"] = rng.choice([None, 1, 2, 5])
            if rng.random() < 0.3:
                f["w"] = rng.choice([None, 1, 2, 3])
            if par is not None and not n.get("pure") and rng.random() < 0.15:
                f["crit"] = not n["crit"]
            if f:
                attrs[n["name"]] = f
            kids = n.get("children") or []
            names = [k["name"] for k in kids]
            # (now and then the scheduler is still empty during the first run: all its jobs join afterwards)
            all_later = rng.random() < 0.12 and all(k["kind"] == "job" for k in kids)
            for i, k in enumerate(kids):
                for r in k.get("req", []):
                    if rng.random() < 0.3:
                        edges.append([k["name"], r])
                for r in names[:i]:
                    if r not in k.get("req", []) and rng.random() < 0.1:
                        removed.append([k["name"], r])
                if k["kind"] == "job" and (all_later or rng.random() < 0.12):
                    added.append(k["name"])
        else:
            f = {}
            if rng.random() < 0.1:
                f["crit"] = not n["crit"]
            if n.get("d") is not None and rng.random() < 0.1:
                f["forever"] = not n["forever"]
            if f:
                attrs[n["name"]] = f
    nested = [n["name"] for n, par in walk(sc["tree"]) if n["kind"] == "sched" and par is not None and n.get("children")]
    first_root = rng.choice(nested) if nested and rng.random() < 0.3 else None
    sc["rerun"] = True
    sc["between"] = dict(attrs=attrs, edges=edges, removed=removed, added_jobs=added, first_root=first_root,
                         inspect=rng.sample(["exit_jobs", "list", "dot", "check", "debrief"], rng.randint(0, 2)),
                         shutdown=rng.random() < 0.2)
    return sc


def first_run_tree(sc):
    """the tree as the FIRST run of a `rerun` scenario with `between` sees it"""
    b = sc.get("between") or {}
    tree = copy.deepcopy(sc["tree"])
    later = set(b.get("added_jobs", []))
    late_edges = {tuple(e) for e in b.get("edges", [])}
    for n, _ in walk(tree):
        for f, v in b.get("attrs", {}).get(n["name"], {}).items():
            n[f] = v
        if n.get("children") is not None:
            n["children"] = [c for c in n["children"] if c["name"] not in later]
        n["req"] = [r for r in n.get("req", []) if (n["name"], r) not in late_edges and r not in later]
    for a, r in b.get("removed", []):
        for n, _ in walk(tree):
            if n["name"] == a and r not in n["req"] and r not in later:
                n["req"] = n["req"] + [r]
    root = b.get("first_root")
    if root:
        for n, _ in walk(tree):
            if n["name"] == root:
                return n
    return tree


def flatten_variant(sc):
    """C10: (nested tree, flattened twin) for critical nested schedulers without window, timeout, forever jobs,
    zero-time shutdown handlers; returns None when the scenario is outside that class"""
    top = copy.deepcopy(sc["tree"])
    ok = [True]

    def flat_children(node):
        """children of `node` with every nested scheduler replaced by its own (flattened) jobs"""
        out = []
        for c in node["children"]:
            if c["kind"] == "job":
                out.append(c)
                continue
            if (not c["crit"]) or c.get("w") or c.get("T") is not None or c["forever"] or not c["children"]:
                ok[0] = False
                return []
            inner = flat_children(c)
            if not ok[0]:
                return []
            names = {x["name"] for x in inner}
            entries = [x for x in inner if not any(r in names for r in x["req"])]
            required_inside = {r for x in inner for r in x["req"]}
            exits = [x["name"] for x in inner if x["name"] not in required_inside]
            for e in entries:
                e["req"] = list(e["req"]) + list(c["req"])
            # whoever required the nested scheduler now requires all its exit jobs
            for other in node["children"]:
                if c["name"] in other.get("req", []):
                    other["req"] = [r for r in other["req"] if r != c["name"]] + exits
            for o in out:
                if c["name"] in o.get("req", []):
                    o["req"] = [r for r in o["req"] if r != c["name"]] + exits
            out += inner
        return out
    # only one level of rewriting at a time is needed: recursion handles depth
    for n, _ in walk(top):
        if n["kind"] == "job":
            # handlers must take no time: a nested scheduler ends (and passes a failure on) only after its own
            # cancellations are acknowledged and its shutdown phase is over — the documented design, not a defect
            if n["forever"] or n["sd"] or n["ch"] or n["d"] is None:
                return None
    kids = flat_children(top)
    if not ok[0]:
        return None
    # requirements on nested schedulers from later siblings were rewritten in place above
    flat = dict(top, children=kids)
    hs = list(range(len(kids)))
    for k, h in zip(kids, hs):
        k["h"] = h
    if top.get("w") or top.get("T") is not None:
        return None
    return dict(tree=flat)


# ------------------------------------------------------------------ targeted families

def J(name, d=1, **kw):
    base = dict(kind="job", name=name, d=d, k=0, exc=False, crit=False, forever=False, ch=0, sd=0, h=0, coro=False, req=[])
    base.update(kw)
    return base


def S(name, children, **kw):
    base = dict(kind="sched", name=name, children=children, w=None, T=None, sdT=1, crit=False, forever=False, h=0,
                req=[], verbose=False)
    base.update(kw)
    # ranks (hashes) of the jobs of one scheduler must be distinct, or set iteration order would depend on
    # insertion order, i.e. on the address order of asyncio's task sets: not reproducible
    if len({c.get("h", 0) for c in children}) < len(children):
        for i, c in enumerate(children):
            c["h"] = i
    return base


def corpus():
    """minimal scenarios that once failed (defects D1, D2, D3, D7, D8 of DESIGN.md section 7), run first"""
    out = []
    # D1: slot not released when the body raises
    out.append(("D1", dict(tree=S("top", [J("a", 1, exc=True), J("b", 1, req=["a"]), J("c", 1)], w=1))))
    # D2: nested scheduler cancelled in its main wait abandons its jobs
    out.append(("D2", dict(tree=S("top", [S("in", [J("x", 5)], crit=True)], T=1))))
    # D3: parent's shutdown_timeout cancels a relay
    out.append(("D3", dict(tree=S("top", [J("x", 1, exc=True, crit=True, h=0), S("N", [J("n", 1, sd=3)], sdT=5, h=1),
                                         J("y", 1, h=2)], w=1, sdT=1, pure=True))))
    # D3b: nested run cancelled while it tidies (cancellation handler takes time)
    out.append(("D3b", dict(tree=S("top", [S("in", [J("x", 5, ch=3), J("c", 1, exc=True, crit=True)], crit=False), J("t", 2, exc=True, crit=True)]))))
    # D3c: nested run cancelled while it shuts down
    out.append(("D3c", dict(tree=S("top", [S("in", [J("x", 1, sd=3)], sdT=5), J("t", 2, exc=True, crit=True)]))))
    # D10: a job started twice: a non-critical job raises (the reaction then yields to the loop), a sibling
    # finishes a few iterations later in the same instant, the common successor waits for a window slot
    out.append(("D10", dict(tree=S("top", [J("A", 1, exc=True, h=0), J("B", 1, k=2, h=1), J("X1", 5, h=2), J("X2", 5, h=3),
                                          J("K", 1, req=["A", "B"], h=4)], w=2))))
    # D13: (python <= 3.11) a non-critical job raises, the reaction yields to the loop, a critical job raises meanwhile:
    # the delayed reaction sees the last regular job done and reports success
    out.append(("D13", dict(tree=S("top", [J("j1", 1, exc=True, h=0), J("c", 1, k=2, exc=True, crit=True, forever=True, h=1)]))))
    out.append(("D13b", dict(tree=S("top", [J("j1", 1, exc=True, h=0), J("c", 1, k=3, exc=True, crit=True, forever=True, h=1)]))))
    # D7: timeout=0
    out.append(("D7", dict(tree=S("top", [J("a", 1)], T=0, crit=True))))
    out.append(("D7b", dict(tree=S("top", [S("in", [J("a", 1)], T=0, crit=True)], crit=False))))
    # D8: idle job inspected
    out.append(("D8", dict(tree=S("top", [J("a", 1, exc=True, crit=True), J("b", 1, req=["a"])]))))
    return out


def targeted(pid, rng, n):
    """property-specific families on top of the random stream"""
    out = []
    for i in range(n):
        r = rng.random()
        if pid in ("C02", "C04", "C05", "C06", "C09", "C10") and i % 4 == 0:
            # several jobs of one scheduler finishing in the very same instant (one `done` batch): raising and
            # returning, critical and not, forever and not, next to a long job and a successor
            nb = rng.randint(2, 6)
            t0 = rng.choice([0, 1, 1, 2])
            jobs = [J("b%d" % k, t0, exc=rng.random() < 0.6, crit=rng.random() < 0.4, forever=rng.random() < 0.15,
                      k=rng.choice([0, 0, 0, 1])) for k in range(nb)]
            jobs.append(J("long", t0 + rng.choice([1, 2, 4]), crit=rng.random() < 0.5, ch=rng.choice([0, 2])))
            jobs.append(J("succ", 1, req=[rng.choice(jobs)["name"] for _ in range(rng.randint(1, 2))]))
            jobs[-1]["req"] = sorted(set(jobs[-1]["req"]))
            if all(j["forever"] for j in jobs):
                jobs[0]["forever"] = False
            hs = list(range(len(jobs)))
            rng.shuffle(hs)
            for jb, h in zip(jobs, hs):
                jb["h"] = h
            tree = S("grp", jobs, crit=rng.random() < 0.6, T=rng.choice([None, None, t0, t0 + 1]), w=rng.choice([None, None, 3]))
            if rng.random() < 0.5:
                tree = S("top", [tree, J("side", rng.choice([1, 3]))], crit=rng.random() < 0.5, pure=rng.random() < 0.3)
            else:
                tree["pure"] = rng.random() < 0.3
            out.append(dict(tree=tree))
            continue
        if pid in ("C05", "C09", "C08", "C04", "C11", "C13") and r < 0.5:
            # a parent that ends (timeout / critical sibling / last regular job) at every phase of a nested run
            inner_jobs = [J("x%d" % k, rng.choice([1, 2, 3, None]), ch=rng.choice([0, 2, 3]), sd=rng.choice([0, 2, 3]),
                            exc=rng.random() < 0.2, crit=rng.random() < 0.5) for k in range(rng.randint(1, 3))]
            for jb in inner_jobs:
                if jb["d"] is None:
                    jb["forever"] = True
                    jb["exc"] = False
            if all(j["forever"] for j in inner_jobs):
                inner_jobs[0].update(forever=False, d=rng.choice([2, 4]))
            inner = S("in", inner_jobs, T=rng.choice([None, None, 2, 4]), sdT=rng.choice([None, 1, 2, 5]),
                      crit=rng.random() < 0.5, forever=rng.random() < 0.3, w=rng.choice([None, 1, 2]))
            kind = rng.choice(["timeout", "critical", "forever"])
            kids = [inner]
            topkw = dict(sdT=rng.choice([None, 1, 2, 4]), crit=rng.random() < 0.5, pure=rng.random() < 0.3,
                         w=rng.choice([None, None, 1, 2]))
            if kind == "timeout":
                topkw["T"] = rng.choice([0, 1, 2, 3, 4, 5])
            elif kind == "critical":
                kids.append(J("boom", rng.choice([0, 1, 2, 3, 4]), exc=True, crit=True, k=rng.choice([0, 1, 2])))
            else:
                inner["forever"] = True
                kids.append(J("last", rng.choice([1, 2, 3, 4]), k=rng.choice([0, 1])))
            if rng.random() < 0.4:
                kids.append(J("pre", rng.choice([0, 1, 2])))
                inner["req"] = ["pre"]
            rng.shuffle(kids)
            for h, k in enumerate(kids):
                k["h"] = h
            if topkw.get("w"):
                topkw["w"] = max(topkw["w"], 1 + sum(1 for k in kids if may_never_end(k)))
            tree = S("top", kids, **topkw)
            if rng.random() < 0.3:
                # one more level
                tree = S("outer", [tree, J("ob", rng.choice([1, 2, 3, 6]), exc=rng.random() < 0.5, crit=True)],
                         T=rng.choice([None, 2, 3]), sdT=rng.choice([1, 2]), pure=rng.random() < 0.3)
                tree["children"][0].pop("pure", None)
                tree["children"][0]["name"] = "mid"
            out.append(dict(tree=tree))
        elif pid in ("C03", "C08") and i % 3 == 1:
            # schedulers with a timeout whose jobs never end (or end after it), regular or forever, the timeout 0,
            # reached exactly when a job completes, or while the scheduler is busy reacting
            nb = rng.randint(1, 4)
            jobs = []
            for k in range(nb):
                never = rng.random() < 0.5
                jobs.append(J("n%d" % k, None if never else rng.choice([0, 1, 2, 3]), forever=rng.random() < 0.4,
                              k=rng.choice([0, 0, 1, 2]), ch=rng.choice([0, 0, 2]), exc=(not never) and rng.random() < 0.2))
            for a in range(1, nb):
                if rng.random() < 0.3 and jobs[a - 1]["d"] is not None:
                    jobs[a]["req"] = [jobs[a - 1]["name"]]
            hs = list(range(nb))
            rng.shuffle(hs)
            for jb, h in zip(jobs, hs):
                jb["h"] = h
            T = rng.choice([0, 0, 1, 2, 3])
            inner = S("tmo", jobs, T=T, crit=rng.random() < 0.5, w=rng.choice([None, None, 1, 2]), sdT=rng.choice([1, 2, None]))
            if rng.random() < 0.5:
                inner["pure"] = rng.random() < 0.3
                out.append(dict(tree=inner))
            else:
                out.append(dict(tree=S("top", [inner, J("side", rng.choice([1, 2, 4]))], T=rng.choice([None, 5]),
                                       crit=rng.random() < 0.5, pure=rng.random() < 0.3)))
        elif pid in ("C03", "C06", "C07", "C12") and r < 0.5:
            # windows smaller than the ready set, raising jobs holding slots
            n_jobs = rng.randint(3, 7)
            jobs = [J("j%d" % k, rng.choice([0, 1, 1, 2, 3]), exc=rng.random() < 0.4, crit=False, k=rng.choice([0, 0, 1, 2]))
                    for k in range(n_jobs)]
            for a in range(n_jobs):
                jobs[a]["req"] = ["j%d" % b for b in range(a) if rng.random() < 0.35]
            hs = list(range(n_jobs))
            rng.shuffle(hs)
            for jb, h in zip(jobs, hs):
                jb["h"] = h
            out.append(dict(tree=S("top", jobs, w=rng.choice([1, 1, 2, 3]), pure=rng.random() < 0.3)))
        elif pid in ("C01", "C02", "C12", "C14") and r < 0.5:
            # joins with unequal arms, several completions in one instant / a few iterations apart
            n_jobs = rng.randint(3, 6)
            jobs = [J("j%d" % k, rng.choice([0, 1, 1, 2]), exc=rng.random() < 0.2, crit=False, k=rng.choice([0, 1, 2, 3]),
                      forever=rng.random() < 0.15) for k in range(n_jobs)]
            for a in range(1, n_jobs):
                jobs[a]["req"] = ["j%d" % b for b in range(a) if rng.random() < 0.5]
            hs = list(range(n_jobs))
            rng.shuffle(hs)
            for jb, h in zip(jobs, hs):
                jb["h"] = h
            if all(j["forever"] for j in jobs):
                jobs[0]["forever"] = False
            out.append(dict(tree=S("top", jobs, w=rng.choice([None, None, 1, 2]), pure=rng.random() < 0.3)))
        elif pid == "C10" and i % 3 == 2:
            # twin-friendly trees (C10d): critical nested schedulers without window / timeout / forever jobs, handlers
            # that take no time; the flattened graph must run every job at the same times
            cnt = [0]
            def grp(level):
                nk = rng.randint(1, 3)
                kids = []
                for _ in range(nk):
                    cnt[0] += 1
                    if level < 2 and rng.random() < 0.35:
                        kids.append(grp(level + 1))
                    else:
                        kids.append(J("t%d" % cnt[0], rng.choice([0, 1, 1, 2, 3]), exc=rng.random() < 0.25,
                                      crit=rng.random() < 0.4, k=rng.choice([0, 0, 1])))
                for a in range(1, len(kids)):
                    kids[a]["req"] = [kids[b]["name"] for b in range(a) if rng.random() < 0.4]
                cnt[0] += 1
                return S("g%d" % cnt[0], kids, crit=True)
            top = grp(0)
            top["crit"] = rng.random() < 0.5
            top["pure"] = rng.random() < 0.3
            out.append(dict(tree=top))
        elif pid == "C10" and r < 0.6:
            # chains of nested schedulers with all critical-flag combinations, a failing job at the bottom
            depth = rng.randint(1, 3)
            leaf_fail = rng.random() < 0.7
            node = S("s%d" % depth, [J("a", 1), J("f", rng.choice([1, 2]), exc=leaf_fail, crit=rng.random() < 0.8, req=["a"] if rng.random() < 0.5 else []),
                                     J("z", 3)], crit=rng.random() < 0.6, T=rng.choice([None, None, 2]))
            for lvl in range(depth - 1, 0, -1):
                node = S("s%d" % lvl, [J("p%d" % lvl, 1), node, J("q%d" % lvl, 2, req=[node["name"]])], crit=rng.random() < 0.6)
                node["children"][1]["req"] = ["p%d" % lvl] if rng.random() < 0.5 else []
            tree = S("top", [node, J("after", 1, req=[node["name"]])], crit=rng.random() < 0.5, pure=rng.random() < 0.3)
            out.append(dict(tree=tree))
        else:
            out.append(gen_tree(rng, depth=rng.choice([1, 2, 2, 3])))
    return out


def exhaustive_small(rng, budget=60000):
    """thorough tier: every DAG on <= 3 jobs x durations in {0,1,2} x outcomes (returns / raises non-critical /
    raises critical) x windows {None,1,2}, flat and with the last two jobs inside a nested scheduler (both
    critical flags); sampled down to `budget` when larger"""
    out = []
    outcomes = [(False, False), (True, False), (True, True)]
    for n in (1, 2, 3):
        pairs = [(x, y) for x in range(n) for y in range(x)]
        for bits in range(1 << len(pairs)):
            edges = [p for i, p in enumerate(pairs) if bits >> i & 1]
            for durs in itertools.product((0, 1, 2), repeat=n):
                for outs in itertools.product(outcomes, repeat=n):
                    for w in (None, 1, 2):
                        jobs = [J("j%d" % i, durs[i], exc=outs[i][0], crit=outs[i][1], h=i,
                                  req=["j%d" % y for x, y in edges if x == i]) for i in range(n)]
                        out.append(dict(tree=S("top", jobs, w=w, pure=(bits + n) % 2 == 0)))
                        if n == 3 and not any(x == 0 for x, y in edges if False):
                            # jobs 1,2 inside a nested scheduler that requires what they required of job 0
                            inner = [copy.deepcopy(jobs[1]), copy.deepcopy(jobs[2])]
                            outer_req = sorted({r for jb in inner for r in jb["req"] if r == "j0"})
                            for jb in inner:
                                jb["req"] = [r for r in jb["req"] if r != "j0"]
                            nested = S("in", inner, crit=(bits % 2 == 0), w=w, req=outer_req, h=1)
                            out.append(dict(tree=S("top", [copy.deepcopy(jobs[0]), nested], pure=False, crit=(bits % 4 < 2))))
    if len(out) > budget:
        out = rng.sample(out, budget)
    return out
