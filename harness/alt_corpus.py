"""
Runs the corpus scenarios (and a small random stream) of one dynamic property under ANOTHER interpreter (python 3.11,
whose asyncio.gather yields where 3.12's does not: the only way defect D10 manifests) and prints the violated clauses
as JSON. Invoked by dyn_checks when that interpreter is present; absent -> skipped, and said so in the evidence.
"""
import json, os, random, sys
sys.path.insert(0, os.path.dirname(os.path.abspath(__file__)))
import dyn_rt, dyn_gen, dyn_mon          # noqa: E402

pid, seed, n = sys.argv[1], int(sys.argv[2]), int(sys.argv[3])
rng = random.Random(seed)
if len(sys.argv) > 4:
    # replay of one recorded scenario
    scs = [json.load(open(sys.argv[4]))["case"]["scenario"]]
else:
    scs = [sc for _, sc in dyn_gen.corpus()] + dyn_gen.targeted(pid, rng, n)
out = []
for sc in scs:
    res, trace = dyn_rt.run(sc)
    cl = dyn_mon.check(pid, sc, res, trace)
    if cl:
        out.append({"clauses": cl[:3], "scenario": sc})
print(json.dumps({"python": sys.version.split()[0], "scenarios": len(scs), "violations": out[:5]}))
