"""
Static differential (C15-C20): verification-side job classes with a chosen hash (so that the
harness controls, and in any case records, every set-iteration order), tree specs <-> objects,
the encoding of the *current object state* for the Lean driver, generators, reference oracles.
"""
import io, itertools, contextlib, random, sys, warnings
from aj_common import REPO
sys.path.insert(0, REPO)
from asynciojobs import AbstractJob, Scheduler, PureScheduler, Sequence   # noqa: E402


class SJob(AbstractJob):
    def __init__(self, jid, rank, **kw):
        self.jid = jid
        self.rank = rank
        super().__init__(**kw)

    def __hash__(self):
        return self.rank

    def __eq__(self, other):
        return self is other

    def __repr__(self):
        return "J%d" % self.jid

    async def co_run(self):
        return None

    async def co_shutdown(self):
        return None


class SSched(Scheduler):
    def __init__(self, *a, jid, rank, **kw):
        self.jid = jid
        self.rank = rank
        super().__init__(*a, **kw)

    def __hash__(self):
        return self.rank

    def __eq__(self, other):
        return self is other

    def __repr__(self):
        return "S%d" % self.jid


class SPure(PureScheduler):
    def __init__(self, *a, jid, rank, **kw):
        self.jid = jid
        self.rank = rank
        super().__init__(*a, **kw)

    def __repr__(self):
        return "P%d" % self.jid


def sched_id(o):
    """the id the scheduler gave to a job, through the public `repr_id()` ('??' = none yet)"""
    try:
        r = o.repr_id()
    except Exception:               # noqa
        return None
    return None if r == "??" else r


def text_label_of(o):
    """the documented labelling rule: the `label` attribute, else `text_label()`, else NOLABEL"""
    lab = getattr(o, "label", None)
    if lab is not None:
        return lab
    t = o.text_label()
    return t if t is not None else "NOLABEL"


def quiet(fn, *a, **k):
    buf = io.StringIO()
    with contextlib.redirect_stdout(buf):
        r = fn(*a, **k)
    return r, buf.getvalue()


# ----------------------------------------------------------------------------- specs
# spec = dict(n, sched=[ids], mem={s:[ids]}, req={j:[ids]}, forever=[ids], critical=[ids],
#             rank={j:int}, labels={j:str}, top_pure=bool)      (keys of dicts are ints)

def norm_spec(spec):
    """json round trip turns int keys into strings"""
    s = dict(spec)
    for k in ("mem", "req", "rank", "labels"):
        s[k] = {int(a): b for a, b in spec.get(k, {}).items()}
    s.setdefault("forever", [])
    s.setdefault("critical", [])
    s.setdefault("sched", [0])
    s.setdefault("top_pure", False)
    s.setdefault("verbose", [])
    return s


def build(spec):
    """objects for a spec; returns list objs indexed by id (objs[0] = top scheduler)"""
    spec = norm_spec(spec)
    n = spec["n"]
    objs = [None] * n
    rank = spec.get("rank", {})
    for j in range(n - 1, -1, -1):
        kw = dict(forever=j in spec["forever"], critical=j in spec["critical"])
        lab = spec.get("labels", {}).get(j)
        if lab is not None:
            kw["label"] = lab
        if j in spec["sched"]:
            members = [objs[k] for k in spec["mem"].get(j, [])]
            vb = j in spec["verbose"]           # the `verbose` attribute: code paths that print
            if j == 0 and spec["top_pure"]:
                objs[j] = SPure(*members, jid=j, rank=rank.get(j, j), verbose=vb)
            else:
                objs[j] = SSched(*members, jid=j, rank=rank.get(j, j), verbose=vb, **kw)
        else:
            objs[j] = SJob(j, rank.get(j, j), **kw)
    late = {tuple(e) for e in spec.get("late_req", [])}
    for j in range(n):
        for r in spec["req"].get(j, []):
            if hasattr(objs[j], "required") and (j, r) not in late:
                objs[j].required.add(objs[r])     # raw edge (the API refuses self-loops)
    gone = [tuple(e) for e in spec.get("gone_req", [])]
    for j, r in gone:
        # edges that exist only during the history: present while the tree is inspected, taken away before the observed call
        if j < n and r < n and hasattr(objs[j], "required") and r not in spec["req"].get(j, []):
            objs[j].required.add(objs[r])
    if spec.get("pre"):
        # a history before the observed call: the tree is inspected / run, THEN the edges of `late_req` are added.
        # `spec` describes the final graph; whatever the history left on the objects (ids, marks, back-links, tasks)
        # must not show in what is observed afterwards
        top = objs[0]
        for op in spec["pre"]:
            try:
                with contextlib.redirect_stdout(io.StringIO()), warnings.catch_warnings():
                    warnings.simplefilter("ignore")
                    if op == "list":
                        top.list()
                    elif op == "list_safe":
                        top.list_safe()
                    elif op == "dot":
                        top.dot_format()
                    elif op == "check":
                        top.check_cycles()
                    elif op == "exit":
                        for o in objs:
                            if isinstance(o, PureScheduler):
                                list(o.exit_jobs())
                    elif op == "run":
                        top.run()
            except Exception:           # noqa
                pass
    for j, r in gone:
        if j < n and r < n and hasattr(objs[j], "required") and r not in spec["req"].get(j, []):
            objs[j].required.discard(objs[r])
    for j, r in sorted(late):
        if j < n and r < n and r in spec["req"].get(j, []) and hasattr(objs[j], "required"):
            objs[j].required.add(objs[r])
    return objs


def with_history(spec, rng):
    """the same final tree, reached through a history (inspection calls, possibly a run, then some of the edges)"""
    spec = dict(spec)
    edges = [(j, r) for j, rs in spec.get("req", {}).items() for r in rs]
    spec["late_req"] = [list(e) for e in edges if rng.random() < 0.5]
    spec["pre"] = rng.sample(["list", "list_safe", "dot", "check", "exit", "run"], rng.randint(1, 3))
    # edges between siblings that exist only while the tree is inspected (taken away again before the observed call)
    gone = []
    for s_, mem in spec.get("mem", {}).items():
        mem = list(mem)
        if len(mem) >= 2 and rng.random() < 0.6:
            # often exactly as many as the edges of this scheduler that come late: links *moved*, their number unchanged
            nlate = sum(1 for j, r in spec["late_req"] if j in mem)
            for _ in range(nlate if nlate and rng.random() < 0.7 else rng.randint(1, 2)):
                j, r = rng.sample(mem, 2)
                if r not in spec.get("req", {}).get(j, []) and [j, r] not in gone:
                    gone.append([j, r])
    if gone:
        spec["gone_req"] = gone
    return spec


def enc_nats(l):
    return ",".join(str(x) for x in l)


def enc_map(d):
    return "|".join("%d:%s" % (k, enc_nats(v)) for k, v in d.items())


def encode(objs):
    """the current state of the objects, with Python's actual iteration orders"""
    n = len(objs)
    S = [o.jid for o in objs if isinstance(o, PureScheduler)]
    M = {o.jid: [k.jid for k in o.jobs] for o in objs if isinstance(o, PureScheduler)}
    R = {o.jid: [r.jid for r in o.required] for o in objs if hasattr(o, "required")}
    F = [o.jid for o in objs if getattr(o, "forever", False)]
    C = [o.jid for o in objs if getattr(o, "critical", False)]
    return "n=%d S=%s M=%s R=%s F=%s C=%s" % (n, enc_nats(S), enc_map(M), enc_map(R), enc_nats(F), enc_nats(C))


def show_reqs(objs):
    return "|".join("%d:%s" % (o.jid, enc_nats(sorted(r.jid for r in getattr(o, "required", ())))) for o in objs)


def show_mems(objs):
    return "|".join("%d:%s" % (o.jid, enc_nats(sorted(k.jid for k in o.jobs))) for o in objs if isinstance(o, PureScheduler))


def exc_name(e):
    if isinstance(e, ValueError):
        return "ValueError"
    if isinstance(e, KeyError):
        return "KeyError"
    if isinstance(e, IndexError):
        return "IndexError"
    return type(e).__name__


# ----------------------------------------------------------------------------- references

def edges_within(spec, s):
    mem = set(spec["mem"].get(s, []))
    return {(x, y) for x in mem for y in spec["req"].get(x, []) if y in mem}


def reach(nodes, edges):
    adj = {n: set() for n in nodes}
    for x, y in edges:
        if x in adj and y in adj:
            adj[x].add(y)
    clo = set()
    for n in nodes:
        seen = set()
        stack = list(adj[n])
        while stack:
            m = stack.pop()
            if m in seen:
                continue
            seen.add(m)
            stack.extend(adj[m])
        clo |= {(n, m) for m in seen}
    return clo


def acyclic(nodes, edges):
    r = reach(nodes, edges)
    return all((n, n) not in r for n in nodes)


def closed(spec, s):
    mem = set(spec["mem"].get(s, []))
    return all(y in mem for x in mem for y in spec["req"].get(x, []))


def subtree_scheds(spec, s):
    out = [s]
    for k in spec["mem"].get(s, []):
        if k in spec["sched"]:
            out += subtree_scheds(spec, k)
    return out


def subtree_jobs(spec, s):
    """atomic jobs of the subtree"""
    out = []
    for k in spec["mem"].get(s, []):
        if k in spec["sched"]:
            out += subtree_jobs(spec, k)
        else:
            out.append(k)
    return out


# ----------------------------------------------------------------------------- generators

def all_digraphs(n):
    pairs = [(x, y) for x in range(n) for y in range(n) if x != y]
    for bits in range(1 << len(pairs)):
        yield [p for i, p in enumerate(pairs) if bits >> i & 1]


def all_dags(n):
    """DAGs with edges x -> y (x requires y) only for y < x, relabelled by every permutation is
    unnecessary: iteration order is varied through ranks"""
    pairs = [(x, y) for x in range(n) for y in range(x)]
    for bits in range(1 << len(pairs)):
        yield [p for i, p in enumerate(pairs) if bits >> i & 1]


def flat_spec(n, edges, rank_perm=None, forever=(), critical=(), pure=True):
    """one scheduler (id 0) with members 1..n; edges over 0..n-1 are shifted by one"""
    req = {}
    for x, y in edges:
        req.setdefault(x + 1, []).append(y + 1)
    rank = {j + 1: (rank_perm[j] if rank_perm else j) for j in range(n)}
    rank[0] = 99
    return dict(n=n + 1, sched=[0], mem={0: list(range(1, n + 1))}, req=req,
                forever=[f + 1 for f in forever], critical=[c + 1 for c in critical], rank=rank, top_pure=pure)


def nestify(spec, rng, p=0.3):
    """turn some members of the top scheduler of a flat spec into nested schedulers: empty ones, or holding one or
    two fresh atomic jobs (closed inside); the top-level graph keeps its nodes and edges"""
    spec = dict(spec, sched=list(spec.get("sched", [0])), mem=dict(spec["mem"]), req=dict(spec["req"]),
                rank=dict(spec.get("rank", {})))
    for j in list(spec["mem"][0]):
        if rng.random() < p:
            spec["sched"].append(j)
            kids = []
            for _ in range(rng.choice([0, 0, 1, 2])):
                k = spec["n"]
                spec["n"] += 1
                spec["rank"][k] = len(kids)
                kids.append(k)
            if len(kids) == 2 and rng.random() < 0.5:
                spec["req"][kids[1]] = [kids[0]]
            spec["mem"][j] = kids
    return spec


def random_tree(rng, max_depth=3, max_kids=4, p_sched=0.3, p_edge=0.4, allow_empty=True, cyclic=0.0,
                dangling=0.0, labels=None):
    """random scheduler tree; ids are given top-down (a scheduler's id is smaller than its members')"""
    spec = dict(n=1, sched=[0], mem={0: []}, req={}, forever=[], critical=[], rank={0: 99}, labels={}, top_pure=rng.random() < 0.3)
    def fill(s, depth):
        nk = rng.randint(0 if (allow_empty and s != 0) else 1, max_kids)
        kids = []
        for _ in range(nk):
            j = spec["n"]
            spec["n"] += 1
            kids.append(j)
            if depth < max_depth and rng.random() < p_sched:
                spec["sched"].append(j)
                spec["mem"][j] = []
        spec["mem"][s] = kids
        ranks = list(range(len(kids)))
        rng.shuffle(ranks)
        for k, r in zip(kids, ranks):
            spec["rank"][k] = r
            if rng.random() < 0.3:
                spec["forever"].append(k)
            if rng.random() < 0.5:
                spec["critical"].append(k)
            if labels is not None:
                spec["labels"][k] = labels(rng)
        for i, k in enumerate(kids):
            for r in range(i):
                if rng.random() < p_edge:
                    spec["req"].setdefault(k, []).append(kids[r])
            if cyclic and rng.random() < cyclic and i + 1 < len(kids):
                spec["req"].setdefault(k, []).append(kids[rng.randrange(i + 1, len(kids))])
        for k in kids:
            if k in spec["sched"]:
                fill(k, depth + 1)
    fill(0, 1)
    spec["verbose"] = [s for s in spec["sched"] if rng.random() < 0.2]
    if rng.random() < 0.5:
        spec["critical"].append(0)
    if dangling:
        # edges to jobs of no scheduler, of siblings', parents', children's schedulers
        extra = []
        for _ in range(rng.randint(0, 2)):
            extra.append(spec["n"])
            spec["n"] += 1
        allj = [j for j in range(1, spec["n"])]
        for j in allj:
            if j in extra:
                continue
            if rng.random() < dangling:
                r = rng.choice(allj)
                if r != j and r not in spec["req"].get(j, []):
                    spec["req"].setdefault(j, []).append(r)
    return spec
