"""
Checks of the dynamic properties C01-C14: scenario generation, real runs on the virtual-time loop,
trace oracles (dyn_mon), replay of the traces through the Lean model (dyn_replay), shrinking.
"""
import copy, json, os, random, time
from concurrent.futures import ProcessPoolExecutor
import dyn_rt, dyn_gen, dyn_mon


def clause_key(c):
    return " ".join(c.split(" ")[:1]) + ":" + "".join(ch for ch in c if not ch.isdigit())[:60]


def eval_one(pid, sc):
    """run the scenario (and its twins for the relational properties); returns (clauses, stats, traces)"""
    stats = {}
    res, trace = dyn_rt.run(sc)
    if sc.get("rerun"):
        # keep the second run only, with instants counted from its beginning
        cut = next((i for i, e in enumerate(trace) if e[2] == "rerun"), None)
        if cut is None:
            trace = []
        else:
            t0 = trace[cut][0]
            trace = [(e[0] - t0,) + tuple(e[1:]) for e in trace[cut + 1:]]
        stats["rerun"] = True
    traces = [(sc, res, trace)]
    clauses = []
    if pid == "C06":
        rng = random.Random(hash(json.dumps(sc, sort_keys=True)) & 0xFFFF)
        pairs = dyn_gen.flip_variants(sc, rng)
        stats["pairs"] = len(pairs)
        for sub, a, b in pairs:
            ra, ta = dyn_rt.run(a)
            rb, tb = dyn_rt.run(b)
            traces += [(a, ra, ta), (b, rb, tb)]
            cl = dyn_mon.c06_pair(dyn_mon.View(a, ra, ta), dyn_mon.View(b, rb, tb), sub)
            clauses += cl
    elif pid == "C10":
        clauses += dyn_mon.check("C10", sc, res, trace)
        flat = dyn_gen.flatten_variant(sc)
        stats["twin"] = flat is not None
        if flat is not None:
            flat["twin_of_prev"] = True
            rf, tf = dyn_rt.run(flat)
            traces.append((flat, rf, tf))
            clauses += dyn_mon.c10_pair(dyn_mon.View(sc, res, trace), dyn_mon.View(flat, rf, tf))
    else:
        clauses += dyn_mon.check(pid, sc, res, trace)
    stats["hang"] = "hang" in res
    stats["events"] = len(trace)
    return clauses, stats, traces


def features(sc, res, trace):
    """what the scenario exercised (for the measured input distribution and the non-triviality rules)"""
    kinds = {}
    for e in trace:
        kinds[e[2]] = kinds.get(e[2], 0) + 1
    info = dyn_gen.index(sc)
    f = {
        "jobs": sum(1 for i in info.values() if i["kind"] == "job"),
        "scheds": sum(1 for i in info.values() if i["kind"] == "sched"),
        "depth": max(len(path(info, n)) for n in info),
        "window": any(i["kind"] == "sched" and i["w"] for i in info.values()),
        "timeout": any(i["kind"] == "sched" and i["T"] is not None for i in info.values()),
        "raised": kinds.get("raise", 0), "cancelled": kinds.get("cancel", 0), "rcancel": kinds.get("rcancel", 0),
        "hcancel": kinds.get("hcancel", 0), "sdb": kinds.get("sdb", 0),
        "queued": queued_seen(trace), "hang": "hang" in res,
        "verdict": (res.get("r") or ("hang",))[0] + ":" + str((res.get("r") or (0, "-"))[1])[:12],
    }
    return f


def path(info, n):
    out = []
    while n is not None:
        out.append(n)
        n = info[n]["parent"]
    return out


def queued_seen(trace):
    """a job was created but began only at a later instant (it waited for a window slot)"""
    created = {}
    for e in trace:
        if e[2] == "create":
            created[e[3]] = e[0]
        if e[2] in ("begin", "rbegin") and e[3] in created and created[e[3]] < e[0]:
            return True
    return False


NONTRIVIAL = {
    "C01": lambda f: f["jobs"] >= 2,
    "C02": lambda f: f["jobs"] >= 2,
    "C03": lambda f: f["window"] or f["raised"] > 0,
    "C04": lambda f: f["raised"] > 0 or f["timeout"],
    "C05": lambda f: f["raised"] > 0 and f["cancelled"] > 0,
    "C06": lambda f: f["jobs"] >= 2,
    "C07": lambda f: f["window"],
    "C08": lambda f: f["timeout"],
    "C09": lambda f: f["cancelled"] > 0,
    "C10": lambda f: f["scheds"] >= 2,
    "C11": lambda f: f["rcancel"] > 0 or f["cancelled"] > 0,
    "C12": lambda f: f["jobs"] >= 3,
    "C13": lambda f: f["sdb"] > 0 and f["scheds"] >= 1,
    "C14": lambda f: f["jobs"] >= 2,
}

RULES = {
    "C05": "a critical job raised and at least one job was cancelled",
    "C07": "some scheduler has a window",
    "C08": "some scheduler has a timeout",
    "C09": "at least one cancellation (forever jobs tidied)",
    "C10": "at least one nested scheduler",
    "C11": "a nested run was cancelled, or jobs were cancelled",
    "C03": "a window or a raising job",
    "C04": "a raising job or a timeout",
}


def shrink(pid, sc, key, budget=150):
    """greedy structural shrinking; keeps a candidate when the same clause (modulo numbers) still fails"""
    def fails(cand):
        try:
            cl, _, _ = eval_one(pid, cand)
        except Exception:                       # noqa
            return False
        return any(clause_key(c) == key for c in cl)

    cur = copy.deepcopy(sc)
    steps = 0
    changed = True
    while changed and steps < budget:
        changed = False
        for cand in shrink_candidates(cur):
            steps += 1
            if steps > budget:
                break
            if fails(cand):
                cur = cand
                changed = True
                break
    return cur


def shrink_candidates(sc):
    nodes = [(n, p) for n, p in dyn_gen.walk(sc["tree"])]
    # remove a node
    for n, p in nodes:
        if p is None:
            continue
        c = copy.deepcopy(sc)
        for m, _ in dyn_gen.walk(c["tree"]):
            if m.get("children"):
                m["children"] = [k for k in m["children"] if k["name"] != n["name"]]
            m["req"] = [r for r in m.get("req", []) if r != n["name"]]
        yield c
    # simplify fields
    for n, p in nodes:
        for field, val in (("k", 0), ("ch", 0), ("sd", 0), ("exc", False), ("forever", False), ("crit", False),
                           ("T", None), ("w", None), ("sdT", 1), ("verbose", False), ("coro", False), ("req", [])):
            if field in n and n[field] != val:
                c = copy.deepcopy(sc)
                for m, _ in dyn_gen.walk(c["tree"]):
                    if m["name"] == n["name"]:
                        m[field] = val
                yield c
        if n["kind"] == "job" and n["d"] not in (None, 0):
            c = copy.deepcopy(sc)
            for m, _ in dyn_gen.walk(c["tree"]):
                if m["name"] == n["name"]:
                    m["d"] = n["d"] - 1
            yield c


def scenarios(pid, tier, seed):
    rng = random.Random(seed * 1000003 + int(pid[1:]))
    out = [("corpus:" + tag, sc) for tag, sc in dyn_gen.corpus()]
    corpus_dir = os.path.join(os.path.dirname(os.path.dirname(os.path.abspath(__file__))), "corpus", pid)
    if os.path.isdir(corpus_dir):
        for f in sorted(os.listdir(corpus_dir)):
            if f.endswith(".json"):
                out.append(("corpus:" + f, json.load(open(os.path.join(corpus_dir, f)))["scenario"]))
    n_t, n_r = (600, 900) if tier == "quick" else (12000, 20000)
    if pid in ("C06",):
        n_t, n_r = (150, 250) if tier == "quick" else (3000, 5000)
    for sc in dyn_gen.targeted(pid, rng, n_t):
        out.append(("targeted", sc))
    if tier == "thorough":
        for sc in dyn_gen.exhaustive_small(rng, budget=12000 if pid == "C06" else 60000):
            out.append(("exhaustive", sc))
    if pid in ("C01", "C02", "C03", "C04", "C05", "C07", "C08", "C09", "C10", "C11", "C12", "C14"):
        # the same scheduler object run twice (co_run resets its tasks): the second run is judged
        for sc in dyn_gen.targeted(pid, rng, n_t // 6) + [dyn_gen.gen_tree(rng, depth=rng.choice([1, 2])) for _ in range(n_r // 8)]:
            sc = copy.deepcopy(sc)
            for n, _ in dyn_gen.walk(sc["tree"]):
                if n["kind"] == "job":
                    n["coro"] = False          # a coroutine object cannot be awaited twice
            if dyn_mon.admissible(sc):
                sc["rerun"] = True
                out.append(("rerun", sc))
                if rng.random() < 0.6:
                    # ... and the objects are edited between the two runs (the first run must be able to finish too)
                    sc2 = dyn_gen.add_between(sc, rng)
                    if dyn_mon.admissible({"tree": dyn_gen.first_run_tree(sc2)}):
                        out.append(("rerun-edited", sc2))
    if pid in ("C01", "C02", "C12", "C14"):
        # the same objects run again after a run that was CUT SHORT (a critical job raised, or the timeout expired, while
        # some jobs had seen only part of their requirements finish), with other durations and nobody raising the second
        # time: nothing of the aborted run may survive into the judged one
        def abort_then_rerun(tree):
            sc = dict(tree=copy.deepcopy(tree))
            for n, _ in dyn_gen.walk(sc["tree"]):
                if n["kind"] == "job":
                    n["coro"] = False
            if not dyn_mon.admissible(sc):
                return None
            jobs = [k for k in sc["tree"]["children"] if k["kind"] == "job" and not k["forever"] and k["d"] is not None]
            if len(jobs) < 2:
                return None
            attrs = {}
            if rng.random() < 0.75:
                x = rng.choice(jobs)
                x["exc"] = False
                attrs[x["name"]] = dict(exc=True, crit=True, d=rng.choice([0, 1, 2]))
                if not x["crit"]:
                    x["crit"] = rng.random() < 0.5
            else:
                attrs[sc["tree"]["name"]] = dict(T=rng.choice([1, 2]))
            for n, _ in dyn_gen.walk(sc["tree"]):
                if n["kind"] == "job" and n["name"] not in attrs and n["d"] is not None and rng.random() < 0.5:
                    attrs[n["name"]] = dict(d=rng.choice([0, 1, 2, 3, 4]))
            sc["rerun"] = True
            sc["between"] = dict(attrs=attrs, edges=[], removed=[], added_jobs=[], first_root=None, inspect=[], shutdown=False)
            return sc
        J_, S_ = dyn_gen.J, dyn_gen.S
        for i in range(max(30, n_r // 12)):
            da, db = rng.choice([(1, 3), (2, 4), (1, 2)])
            kids = [J_("a", db, h=1), J_("b", da, h=2), J_("c", 0, h=3, req=["a"]), J_("j", 1, h=4, req=["a", "b"]),
                    J_("z", 1, h=5, req=["j"])]
            rng.shuffle(kids)
            sc = abort_then_rerun(S_("top", kids, pure=rng.random() < 0.5, w=rng.choice([None, None, 2])))
            if sc:
                sc["between"]["attrs"] = {"a": dict(d=da), "b": dict(d=db), "c": dict(exc=True, crit=True)}
                out.append(("rerun-after-abort", sc))
        for base in dyn_gen.targeted(pid, rng, n_t // 6) + [dyn_gen.gen_tree(rng, depth=rng.choice([1, 2])) for _ in range(n_r // 8)]:
            sc = abort_then_rerun(base["tree"])
            if sc:
                out.append(("rerun-after-abort", sc))
    if pid in ("C04", "C08"):
        # a nested scheduler fails in the first of two runs (timeout or critical job); the second run is aborted before it
        # reaches that nested scheduler: what it reports must not be left over from the first run
        J_, S_ = dyn_gen.J, dyn_gen.S
        for i in range(max(20, n_r // 30)):
            by_timeout = rng.random() < 0.5
            inner = [J_("j", 3, h=1), J_("c", rng.choice([0, 1]), h=2, crit=True, exc=not by_timeout)]
            nested = S_("n", inner, T=1 if by_timeout else None, crit=False, req=["g"], h=3)
            kids = [J_("g", rng.choice([0, 1]), h=4, crit=True, exc=True), nested, J_("k", 1, h=5),
                    J_("z", 1, h=6, req=["n"])]
            rng.shuffle(kids)
            sc = dict(tree=S_("top", kids, pure=rng.random() < 0.5), rerun=True,
                      between=dict(attrs={"g": dict(exc=False)}, edges=[], removed=[], added_jobs=[], first_root=None,
                                   inspect=[], shutdown=False))
            out.append(("rerun-unreached", sc))
    if pid in ("C01", "C02", "C03", "C12"):
        # graphs inspected (exit_jobs, list, dot_format, closures, check_cycles), then edited, then run
        for sc in dyn_gen.targeted(pid, rng, n_t // 6) + [dyn_gen.gen_tree(rng, depth=rng.choice([1, 2])) for _ in range(n_r // 8)]:
            sc = dyn_gen.add_late(sc, rng)
            if sc is not None:
                out.append(("late-edits", sc))
    if pid in ("C01", "C10", "C14"):
        # schedulers with the library's own hash / equality (no chosen iteration order): trees with several nested
        # schedulers, empty ones and look-alikes included
        for i in range(n_r // 8):
            sc = dyn_gen.gen_tree(rng, depth=rng.choice([2, 2, 3]), p_sched=0.6)
            sc["plain"] = True
            sc["late_fill"] = i % 2 == 0
            out.append(("plain-classes", sc))
        for i in range(n_r // 10):
            sc = dyn_gen.gen_tree(rng, depth=rng.choice([2, 2, 3]), p_sched=0.5)
            sc["late_fill"] = True
            out.append(("late-fill", sc))
    if pid in ("C01", "C04", "C05", "C11", "C13"):
        # verbose schedulers whose standard output is a strict utf-8 stream, and a job result that such a stream cannot
        # print (a file name with an undecodable byte): the orchestration of the verbose scheduler fails half-way; now and
        # then its enclosing scheduler ends (critical failure, timeout) while it is still cleaning up after that
        for i in range(max(20, n_r // 20)):
            slow = rng.choice([0, 0, 2, 3])
            inner = [dyn_gen.J("q", rng.choice([0, 1]), odd=True, h=1),
                     dyn_gen.J("long", rng.choice([2, 3, None]), h=2, forever=False, ch=slow, sd=rng.choice([0, 0, 1])),
                     dyn_gen.J("q2", 1, h=3, req=["q"] if rng.random() < 0.5 else [])]
            if inner[1]["d"] is None:
                inner[1]["forever"] = True
            rng.shuffle(inner)
            nested = dyn_gen.S("in", inner, verbose=True, crit=rng.random() < 0.5, w=rng.choice([None, None, 2]), h=4)
            side = dyn_gen.J("side", rng.choice([1, 2, 4]), h=6)
            if slow and rng.random() < 0.6:
                side.update(exc=True, crit=True)
            kids = [nested, dyn_gen.J("after", 1, h=5, req=["in"]), side]
            if rng.random() < 0.4:
                kids = [dyn_gen.S("mid", [nested, dyn_gen.J("m", 1, h=7)], h=8), dyn_gen.J("after", 1, h=5, req=["mid"]), side]
            top = dyn_gen.S("top", kids, pure=rng.random() < 0.5, verbose=rng.random() < 0.3,
                            T=rng.choice([None, None, 2]) if slow else None)
            out.append(("unprintable", dict(tree=top, strict_out=True)))
    if pid in ("C08", "C04"):
        # job steps that keep the loop busy (time passes while the scheduler has work to do): chains and windows of
        # short busy jobs whose total exceeds the timeout
        for i in range(max(20, n_r // 20)):
            n = rng.randint(3, 8)
            w = rng.choice([None, None, 1, 2])
            kids = []
            for k in range(n):
                kids.append(dyn_gen.J("b%d" % k, 0, busy=rng.choice([1, 1, 2]), h=k,
                                      req=(["b%d" % (k - 1)] if k and (w is None or rng.random() < 0.5) else [])))
            tree = dyn_gen.S("top", kids, T=rng.choice([1, 2, 3]), w=w, pure=rng.random() < 0.5, crit=rng.random() < 0.5)
            if rng.random() < 0.4:
                tree = dyn_gen.S("outer", [dict(tree, name="in", pure=False), dyn_gen.J("side", 1, h=9)], pure=rng.random() < 0.5)
            out.append(("busy-loop", dict(tree=tree, busy=True)))
        # ... and independent busy jobs behind a window: each round reports a completion, nothing is started as a
        # successor (the next job gets the slot that was freed), and the deadline goes by meanwhile
        for w in (1, 2):
            for n in (4, 6):
                for T in (1, 2):
                    for pure, crit in ((True, False), (False, True), (False, False)):
                        kids = [dyn_gen.J("b%d" % k, 0, busy=1, h=k) for k in range(n)]
                        out.append(("busy-window", dict(tree=dyn_gen.S("top", kids, T=T, w=w, pure=pure, crit=crit), busy=True)))
    if pid in ("C01", "C02", "C04", "C05", "C08", "C11", "C13", "C14"):
        # the top-level run cancelled from outside at some instant (wait_for, task.cancel)
        for sc in dyn_gen.targeted(pid, rng, n_t // 6) + [dyn_gen.gen_tree(rng, depth=rng.choice([1, 2, 2])) for _ in range(n_r // 8)]:
            sc = copy.deepcopy(sc)
            sc["cancel_top"] = rng.choice([0, 1, 1, 2, 3, 4])
            sc["tree"]["pure"] = rng.random() < 0.5
            out.append(("cancel-top", sc))
    for i in range(n_r):
        adm = rng.random() < 0.85
        out.append(("random", dyn_gen.gen_tree(rng, depth=rng.choice([1, 2, 2, 3]), admissible=adm or pid == "C03")))
    return out


def worker(args):
    pid, chunk = args
    out = []
    for tag, sc in chunk:
        try:
            clauses, stats, traces = eval_one(pid, sc)
            feats = features(*traces[0])
            out.append((tag, sc, clauses, stats, feats, [t for t in traces]))
        except Exception as e:                  # noqa
            import traceback
            out.append((tag, sc, ["HARNESS " + traceback.format_exc()[-600:]], {}, None, []))
    return out


def run(pid, tier, seed, res, drv, replay=None, replay_path=None):
    import dyn_replay
    t0 = time.time()
    if replay:
        scs = [("replay", replay["case"]["scenario"])]
    else:
        scs = scenarios(pid, tier, seed)
    res.rule = ("corpus of once-failing scenarios, targeted families of %s, random scheduler trees (depth <= 3, 1-12 jobs, "
                "windows, timeouts, forever / never-ending / raising jobs, cancellation and shutdown handlers of 0-3 quanta, "
                "AbstractJob subclasses, coroutine Jobs and the library's PrintJob, verbose on/off, chosen set orders, jobs that "
                "inspect the schedulers from inside the run, exceptions with empty messages) run on the real library with a "
                "virtual clock; per property also: second runs of the same objects (plain, and edited in between: attributes, "
                "jobs added, requirements added/removed, inspection calls, explicit shutdown, a nested scheduler run alone "
                "first), graphs inspected then edited then run, top-level runs cancelled from outside (oracles only), the "
                "corpus under python 3.11 (see input_distribution.source); non-trivial = %s; distinct by (tree shape, "
                "flags, behaviour classes)"
                % (pid, RULES.get(pid, "at least two jobs")))
    nproc = 1 if (tier == "quick" or replay) else min(14, os.cpu_count() or 1)
    results = []
    if nproc == 1:
        results = worker((pid, scs))
    else:
        chunks = [scs[i::nproc * 4] for i in range(nproc * 4)]
        with ProcessPoolExecutor(nproc) as ex:
            for r in ex.map(worker, [(pid, c) for c in chunks]):
                results += r
    first_by_key = {}
    all_traces = []
    for tag, sc, clauses, stats, feats, traces in results:
        res.evaluations += 1
        if feats is not None:
            if NONTRIVIAL[pid](feats):
                res.nontrivial.add(dyn_gen.shape_key(sc))
            for k in ("jobs", "scheds", "depth", "window", "timeout", "queued", "hang", "verdict"):
                res.hist(k, feats[k])
            for k in ("raised", "cancelled", "rcancel", "hcancel"):
                res.hist(k, min(feats[k], 3))
            res.hist("source", tag.split(":")[0])
        for c in clauses:
            if c.startswith("HARNESS"):
                raise RuntimeError(c)
            first_by_key.setdefault(clause_key(c), (c, sc))
        all_traces += traces
    if results and not res.samples:
        tag, sc, clauses, stats, feats, traces = results[min(len(results) - 1, 9)]
        if traces:
            res.samples.append({"scenario": sc, "trace_head": [list(map(str, e[:5])) for e in traces[0][2][:25]]})
    # replay every trace through the Lean model: correspondence + the Lean monitors
    dyn_replay.replay_all(pid, all_traces, res, drv)
    if pid == "C10":
        dyn_replay.flat_ties(all_traces, res, drv)
        dyn_replay.timing_ties(all_traces, res, drv)
    # violations: shrink, smallest first
    for key, (c, sc) in first_by_key.items():
        small = shrink(pid, sc, key) if not replay else sc
        cl, _, _ = eval_one(pid, small)
        cc = next((x for x in cl if clause_key(x) == key), c)
        res.violations.append((cc, {"kind": "scenario", "scenario": small, "original": sc if small != sc else None}))
    # the same corpus under python 3.11 when present (asyncio.gather yields there: defects D10, D13 need it)
    alt_replay = replay and replay.get("case", {}).get("interpreter")
    if pid != "C06" and (not replay or alt_replay):
        alt = "/root/.pyenv/versions/3.11.7/bin/python"
        if os.path.exists(alt):
            import subprocess
            extra = [replay_path] if alt_replay else []
            p = subprocess.run([alt, os.path.join(os.path.dirname(os.path.abspath(__file__)), "alt_corpus.py"), pid, str(seed), "150"] + extra,
                               capture_output=True, text=True, timeout=600)
            try:
                info = json.loads(p.stdout.strip().split("\n")[-1])
                res.dist["alt_interpreter"] = {"python": info["python"], "scenarios": info["scenarios"], "violations": len(info["violations"])}
                for v in info["violations"]:
                    res.violations.append((v["clauses"][0] + " [under python %s]" % info["python"],
                                           {"kind": "scenario", "scenario": v["scenario"], "interpreter": alt}))
            except Exception:       # noqa
                res.notes.append("alternate interpreter run failed: " + (p.stderr or p.stdout)[-300:])
        else:
            res.notes.append("python 3.11 not present: corpus not run under a yielding asyncio.gather")
    pairs = sum(st.get("pairs", 0) for _, _, _, st, _, _ in results)
    twins = sum(1 for _, _, _, st, _, _ in results if st.get("twin"))
    if pid == "C06":
        res.dist["metamorphic_pairs"] = {"pairs": pairs}
    if pid == "C10":
        res.dist["flatten_twins"] = {"twins": twins}
    res.notes.append("scenario phase %.1fs" % (time.time() - t0))
