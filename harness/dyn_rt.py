"""
Dynamic harness, runtime part: virtual-time event loop, verification-side job / scheduler classes,
asyncio-level probes, scenario interpreter.  run(scenario) -> (result dict, trace).

A scenario is JSON:
  {"tree": node, "linger": int}
  node(job)   = {"kind":"job","name":str,"req":[names],"crit":bool,"forever":bool,"h":int,
                 "d":int|None (None = never ends), "k":int (extra sleep(0) before ending), "exc":bool,
                 "ch":int (cancellation handler time), "sd":int (shutdown handler time), "coro":bool}
  node(sched) = {"kind":"sched","name":str,"req":[...],"crit":bool,"forever":bool,"h":int,"children":[nodes],
                 "w":int|None,"T":int|None,"sdT":int|None,"pure":bool (top only),"verbose":bool}

Trace lines are tuples (time, loop_iteration, kind, subject, ...):
  rbegin s | rret s value | rraise s excid | rcancel s          scheduler co_run (wrapper)
  begin j | end j | raise j | cseen j | cdone j                  atomic job body
  take s j | release s j                                         window slot of scheduler s, by job j
  create j | hcreate j                                           task created for job j / for j.co_shutdown()
  cancel j | hcancel j                                           Task.cancel() on an unfinished task
  wenter s kind [jobs] ctx | wret s kind [jobs] ctx | wcancel s kind ctx     asyncio.wait (kind: main / tidy / sd / sdtidy;
                                                                 ctx: "run" = in the task of co_run, "relay" = in a relayed co_shutdown)
  sdcall s ctx | sdret s value ctx | sdexc s None ctx            scheduler co_shutdown (wrapper)
  sdb j | sde j | sdc j                                          atomic job co_shutdown begin / end / cancelled
  snap {name: [idle, sched, running, done, res]} | topend | lingered
"""
import asyncio, contextlib, contextvars, heapq, io, sys, time, warnings
warnings.simplefilter("ignore", RuntimeWarning)
from aj_common import REPO
sys.path.insert(0, REPO)
import asynciojobs                                         # noqa: E402
from asynciojobs import AbstractJob, Job, Scheduler, PureScheduler, PrintJob   # noqa: E402

LOG = []
CUR = contextvars.ContextVar("cur_sched", default=None)
STATE = {"loop": None, "jobs": {}, "tasks": [], "taskinfo": {}, "cancelled": set(), "active": False, "gen": 0}


def emit(*a):
    loop = STATE["loop"]
    LOG.append((int(loop.time()), loop.iterations) + a)


def emitj(obj, *a):
    """emit on behalf of a job / scheduler object: ignored when the object belongs to an earlier scenario
    (an orphan coroutine being closed by the garbage collector)"""
    if STATE["active"] and getattr(obj, "gen", None) == STATE.get("gen"):
        emit(*a)


class Hang(Exception):
    pass


class VTimer(asyncio.TimerHandle):
    """timers due at the same (virtual) instant fire in the order in which they were created: asyncio orders its
    heap by `when` only, so ties would otherwise be broken by the accidental shape of the heap, and two runs that
    differ in one job's outcome could resolve the same tie differently (a false difference for C06 / C10 pairs)"""
    __slots__ = ("_seq",)

    def _key(self):
        return (self._when, self._seq)

    def __lt__(self, other):
        return self._key() < other._key() if isinstance(other, VTimer) else NotImplemented

    def __le__(self, other):
        return self._key() <= other._key() if isinstance(other, VTimer) else NotImplemented

    def __gt__(self, other):
        return self._key() > other._key() if isinstance(other, VTimer) else NotImplemented

    def __ge__(self, other):
        return self._key() >= other._key() if isinstance(other, VTimer) else NotImplemented

    def __eq__(self, other):
        return self is other

    __hash__ = asyncio.TimerHandle.__hash__


class VLoop(asyncio.SelectorEventLoop):
    """virtual time: when nothing is ready, jump to the next timer; nothing ready and no timer = deadlock"""

    def __init__(self, horizon_iters=40000):
        super().__init__()
        self._vt = 0.0
        self.iterations = 0
        self.on_quiet = None
        self.horizon_iters = horizon_iters
        self.cleanup = False

    def time(self):
        return self._vt

    def call_at(self, when, callback, *args, context=None):
        self._check_closed()
        self._tseq = getattr(self, "_tseq", 0) + 1
        timer = VTimer(when, callback, args, self, context)
        timer._seq = self._tseq
        heapq.heappush(self._scheduled, timer)
        timer._scheduled = True
        return timer

    def _run_once(self):
        self.iterations += 1
        if self.iterations > self.horizon_iters and not self.cleanup:
            raise Hang("livelock")
        while self._scheduled and self._scheduled[0]._cancelled:
            h = heapq.heappop(self._scheduled)
            h._scheduled = False
            self._timer_cancelled_count = max(0, self._timer_cancelled_count - 1)
        if not self._ready:
            if self.on_quiet:
                self.on_quiet()
            if self._scheduled:
                w = self._scheduled[0]._when
                if w > self._vt:
                    self._vt = w
            elif self.cleanup:
                self.stop()
            else:
                raise Hang("deadlock")
        super()._run_once()


class VTask(asyncio.Task):
    def cancel(self, msg=None):
        if STATE["active"] and not self.done():
            info = STATE["taskinfo"].get(id(self))
            if info:
                emit("cancel" if info[0] == "job" else "hcancel", info[1])
            elif id(self) == STATE.get("top_task"):
                emit("topcancel", None)         # the user cancels the top-level run from outside
            STATE["cancelled"].add(id(self))
        return super().cancel(msg)


def factory(loop, coro, **kw):
    t = VTask(coro, loop=loop, **kw)
    STATE["tasks"].append(t)
    if STATE.pop("skip_next", False):
        return t                                # the task that runs the top-level co_run: not a job's
    try:
        name = coro.cr_code.co_name
        loc = coro.cr_frame.f_locals
        mine = lambda v: hasattr(v, "spec") and hasattr(v, "name") and getattr(v, "gen", None) == STATE.get("gen")
        if name == "co_shutdown" and "self" in loc and mine(loc["self"]):
            # the public coroutine of a job / scheduler, run as a task by the shutdown broadcast
            STATE["taskinfo"][id(t)] = ("handler", loc["self"].name)
            emit("hcreate", loc["self"].name)
        else:
            # the task that runs a job: whatever the wrapper around job.co_run() is called, the job is among its
            # arguments / closure variables (window.py: `wrapped`, closure variable `job`)
            cands = [(k, v) for k, v in loc.items() if mine(v)]
            pick = None
            if "job" in loc and mine(loc["job"]):
                pick = loc["job"]
            elif len(cands) == 1:
                pick = cands[0][1]
            elif len(cands) > 1:
                rest = [v for k, v in cands if k != "self"]
                pick = rest[0] if len(rest) == 1 else None
            if pick is not None:
                STATE["taskinfo"][id(t)] = ("job", pick.name)
                emit("create", pick.name)
    except Exception:                                       # noqa
        pass
    return t


def task_ctx():
    """is the current task the one running a scheduler's co_run ("run") or a relayed co_shutdown ("relay")?"""
    info = STATE["taskinfo"].get(id(asyncio.current_task()))
    return "relay" if info and info[0] == "handler" else "run"


def job_of_current():
    t = asyncio.current_task()
    info = STATE["taskinfo"].get(id(t))
    return info[1] if info else None


class VQueue(asyncio.Queue):
    def __init__(self, maxsize=0):
        super().__init__(maxsize)
        self.owner = CUR.get()

    async def put(self, x):
        await super().put(x)
        emit("take", self.owner, job_of_current())

    async def get(self):
        r = await super().get()
        emit("release", self.owner, job_of_current())
        return r

    def get_nowait(self):
        r = super().get_nowait()
        emit("release", self.owner, job_of_current())
        return r


_orig_wait = asyncio.wait


def names_of(fs):
    out = []
    for t in fs:
        info = STATE["taskinfo"].get(id(t))
        out.append(info[1] if info else "?")
    return sorted(out)


async def vwait(fs, *, timeout=None, return_when=asyncio.ALL_COMPLETED):
    fs = set(fs)
    kinds = {STATE["taskinfo"].get(id(t), ("?",))[0] for t in fs}
    try:
        caller = sys._getframe(1).f_code.co_name
    except Exception:                                       # noqa
        caller = ""
    if return_when == asyncio.FIRST_COMPLETED:
        kind = "main"
    elif kinds == {"handler"}:
        # the wait that follows the cancellation of the handlers (they all had cancel() called), or the bounded wait
        kind = "sdtidy" if all(id(t) in STATE["cancelled"] or t.done() and t.cancelled() for t in fs) else "sd"
    else:
        kind = "tidy"
    s = CUR.get()
    ctx = task_ctx()
    emit("wenter", s, kind, names_of(fs), ctx)
    try:
        d, p = await _orig_wait(fs, timeout=timeout, return_when=return_when)
    except asyncio.CancelledError:
        emit("wcancel", s, kind, ctx)
        raise
    emit("wret", s, kind, names_of(d), ctx)
    return d, p

CUR_PHASE = contextvars.ContextVar("cur_phase", default=None)


class Boom(Exception):
    pass


# what job bodies raise: a few standard families (a job may fail with anything that is an Exception)
class BoomRuntime(RuntimeError):
    pass


class BoomLookup(KeyError):
    pass


class BoomOS(OSError):
    pass


class BoomTimeout(TimeoutError):
    pass


class BoomAssert(AssertionError):
    pass


class BoomFalsy(Exception):
    """an exception object that is falsy (a collection of errors that happens to be empty, say)"""
    def __bool__(self):
        return False


class BoomBase(BaseException):
    """an application-level exception that does not derive from Exception (asyncio stores it in the task like any other;
    only KeyboardInterrupt and SystemExit are propagated to the loop)"""


BOOMS = [Boom, BoomRuntime, BoomLookup, BoomOS, BoomTimeout, BoomAssert, BoomBase, BoomFalsy]


async def body(job):
    spec = job.spec
    emitj(job, "begin", job.name)
    if spec.get("peek"):
        # a job that inspects the schedulers while they run (a progress display, say): no effect on the run expected
        for o in [x for x in STATE["jobs"].values() if isinstance(x, PureScheduler) and getattr(x, "gen", None) == STATE.get("gen")]:
            try:
                if spec["peek"] == "exit_jobs":
                    list(o.exit_jobs())
                elif spec["peek"] == "list":
                    o.list()
                elif spec["peek"] == "dot":
                    o.dot_format()
                elif spec["peek"] == "debrief":
                    o.debrief()
            except Exception:                               # noqa
                pass
    if spec.get("busy"):
        # a step that keeps the event loop busy for `busy` units of time (synchronous work: no await): real time passes
        # although the loop is not idle - the one thing the virtual clock does not do by itself
        STATE["loop"]._vt += spec["busy"]
    try:
        if spec["d"] is None:
            await asyncio.Event().wait()
        else:
            await asyncio.sleep(spec["d"])
        for _ in range(spec.get("k", 0)):
            await asyncio.sleep(0)
    except asyncio.CancelledError:
        emitj(job, "cseen", job.name)
        if spec.get("ch"):
            await asyncio.sleep(spec["ch"])
        emitj(job, "cdone", job.name)
        raise
    if spec.get("exc"):
        # (one in three with an empty message, like a bare `assert` or `raise TimeoutError()`)
        cls = BOOMS[(spec.get("h", 0) * 3 + spec.get("k", 0) + len(job.name)) % len(BOOMS)]
        job.exc_obj = cls(job.name) if (spec.get("h", 0) + spec.get("k", 0)) % 3 else cls()
        emitj(job, "raise", job.name)
        raise job.exc_obj
    # (`odd`: a result that a strict utf-8 stream cannot print - what os.fsdecode gives for an undecodable file name)
    job.ret_obj = "report-of-%s-\udcff.txt" % job.name if spec.get("odd") else ("result-of", job.name)
    emitj(job, "end", job.name)
    return job.ret_obj


async def handler(job):
    emitj(job, "sdb", job.name)
    try:
        if job.spec.get("sd"):
            await asyncio.sleep(job.spec["sd"])
    except asyncio.CancelledError:
        emitj(job, "sdc", job.name)
        raise
    emitj(job, "sde", job.name)


class VJob(AbstractJob):
    def __init__(self, name, spec):
        self.name = name
        self.spec = spec
        self.h = spec.get("h", 0)
        self.exc_obj = None
        self.ret_obj = None
        self.gen = STATE["gen"]
        STATE["jobs"][name] = self
        super().__init__(label=name, critical=spec["crit"], forever=spec["forever"])

    def __hash__(self):
        return self.h

    def __eq__(self, o):
        return self is o

    async def co_run(self):
        return await body(self)

    async def co_shutdown(self):
        await handler(self)


class VPrintJob(PrintJob):
    """the library's own PrintJob (prints, sleeps `d`, returns None), observed from a thin subclass"""

    def __init__(self, name, spec):
        self.name = name
        self.spec = spec
        self.h = spec.get("h", 0)
        self.exc_obj = None
        self.ret_obj = None
        self.gen = STATE["gen"]
        STATE["jobs"][name] = self
        super().__init__("message of " + name, sleep=spec["d"], label=name)
        self.critical = spec["crit"]
        self.forever = spec["forever"]

    def __hash__(self):
        return self.h

    def __eq__(self, o):
        return self is o

    async def co_run(self):
        emitj(self, "begin", self.name)
        try:
            r = await super().co_run()
        except asyncio.CancelledError:
            emitj(self, "cseen", self.name)
            emitj(self, "cdone", self.name)
            raise
        self.ret_obj = r
        emitj(self, "end", self.name)
        return r

    async def co_shutdown(self):
        await handler(self)


def job_class(node):
    if node.get("cls") == "print" and not node.get("exc") and node.get("d") is not None \
            and not node.get("k") and not node.get("ch") and not node.get("peek"):
        return VPrintJob
    return VCoJob if node.get("coro") else VJob


class VCoJob(Job):
    """coroutine-based Job"""

    def __init__(self, name, spec):
        self.name = name
        self.spec = spec
        self.h = spec.get("h", 0)
        self.exc_obj = None
        self.ret_obj = None
        self.gen = STATE["gen"]
        STATE["jobs"][name] = self
        super().__init__(body(self), coshutdown=handler(self), label=name, critical=spec["crit"], forever=spec["forever"])

    def __hash__(self):
        return self.h

    def __eq__(self, o):
        return self is o

    async def co_shutdown(self):
        # Job.co_shutdown returns at once when coshutdown is falsy; ours is a coroutine object
        STATE["taskinfo"].setdefault(id(asyncio.current_task()), ("handler", self.name))
        return await super().co_shutdown()


def mksched(base, plain=False):
    class V(base):
        def __init__(self, *a, name, spec):
            self.name = name
            self.spec = spec
            self.h = spec.get("h", 0)
            self.gen = STATE["gen"]
            STATE["jobs"][name] = self
            kw = dict(jobs_window=spec.get("w"), timeout=spec.get("T"), shutdown_timeout=spec.get("sdT", 1),
                      verbose=spec.get("verbose", False))
            if base is Scheduler:
                kw.update(label=name, critical=spec["crit"], forever=spec["forever"])
            super().__init__(*a, **kw)

        async def co_run(self):
            old = CUR.get()
            CUR.set(self.name)
            emitj(self, "rbegin", self.name)
            try:
                r = await super().co_run()
                emitj(self, "rret", self.name, r)
                return r
            except asyncio.CancelledError:
                emitj(self, "rcancel", self.name)
                raise
            except (Hang, GeneratorExit):
                raise
            except BaseException as e:                      # noqa
                emitj(self, "rraise", self.name, exc_id(e))
                raise
            finally:
                CUR.set(old)

        async def co_shutdown(self):
            old, oldp = CUR.get(), CUR_PHASE.get()
            CUR.set(self.name)
            CUR_PHASE.set("sd")
            emitj(self, "sdcall", self.name, task_ctx())
            try:
                r = await super().co_shutdown()
                emitj(self, "sdret", self.name, r, task_ctx())
                return r
            except GeneratorExit:
                raise
            except BaseException:                           # noqa
                emitj(self, "sdexc", self.name, None, task_ctx())
                raise
            finally:
                CUR_PHASE.set(oldp)
                CUR.set(old)
    if not plain:
        # a chosen hash, so that the iteration order of the sets holding schedulers is the scenario's
        V.__hash__ = lambda self: self.h
        V.__eq__ = lambda self, o: self is o
    return V


VS = mksched(Scheduler)
VP = mksched(PureScheduler)
# the same without any hash / equality of our own: whatever the library defines (or inherits from object) applies
VS_PLAIN = mksched(Scheduler, plain=True)
VP_PLAIN = mksched(PureScheduler, plain=True)


class StrictOut(io.TextIOWrapper):
    """a standard output like the interpreter's own (utf-8, errors="strict"); a message it cannot encode is logged with
    the scheduler whose orchestration was printing it"""

    def write(self, text):
        try:
            return super().write(text)
        except UnicodeError:
            emit("outfail", CUR.get())
            raise


def exc_id(e):
    """identity of an exception object: the job that raised it, or the scheduler whose TimeoutError it is"""
    for n, j in STATE["jobs"].items():
        if getattr(j, "exc_obj", None) is e:
            return "job:" + n
    if isinstance(e, TimeoutError):
        ids = STATE["timeout_ids"]
        if id(e) not in ids:
            # first sighting: the innermost scheduler whose co_run raised it
            ids[id(e)] = (CUR.get(), e)          # keep the object alive: ids are not reused
        return "timeout:" + str(ids[id(e)][0])
    if not isinstance(e, (Hang, asyncio.CancelledError)) and CUR.get() is not None:
        # an exception of the orchestration code itself (a verbose message that cannot be printed, say): it belongs to
        # the innermost scheduler out of whose co_run it first came
        ids = STATE.setdefault("orch_ids", {})
        if id(e) not in ids:
            ids[id(e)] = (CUR.get(), e)
        return "orch:" + str(ids[id(e)][0])
    return "other:%s:%s" % (type(e).__name__, e)


def _walk(node, parent=None):
    yield node, parent
    for c in node.get("children", []):
        yield from _walk(c, node)


def _names(sc):
    return {n["name"] for n, _ in _walk(sc["tree"])}


def build(sc):
    objs = {}

    between = (sc.get("between") or {}) if sc.get("rerun") else {}
    fill_later = []
    later_jobs = set(between.get("added_jobs", []))
    first = between.get("attrs", {})

    def mk(node):
        name = node["name"]
        if node["kind"] == "job":
            differs = any(f in BODY for f in first.get(name, {}))
            o = job_class(dict(node, cls=None) if differs else node)(name, node)
        else:
            kids = [mk(c) for c in node["children"]]
            cls = (VP_PLAIN if node.get("pure") else VS_PLAIN) if sc.get("plain") else (VP if node.get("pure") else VS)
            # (jobs that join the scheduler only between the two runs are built, but not given to it yet)
            first_kids = [k for k in kids if k.name not in later_jobs]
            if sc.get("late_fill"):
                # "declare first, populate later": schedulers are created empty, wired, and only then filled
                fill_later.append((name, first_kids))
                first_kids = []
            o = cls(*first_kids, name=name, spec=node)
        objs[name] = o
        # attributes as they are during the FIRST run (`sc["tree"]` describes the second, judged, run)
        for field, val in first.get(name, {}).items():
            if field in BODY:
                o.spec = dict(o.spec, **{field: val})
            else:
                setattr(o, ATTR[field], val)
        return o
    top = mk(sc["tree"])

    late = sc.get("late") or {}
    final = {(n["name"], r) for n, _ in _walk(sc["tree"]) for r in n.get("req", [])}
    # (`sc["tree"]` is the final graph whatever the shrinker did to it: a late edge that is no longer a requirement
    # there is dropped, a removed pair that has become one is left in place)
    late = dict(late, edges=[e for e in late.get("edges", []) if tuple(e) in final and e[0] in _names(sc) and e[1] in _names(sc)],
                removed=[e for e in late.get("removed", []) if tuple(e) not in final and e[0] in _names(sc) and e[1] in _names(sc)]) if late else late
    late_add = {(a, b) for a, b in late.get("edges", [])}
    # between two runs: edges that exist only in the second run (or touch a job that joins later)
    late_add |= {(a, b) for a, b in final if tuple([a, b]) in {tuple(e) for e in between.get("edges", [])}
                 or a in later_jobs or b in later_jobs}

    def link(node):
        for r in node.get("req", []):
            if (node["name"], r) not in late_add:
                objs[node["name"]].requires(objs[r])
        for c in node.get("children", []):
            link(c)
    link(sc["tree"])
    for name, kids in fill_later:
        if kids:
            objs[name].update(kids)
    if late:
        # the graph is inspected, THEN edited (requirements added among jobs already in place, others removed), then
        # run: whatever the inspection cached (back-links, marks, ids) must not survive into the run.
        # `sc["tree"]` describes the final graph.
        for a, b in late.get("removed", []):
            objs[a].requires(objs[b])
        gone = []
        for g in late.get("dropped", []):
            if g["sched"] in objs and g["after"] in objs and g["before"] in objs and \
                    objs[g["after"]] in objs[g["before"]].required:
                # `before` requires `gone` requires `after`, instead of `before` requires `after`
                o = VJob(g["name"], dict(kind="job", name=g["name"], d=1, k=0, exc=False, crit=False, forever=False,
                                         ch=0, sd=0, h=97 + len(gone), coro=False, req=[g["after"]]))
                objs[g["sched"]].add(o)
                o.requires(objs[g["after"]])
                objs[g["before"]].requires(objs[g["after"]], remove=True)
                objs[g["before"]].requires(o)
                gone.append((g, o))
        with contextlib.redirect_stdout(io.StringIO()):
            for op in late.get("inspect", []):
                for o in [x for x in objs.values() if isinstance(x, PureScheduler)]:
                    try:
                        if op == "exit_jobs":
                            list(o.exit_jobs())
                        elif op == "list":
                            o.list()
                        elif op == "dot":
                            o.dot_format()
                        elif op == "check":
                            o.check_cycles()
                        elif op == "succ":
                            o.successors_downstream(*list(o.entry_jobs())[:1])
                        elif op == "pred":
                            o.predecessors_upstream(*list(o.exit_jobs())[:1])
                    except Exception:                       # noqa
                        pass
        for a, b in late.get("edges", []):
            objs[a].requires(objs[b])
        for a, b in late.get("removed", []):
            objs[a].requires(objs[b], remove=True)
        for g, o in gone:
            if g["how"] == "bypass":
                objs[g["sched"]].bypass_and_remove(o)
            else:
                # by hand: the member is removed and its dependant re-linked (no sanitize() either)
                objs[g["sched"]].remove(o)
                objs[g["before"]].requires(o, remove=True)
                objs[g["before"]].requires(objs[g["after"]])
    for a, b in between.get("removed", []):
        if (a, b) not in final and a in objs and b in objs and a not in later_jobs and b not in later_jobs:
            objs[a].requires(objs[b])
    return top, objs


ATTR = {"T": "timeout", "w": "jobs_window", "sdT": "shutdown_timeout", "crit": "critical", "forever": "forever"}
# what the body of a job does (duration, extra loop iterations, raising) is read from `job.spec` when the body starts
BODY = ("d", "k", "exc")


def apply_between(sc, objs):
    """what the user does between the two runs of a `rerun` scenario: attributes set to their final values, jobs added,
    requirements added / removed, inspection calls; after it the objects are in the state `sc["tree"]` describes"""
    between = sc.get("between") or {}
    final = {(n["name"], r) for n, _ in _walk(sc["tree"]) for r in n.get("req", [])}
    later_jobs = set(between.get("added_jobs", []))
    parent = {c["name"]: n["name"] for n, _ in _walk(sc["tree"]) for c in n.get("children", [])}
    specs = {n["name"]: n for n, _ in _walk(sc["tree"])}
    with contextlib.redirect_stdout(io.StringIO()):
        for op in between.get("inspect", []):
            for o in [x for x in objs.values() if isinstance(x, PureScheduler)]:
                try:
                    if op == "exit_jobs":
                        list(o.exit_jobs())
                    elif op == "list":
                        o.list()
                    elif op == "dot":
                        o.dot_format()
                    elif op == "check":
                        o.check_cycles()
                    elif op == "debrief":
                        o.debrief()
                except Exception:                           # noqa
                    pass
    for name, fields in between.get("attrs", {}).items():
        for field in fields:
            if field in BODY:
                objs[name].spec = specs[name]
            else:
                setattr(objs[name], ATTR[field], specs[name].get(field))
    for name in between.get("added_jobs", []):
        if name in parent:
            objs[parent[name]].add(objs[name])
    for a, b in final:
        if [a, b] in [list(e) for e in between.get("edges", [])] or a in later_jobs or b in later_jobs:
            objs[a].requires(objs[b])
    for a, b in between.get("removed", []):
        if (a, b) not in final and a in objs and b in objs and objs[b] in objs[a].required:
            objs[a].requires(objs[b], remove=True)


def res_id(j):
    """identity of result / exception of a job, as the inspection API reports it"""
    try:
        done = j.is_done()
    except Exception:                                       # noqa
        return "?"
    rx = j.raised_exception()
    if rx is not None and rx is not False:
        return "exc:" + exc_id(rx)
    if rx is False:
        tag = "False"
    else:
        tag = "None"
    if done:
        try:
            r = j.result()
        except Exception as e:                              # noqa
            return "result-raises:" + type(e).__name__
        if r is getattr(j, "ret_obj", object()):
            return "ret:own:" + tag
        if r is True or r is False:
            return "ret:%s:%s" % (r, tag)
        return "ret:other:" + tag
    return "none:" + tag


def snapshot():
    out = {}
    for n, j in STATE["jobs"].items():
        if not hasattr(j, "is_done"):
            continue
        out[n] = [bool(j.is_idle()), bool(j.is_scheduled()), bool(j.is_running()), bool(j.is_done()), res_id(j)]
    return out


def run(sc, linger=None, shutdown_again=True):
    """run one scenario on the real library; returns (res, trace)"""
    LOG.clear()
    STATE["gen"] += 1
    STATE["jobs"] = {}
    STATE["tasks"] = []
    STATE["taskinfo"] = {}
    STATE["cancelled"] = set()
    STATE["timeout_ids"] = {}
    STATE["orch_ids"] = {}
    STATE["top_task"] = None
    loop = VLoop()
    STATE["loop"] = loop
    asyncio.set_event_loop(loop)
    loop.set_task_factory(factory)
    loop.on_quiet = lambda: emit("snap", None, snapshot())
    loop.set_exception_handler(lambda l, ctx: None)
    linger = sc.get("linger", 40) if linger is None else linger
    rt = time.time
    time.time = loop.time
    asyncio.wait = vwait
    asyncio.Queue = VQueue
    res = {}
    so = sys.stdout
    # (`strict_out`: a standard output like the interpreter's own - utf-8, errors="strict" - instead of a StringIO)
    sys.stdout = StrictOut(io.BytesIO(), encoding="utf-8", errors="strict") if sc.get("strict_out") else io.StringIO()
    STATE["active"] = True
    try:
        top, objs = build(sc)

        async def main():
            if sc.get("rerun"):
                # the same scheduler object run a first time, to its end; what is judged is the SECOND run
                # (the first run may be that of a nested scheduler on its own: `between.first_root`)
                first_root = objs.get((sc.get("between") or {}).get("first_root"), top)
                try:
                    await first_root.co_run()
                except (Hang, GeneratorExit, KeyboardInterrupt):
                    raise
                except BaseException:                       # noqa
                    pass
                await asyncio.sleep(linger)
                if sc.get("between"):
                    if sc["between"].get("shutdown"):
                        try:
                            await top.co_shutdown()
                        except Exception:                   # noqa
                            pass
                    apply_between(sc, objs)
                emit("rerun", None)
            try:
                if sc.get("cancel_top") is not None:
                    # the run is cancelled from outside (asyncio.wait_for around run(), task.cancel()): a fourth way
                    # for a run to end; whatever the properties say of "any exit path" applies
                    STATE["skip_next"] = True
                    t_run = asyncio.ensure_future(top.co_run())
                    STATE["top_task"] = id(t_run)
                    loop.call_later(sc["cancel_top"], t_run.cancel)
                    try:
                        res["r"] = ("ret", await t_run)
                    except asyncio.CancelledError:
                        res["r"] = ("cancelled", "-")
                else:
                    res["r"] = ("ret", await top.co_run())
            except (Hang, GeneratorExit, KeyboardInterrupt):
                raise
            except BaseException as e:                      # noqa
                res["r"] = ("raise", exc_id(e), type(e).__name__)
            res["diag"] = {n: [o.failed_time_out(), o.failed_critical(), o.why()] for n, o in objs.items()
                           if isinstance(o, PureScheduler)}
            res["stats"] = {n: o.stats() for n, o in objs.items() if isinstance(o, PureScheduler)}
            emit("topend", None)
            res["final"] = snapshot()
            emit("snap", None, res["final"])
            await asyncio.sleep(linger)
            emit("lingered", None)
            if shutdown_again:
                # a later explicit shutdown sends nothing more (C13)
                res["again"] = await top.co_shutdown()
                await asyncio.sleep(5)
                emit("again-done", None)
        try:
            loop.run_until_complete(main())
        except Hang as e:
            res["hang"] = str(e)
        res["unfinished"] = [STATE["taskinfo"].get(id(t), ("?", "?")) for t in STATE["tasks"] if not t.done()]
        res["stdout_len"] = len(sys.stdout.getvalue()) if hasattr(sys.stdout, "getvalue") else sys.stdout.buffer.tell()
        return res, list(LOG)
    finally:
        STATE["active"] = False
        time.time = rt
        asyncio.wait = _orig_wait
        asyncio.Queue = asyncio.queues.Queue
        try:
            # leave no orphan behind: cancel what is left and let it unwind
            loop.cleanup = True
            loop.on_quiet = None
            for _ in range(5):
                left = [t for t in STATE["tasks"] if not t.done()]
                if not left:
                    break
                for t in left:
                    t.cancel()
                try:
                    loop.run_until_complete(asyncio.wait(left, timeout=50))
                except BaseException:                       # noqa
                    break
            for j in STATE["jobs"].values():
                for att in ("corun", "coshutdown"):
                    co = getattr(j, att, None)
                    if co is not None and hasattr(co, "close"):
                        try:
                            co.close()
                        except BaseException:               # noqa
                            pass
        except BaseException:                               # noqa
            pass
        try:
            loop.close()
        except BaseException:                               # noqa
            pass
        sys.stdout = so
        asyncio.set_event_loop(None)
