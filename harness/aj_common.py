"""
Shared machinery of the checks: paths, the Lean driver process, the proof audit,
evidence files, known findings, the decision a check takes (DESIGN.md 3.4).

Runs under /venv/bin/python (3.12, the interpreter the repository is installed for).
"""
import json, os, re, subprocess, sys, time, hashlib, random

VERIF = os.path.dirname(os.path.dirname(os.path.abspath(__file__)))
REPO = os.environ.get("AJ_REPO", "/repo")
LEAN = os.environ.get("AJ_LEAN_DIR") or os.path.join(VERIF, "lean")
DRIVER = os.path.join(LEAN, ".lake", "build", "bin", "ajdriver")
EVIDENCE = os.environ.get("AJ_EVIDENCE_DIR") or os.path.join(VERIF, "evidence")
REPLAYS = os.environ.get("AJ_REPLAY_DIR") or os.path.join(VERIF, "replays")
ALLOWED_AXIOMS = {"propext", "Classical.choice", "Quot.sound"}

TRUSTED_BASE = [
    "Lean 4.33 kernel; axioms allowed: propext, Classical.choice, Quot.sound (audited per run with #print axioms)",
    "hand-written Lean models of the listed asynciojobs functions (lean/AJ/Model/*.lean); tied to /repo's working tree "
    "only by the correspondence check of this run (differential testing: bounded by its generators)",
    "the Python harness (harness/*.py): object builders, canonicalisation, reference oracles, virtual-time loop",
    "the driver's line parser (lean/Driver.lean, lean/AJ/DriverDyn.lean), executable, not proved",
    "CPython 3.12.1 / asyncio semantics as assumed in DESIGN.md 4.3 (A1-A8), re-checked on every replayed trace",
]


class Infra(Exception):
    """infrastructure failure: exit 2, never a VIOLATION"""


def build_lean(quiet=True):
    """(re)build the library and the driver; no-op when up to date"""
    t0 = time.time()
    p = subprocess.run(["lake", "build", "AJ", "ajdriver"], cwd=LEAN, capture_output=True, text=True)
    return p.returncode == 0, p.stdout + p.stderr, time.time() - t0


class Driver:
    """batch interface to ajdriver: send all request lines, read all answers"""

    def __init__(self):
        if not os.path.exists(DRIVER):
            raise Infra("ajdriver not built")

    def ask(self, lines):
        if not lines:
            return []
        for l in lines:
            if "\n" in l:
                raise Infra("newline in request")
        p = subprocess.run([DRIVER], input="\n".join(lines) + "\n", capture_output=True, text=True)
        if p.returncode != 0:
            raise Infra("ajdriver failed: " + p.stderr[-2000:])
        out = p.stdout.split("\n")
        if out and out[-1] == "":
            out.pop()
        if len(out) != len(lines):
            raise Infra("ajdriver answered %d lines for %d requests" % (len(out), len(lines)))
        return out


# ---------------------------------------------------------------------------- proof audit

SCAN_RE = re.compile(r"\bsorry\b|\badmit\b|^\s*axiom\s|native_decide|bv_decide|implemented_by|\bunsafe\s|maxHeartbeats\s+0")


def strip_comments(src):
    # remove /- ... -/ (nested) and -- comments
    out = []
    i = 0
    depth = 0
    n = len(src)
    while i < n:
        if src.startswith("/-", i):
            depth += 1
            i += 2
            continue
        if depth and src.startswith("-/", i):
            depth -= 1
            i += 2
            continue
        if depth:
            if src[i] == "\n":
                out.append("\n")
            i += 1
            continue
        if src.startswith("--", i):
            while i < n and src[i] != "\n":
                i += 1
            continue
        out.append(src[i])
        i += 1
    return "".join(out)


def source_scan():
    """forbidden constructs in the Lean library, outside comments"""
    hits = []
    for root, _, files in os.walk(LEAN):
        if ".lake" in root:
            continue
        for f in files:
            if not f.endswith(".lean"):
                continue
            path = os.path.join(root, f)
            body = strip_comments(open(path).read())
            for ln, line in enumerate(body.split("\n"), 1):
                if SCAN_RE.search(line):
                    hits.append("%s:%d: %s" % (os.path.relpath(path, VERIF), ln, line.strip()))
    return hits


def obligations_of(pid):
    obl = json.load(open(os.path.join(LEAN, "obligations.json")))
    return obl.get(pid, {"theorems": [], "partial": [], "components": []})


def audit(pid, leanchecker=False):
    """#print axioms for every theorem of the property. Returns dict with per-theorem axioms,
    the list of problems (missing theorem, forbidden axiom, source-scan hit)."""
    ob = obligations_of(pid)
    names = ob["theorems"]
    res = {"theorems": {}, "problems": [], "obligations": len(names), "discharged": 0}
    hits = source_scan()
    if hits:
        res["problems"] += ["source-scan: " + h for h in hits]
    if names:
        tmp = os.path.join(LEAN, ".lake", "audit_%s_%d.lean" % (pid, os.getpid()))
        with open(tmp, "w") as f:
            f.write("import AJ\n")
            for nm in names:
                f.write("#print axioms %s\n" % nm)
        p = subprocess.run(["lake", "env", "lean", tmp], cwd=LEAN, capture_output=True, text=True)
        os.unlink(tmp)
        out = p.stdout + p.stderr
        # parse "'name' depends on axioms: [a, b]" / "'name' does not depend on any axioms"
        flat = re.sub(r"\s+", " ", out)
        for nm in names:
            m = re.search(r"'%s' depends on axioms: \[([^\]]*)\]" % re.escape(nm), flat)
            if m:
                ax = [a.strip() for a in m.group(1).split(",") if a.strip()]
            elif re.search(r"'%s' does not depend on any axioms" % re.escape(nm), flat):
                ax = []
            else:
                res["problems"].append("theorem %s does not check (unknown constant or build error)" % nm)
                continue
            res["theorems"][nm] = ax
            bad = [a for a in ax if a not in ALLOWED_AXIOMS]
            if bad:
                res["problems"].append("theorem %s depends on %s" % (nm, bad))
            else:
                res["discharged"] += 1
        if p.returncode != 0 and not res["problems"]:
            res["problems"].append("audit file failed: " + out[-500:])
    if leanchecker:
        p = subprocess.run(["lake", "env", "leanchecker", "AJ.Props"], cwd=LEAN, capture_output=True, text=True)
        res["leanchecker"] = "ok" if p.returncode == 0 else "FAILED: " + (p.stdout + p.stderr)[-500:]
        if p.returncode != 0:
            res["problems"].append("leanchecker rejected AJ.Props")
    return res


# ---------------------------------------------------------------------------- findings

def load_findings():
    path = os.path.join(VERIF, "known_findings.json")
    if not os.path.exists(path):
        return []
    return json.load(open(path))["findings"]


def tree_hash():
    """content hash of the package under test"""
    h = hashlib.sha256()
    d = os.path.join(REPO, "asynciojobs")
    for f in sorted(os.listdir(d)):
        if f.endswith(".py"):
            h.update(f.encode())
            h.update(open(os.path.join(d, f), "rb").read())
    return h.hexdigest()[:16]


def write_replay(pid, payload, tag=None):
    os.makedirs(REPLAYS, exist_ok=True)
    name = "%s-%s.json" % (pid, tag or hashlib.sha256(json.dumps(payload, sort_keys=True, default=str).encode()).hexdigest()[:10])
    path = os.path.join(REPLAYS, name)
    with open(path, "w") as f:
        json.dump(payload, f, indent=1, sort_keys=True, default=str)
    return path


def write_evidence(pid, tier, seed, coverage, wall_s, violations, assumptions=None):
    os.makedirs(EVIDENCE, exist_ok=True)
    ev = {
        "property_id": pid, "tier": tier, "seed": seed, "level": "proof",
        "coverage": coverage, "wall_s": round(wall_s, 2), "violations": violations,
        "assumptions": assumptions or [],
    }
    tmp = os.path.join(EVIDENCE, pid + ".json.tmp")
    with open(tmp, "w") as f:
        json.dump(ev, f, indent=1, default=str)
    os.replace(tmp, os.path.join(EVIDENCE, pid + ".json"))


class Result:
    """what one run of a property's correspondence + oracles produced"""

    def __init__(self):
        self.evaluations = 0
        self.nontrivial = set()       # keys of distinct non-trivial cases
        self.rule = ""
        self.samples = []
        self.violations = []          # (clause, case) : the property fails on the real code
        self.mismatches = []          # (component, case, expected(model), observed(impl))
        self.components = {}          # component -> number of comparisons
        self.dist = {}                # measured input distribution
        self.notes = []

    def count(self, comp, k=1):
        self.components[comp] = self.components.get(comp, 0) + k

    def hist(self, name, key):
        d = self.dist.setdefault(name, {})
        d[str(key)] = d.get(str(key), 0) + 1
