"""
Independent parser for the subset of the DOT language that dot_format() uses
(https://graphviz.org/doc/info/lang.html): digraph, subgraph, attribute lists, `a -> b`,
`ID = ID`, numerals / identifiers / double-quoted strings whose only escape is \\".
Written from the grammar, not from the code under test.
"""
import re


class DotSyntaxError(Exception):
    pass


ID_RE = re.compile(r"[A-Za-z_\200-\377][A-Za-z_0-9\200-\377]*|-?(?:\.[0-9]+|[0-9]+(?:\.[0-9]*)?)")


def tokens(src):
    out = []
    i, n = 0, len(src)
    while i < n:
        c = src[i]
        if c.isspace():
            i += 1
            continue
        if c == '"':
            j = i + 1
            buf = []
            while True:
                if j >= n:
                    raise DotSyntaxError("unterminated string")
                if src[j] == "\\" and j + 1 < n and src[j + 1] == '"':
                    buf.append('"')
                    j += 2
                    continue
                if src[j] == '"':
                    break
                buf.append(src[j])
                j += 1
            out.append(("str", "".join(buf)))
            i = j + 1
            continue
        if src.startswith("->", i):
            out.append(("punct", "->"))
            i += 2
            continue
        if c in "{}[];,=":
            out.append(("punct", c))
            i += 1
            continue
        m = ID_RE.match(src, i)
        if not m or m.end() == i:
            raise DotSyntaxError("unexpected character %r at %d" % (c, i))
        out.append(("id", m.group(0)))
        i = m.end()
    return out


def unquote(q):
    toks = tokens(q)
    if len(toks) != 1 or toks[0][0] != "str":
        raise DotSyntaxError("not a single quoted string")
    return toks[0][1]


class Graph:
    def __init__(self):
        self.nodes = []       # (id, cluster or None, attrs)
        self.clusters = []    # (name, parent cluster or None, graph attrs)
        self.edges = []       # (tail, head, attrs)
        self.edge_clusters = []   # same index as edges: the cluster whose body holds the edge statement (None = top)
        self.compound = None


def parse(src):
    toks = tokens(src)
    pos = [0]
    g = Graph()

    def peek():
        return toks[pos[0]] if pos[0] < len(toks) else (None, None)

    def take(kind=None, val=None):
        t = peek()
        if t[0] is None or (kind and t[0] != kind) or (val is not None and t[1] != val):
            raise DotSyntaxError("expected %s %s, got %s at token %d" % (kind, val, t, pos[0]))
        pos[0] += 1
        return t

    def is_id(t):
        return t[0] in ("id", "str")

    def attr_list():
        attrs = {}
        take("punct", "[")
        while peek() != ("punct", "]"):
            k = peek()
            if not is_id(k):
                raise DotSyntaxError("attribute name expected, got %s" % (k,))
            pos[0] += 1
            take("punct", "=")
            v = peek()
            if not is_id(v):
                raise DotSyntaxError("attribute value expected, got %s" % (v,))
            pos[0] += 1
            if k[1] in attrs:
                raise DotSyntaxError("duplicate attribute " + k[1])
            attrs[k[1]] = v[1]
            if peek() in (("punct", ","), ("punct", ";")):
                pos[0] += 1
        take("punct", "]")
        return attrs

    def stmts(cluster):
        gattrs = {}
        while peek() != ("punct", "}"):
            t = peek()
            if t[0] is None:
                raise DotSyntaxError("unexpected end of input")
            if t == ("id", "subgraph"):
                pos[0] += 1
                name = take("id")[1]
                if not name.startswith("cluster"):
                    raise DotSyntaxError("subgraph is not a cluster: " + name)
                take("punct", "{")
                idx = len(g.clusters)
                g.clusters.append(None)
                sub = stmts(name)
                take("punct", "}")
                g.clusters[idx] = (name, cluster, sub)
            elif t == ("id", "graph") and toks[pos[0] + 1] == ("punct", "["):
                pos[0] += 1
                gattrs.update(attr_list())
            elif is_id(t):
                pos[0] += 1
                nxt = peek()
                if nxt == ("punct", "="):
                    pos[0] += 1
                    v = peek()
                    if not is_id(v):
                        raise DotSyntaxError("value expected")
                    pos[0] += 1
                    if t[1] == "compound":
                        g.compound = (v[1] == "true")
                elif nxt == ("punct", "->"):
                    pos[0] += 1
                    h = peek()
                    if not is_id(h):
                        raise DotSyntaxError("edge head expected")
                    pos[0] += 1
                    attrs = attr_list() if peek() == ("punct", "[") else {}
                    g.edges.append((t[1], h[1], attrs))
                    g.edge_clusters.append(cluster)
                else:
                    attrs = attr_list() if peek() == ("punct", "[") else {}
                    g.nodes.append((t[1], cluster, attrs))
            else:
                raise DotSyntaxError("unexpected token %s" % (t,))
            if peek() == ("punct", ";"):
                pos[0] += 1
        return gattrs

    take("id", "digraph")
    if is_id(peek()):
        pos[0] += 1
    take("punct", "{")
    stmts(None)
    take("punct", "}")
    if pos[0] != len(toks):
        raise DotSyntaxError("trailing tokens")
    return g
