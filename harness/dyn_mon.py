"""
Trace oracles for the dynamic properties C01-C14, evaluated on what the REAL library did
(the trace of dyn_rt.run).  They read job-level lines (what a user could log from job code and from
run()'s return) and, where the property speaks of cancellation / scheduling, the asyncio-level lines
`create` / `cancel` / `hcancel`.  Each clause is written against the text of properties.jsonl; where the
property cannot mean more than "same instant" the clause accepts either order (DESIGN.md section 6).

check(pid, sc, res, trace) -> list of clause strings (empty = the property held on this trace)
"""
from dyn_gen import index, may_never_end

BEG = {"begin", "rbegin"}
FIN = {"end", "raise", "rret", "rraise"}
STOP = FIN | {"cdone", "rcancel"}
JOBLEVEL = BEG | STOP | {"cseen", "sdb", "sde", "sdc"}
INF = 10 ** 9


class View:
    """indexes over one trace"""

    def __init__(self, sc, res, trace):
        self.sc, self.res = sc, res
        self.info = index(sc)
        info = self.info
        # drop lines about objects of other scenarios (orphan coroutines closed by the GC)
        self.log = [e for e in trace if e[2] in ("snap", "topend", "lingered", "again-done") or
                    (isinstance(e[3], str) and e[3] in info) or e[3] is None]
        self.top = sc["tree"]["name"]
        self.began, self.fin, self.stop, self.created, self.cancel, self.hcancel = {}, {}, {}, {}, {}, {}
        self.begin_count = {}
        self.sdb, self.sdcalls = {}, []
        self.topend = None
        self.lingered = None
        for p, e in enumerate(self.log):
            t, kind, who = e[0], e[2], e[3]
            if kind in BEG:
                self.begin_count[who] = self.begin_count.get(who, 0) + 1
                self.began.setdefault(who, (p, t))
            if kind in FIN:
                self.fin.setdefault(who, (p, t, kind) + tuple(e[4:]))
            if kind in STOP:
                self.stop.setdefault(who, (p, t, kind))
            if kind == "create":
                self.created.setdefault(who, (p, t))
            if kind == "cancel":
                self.cancel.setdefault(who, (p, t))
            if kind == "hcancel":
                self.hcancel.setdefault(who, []).append((p, t))
            if kind == "sdb":
                self.sdb.setdefault(who, []).append((p, t))
            if kind == "topend":
                self.topend = p
            if kind == "lingered":
                self.lingered = p
        self.children = {n: [c["name"] for c in i.get("children", [])] for n, i in info.items() if i["kind"] == "sched"}

    def descendants(self, s):
        out = []
        for c in self.children.get(s, []):
            out.append(c)
            out += self.descendants(c)
        return out

    def is_sched(self, n):
        return self.info[n]["kind"] == "sched"

    def raised(self, c, before_pos=INF):
        f = self.fin.get(c)
        return f is not None and f[0] < before_pos and f[2] in ("raise", "rraise")

    def exc_of(self, c):
        f = self.fin.get(c)
        if f is None:
            return None
        if f[2] == "raise":
            return "job:" + c
        if f[2] == "rraise":
            return f[3]
        return None


def admissible(sc):
    """the hypotheses of C03's first sentence"""
    info = index(sc)
    for n, i in info.items():
        if i["kind"] != "sched":
            continue
        kids = i["children"]
        if i["T"] is None and kids and all(k["forever"] for k in kids):
            return False
        never = {k["name"] for k in kids if may_never_end(k)}
        # transitive dependants of never-ending jobs
        dep = set(never)
        changed = True
        while changed:
            changed = False
            for k in kids:
                if k["name"] not in dep and any(r in dep for r in k["req"]):
                    dep.add(k["name"])
                    changed = True
        if any(not k["forever"] for k in kids if k["name"] in dep):
            return False
        if i["w"] and i["w"] <= len(never):
            return False
    return True


# --------------------------------------------------------------------------------- clauses

def descendants(v, s):
    out = []
    for c in v.info[s].get("children", []):
        out.append(c["name"])
        out += descendants(v, c["name"])
    return out


def c01(v):
    V = []
    for p, e in enumerate(v.log):
        if e[2] in BEG:
            j = e[3]
            for r in v.info[j].get("req", []):
                f = v.fin.get(r)
                if f is None or f[0] > p:
                    V.append("C01 %s began at t=%d before its requirement %s finished" % (j, e[0], r))
                elif v.is_sched(r):
                    # "finished" means that the whole run of the nested scheduler is over
                    for d in descendants(v, r):
                        if d in v.began and v.began[d][0] < p and (d not in v.stop or v.stop[d][0] > p):
                            V.append("C01 %s began at t=%d while %s, a job of its requirement %s, was still executing" % (j, e[0], d, r))
            par = v.info[j]["parent"]
            if par is not None and (par not in v.began or v.began[par][0] > p):
                V.append("C01 %s began before the run of its scheduler %s began" % (j, par))
    return V


def c02(v):
    V = []
    for j, n in v.begin_count.items():
        if n > 1:
            V.append("C02 body of %s entered %d times" % (j, n))
    for s, f in v.fin.items():
        if not v.is_sched(s) or not (f[2] == "rret" and f[3] is True):
            continue
        for c in v.info[s]["children"]:
            if c["forever"]:
                continue
            cf = v.fin.get(c["name"])
            if v.begin_count.get(c["name"], 0) != 1 or cf is None or cf[0] > f[0]:
                V.append("C02 %s reported success but its non-forever job %s did not run to its end exactly once before" % (s, c["name"]))
            elif cf[2] in ("raise", "rraise") and c["crit"]:
                V.append("C02 %s reported success but its critical job %s raised" % (s, c["name"]))
    return V


def c03(v):
    V = []
    if "hang" in v.res and (admissible(v.sc) or v.sc["tree"].get("T") is not None):
        # (a scheduler with a timeout terminates whatever its jobs do, provided they honour cancellation)
        V.append("C03 run() does not terminate (%s) on a scenario that can finish" % v.res["hang"])
    return V


def sched_facts(v, s):
    """begin instant, verdict line, causes as far as the trace shows them"""
    i = v.info[s]
    b = v.began[s][1]
    f = v.fin.get(s)
    T = i["T"]
    kids = i["children"]
    finite = [c["name"] for c in kids if not c["forever"]]
    return b, f, T, kids, finite


def deadline_instant(v, s, b, T):
    """the instant at which the expiry of the timeout of s takes effect: b+T, or — when job steps keep the loop busy —
    the first instant from b+T on at which the main wait of s returns (it cannot interrupt a step that does not await)"""
    dl = b + T
    if v.sc.get("busy"):
        back = [e[0] for e in v.log if e[2] == "wret" and e[3] == s and len(e) > 4 and e[4] == "main" and e[0] >= dl]
        if back:
            dl = min(back)
    return dl


def c04(v):
    V = []
    diag = v.res.get("diag", {})
    # a scheduler that this run never reached names no cause (whatever an earlier run of the same objects ended with)
    for s in v.info:
        if v.is_sched(s) and s not in v.began and s in diag:
            ft, fc, why = diag[s]
            if (ft is not False and ft is not None) or fc or why != "FINE":
                V.append("C04 %s did not run in this run but reports %r" % (s, diag[s]))
    # a scheduler cancelled by its enclosing scheduler while it was cleaning up after a critical failure of its own:
    # the cause of its end is still that failure
    for s in v.began:
        if not v.is_sched(s) or s in v.fin or s not in diag:
            continue
        ended, cancelled_at = v.stop.get(s), v.cancel.get(s)
        if ended is None or ended[2] != "rcancel" or cancelled_at is None:
            continue
        b, f, T, kids, finite = sched_facts(v, s)
        causes = [c for c in exit_cause_positions(v, s) if c[2] != "cancelled"]
        if causes and causes[0][2] == "critical" and causes[0][1] < cancelled_at[1] and \
                not any(c[2] != "critical" and c[1] <= causes[0][1] for c in causes) and (T is None or b + T > causes[0][1]):
            if not diag[s][1]:
                V.append("C04 failed_critical() of %s is False although its critical job raised at t=%d (it was cancelled later, "
                         "at t=%d, while cleaning up)" % (s, causes[0][1], cancelled_at[1]))
    for s in v.began:
        if not v.is_sched(s) or s not in v.fin:
            continue
        b, f, T, kids, finite = sched_facts(v, s)
        p, t, kind = f[0], f[1], f[2]
        if kind == "rraise" and f[3] == "orch:" + s:
            # the orchestration of s itself failed (a message it could not print): its run does not report, it fails;
            # for its enclosing scheduler it is a job that raised this very exception object
            continue
        pure = bool(v.info[s].get("pure"))
        critical = v.info[s]["crit"] and not pure
        crit_raised = [c["name"] for c in kids if c["crit"] and v.raised(c["name"], p)]
        allfin = all(c in v.fin and v.fin[c][0] < p for c in finite)
        strictly = all(c in v.fin and v.fin[c][0] < p and v.fin[c][1] < (b + T if T is not None else INF) for c in finite)
        expiry_possible = T is not None and t >= b + T and not strictly
        success = kind == "rret" and f[3] is True
        if success:
            if not allfin:
                V.append("C04 %s reports success although a non-forever job has not finished" % s)
            if crit_raised:
                V.append("C04 %s reports success although critical job %s raised" % (s, crit_raised))
            if T is not None:
                dl = deadline_instant(v, s, b, T)
                late = [c for c in finite if c in v.fin and v.fin[c][1] > dl]
                if late:
                    V.append("C04 %s reports success although %s finished after its timeout expired at t=%d" % (s, late, dl))
        else:
            if not crit_raised and not expiry_possible and finite:
                V.append("C04 %s failed (%s) without cause: all non-forever jobs finished before the timeout and no critical job raised" % (s, f[2:]))
            if not critical:
                if not (kind == "rret" and f[3] is False):
                    V.append("C04 non-critical/pure scheduler %s must return False on failure, got %s" % (s, f[2:]))
            else:
                if kind != "rraise":
                    V.append("C04 critical scheduler %s must raise on failure, got %s" % (s, f[2:]))
                else:
                    x = f[3]
                    if x.startswith("timeout:"):
                        if not (x == "timeout:" + s and T is not None and t >= b + T):
                            # a critical child scheduler's TimeoutError may bubble
                            if not any(v.exc_of(c) == x for c in crit_raised):
                                V.append("C04 critical scheduler %s raised TimeoutError without an expiry of its own or of a critical child" % s)
                    elif x.startswith("job:") or x.startswith("orch:"):
                        if not any(v.exc_of(c) == x for c in crit_raised):
                            V.append("C04 critical scheduler %s raised %s which is not the exception object of one of its critical jobs" % (s, x))
                    else:
                        V.append("C04 critical scheduler %s raised a foreign exception %s" % (s, x))
        # diagnosis
        if s in diag:
            ft, fc, why = diag[s]
            if success:
                if ft is not False and ft is not None and ft != 0 or fc or why != "FINE":
                    V.append("C04 diagnosis after success of %s names a cause: %r" % (s, diag[s]))
                if ft is not False:
                    V.append("C04 failed_time_out() of %s is %r after a success" % (s, ft))
            else:
                named_t = (ft is not False)
                if named_t == bool(fc):
                    V.append("C04 diagnosis of failed %s does not name exactly one cause: %r" % (s, diag[s]))
                if named_t and not (T is not None and t >= b + T):
                    V.append("C04 %s names a timeout that did not occur" % s)
                if fc and not crit_raised:
                    V.append("C04 %s names a critical failure that did not occur" % s)
                if named_t and not str(why).startswith("TIMED OUT"):
                    V.append("C04 why() of %s is %r after an expiry" % (s, why))
                if fc and not named_t and "CRITICAL" not in str(why):
                    V.append("C04 why() of %s is %r after a critical failure" % (s, why))
                if not finite:
                    continue
        if finite and strictly and not crit_raised and not success:
            V.append("C04 %s should have succeeded: every non-forever job finished before the timeout, no critical job raised" % s)
    return V


def live_at(v, s, pos):
    """children of s whose task exists and has not finished at trace position pos"""
    out = []
    for c in v.children[s]:
        if c in v.created and v.created[c][0] < pos and not (c in v.stop and v.stop[c][0] < pos):
            # a task cancelled before its first step never logs anything: treat 'cancel' + never began as stopped at cancel
            if c not in v.began and c in v.cancel and v.cancel[c][0] < pos:
                continue
            out.append(c)
    return out


def end_bound(v, s, t0, cancelled):
    """latest instant the run of s may end: cancellations acknowledged + bounded shutdown"""
    last = t0
    for c in cancelled:
        if c in v.stop:
            last = max(last, v.stop[c][1])
    sdT = v.info[s]["sdT"]
    return INF if sdT is None else last + sdT


def exit_cause_positions(v, s):
    """(pos, time, what) of the causes that make the run of s end, as far as the trace shows them"""
    b, f, T, kids, finite = sched_facts(v, s)
    out = []
    for c in kids:
        if c["crit"] and v.raised(c["name"]):
            out.append((v.fin[c["name"]][0], v.fin[c["name"]][1], "critical"))
    if finite and all(c in v.fin for c in finite):
        last = max(v.fin[c] for c in finite)
        out.append((last[0], last[1], "success"))
    if not finite:
        # a scheduler whose jobs are all forever ends (successfully) at the first completion of one of them
        firsts = sorted(v.fin[c["name"]] for c in kids if c["name"] in v.fin)
        if firsts:
            out.append((firsts[0][0], firsts[0][1], "success"))
    if s in v.stop and v.stop[s][2] == "rcancel":
        out.append((v.stop[s][0], v.stop[s][1], "cancelled"))
    return sorted(out)


def c05(v):
    V = []
    for s in v.began:
        if not v.is_sched(s):
            continue
        b, f, T, kids, finite = sched_facts(v, s)
        crits = sorted((v.fin[c["name"]][0], v.fin[c["name"]][1], c["name"]) for c in kids if c["crit"] and v.raised(c["name"]))
        if not crits:
            continue
        pc, tc, who = crits[0]
        if s in v.stop and v.stop[s][0] < pc:
            continue
        # an exit already decided strictly before (other cause at an earlier instant): other properties speak
        causes = [c for c in exit_cause_positions(v, s) if c[0] < pc and c[2] != "critical"]
        if T is not None and b + T < tc:
            continue
        if any(c[1] < tc for c in causes):
            continue
        for c in v.children[s]:
            # (a task created in the very instant of the raise and cancelled there without its body beginning is the
            #  pending reaction of that instant: the begin clauses below speak of what matters)
            if c in v.created and v.created[c][0] > pc and (v.created[c][1] > tc or c in v.began):
                V.append("C05 %s started %s after its critical job %s raised" % (s, c, who))
            if c in v.began and v.began[c][1] > tc:
                V.append("C05 %s began at t=%d, after the critical failure of %s at t=%d" % (c, v.began[c][1], who, tc))
        live = live_at(v, s, pc)
        for c in live:
            ok = (c in v.cancel and v.cancel[c][1] == tc) or (c in v.stop and v.stop[c][1] == tc)
            if not ok:
                V.append("C05 %s was still running/queued when critical job %s raised at t=%d and was not cancelled at that instant" % (c, who, tc))
            # … and the cancellation takes effect: the job does not go on to a normal completion of its own
            if c in v.stop and v.stop[c][1] > tc and v.stop[c][2] not in ("cdone", "rcancel"):
                V.append("C05 %s, running when critical job %s raised at t=%d, was not cancelled: it went on to end by itself (%s at t=%d)"
                         % (c, who, tc, v.stop[c][2], v.stop[c][1]))
        if f is not None or s in v.stop:
            tend = v.stop[s][1]
            if tend > end_bound(v, s, tc, live):
                V.append("C05 run of %s ended at t=%d, later than cancellations + shutdown_timeout after the critical failure" % (s, tend))
    return V


TIMED = ("begin", "end", "raise", "cseen", "cdone", "rbegin", "rret", "rraise", "rcancel", "sdb", "sde", "sdc")


def timed_view(v, flipped):
    """observable timed trace with the outcome of the flipped jobs erased"""
    out = []
    for e in v.log:
        k, who = e[2], e[3]
        if k not in TIMED:
            continue
        if who in flipped and k in ("end", "raise"):
            k = "finish"
        if k in ("sde", "sdc"):
            # a shutdown handler that ends exactly when shutdown_timeout expires may be seen as ended or as cancelled
            # (a tie between two timers); C06 speaks of the jobs' runs, results and the verdict, not of this
            k = "sdfin"
        extra = ()
        if k in ("rret", "rraise"):
            extra = tuple(e[4:5])
        out.append((e[0], k, who) + extra)
    return sorted(out, key=repr)


def c06_pair(va, vb, flipped):
    """va: the jobs of `flipped` return; vb: they raise; everything else must be equal"""
    V = []
    ta, tb = timed_view(va, flipped), timed_view(vb, flipped)
    if ta != tb:
        diff = [x for x in ta if x not in tb][:3] + [x for x in tb if x not in ta][:3]
        V.append("C06 switching %s from returning to raising changed the rest of the run: %s" % (flipped, diff))
    if va.res.get("r") != vb.res.get("r") or ("hang" in va.res) != ("hang" in vb.res):
        V.append("C06 switching %s from returning to raising changed the verdict: %s vs %s (hang: %s / %s)"
                 % (flipped, va.res.get("r"), vb.res.get("r"), va.res.get("hang"), vb.res.get("hang")))
    # final inspection: others unchanged, the failed job keeps its exception
    sa, sb = final_snap(va), final_snap(vb)
    if sa is not None and sb is not None:
        for n in sa:
            if n in flipped:
                if vb.fin.get(n, (0, 0, ""))[2] == "raise" and not sb[n][4].startswith("exc:job:" + n):
                    V.append("C06 the exception of %s is not retrievable from it: %s" % (n, sb[n][4]))
            elif sa[n] != sb.get(n):
                V.append("C06 inspection of %s differs between the two runs: %s vs %s" % (n, sa[n], sb.get(n)))
    return V


def final_snap(v):
    snaps = [e for e in v.log if e[2] == "snap"]
    return snaps[-1][4] if snaps else None


def c07(v):
    V = []
    running = {}
    for e in v.log:
        k, who = e[2], e[3]
        if k in BEG and v.info[who]["parent"] is not None:
            s = v.info[who]["parent"]
            running.setdefault(s, set()).add(who)
            w = v.info[s]["w"]
            if w and len(running[s]) > w:
                V.append("C07 %d jobs of %s execute at t=%d although jobs_window=%d: %s" % (len(running[s]), s, e[0], w, sorted(running[s])))
        if k in STOP and v.info[who]["parent"] is not None:
            running.get(v.info[who]["parent"], set()).discard(who)
    return V


def c08(v):
    V = []
    diag = v.res.get("diag", {})
    for s in v.began:
        if not v.is_sched(s):
            continue
        b, f, T, kids, finite = sched_facts(v, s)
        if T is None:
            continue
        dl = b + T
        if v.sc.get("busy"):
            # job steps keep the loop busy: "at that instant" is the first instant, from the expiry on, at which the
            # scheduler regains control (its main wait returns); it cannot interrupt a step that does not await
            back = [e[0] for e in v.log if e[2] == "wret" and e[3] == s and len(e) > 4 and e[4] == "main" and e[0] >= dl]
            if back:
                dl = min(back)
        causes = exit_cause_positions(v, s)
        before = [c for c in causes if c[1] < dl]
        at = [c for c in causes if c[1] == dl]
        ended = v.stop.get(s)
        if before:
            # the exit was decided strictly before the deadline: the timeout has no effect
            first = before[0]
            if first[2] == "success" and not any(c[2] == "critical" and c[0] < first[0] for c in before):
                if f is not None and not (f[2] == "rret" and f[3] is True):
                    # a critical raise at the same instant as the last completion is another cause
                    if not any(c[2] == "critical" and c[1] <= first[1] for c in causes):
                        V.append("C08 %s: all non-forever jobs finished strictly before the timeout, yet the verdict is %s" % (s, f[2:]))
                for c in finite:
                    if c in v.cancel:
                        V.append("C08 %s: non-forever job %s was cancelled although everything finished before the timeout" % (s, c))
                if s in diag and diag[s][0] is not False and f is not None:
                    V.append("C08 %s: failed_time_out() although everything finished strictly before the timeout" % s)
            continue
        if ended is not None and ended[1] < dl:
            continue
        if "hang" in v.res and ended is None and not any(e[0] >= dl for e in v.log):
            continue
        # the run is not over at b+T (ties exactly at the deadline: either outcome)
        for c in v.children[s]:
            if c in v.created and v.created[c][1] > dl:
                V.append("C08 %s started %s at t=%d after its timeout expired at t=%d" % (s, c, v.created[c][1], dl))
            if c in v.began and v.began[c][1] > dl:
                V.append("C08 %s began at t=%d, after the timeout of %s expired at t=%d" % (c, v.began[c][1], s, dl))
        late = [c for c in v.children[s] if c in v.created and v.created[c][1] <= dl and
                (c not in v.stop or v.stop[c][1] > dl) and not (c not in v.began and c in v.cancel)]
        for c in late:
            if not (c in v.cancel and v.cancel[c][1] <= dl):
                V.append("C08 %s was still running after the timeout of %s (t=%d) and was not cancelled at that instant" % (c, s, dl))
        # ... and the cancellation takes effect: only jobs that finished before the expiry are done
        for c in v.children[s]:
            if c in v.cancel and v.cancel[c][1] == dl and c in v.stop and v.stop[c][0] > v.cancel[c][0] and \
                    v.stop[c][2] not in ("cdone", "rcancel"):
                V.append("C08 %s, cancelled when the timeout of %s expired at t=%d, was not cancelled in effect: it ended by itself (%s at t=%d)"
                         % (c, s, dl, v.stop[c][2], v.stop[c][1]))
        if ended is None:
            if "hang" not in v.res:
                V.append("C08 %s never ended although its timeout expired at t=%d" % (s, dl))
            continue
        if ended[1] > end_bound(v, s, dl, late):
            V.append("C08 run of %s ended at t=%d, later than cancellations + shutdown_timeout after the expiry at t=%d" % (s, ended[1], dl))
        if not at and ended[2] != "rcancel" and v.children[s]:
            pure = bool(v.info[s].get("pure"))
            critical = v.info[s]["crit"] and not pure
            if critical:
                if not (f[2] == "rraise" and f[3] == "timeout:" + s):
                    V.append("C08 critical scheduler %s must raise TimeoutError at expiry, got %s" % (s, f[2:]))
            elif not (f[2] == "rret" and f[3] is False):
                V.append("C08 %s must return False at expiry, got %s" % (s, f[2:]))
            if s in diag and diag[s][0] is False:
                V.append("C08 failed_time_out() of %s is False after its timeout expired" % s)
        if not at and ended[2] == "rcancel" and v.children[s] and s in diag and diag[s][0] is False:
            # its timeout expired strictly before anything else ended its run, and it was cancelled only afterwards,
            # while it was cleaning up: the cause of its end is still the timeout
            cancelled_at = v.cancel.get(s)
            if cancelled_at is not None and cancelled_at[1] > dl:
                V.append("C08 failed_time_out() of %s is False although its timeout expired at t=%d (it was cancelled later, "
                         "at t=%d, while cleaning up)" % (s, dl, cancelled_at[1]))
    return V


def c09(v):
    V = []
    for s in v.began:
        if not v.is_sched(s):
            continue
        b, f, T, kids, finite = sched_facts(v, s)
        forever = [c["name"] for c in kids if c["forever"]]
        if not finite or not forever:
            continue
        if not all(c in v.fin for c in finite):
            continue
        last = max(v.fin[c] for c in finite)
        pl, tl = last[0], last[1]
        if any(c["crit"] and v.raised(c["name"]) and v.fin[c["name"]][1] <= tl for c in kids):
            continue
        if T is not None and b + T <= tl:
            continue
        if s in v.stop and v.stop[s][0] < pl:
            continue
        for c in forever:
            if c in v.created and v.created[c][0] > pl:
                V.append("C09 forever job %s started after the last regular job of %s finished" % (c, s))
            if c in v.began and v.began[c][1] > tl:
                V.append("C09 forever job %s began at t=%d after the run should have ended (t=%d)" % (c, v.began[c][1], tl))
        live = [c for c in live_at(v, s, pl) if c in forever]
        for c in live:
            if not ((c in v.cancel and v.cancel[c][1] == tl) or (c in v.stop and v.stop[c][1] == tl)):
                V.append("C09 forever job %s still running when the last regular job of %s finished at t=%d was not cancelled at that instant" % (c, s, tl))
        if s in v.stop:
            if v.stop[s][1] > end_bound(v, s, tl, live):
                V.append("C09 run of %s ended at t=%d although its last regular job finished at t=%d" % (s, v.stop[s][1], tl))
            if f is not None and v.stop[s][2] != "rcancel" and not (f[2] == "rret" and f[3] is True):
                V.append("C09 %s did not report success when its last regular job finished: %s" % (s, f[2:]))
    return V


def c09_same_rules(v):
    """until then forever jobs start under the same requirement and window rules as any job: the eagerness clause of
    C12, read for forever jobs"""
    V = []
    # ... and window rules: a window exceeded with a forever job among the jobs executing
    for c in c07(v):
        names = c[c.find("["):] if "[" in c else ""
        if any(v.info.get(n.strip(" '[]"), {}).get("forever") for n in names.strip("[]").split(",")):
            V.append("C09 forever jobs do not start under the same window rules as any job: " + c[4:])
    for c in c12(v):
        parts = c.split(" ")
        # "C12 at t=.. job <name> of <s> is eligible ..."
        if len(parts) > 4 and parts[3] == "job" and v.info.get(parts[4], {}).get("forever"):
            V.append("C09 forever job %s is not started under the same rules as any job: %s" % (parts[4], c[4:]))
    return V


def c09_no_early_cancel(v):
    """until the run has a reason to end, forever jobs are treated like any job: none is cancelled"""
    V = []
    for s in v.began:
        if not v.is_sched(s):
            continue
        b, f, T, kids, finite = sched_facts(v, s)
        if not finite:
            continue
        causes = exit_cause_positions(v, s)
        t_cause = min([c[1] for c in causes] + ([b + T] if T is not None else []) + [INF])
        # a cancellation of s itself (by its parent) is a reason too: it is logged as `cancel s`
        if s in v.cancel:
            t_cause = min(t_cause, v.cancel[s][1])
        for c in kids:
            if c["forever"] and c["name"] in v.cancel and v.cancel[c["name"]][1] < t_cause:
                V.append("C09 forever job %s of %s cancelled at t=%d although the run had no reason to end before t=%s"
                         % (c["name"], s, v.cancel[c["name"]][1], t_cause if t_cause < INF else "never"))
    return V


def c10_single(v):
    """a-c on one trace: interface, containment, bubbling (the C04 identity clause applied along chains)"""
    V = []
    snap = final_snap(v)
    # interface: seen from its parent a nested scheduler is one job - its run begins after what it requires has
    # finished, and what requires it begins after its own run is over
    for p, e in enumerate(v.log):
        if e[2] in BEG:
            j = e[3]
            if v.is_sched(j) and v.info[j]["parent"] is not None:
                for r in v.info[j].get("req", []):
                    f = v.fin.get(r)
                    if f is None or f[0] > p:
                        V.append("C10 the run of nested scheduler %s began at t=%d before its requirement %s finished" % (j, e[0], r))
            for r in v.info[j].get("req", []):
                if v.is_sched(r):
                    f = v.fin.get(r)
                    if f is None or f[0] > p:
                        V.append("C10 %s began at t=%d before the run of the nested scheduler %s it requires was over" % (j, e[0], r))
    # ... and it finishes when its own run does: once it is over for its parent, nothing of it executes any more
    for s, st in v.stop.items():
        if v.is_sched(s) and v.info[s]["parent"] is not None:
            ds = set(v.descendants(s))
            for e in v.log[st[0] + 1:]:
                if e[2] in JOBLEVEL and e[3] in ds:
                    V.append("C10 nested scheduler %s is over for its parent (%s at t=%d) but its job %s is still active (%s at t=%d)"
                             % (s, st[2], st[1], e[3], e[2], e[0]))
                    break
    for s in v.began:
        par = v.info[s]["parent"]
        if not v.is_sched(s) or par is None or s not in v.fin:
            continue
        f = v.fin[s]
        failed = not (f[2] == "rret" and f[3] is True)
        if failed and not v.info[s]["crit"]:
            if not (f[2] == "rret" and f[3] is False):
                V.append("C10 non-critical nested scheduler %s must contain its failure (return False), got %s" % (s, f[2:]))
            if snap and s in snap and snap[s][4] != "ret:False:None":
                V.append("C10 parent cannot read False as the result of the failed nested scheduler %s: %s" % (s, snap[s]))
            # the parent carries on: it is not aborted by this
            pf = v.fin.get(par)
            if pf is not None and pf[2] == "rraise" and pf[3] == v.exc_of(s):
                V.append("C10 failure of non-critical %s propagated to %s" % (s, par))
            if pf is not None and not (pf[2] == "rret" and pf[3] is True) and pf[0] > f[0]:
                # ... so a parent that fails has a cause of its own: a critical job of its own that raised, or its timeout
                pb, _, pT, pkids, _ = sched_facts(v, par)
                own = [c["name"] for c in pkids if c["crit"] and v.raised(c["name"], pf[0])]
                if not own and not (pT is not None and pf[1] >= pb + pT) and not (pf[2] == "rraise" and str(pf[3]).startswith("orch:")):
                    V.append("C10 %s failed (%s) with no cause of its own after its non-critical nested scheduler %s had failed"
                             % (par, pf[2:], s))
        if failed and v.info[s]["crit"] and f[2] == "rret" and not v.info[s].get("pure"):
            # a failed nested run propagates through a critical nested scheduler: it raises, it does not return
            V.append("C10 critical nested scheduler %s failed but returned %r instead of raising" % (s, f[3]))
        if failed and v.info[s]["crit"] and f[2] == "rraise":
            # the parent aborts exactly as for a raising critical job, the same object bubbling
            pf = v.fin.get(par)
            ppure = bool(v.info[par].get("pure"))
            if pf is not None and v.info[par]["crit"] and not ppure and pf[0] > f[0]:
                crits = sorted((v.fin[c][0], c) for c in v.children[par] if v.info[c]["crit"] and v.raised(c))
                if crits and crits[0][1] == s and len([c for c in crits if v.fin[c[1]][1] == f[1]]) == 1:
                    T = v.info[par]["T"]
                    if not (T is not None and v.began[par][1] + T <= f[1]):
                        if not (pf[2] == "rraise" and pf[3] == f[3]):
                            V.append("C10 %s raised %s but its critical parent %s ended with %s: not the same exception object" % (s, f[3], par, pf[2:]))
    return V


def c10_pair(vn, vf):
    """d: every job runs at the same times in the nested tree and in the flattened graph.
    Ties: from the instant a critical job raises, the nested tree needs a few more event-loop iterations than the
    flat graph to abort everything (each level reacts in turn), so what happens *at that very instant or later* to jobs
    that get cancelled may differ (a job may begin and be cancelled at once in one run, never begin in the other)."""
    V = []
    def abort_instant(v):
        ts = [f[1] for n, f in v.fin.items() if f[2] in ("raise", "rraise") and v.info[n]["crit"]]
        return min(ts) if ts else INF
    ta = min(abort_instant(vn), abort_instant(vf))
    for j, b in vn.began.items():
        if vn.is_sched(j):
            continue
        if j not in vf.began:
            if "hang" not in vf.res and b[1] != ta:
                V.append("C10 %s runs in the nested tree but not in the flattened graph" % j)
            continue
        if vf.began[j][1] != b[1]:
            V.append("C10 %s begins at t=%d nested, t=%d flattened" % (j, b[1], vf.began[j][1]))
        sa, sb = vn.stop.get(j), vf.stop.get(j)
        if (sa is None) != (sb is None) or (sa and (sa[1], sa[2]) != (sb[1], sb[2])):
            if not (sa and sb and sa[1] == ta and sb[1] == ta and {sa[2], sb[2]} & {"cdone"}):
                V.append("C10 %s ends %s nested, %s flattened" % (j, sa and sa[1:], sb and sb[1:]))
    for j, b in vf.began.items():
        if j not in vn.began and not vf.is_sched(j) and b[1] != ta:
            V.append("C10 %s runs in the flattened graph but not in the nested tree" % j)
    return V


def c11(v):
    V = []
    for s, st in v.stop.items():
        if not v.is_sched(s):
            continue
        ds = set(v.descendants(s))
        for e in v.log[st[0] + 1:]:
            if e[2] in JOBLEVEL and e[3] in ds:
                V.append("C11 %s of %s at t=%d after the run of its scheduler %s ended (%s at t=%d)" % (e[2], e[3], e[0], s, st[2], st[1]))
                break
    if "hang" not in v.res and v.topend is not None:
        for e in v.log[v.topend + 1:]:
            if e[2] in JOBLEVEL or e[2] in ("create", "hcreate"):
                if v.lingered is not None and v.log.index(e) > v.lingered:
                    break
                V.append("C11 activity after the top-level run ended: %s %s at t=%d" % (e[2], e[3], e[0]))
                break
        if v.res.get("unfinished"):
            V.append("C11 %d tasks created by the run are unfinished after it: %s" % (len(v.res["unfinished"]), v.res["unfinished"][:4]))
    return V


def c12(v):
    V = []
    def cause_time(s):
        if s not in v.began:
            return None
        b, f, T, kids, finite = sched_facts(v, s)
        ts = []
        if T is not None:
            ts.append(b + T)
        for c in kids:
            if c["crit"] and v.raised(c["name"]):
                ts.append(v.fin[c["name"]][1])
        if all(c in v.fin for c in finite):
            ts.append(max([v.fin[c][1] for c in finite], default=b))
        if s in v.stop:
            ts.append(v.stop[s][1])
        return min(ts) if ts else INF
    ct = {s: cause_time(s) for s in v.children}
    for pidx, e in enumerate(v.log):
        if e[2] != "snap":
            continue
        if v.topend is not None and pidx > v.topend:
            break
        t = e[0]
        for s in v.children:
            if s not in v.began or v.began[s][0] > pidx:
                continue
            ok = True
            a = s
            while a is not None:
                if ct[a] is None or ct[a] <= t:
                    ok = False
                a = v.info[a]["parent"]
            if not ok:
                continue
            w = v.info[s]["w"]
            nrun = sum(1 for c in v.children[s] if c in v.began and v.began[c][0] < pidx and not (c in v.stop and v.stop[c][0] < pidx))
            for c in v.children[s]:
                if c in v.began and v.began[c][0] < pidx:
                    continue
                if all(r in v.fin and v.fin[r][0] < pidx for r in v.info[c].get("req", [])):
                    if not w or nrun < w:
                        V.append("C12 at t=%d job %s of %s is eligible (requirements finished) but has not started; window=%s running=%d" % (t, c, s, w, nrun))
    return V


def c13(v):
    V = []
    hung = "hang" in v.res
    # exactly once by the end of the enclosing run
    for s, st in v.stop.items():
        if not v.is_sched(s):
            continue
        if hung:
            continue
        for d in v.descendants(s):
            if v.is_sched(d):
                continue
            n = len([x for x in v.sdb.get(d, []) if x[0] < st[0]])
            if n != 1:
                V.append("C13 %s received co_shutdown() %d times by the end of the run of %s (%s)" % (d, n, s, st[2]))
    for d, l in v.sdb.items():
        if len(l) > 1:
            V.append("C13 %s received co_shutdown() %d times" % (d, len(l)))
    # never while a job of the same scheduler is still running
    live = set()
    for e in v.log:
        k, who = e[2], e[3]
        if k in BEG:
            live.add(who)
        if k in STOP:
            live.discard(who)
        if k == "sdb":
            par = v.info[who]["parent"]
            sib = [x for x in live if v.info[x]["parent"] == par]
            if sib:
                V.append("C13 %s received co_shutdown() at t=%d while %s of the same scheduler is still running" % (who, e[0], sib))
    # ... and at its scheduler's END: once a job of s has received co_shutdown(), no job of s begins any more
    shut = {}
    for p, e in enumerate(v.log):
        k, who = e[2], e[3]
        if k == "sdb" and v.info.get(who, {}).get("parent") is not None:
            shut.setdefault(v.info[who]["parent"], (who, e[0]))
        if k in BEG and who in v.info and v.info[who]["parent"] in shut:
            first, t0 = shut[v.info[who]["parent"]]
            V.append("C13 %s begins at t=%d after %s, a job of the same scheduler, received co_shutdown() at t=%d"
                     % (who, e[0], first, t0))
    # bounded phase, stragglers cancelled then, truthful return value
    open_calls = {}
    for p, e in enumerate(v.log):
        k, who = e[2], e[3]
        if k == "sdcall":
            # (keyed by caller context: a relayed call that returns at once - `_did_shutdown` - must not hide the
            # scheduler's own call that is still open)
            open_calls[(who, e[4] if len(e) > 4 else None)] = (p, e[0])
        if k in ("sdret", "sdexc") and (who, e[5] if len(e) > 5 else None) in open_calls:
            p0, t0 = open_calls.pop((who, e[5] if len(e) > 5 else None))
            sdT = v.info[who]["sdT"]
            if sdT is not None and e[0] - t0 > sdT:
                # waiting for cancelled stragglers to acknowledge is not part of the bounded wait
                hc = [x for c in v.children[who] for x in v.hcancel.get(c, []) if p0 < x[0] < p]
                if not hc or min(x[1] for x in hc) - t0 > sdT:
                    V.append("C13 shutdown phase of %s lasted %d > shutdown_timeout=%d without cancelling the pending handlers" % (who, e[0] - t0, sdT))
            if k == "sdret" and e[4] is not None:
                hc = [x for c in v.children[who] for x in v.hcancel.get(c, []) if p0 < x[0] < p]
                if e[4] is not (not hc):
                    V.append("C13 co_shutdown() of %s returned %s although %d handlers had to be cancelled" % (who, e[4], len(hc)))
                # handlers are cancelled when shutdown_timeout has elapsed, not before (the call itself was not cancelled:
                # it returned)
                early = [x for x in hc if sdT is None or x[1] < t0 + sdT]
                if early:
                    V.append("C13 co_shutdown() of %s cancelled a pending handler at t=%d, before its shutdown_timeout (%s) had elapsed since t=%d"
                             % (who, early[0][1], sdT, t0))
                if e[4] is True:
                    # ... and True means that every handler it launched has ended by now
                    for c in v.children[who]:
                        if v.info[c]["kind"] != "job":
                            continue
                        began = [x for x in v.sdb.get(c, []) if p0 < x[0] < p]
                        ended = [q for q, x in enumerate(v.log) if p0 < q < p and x[2] in ("sde", "sdc") and x[3] == c]
                        if began and not ended:
                            V.append("C13 co_shutdown() of %s returned True while the handler of %s was still pending" % (who, c))
    # a later explicit shutdown sends nothing more
    if v.lingered is not None:
        for e in v.log[v.lingered:]:
            if e[2] in ("sdb", "hcreate"):
                V.append("C13 a later explicit co_shutdown() sent co_shutdown() again to %s" % e[3])
                break
    return V


def c14(v):
    V = []
    prev = {}
    for pidx, e in enumerate(v.log):
        if e[2] != "snap":
            continue
        for n, (idle, sched, running, done, rid) in e[4].items():
            if n not in v.info or n == v.top:
                continue
            if done and not running:
                V.append("C14 %s is_done() but not is_running()" % n)
            if running and not sched:
                V.append("C14 %s is_running() but not is_scheduled()" % n)
            if idle == sched:
                V.append("C14 %s is_idle() == is_scheduled() == %s" % (n, idle))
            if n in prev:
                for name, a, b_ in zip(("is_scheduled", "is_running", "is_done"), prev[n][1:4], (sched, running, done)):
                    if a and not b_:
                        V.append("C14 %s of %s reverted" % (name, n))
            prev[n] = (idle, sched, running, done)
            finished = n in v.fin and v.fin[n][0] < pidx
            if done != finished:
                V.append("C14 %s is_done()=%s at t=%d but its body %s finished by returning or raising" % (n, done, e[0], "has" if finished else "has not"))
            created = n in v.created and v.created[n][0] < pidx
            if sched != created:
                V.append("C14 %s is_scheduled()=%s at t=%d but it %s been scheduled" % (n, sched, e[0], "has" if created else "has not"))
            begun = n in v.began and v.began[n][0] < pidx
            if running != begun and not (n in v.cancel and not begun):
                V.append("C14 %s is_running()=%s at t=%d but its body %s begun" % (n, running, e[0], "has" if begun else "has not"))
            if created and not begun and running:
                V.append("C14 %s waits for a window slot but is reported running" % n)
            # a job whose task was cancelled while unfinished is never reported done (bodies honour cancellation)
            if done and n in v.cancel and v.cancel[n][0] < pidx:
                V.append("C14 %s was cancelled at t=%d while unfinished, yet is_done() holds at t=%d" % (n, v.cancel[n][1], e[0]))
            # results
            if finished:
                f = v.fin[n]
                if f[2] == "end" and rid != "ret:own:None":
                    V.append("C14 result()/raised_exception() of %s after returning: %s" % (n, rid))
                if f[2] == "raise" and rid != "exc:job:" + n:
                    V.append("C14 raised_exception() of %s is not the object it raised: %s" % (n, rid))
                if f[2] == "rret" and rid != "ret:%s:None" % f[3]:
                    V.append("C14 result() of nested scheduler %s is %s, its run returned %s" % (n, rid, f[3]))
                if f[2] == "rraise" and rid != "exc:" + f[3]:
                    V.append("C14 raised_exception() of nested scheduler %s is %s, its run raised %s" % (n, rid, f[3]))
            else:
                if rid != "none:None":
                    V.append("C14 %s has not finished but result()/raised_exception() report %s" % (n, rid))
    return V


SINGLE = {"C01": c01, "C02": c02, "C03": c03, "C04": c04, "C05": c05, "C07": c07, "C08": c08,
          "C09": lambda v: c09(v) + c09_no_early_cancel(v) + c09_same_rules(v),
          "C10": c10_single, "C11": c11, "C12": c12, "C13": c13, "C14": c14}


def check(pid, sc, res, trace):
    # jobs that were members only while the graph was being inspected, and were removed before the run: none of them runs
    strangers = {g["name"] for g in (sc.get("late") or {}).get("dropped", [])}
    ran = sorted({e[3] for e in trace if len(e) > 3 and e[3] in strangers and e[2] in ("create", "begin")})
    if ran:
        if pid in ("C01", "C02", "C12"):
            return ["C02 %s was removed from its scheduler before the run, and is run all the same" % ran[0]]
        trace = [e for e in trace if not (len(e) > 3 and e[3] in strangers)]
    v = View(sc, res, trace)
    if pid in SINGLE:
        out = SINGLE[pid](v)
    else:
        out = []
    # dedupe, keep order
    seen, uniq = set(), []
    for c in out:
        if c not in seen:
            seen.add(c)
            uniq.append(c)
    return uniq
