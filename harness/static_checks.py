"""
Correspondence + oracles for the static properties C15-C20.

Each `run_Cxx(tier, seed, res, drv, replay=None)` fills `res` (aj_common.Result):
  res.violations : the *property* fails on the real code (decided by a reference oracle that
                   does not use the Lean model) -> replayable case
  res.mismatches : the Lean model and the real code differ on a component
"""
import io, itertools, contextlib, random, re, subprocess, shutil
from aj_common import Result, Infra
from static_lib import *            # noqa: F401,F403
import dotparse


class Batch:
    """requests for the driver, compared in one go at the end"""

    def __init__(self, res, drv):
        self.res = res
        self.drv = drv
        self.items = []

    def add(self, comp, case, request, observed, canon=None):
        self.items.append((comp, case, request, observed, canon))

    def flush(self):
        outs = self.drv.ask([it[2] for it in self.items])
        for (comp, case, request, observed, canon), out in zip(self.items, outs):
            self.res.count(comp)
            exp = canon(out) if canon else out
            if exp != observed:
                self.res.mismatches.append((comp, dict(case, request=request), exp, observed))
        self.items = []


def try_call(fn, *a, **k):
    try:
        with contextlib.redirect_stdout(io.StringIO()):
            return ("ok", fn(*a, **k))
    except Exception as e:          # noqa
        return ("err", exc_name(e))


def topo_obs(s):
    try:
        l = list(s.topological_order())
        return "ok " + enc_nats(j.jid for j in l)
    except Exception as e:
        return "err cycle" if type(e) is Exception else "err " + exc_name(e)


# ================================================================================ C15

def c15_flat_case(spec, res, batch, tag):
    spec = norm_spec(spec)
    objs = build(spec)
    top = objs[0]
    case = dict(kind="flat", spec=spec, tag=tag)
    mem = spec["mem"][0]
    E = edges_within(spec, 0)
    is_closed = closed(spec, 0)
    ac = acyclic(mem, E)
    res.evaluations += 1
    key = (len(mem), tuple(sorted(E)), tuple(sorted(spec["rank"].items())))
    if len(E) >= 1:
        res.nontrivial.add(key)
    res.hist("c15_nodes", len(mem))
    res.hist("c15_acyclic", ac)
    enc = encode(objs)
    obs = topo_obs(top)
    batch.add("topo", case, "topo %s s=0 ext=" % enc, obs)
    cc = try_call(top.check_cycles)
    batch.add("cycles", case, "cycles %s s=0 ext=" % enc, "true" if cc == ("ok", True) else "false" if cc == ("ok", False) else str(cc))
    if not is_closed:
        return
    # ---- oracle (property C15, closed scheduler)
    if cc != ("ok", ac):
        res.violations.append(("check_cycles() != acyclic", case))
    if obs.startswith("ok") != ac:
        res.violations.append(("topological_order raises iff cyclic", case))
    if obs.startswith("ok"):
        order = [int(x) for x in obs[3:].split(",") if x]
        if sorted(order) != sorted(mem):
            res.violations.append(("topological_order is not a permutation of the jobs", case))
        pos = {j: i for i, j in enumerate(order)}
        for x, y in E:
            if x in pos and y in pos and pos[x] < pos[y]:
                res.violations.append(("topological_order puts a job before its requirement", case))
                break


LIST_RE = re.compile(r"^(\d+) .*?<\w+ `L(\d+)`>")


def parse_list_output(text):
    """(printed id, job id) for the first line of every job; '--end--' lines skipped"""
    out = []
    for line in text.split("\n"):
        if not line.strip() or "--end--" in line:
            continue
        m = LIST_RE.match(line)
        if not m:
            out.append(None)
        else:
            out.append((int(m.group(1)), int(m.group(2))))
    return out


def c15_tree_case(spec, res, batch, tag):
    spec = norm_spec(spec)
    spec["labels"] = {j: "L%d" % j for j in range(spec["n"])}
    spec["top_pure"] = False
    objs = build(spec)
    top = objs[0]
    case = dict(kind="tree", spec=spec, tag=tag)
    res.evaluations += 1
    scheds = subtree_scheds(spec, 0)
    all_closed = all(closed(spec, s) for s in scheds)
    all_ac = all(acyclic(spec["mem"].get(s, []), edges_within(spec, s)) for s in scheds)
    if len(scheds) > 1:
        res.nontrivial.add(("tree", str(sorted(spec["mem"].items())), str(sorted(spec["req"].items()))))
    res.hist("c15_tree_scheds", len(scheds))
    res.hist("c15_tree_acyclic", all_ac)
    enc = encode(objs)
    cc = try_call(top.check_cycles)
    batch.add("cyclesN", case, "cyclesN %s s=0" % enc, "true" if cc == ("ok", True) else "false" if cc == ("ok", False) else str(cc))
    # list(): ids + order
    buf = io.StringIO()
    try:
        with contextlib.redirect_stdout(buf):
            top.list()
        lst = parse_list_output(buf.getvalue())
        listed = "ok " + enc_nats(j for _, j in lst) if None not in lst else "unparsed " + repr(buf.getvalue())
        idmap = {o.jid: int(sched_id(o)) for o in objs[1:] if sched_id(o) is not None and any(o.jid == j for _, j in lst)}
        ids_obs = "ok " + ",".join("%d:%d" % kv for kv in sorted(idmap.items()))
    except Exception as e:
        lst = None
        listed = "err cycle" if type(e) is Exception else "err " + exc_name(e)
        ids_obs = listed
    batch.add("listing", case, "listing %s s=0" % enc, listed)

    def canon_ids(out):
        if not out.startswith("ok "):
            return out
        parts = out.split(" ")
        pairs = sorted(tuple(int(x) for x in p.split(":")) for p in parts[2].split(",") if p) if len(parts) > 2 else []
        return "ok " + ",".join("%d:%d" % kv for kv in pairs)
    batch.add("ids", case, "ids %s s=0" % enc, ids_obs, canon_ids)
    if not all_closed:
        return
    # ---- oracle
    if cc != ("ok", all_ac):
        res.violations.append(("nested check_cycles() != every scheduler of the tree acyclic", case))
    if all_ac:
        if lst is None or None in lst:
            res.violations.append(("list() fails on an acyclic tree", case))
            return
        nums = [i for i, _ in lst]
        jobs = [j for _, j in lst]
        everything = sorted(j for s in scheds for j in spec["mem"].get(s, []))
        if sorted(jobs) != everything:
            res.violations.append(("list() does not show every job exactly once", case))
        if nums != list(range(1, len(nums) + 1)):
            res.violations.append(("list() numbers are not 1..N in order", case))
        pos = {j: i for i, j in enumerate(jobs)}
        for s in scheds:
            for x, y in edges_within(spec, s):
                if pos.get(x, 0) < pos.get(y, 0):
                    res.violations.append(("list() shows a job before its requirement", case))


def c15_mutation_case(rng, res, batch, tag):
    """the same objects edited back and forth between cyclic and acyclic (stale marks)"""
    n = rng.randint(2, 5)
    spec = norm_spec(flat_spec(n, [], list(rng.sample(range(n), n))))
    objs = build(spec)
    top = objs[0]
    hist = []
    for step in range(rng.randint(2, 6)):
        if rng.random() < 0.35:
            # a scan of the same scheduler that is abandoned half-way (the caller breaks out of the loop)
            it = top.topological_order()
            k = rng.randint(0, n - 1)
            try:
                for _ in range(k):
                    next(it)
            except (StopIteration, Exception):          # noqa
                pass
            del it
            hist.append(["abandon-scan", k])
        x, y = rng.sample(range(1, n + 1), 2)
        if objs[y] in objs[x].required and rng.random() < 0.6:
            objs[x].requires(objs[y], remove=True)
            hist.append(["remove", x, y])
        else:
            objs[x].requires(objs[y])
            hist.append(["add", x, y])
        case = dict(kind="mutation", spec=spec, history=list(hist), tag=tag)
        res.evaluations += 1
        E = {(o.jid, r.jid) for o in objs[1:] for r in o.required}
        ac = acyclic(list(range(1, n + 1)), E)
        enc = encode(objs)
        obs = topo_obs(top)
        batch.add("topo", case, "topo %s s=0 ext=" % enc, obs)
        cc = try_call(top.check_cycles)
        if cc != ("ok", ac):
            res.violations.append(("check_cycles() != acyclic after edits", case))
        if obs.startswith("ok") != ac:
            res.violations.append(("topological_order raises iff cyclic, after edits", case))
        if obs.startswith("ok") and ac:
            # ... and what it yields is still every job exactly once, each after its requirements
            order = [int(x) for x in obs[3:].replace("-", "").split(",") if x.strip()]
            if sorted(order) != list(range(1, n + 1)):
                res.violations.append(("after edits topological_order does not yield every job exactly once: %s" % order, case))
            elif any(order.index(r) > order.index(x) for x, r in E):
                res.violations.append(("after edits topological_order is not a linear extension: %s" % order, case))
        res.nontrivial.add(("mut", n, tuple(map(tuple, hist))))


def c15_tree_mutation_case(rng, res, batch, tag):
    """a nested scheduler is made cyclic, the tree is listed / exported / checked (scans of the enclosing scheduler are
    cut short by the failure), the cycle is repaired: everything must answer as for a fresh acyclic tree again"""
    n = rng.randint(2, 4)
    edges = [(x, y) for x in range(n) for y in range(x) if rng.random() < 0.5]
    spec = norm_spec(place_in_tree(rng, n, edges))
    spec["labels"] = {j: "L%d" % j for j in range(spec["n"])}
    objs = build(spec)
    top = objs[0]
    inner = max(spec["sched"])                      # the deepest scheduler holds the n jobs
    members = spec["mem"][inner]
    hist = []
    a, b = (rng.sample(members, 2) if len(members) >= 2 else (members[0], members[0]))
    for rounds in range(rng.randint(1, 3)):
        # make it cyclic: a -> b and b -> a
        if a != b:
            objs[a].requires(objs[b])
            objs[b].requires(objs[a])
            hist.append(["cycle", a, b])
        for probe in rng.sample(["list", "dot", "check", "topo-partial"], rng.randint(1, 3)):
            hist.append([probe])
            try:
                with contextlib.redirect_stdout(io.StringIO()):
                    if probe == "list":
                        top.list()
                    elif probe == "dot":
                        top.dot_format()
                    elif probe == "check":
                        top.check_cycles()
                    else:
                        it = top.topological_order()
                        next(it)
                        del it
            except Exception:                       # noqa
                pass
        # repair: drop one of the two edges (keep the graph acyclic as it was, plus possibly a -> b)
        if a != b:
            objs[b].requires(objs[a], remove=True)
            if (a, b) not in {(x + min(members), y + min(members)) for x, y in edges} and rng.random() < 0.5:
                objs[a].requires(objs[b], remove=True)
            hist.append(["repair", a, b])
        case = dict(kind="tree-history", spec=spec, history=list(hist), tag=tag)
        res.evaluations += 1
        res.nontrivial.add(("treemut", str(hist), str(sorted(spec["mem"].items()))))
        scheds = subtree_scheds(spec, 0)
        ok_all = True
        for sx in scheds:
            mem = [k.jid for k in objs[sx].jobs]
            E = {(x, r.jid) for x in mem for r in objs[x].required if r.jid in mem}
            ok_all = ok_all and acyclic(mem, E)
        enc = encode(objs)
        cc = try_call(top.check_cycles)
        batch.add("cyclesN", case, "cyclesN %s s=0" % enc, "true" if cc == ("ok", True) else "false" if cc == ("ok", False) else str(cc))
        obs = topo_obs(objs[inner])
        batch.add("topo", case, "topo %s s=%d ext=" % (enc, inner), obs)
        if cc != ("ok", ok_all):
            res.violations.append(("check_cycles() = %s on a tree whose schedulers are %s, after a history of failed scans and a repair"
                                   % (cc, "all acyclic" if ok_all else "not all acyclic"), case))
        if ok_all:
            if not obs.startswith("ok"):
                res.violations.append(("topological_order() raises on an acyclic scheduler after a history of failed scans and a repair", case))
            r = try_call(top.list)
            if r[0] != "ok":
                res.violations.append(("list() raises on an acyclic tree after a history of failed scans and a repair", case))


def c15_regroup_case(rng, res, batch, tag):
    """jobs that were already scanned in one scheduler are moved into a newly created nested scheduler (marks left by
    earlier scans travel with the jobs): every scheduler of the tree must answer as a fresh one"""
    n = rng.randint(2, 6)
    edges = [(x, y) for x in range(n) for y in range(x) if rng.random() < 0.4]
    spec = norm_spec(flat_spec(n, edges, rng.sample(range(n), n), pure=False))   # Scheduler.check_cycles() is the recursive one
    objs = build(spec)
    top = objs[0]
    hist = []
    for _ in range(rng.randint(0, 3)):
        what = rng.choice(["check", "topo", "list"])
        hist.append(["scan", what])
        with contextlib.redirect_stdout(io.StringIO()):
            if what == "check":
                top.check_cycles()
            elif what == "topo":
                list(top.topological_order())
            else:
                top.list()
    for rounds in range(rng.randint(1, 2)):
        members = [j for j in top.jobs if not isinstance(j, PureScheduler)]
        if not members:
            break
        G = rng.sample(members, rng.randint(1, len(members)))
        # keep the tree closed: drop the edges that would cross the border of the new scheduler
        for j in list(top.jobs):
            for r in list(j.required):
                if (j in G) != (r in G):
                    j.required.discard(r)
        for j in G:
            top.remove(j)
        new = SSched(*G, jid=len(objs), rank=50 + rounds)
        objs.append(new)
        top.add(new)
        if len(G) >= 2 and rng.random() < 0.3:
            a, b = rng.sample(G, 2)
            a.requires(b)
            b.requires(a)
            hist.append(["regroup+cycle", sorted(j.jid for j in G)])
        else:
            hist.append(["regroup", sorted(j.jid for j in G)])
        for q in range(rng.randint(1, 2)):
            case = dict(kind="tree-history", spec=spec, history=list(hist), tag=tag)
            res.evaluations += 1
            res.nontrivial.add(("regroup", str(hist), str(sorted(edges))))
            ok_all = True
            for sx in [o for o in objs if isinstance(o, PureScheduler)]:
                mem = [k.jid for k in sx.jobs]
                E = {(x, r.jid) for x in mem for r in objs[x].required if r.jid in mem}
                ok = acyclic(mem, E)
                ok_all = ok_all and ok
            enc = encode(objs)
            obs = topo_obs(new)
            batch.add("topo", case, "topo %s s=%d ext=" % (enc, new.jid), obs)
            memn = [k.jid for k in new.jobs]
            En = {(x, r.jid) for x in memn for r in objs[x].required if r.jid in memn}
            if obs.startswith("ok") != acyclic(memn, En):
                res.violations.append(("topological_order() of a scheduler made of already-scanned jobs: %s, but its graph is %s"
                                       % (obs[:40], "acyclic" if acyclic(memn, En) else "cyclic"), case))
            cc = try_call(top.check_cycles)
            batch.add("cyclesN", case, "cyclesN %s s=0" % enc, "true" if cc == ("ok", True) else "false" if cc == ("ok", False) else str(cc))
            if cc != ("ok", ok_all):
                res.violations.append(("check_cycles() = %s on a tree whose schedulers are %s, after jobs were regrouped into a new nested scheduler"
                                       % (cc, "all acyclic" if ok_all else "not all acyclic"), case))
            if ok_all:
                r = try_call(lambda: quiet(top.list))
                if r[0] != "ok":
                    res.violations.append(("list() raises on an acyclic tree after jobs were regrouped into a new nested scheduler", case))


def place_in_tree(rng, n, edges):
    """the flat graph `edges` over n jobs placed at a random level of a small tree"""
    depth = rng.randint(1, 2)
    spec = dict(n=1, sched=[0], mem={0: []}, req={}, forever=[], critical=[], rank={0: 99}, top_pure=False)
    cur = 0
    for _ in range(depth):
        # siblings at this level
        kids = []
        for _ in range(rng.randint(0, 2)):
            kids.append(spec["n"])
            spec["n"] += 1
        nest = spec["n"]
        spec["n"] += 1
        spec["sched"].append(nest)
        spec["mem"][nest] = []
        kids.insert(rng.randint(0, len(kids)), nest)
        spec["mem"][cur] = kids
        for i, k in enumerate(kids):
            spec["rank"][k] = i
            for r in kids[:i]:
                if rng.random() < 0.4:
                    spec["req"].setdefault(k, []).append(r)
        cur = nest
    base = spec["n"]
    spec["n"] += n
    spec["mem"][cur] = list(range(base, base + n))
    perm = rng.sample(range(n), n)
    for j in range(n):
        spec["rank"][base + j] = perm[j]
    for x, y in edges:
        spec["req"].setdefault(base + x, []).append(base + y)
    return spec


def run_C15(tier, seed, res, drv, replay=None):
    rng = random.Random(seed)
    batch = Batch(res, drv)
    res.rule = ("flat: every digraph without self-loops on <= N nodes (quick N=4, thorough N=5 sampled) x iteration "
                "orders chosen through __hash__; random digraphs up to 12 nodes; each also placed inside trees of depth "
                "<= 3 (nested check_cycles, list()); edit histories on the same objects. non-trivial = at least one "
                "edge (flat) / at least one nested scheduler (tree); distinct by (edges, ranks) / (tree, edges) Also: trees reached through a history (list / list_safe / dot_format / check_cycles / exit_jobs / run(), then part of the edges added); already-scanned jobs regrouped into a new nested scheduler.")
    if replay:
        c = replay["case"]
        if c["kind"] == "flat":
            c15_flat_case(c["spec"], res, batch, "replay")
        elif c["kind"] == "tree":
            c15_tree_case(c["spec"], res, batch, "replay")
        batch.flush()
        return
    nmax = 4
    for n in range(1, nmax + 1):
        for edges in all_digraphs(n):
            perms = [list(range(n))] + ([rng.sample(range(n), n)] if n > 1 else [])
            for perm in perms:
                c15_flat_case(flat_spec(n, edges, perm), res, batch, "exh%d" % n)
    nrand = 1500 if tier == "quick" else 40000
    for i in range(nrand):
        n = rng.randint(5, 12) if i % 3 else 5
        p = rng.choice([0.05, 0.1, 0.2, 0.35])
        edges = [(x, y) for x in range(n) for y in range(n) if x != y and rng.random() < p * (1.5 if y < x else 0.25)]
        c15_flat_case(flat_spec(n, edges, rng.sample(range(n), n)), res, batch, "rand")
        if len(batch.items) > 20000:
            batch.flush()
    if tier == "thorough":
        pairs = [(x, y) for x in range(5) for y in range(5) if x != y]
        for _ in range(150000):
            bits = rng.getrandbits(20)
            edges = [p for i, p in enumerate(pairs) if bits >> i & 1]
            c15_flat_case(flat_spec(5, edges, rng.sample(range(5), 5)), res, batch, "exh5-sample")
            if len(batch.items) > 20000:
                batch.flush()
    ntree = 600 if tier == "quick" else 10000
    for i in range(ntree):
        if i % 2:
            spec = random_tree(rng, cyclic=rng.choice([0, 0, 0.15]), p_edge=rng.choice([0.2, 0.4, 0.6]))
        else:
            n = rng.randint(1, 4)
            edges = [(x, y) for x in range(n) for y in range(n) if x != y and rng.random() < (0.5 if y < x else 0.08)]
            spec = place_in_tree(rng, n, edges)
        if i % 3 == 0:
            spec = with_history(spec, rng)      # listed / exported / run before, then edited: same answers expected
        c15_tree_case(spec, res, batch, "tree" if i % 3 else "tree-history")
    for i in range(300 if tier == "quick" else 5000):
        c15_mutation_case(rng, res, batch, "mut")
    for i in range(300 if tier == "quick" else 5000):
        c15_tree_mutation_case(rng, res, batch, "treemut")
    for i in range(300 if tier == "quick" else 5000):
        c15_regroup_case(rng, res, batch, "regroup")
    batch.flush()


# ================================================================================ C16

def sanitize_oracle(spec, objs, ret1, before, case, res):
    """property C16 on the real objects after sanitize()"""
    scheds = subtree_scheds(spec, 0)
    removed_any = False
    for s in scheds:
        mem = [k.jid for k in objs[s].jobs]
        for x in mem:
            now = {r.jid for r in objs[x].required}
            was = before[x]
            if not now <= set(mem):
                res.violations.append(("after sanitize() a requirement is not a member of the same scheduler", case))
            if now != {r for r in was if r in mem}:
                if any(r in mem and r not in now for r in was):
                    res.violations.append(("sanitize() removed a requirement between two members", case))
                if not now <= was:
                    res.violations.append(("sanitize() added a requirement", case))
            if now != was:
                removed_any = True
    if ret1 != (not removed_any):
        res.violations.append(("sanitize() returned %r although removals=%r" % (ret1, removed_any), case))


def c16_case(spec, res, batch, tag):
    spec = norm_spec(spec)
    objs = build(spec)
    top = objs[0]
    case = dict(kind="sanitize", spec=spec, tag=tag)
    res.evaluations += 1
    before = {o.jid: {r.jid for r in getattr(o, "required", ())} for o in objs}
    enc = encode(objs)
    sv = spec.get("sv")                     # the `verbose` argument of sanitize(): None = the object's attribute
    ret1 = try_call(top.sanitize) if sv is None else try_call(top.sanitize, verbose=sv)
    obs = "%s R=%s" % (str(ret1[1]).lower() if ret1[0] == "ok" else ret1, show_reqs(objs))
    batch.add("sanitize", case, "sanitize %s s=0" % enc, obs)
    scheds = subtree_scheds(spec, 0)
    dangling = sum(1 for s in scheds for x in spec["mem"].get(s, []) for r in spec["req"].get(x, []) if r not in spec["mem"].get(s, []))
    res.hist("c16_dangling", min(dangling, 5))
    res.hist("c16_scheds", len(scheds))
    if dangling or len(scheds) > 1:
        res.nontrivial.add((str(sorted(spec["mem"].items())), str(sorted(spec["req"].items()))))
    if ret1[0] == "ok":
        sanitize_oracle(spec, objs, ret1[1], before, case, res)
        enc2 = encode(objs)
        ret2 = try_call(top.sanitize)
        obs2 = "%s R=%s" % (str(ret2[1]).lower() if ret2[0] == "ok" else ret2, show_reqs(objs))
        batch.add("sanitize", dict(case, second=True), "sanitize %s s=0" % enc2, obs2)
        if ret2 != ("ok", True):
            res.violations.append(("second sanitize() did not return True", case))
    else:
        res.violations.append(("sanitize() raised", case))


def c16_history_case(rng, res, batch, tag):
    """sanitize, then edit (new dangling requirements anywhere in the tree), then sanitize again - several rounds on
    the same objects: every call must be as exact as the first"""
    spec = norm_spec(random_tree(rng, dangling=rng.choice([0, 0.2, 0.5]), p_sched=rng.choice([0.3, 0.5])))
    objs = build(spec)
    top = objs[0]
    scheds = subtree_scheds(spec, 0)
    everyone = list(range(1, spec["n"]))
    hist = []
    for rnd in range(rng.randint(2, 4)):
        if rnd:
            # new edges, most of them dangling (towards a job of another scheduler or of none)
            for _ in range(rng.randint(1, 4)):
                x, y = rng.choice(everyone), rng.choice(everyone)
                if x != y and hasattr(objs[x], "required") and objs[y] not in objs[x].required:
                    objs[x].required.add(objs[y])
                    hist.append(["edge", x, y])
            # two new jobs built from the SAME set object, put in two different schedulers
            homes = [sx for sx in scheds if len(objs[sx].jobs) >= 1]
            if len(homes) >= 2 and rng.random() < 0.4:
                X, Y = rng.sample(homes, 2)
                pj, qj = rng.choice(sorted(k.jid for k in objs[X].jobs)), rng.choice(sorted(k.jid for k in objs[Y].jobs))
                shared = {objs[pj], objs[qj]}
                for home in (X, Y):
                    nj = SJob(len(objs), 70 + len(objs), required=shared)
                    objs.append(nj)
                    objs[home].add(nj)
                    everyone.append(nj.jid)
                hist.append(["shared-set", X, Y, pj, qj])
        before = {o.jid: {r.jid for r in getattr(o, "required", ())} for o in objs}
        enc = encode(objs)
        via = rng.choice(["sanitize", "sanitize", "keep_only"]) if rnd else "sanitize"
        if via == "keep_only":
            # keep_only_between() ends with sanitize(): here it keeps everything
            ret = try_call(top.keep_only_between)
            ret = ("ok", None) if ret[0] == "ok" else ret
        else:
            ret = try_call(top.sanitize)
        hist.append([via])
        case = dict(kind="tree-history", spec=spec, history=list(hist), tag=tag)
        res.evaluations += 1
        res.nontrivial.add(("sanitize-history", str(hist), str(sorted(spec["mem"].items()))))
        if ret[0] != "ok":
            res.violations.append(("%s() raised %s in a history of edits" % (via, ret[1]), case))
            return
        if via == "sanitize":
            batch.add("sanitize", case, "sanitize %s s=0" % enc, "%s R=%s" % (str(ret[1]).lower(), show_reqs(objs)))
            sanitize_oracle(spec, objs, ret[1], before, case, res)
        else:
            removed = any({r.jid for r in getattr(o, "required", ())} != before[o.jid] for o in objs)
            sanitize_oracle(spec, objs, not removed, before, case, res)


def run_C16(tier, seed, res, drv, replay=None):
    rng = random.Random(seed)
    batch = Batch(res, drv)
    res.rule = ("random scheduler trees (depth <= 3) with extra edges to jobs of no scheduler / of sibling, parent or "
                "child schedulers / to and from nested schedulers; exhaustive placement of one or two dangling edges "
                "in three fixed small trees; return value of first and second call compared. non-trivial = at least "
                "one dangling edge or one nested scheduler; distinct by (tree, edges) Also: sanitize / edit / sanitize histories on the same objects (also through keep_only_between), the verbose argument and attribute.")
    if replay:
        c16_case(replay["case"]["spec"], res, batch, "replay")
        batch.flush()
        return
    # exhaustive placement of <=2 extra edges in small trees
    bases = [
        dict(n=4, sched=[0, 2], mem={0: [1, 2], 2: [3]}, req={}),
        dict(n=6, sched=[0, 2], mem={0: [1, 2], 2: [3, 4]}, req={4: [3]}),          # 5 = job of no scheduler
        dict(n=7, sched=[0, 1, 4], mem={0: [1, 4], 1: [2, 3], 4: [5, 6]}, req={3: [2], 4: [1]}),
    ]
    for base in bases:
        n = base["n"]
        cand = [(x, y) for x in range(1, n) for y in range(1, n) if x != y and y not in base["req"].get(x, [])]
        combos = [()] + [(e,) for e in cand] + (list(itertools.combinations(cand, 2)) if tier == "thorough" or n <= 4 else rng.sample(list(itertools.combinations(cand, 2)), 150))
        for combo in combos:
            spec = dict(base, req={k: list(v) for k, v in base["req"].items()}, rank={j: j for j in range(n)})
            for x, y in combo:
                spec["req"].setdefault(x, []).append(y)
            c16_case(spec, res, batch, "exh")
    for i in range(2000 if tier == "quick" else 40000):
        spec = random_tree(rng, dangling=rng.choice([0, 0.1, 0.3, 0.6]), p_sched=rng.choice([0.2, 0.4]))
        spec["sv"] = [None, None, True, False][i % 4]
        c16_case(spec, res, batch, "rand")
        if len(batch.items) > 20000:
            batch.flush()
    for i in range(400 if tier == "quick" else 8000):
        c16_history_case(rng, res, batch, "history")
        if len(batch.items) > 20000:
            batch.flush()
    batch.flush()


# ================================================================================ C17

def c17_flat_case(spec, res, batch, tag, rng, max_starts=3):
    spec = norm_spec(spec)
    objs = build(spec)
    top = objs[0]
    mem = spec["mem"][0]
    E = edges_within(spec, 0)
    R = reach(mem, E)
    case0 = dict(kind="flat", spec=spec, tag=tag)
    res.evaluations += 1
    if E:
        res.nontrivial.add((len(mem), tuple(sorted(E)), tuple(spec["forever"])))
    res.hist("c17_nodes", len(mem))
    enc = encode(objs)
    # exit_jobs() first, on the fresh objects: it has to compute the reverse links by itself
    ex0 = sorted(j.jid for j in top.exit_jobs())
    if ex0 != sorted(x for x in mem if not any(b == x for a, b in E) and x not in spec["forever"]):
        res.violations.append(("exit_jobs() as the first query on a fresh graph is wrong: %s" % ex0, case0))
    start_sets = []
    for k in range(1, min(len(mem), max_starts) + 1):
        combos = list(itertools.combinations(mem, k))
        if len(combos) > 12:
            combos = rng.sample(combos, 12)
        start_sets += combos
    for starts in start_sets:
        S = [objs[i] for i in starts]
        case = dict(case0, starts=list(starts))
        st = enc_nats(starts)
        got = {}
        got["pred"] = sorted(j.jid for j in top.predecessors(*S))
        got["succ"] = sorted(j.jid for j in top.successors(*S))
        got["up"] = sorted(j.jid for j in top.predecessors_upstream(*S))
        got["down"] = sorted(j.jid for j in top.successors_downstream(*S))
        batch.add("neigh", case, "neigh %s s=0 up=1 starts=%s" % (enc, st), enc_nats(got["pred"]))
        batch.add("neigh", case, "neigh %s s=0 up=0 starts=%s" % (enc, st), enc_nats(got["succ"]))
        batch.add("closure", case, "closure %s s=0 up=1 starts=%s" % (enc, st), enc_nats(got["up"]))
        batch.add("closure", case, "closure %s s=0 up=0 starts=%s" % (enc, st), enc_nats(got["down"]))
        want = dict(pred=sorted({y for x, y in E if x in starts}), succ=sorted({x for x, y in E if y in starts}),
                    up=sorted({y for x, y in R if x in starts}), down=sorted({x for x, y in R if y in starts}))
        for k in want:
            if got[k] != want[k]:
                res.violations.append(("%s%s: got %s, the requirement graph says %s" % (k, tuple(starts), got[k], want[k]), case))
    ent = [j.jid for j in top.entry_jobs()]
    batch.add("entryexit", case0, "entry %s s=0" % enc, enc_nats(ent))
    if sorted(ent) != sorted(x for x in mem if not spec["req"].get(x)):
        res.violations.append(("entry_jobs() are not the members that require nothing", case0))
    for discard in (True, False):
        ex = [j.jid for j in top.exit_jobs(discard_forever=discard)]
        batch.add("entryexit", dict(case0, discard=discard), "exit %s s=0 discard=%d" % (enc, discard), enc_nats(ex))
        want = sorted(x for x in mem if not any(b == x for a, b in E) and not (discard and x in spec["forever"]))
        if sorted(ex) != want:
            res.violations.append(("exit_jobs(discard_forever=%s) wrong: %s vs %s" % (discard, sorted(ex), want), case0))


def c17_tree_case(spec, res, batch, tag):
    spec = norm_spec(spec)
    objs = build(spec)
    top = objs[0]
    case = dict(kind="tree", spec=spec, tag=tag)
    res.evaluations += 1
    enc = encode(objs)
    scheds = subtree_scheds(spec, 0)
    if len(scheds) > 1:
        res.nontrivial.add(("tree", str(sorted(spec["mem"].items()))))
    for scan in (False, True):
        it = [j.jid for j in top.iterate_jobs(scan_schedulers=scan)]
        batch.add("iterate", dict(case, scan=scan), "iterate %s s=0 scan=%d" % (enc, scan), enc_nats(it))
        want = sorted(subtree_jobs(spec, 0) + (scheds if scan else []))
        if sorted(it) != want:
            res.violations.append(("iterate_jobs(scan_schedulers=%s) does not visit every job exactly once" % scan, case))


def c17_edit_case(rng, res, batch, tag):
    """queries interleaved with edits (stale _s_successors)"""
    n = rng.randint(3, 6)
    edges = [(x, y) for x in range(n) for y in range(x) if rng.random() < 0.4]
    spec = norm_spec(flat_spec(n, edges, rng.sample(range(n), n)))
    objs = build(spec)
    top = objs[0]
    hist = []
    for _ in range(rng.randint(2, 5)):
        op = rng.choice(["add", "remove", "bypass", "query", "readd", "newjob", "move", "move"])
        members = [j.jid for j in top.jobs]
        if len(members) < 2:
            break
        if op == "move":
            # one link taken away and another one put in, no query in between: same jobs, same number of links
            cands = [(x, r.jid) for x in members for r in objs[x].required if r.jid in members]
            fresh = [(x, y) for x in members for y in members if x > y and objs[y] not in objs[x].required]
            if not cands or not fresh:
                continue
            x, y = rng.choice(cands)
            x2, y2 = rng.choice(fresh)
            objs[x].required.discard(objs[y])
            objs[x2].requires(objs[y2])
            hist.append(["move", x, y, x2, y2])
        if op == "add":
            x, y = sorted(rng.sample(members, 2), reverse=True)
            objs[x].requires(objs[y])
            hist.append(["add", x, y])
        elif op == "remove":
            cands = [(x, r.jid) for x in members for r in objs[x].required]
            if not cands:
                continue
            x, y = rng.choice(cands)
            objs[x].requires(objs[y], remove=True)
            hist.append(["remove", x, y])
        elif op == "bypass":
            x = rng.choice(members)
            top.bypass_and_remove(objs[x])
            hist.append(["bypass", x])
        elif op == "readd":
            # a member taken out and put back (its edges are untouched)
            x = rng.choice(members)
            top.remove(objs[x])
            if rng.random() < 0.5:
                list(top.successors_downstream(*[objs[m] for m in members if m != x][:1]))
            top.add(objs[x])
            hist.append(["readd", x])
        elif op == "newjob":
            # a brand new job joins, required by / requiring some members
            j = SJob(len(objs), 40 + len(objs))
            objs.append(j)
            for m in rng.sample(members, min(len(members), rng.randint(0, 2))):
                if rng.random() < 0.5:
                    j.requires(objs[m])
                else:
                    objs[m].requires(j)
            top.add(j)
            hist.append(["newjob", j.jid, sorted(r.jid for r in j.required)])
        members = [j.jid for j in top.jobs]
        E = {(x, r.jid) for x in members for r in objs[x].required if r.jid in members}
        R = reach(members, E)
        res.evaluations += 1
        case = dict(kind="edit", spec=spec, history=list(hist), start=None, tag=tag)
        ex = sorted(j.jid for j in top.exit_jobs(discard_forever=False))
        if ex != sorted(x for x in members if not any(b == x for a, b in E)):
            res.violations.append(("exit_jobs() stale after edits: %s" % ex, case))
        ent = sorted(j.jid for j in top.entry_jobs())
        if ent != sorted(x for x in members if not objs[x].required):
            res.violations.append(("entry_jobs() wrong after edits: %s" % ent, case))
        for a in members:
            case = dict(kind="edit", spec=spec, history=list(hist), start=a, tag=tag)
            up = sorted(j.jid for j in top.predecessors_upstream(objs[a]))
            if up != sorted({y for x, y in R if x == a}):
                res.violations.append(("predecessors_upstream wrong after edits", case))
            down = sorted(j.jid for j in top.successors_downstream(objs[a]))
            succ = sorted(j.jid for j in top.successors(objs[a]))
            enc = encode(objs)
            batch.add("closure", case, "closure %s s=0 up=0 starts=%d" % (enc, a), enc_nats(down))
            if down != sorted({x for x, y in R if y == a}):
                res.violations.append(("successors_downstream stale after edits", case))
            if succ != sorted({x for x, y in E if y == a}):
                res.violations.append(("successors stale after edits", case))
        res.nontrivial.add(("edit", n, str(hist)))


def run_C17(tier, seed, res, drv, replay=None):
    rng = random.Random(seed)
    batch = Batch(res, drv)
    res.rule = ("every DAG on <= N nodes (quick 4, thorough 5) x forever assignments (sampled) x every non-empty start "
                "set of size <= 3 (sampled to 12 per size); cyclic digraphs on <= 3 nodes; random DAGs up to 12 nodes; "
                "iterate_jobs on random trees of depth <= 3; queries after random edit histories. non-trivial = at "
                "least one edge / nested scheduler; distinct by (edges, forever) / tree / history Also: nodes that are nested schedulers (empty ones included), graphs that are not closed (members requiring outsiders), edit histories with bypass, remove + add back, new jobs.")
    if replay:
        c = replay["case"]
        if c["kind"] == "flat":
            c17_flat_case(c["spec"], res, batch, "replay", rng)
        elif c["kind"] == "tree":
            c17_tree_case(c["spec"], res, batch, "replay")
        batch.flush()
        return
    nmax = 4 if tier == "quick" else 5
    for n in range(1, nmax + 1):
        for edges in all_dags(n):
            fv = [()] + [tuple(rng.sample(range(n), rng.randint(1, n)))]
            for f in fv:
                c17_flat_case(flat_spec(n, edges, rng.sample(range(n), n), forever=f), res, batch, "exh%d" % n, rng)
            if len(batch.items) > 20000:
                batch.flush()
    for n in range(2, 4):
        for edges in all_digraphs(n):
            c17_flat_case(flat_spec(n, edges, rng.sample(range(n), n)), res, batch, "cyc%d" % n, rng)
    for i in range(300 if tier == "quick" else 6000):
        n = rng.randint(5, 12)
        p = rng.choice([0.1, 0.2, 0.4])
        edges = [(x, y) for x in range(n) for y in range(x) if rng.random() < p]
        sp = flat_spec(n, edges, rng.sample(range(n), n), forever=[f for f in range(n) if rng.random() < 0.2])
        if i % 3 == 0:
            sp = nestify(sp, rng)       # nodes of the graph that are nested schedulers, empty ones included
        if i % 4 == 1:
            # not closed: some members require jobs that are not (or no longer) members
            for _ in range(rng.randint(1, 2)):
                out = sp["n"]
                sp["n"] += 1
                sp.setdefault("rank", {})[out] = 60 + out
                for m in rng.sample(sp["mem"][0], min(len(sp["mem"][0]), rng.randint(1, 2))):
                    sp["req"].setdefault(m, []).append(out)
        c17_flat_case(sp, res, batch, "rand" if i % 3 else "rand-nested", rng)
        if len(batch.items) > 20000:
            batch.flush()
    for i in range(400 if tier == "quick" else 5000):
        c17_tree_case(random_tree(rng), res, batch, "tree")
    for i in range(200 if tier == "quick" else 4000):
        c17_edit_case(rng, res, batch, "edit")
    batch.flush()


# ================================================================================ C18

def state_of(objs):
    return "M=%s R=%s" % (show_mems(objs), show_reqs(objs))


def c18_ops_case(spec, ops, res, batch, tag):
    """a sequence of surgery operations applied one after another to the same scheduler"""
    spec = norm_spec(spec)
    objs = build(spec)
    top = objs[0]
    res.evaluations += 1
    nodes0 = list(spec["mem"][0])
    hist = []
    res.hist("c18_ops", len(ops))
    for op in ops:
        members = [j.jid for j in top.jobs]
        E = {(x, r.jid) for x in members for r in objs[x].required}
        Ein = {(x, y) for x, y in E if y in members}
        R = reach(members, Ein)
        was_closed = all(y in members for x, y in E)
        was_acyclic = acyclic(members, Ein)
        enc = encode(objs)
        hist.append(op)
        case = dict(kind="ops", spec=spec, ops=list(hist), tag=tag)
        res.hist("c18_op", op[0])
        if op[0] == "bypass":
            t = op[1]
            r = try_call(top.bypass_and_remove, objs[t])
            obs = ("ok " + state_of(objs)) if r[0] == "ok" else "err " + r[1]
            batch.add("bypass", case, "bypass %s s=0 j=%d" % (enc, t), obs)
            if t not in members:
                if r != ("err", "ValueError"):
                    res.violations.append(("bypass_and_remove of a non-member did not raise ValueError", case))
                continue
            if r[0] != "ok":
                res.violations.append(("bypass_and_remove raised " + r[1], case))
                return
            if not (was_closed and was_acyclic):
                continue
            now = [j.jid for j in top.jobs]
            if sorted(now) != sorted(x for x in members if x != t):
                res.violations.append(("bypass_and_remove did not remove exactly the job", case))
            E2 = {(x, rr.jid) for x in now for rr in objs[x].required}
            if any(y not in now for x, y in E2):
                res.violations.append(("bypass_and_remove left a requirement to a non-member", case))
            want = {(x, y) for x, y in R if x != t and y != t}
            if reach(now, E2) != want:
                res.violations.append(("bypass_and_remove changed the must-run-before relation", case))
        elif op[0] == "keep_only":
            keep = op[1]
            r = try_call(top.keep_only, [objs[i] for i in keep] if len(hist) % 2 else iter([objs[i] for i in keep]))
            obs = state_of(objs) if r[0] == "ok" else "err " + r[1]
            batch.add("keeponly", case, "keeponly %s s=0 remains=%s" % (enc, enc_nats(keep)), obs)
            if r[0] != "ok":
                res.violations.append(("keep_only raised " + r[1], case))
                return
            now = sorted(j.jid for j in top.jobs)
            if now != sorted(x for x in members if x in keep):
                res.violations.append(("keep_only did not keep exactly the members of R", case))
            for x in now:
                if {rr.jid for rr in objs[x].required} != {y for a, y in E if a == x and y in now}:
                    res.violations.append(("keep_only changed requirements among kept jobs / kept one to a dropped job", case))
                    break
        elif op[0] == "between":
            _, starts, ends, ks, ke = op
            # the arguments are documented as iterables: lists, sets, tuples, one-shot iterators and generators
            def as_iterable(ids, how):
                l = [objs[i] for i in ids]
                return [l, iter(l), (x for x in l), tuple(l), set(l)][how % 5]
            how = len(hist) + len(starts) + 2 * len(ends) + (1 if ks else 0)
            r = try_call(top.keep_only_between, starts=as_iterable(starts, how), ends=as_iterable(ends, how // 5 + how),
                         keep_starts=ks, keep_ends=ke)
            obs = state_of(objs) if r[0] == "ok" else "err " + r[1]
            batch.add("keepbetween", case, "between %s s=0 starts=%s ends=%s ks=%d ke=%d" % (enc, enc_nats(starts), enc_nats(ends), ks, ke), obs)
            if r[0] != "ok":
                res.violations.append(("keep_only_between raised " + r[1], case))
                return
            if not (set(starts) <= set(members) and set(ends) <= set(members)):
                continue          # outside the property's quantifier (starts/ends are members)
            down = {x for x, y in R if y in starts} if starts else set(members)
            up = {y for x, y in R if x in ends} if ends else set(members)
            want = down & up
            if ks:
                want |= set(starts)
            if ke:
                want |= set(ends)
            now = sorted(j.jid for j in top.jobs)
            if now != sorted(want):
                res.violations.append(("keep_only_between kept %s, documented subset is %s" % (now, sorted(want)), case))
            for x in now:
                if {rr.jid for rr in objs[x].required} != {y for a, y in E if a == x and y in now}:
                    res.violations.append(("keep_only_between changed requirements among kept jobs", case))
                    break
        # closed & acyclic are preserved
        if was_closed and was_acyclic:
            now = [j.jid for j in top.jobs]
            E3 = {(x, rr.jid) for x in now for rr in objs[x].required}
            if any(y not in now for x, y in E3):
                res.violations.append(("a closed scheduler is no longer closed after " + op[0], case))
            if not acyclic(now, E3):
                res.violations.append(("an acyclic scheduler is no longer acyclic after " + op[0], case))


def run_C18(tier, seed, res, drv, replay=None):
    rng = random.Random(seed)
    batch = Batch(res, drv)
    res.rule = ("every DAG on <= N nodes (quick 4, thorough 5 sampled) x every bypass target, every keep_only subset, "
                "every (starts, ends) with |.| <= 2 x both keep flags (sampled when large); random DAGs up to 12 nodes; "
                "random sequences of 1-6 operations on the same scheduler. non-trivial = the graph has an edge; "
                "distinct by (edges, operation list) Also: nodes that are nested schedulers (empty ones included); starts / ends / remains passed as lists, tuples, sets, one-shot iterators and generators.")
    if replay:
        c = replay["case"]
        c18_ops_case(c["spec"], [tuple(o) for o in c["ops"]], res, batch, "replay")
        batch.flush()
        return
    def note(spec, ops):
        if spec["req"]:
            res.nontrivial.add((str(sorted(spec["req"].items())), str(ops)))
    nmax = 4
    for n in range(1, nmax + 1):
        for edges in all_dags(n):
            mk = lambda: flat_spec(n, edges, rng.sample(range(n), n))
            mem = list(range(1, n + 1))
            for t in mem + [n + 5 if False else None]:
                if t is None:
                    continue
                sp = mk(); ops = [("bypass", t)]
                c18_ops_case(sp, ops, res, batch, "exh"); note(sp, ops)
            subsets = [c for k in range(0, n + 1) for c in itertools.combinations(mem, k)]
            for keep in (subsets if n <= 3 else rng.sample(subsets, 6)):
                sp = mk(); ops = [("keep_only", list(keep))]
                c18_ops_case(sp, ops, res, batch, "exh"); note(sp, ops)
            se = [c for k in range(0, 3) for c in itertools.combinations(mem, k)]
            combos = [(s, e, ks, ke) for s in se for e in se for ks in (True, False) for ke in (True, False)]
            if len(combos) > (40 if tier == "quick" else 200):
                combos = rng.sample(combos, 40 if tier == "quick" else 200)
            for s, e, ks, ke in combos:
                sp = mk(); ops = [("between", list(s), list(e), ks, ke)]
                c18_ops_case(sp, ops, res, batch, "exh"); note(sp, ops)
            if len(batch.items) > 20000:
                batch.flush()
    for i in range(800 if tier == "quick" else 30000):
        n = rng.randint(3, 12 if i % 2 else 6)
        p = rng.choice([0.15, 0.3, 0.5])
        edges = [(x, y) for x in range(n) for y in range(x) if rng.random() < p]
        spec = flat_spec(n, edges, rng.sample(range(n), n))
        if i % 3 == 0:
            spec = nestify(spec, rng)   # nodes of the graph that are nested schedulers, empty ones included
        alive = list(range(1, n + 1))
        ops = []
        for _ in range(rng.randint(1, 6)):
            k = rng.choice(["bypass", "bypass", "keep_only", "between", "between"])
            if not alive:
                break
            if k == "bypass":
                t = rng.choice(alive)
                alive.remove(t)
                ops.append(("bypass", t))
            elif k == "keep_only":
                keep = [x for x in alive if rng.random() < 0.8]
                alive = keep[:]
                ops.append(("keep_only", keep))
            else:
                s = rng.sample(alive, min(len(alive), rng.randint(0, 3)))
                e = rng.sample(alive, min(len(alive), rng.randint(0, 3)))
                ops.append(("between", s, e, rng.random() < 0.5, rng.random() < 0.5))
                # alive unknown without running: the harness checks membership at run time
                break
        if rng.random() < 0.03:
            ops.append(("bypass", n + 1 if False else rng.choice(range(1, n + 1))))
        c18_ops_case(spec, ops, res, batch, "rand"); note(spec, ops)
        if len(batch.items) > 20000:
            batch.flush()
    batch.flush()


# ================================================================================ C19

class Prog:
    """a construction program run on the real library, statement by statement"""

    def __init__(self, nj, nq):
        self.nj, self.nq = nj, nq
        self.jobs = {}
        self.seqs = {}
        self.pending = {}       # sequence -> requirements received while it had no job yet (reference semantics)

    def arg(self, a):
        k = a[0]
        if k == "N":
            return None
        if k == "J":
            return self.jobs[a[1]]
        if k == "Q":
            return self.seqs[a[1]]
        kind, items = a[1], [self.arg(x) for x in a[2]]
        if kind == "list":
            return items
        if kind == "tuple":
            return tuple(items)
        return set(items)

    def enc_arg(self, a, built=None):
        k = a[0]
        if k == "N":
            return "N"
        if k in "JQ":
            return "%s%d" % (k, a[1])
        if a[1] == "set":
            # iteration order of a set built the same way (same hashes, same insertion order)
            built = self.arg(a)
            order = []
            for x in built:
                for y in a[2]:
                    ay = self.arg(y)
                    if (ay is x or (isinstance(x, tuple) and isinstance(ay, tuple) and ay == x)) and y not in order:
                        order.append(y)
                        break
            inner = order
        else:
            inner = a[2]
        return "[ " + " ".join(self.enc_arg(x) for x in inner) + " ]"

    def state(self):
        R = "|".join("%d:%s" % (j, enc_nats(sorted(pseudo_jid(r) for r in self.jobs[j].required)) if j in self.jobs else "") for j in range(self.nj))
        Q = "|".join("%d:%s" % (q, enc_nats(j.jid for j in self.seqs[q].jobs) if q in self.seqs else "") for q in range(self.nq))
        M = "|".join("%d:%s" % (j, enc_nats(sorted(k.jid for k in self.jobs[j].jobs)) if j in self.jobs and isinstance(self.jobs[j], PureScheduler) else "") for j in range(self.nj))
        return "R=%s Q=%s M=%s" % (R, Q, M)


def pseudo_jid(r):
    """the id of a job; anything else found in a `required` set (None, a tuple, a Sequence) gets a large pseudo-id"""
    return r.jid if hasattr(r, "jid") else 900 + sum(map(ord, type(r).__name__)) % 90


def has_set(a):
    return a[0] == "C" and (a[1] == "set" or any(has_set(x) for x in a[2]))


def ref_flat(p, a):
    """documented meaning of an argument: the jobs it stands for"""
    k = a[0]
    if k == "N":
        return []
    if k == "J":
        return [a[1]]
    if k == "Q":
        js = p.seqs[a[1]].jobs
        return [js[-1].jid] if js else []
    out = []
    for x in a[2]:
        out += ref_flat(p, x)
    return out


def ref_seqflat(p, items):
    out = []
    for a in items:
        if a[0] == "J":
            out.append(a[1])
        elif a[0] == "Q":
            out += [j.jid for j in p.seqs[a[1]].jobs]
    return out


def c19_exec(p, op):
    """run one statement on the library; returns (driver text, exception name or '-')"""
    k = op[0]
    sch = lambda s: None if s is None else p.jobs[s]
    es = lambda s: "-" if s is None else str(s)
    try:
        if k == "newJob":
            _, j, req, s = op[:4]
            r = p.arg(req)
            # (share: the very same Python object is handed to two constructors in a row - no aliasing may result)
            if len(op) > 4 and op[4] and getattr(p, "last_req", None) and p.last_req[0] == tuplify(req):
                r = p.last_req[1]
            p.last_req = (tuplify(req), r)
            txt = "newJob/%d/%s/%s" % (j, p.enc_arg(req, r if isinstance(r, set) else None), es(s))
            p.jobs[j] = SJob(j, j, required=r, scheduler=sch(s))
        elif k == "newSched":
            _, j, items, req, s = op
            r = p.arg(req)
            txt = "newSched/%d/%s/%s/%s" % (j, " ".join(p.enc_arg(a) for a in items), p.enc_arg(req, r if isinstance(r, set) else None), es(s))
            p.jobs[j] = SSched(*[p.arg(a) for a in items], jid=j, rank=j, required=r, scheduler=sch(s))
        elif k == "requires":
            _, j, args, rm = op
            real = [p.arg(a) for a in args]
            txt = "requires/%d/%s/%d" % (j, " ".join(p.enc_arg(a, r if isinstance(r, set) else None) for a, r in zip(args, real)), rm)
            p.jobs[j].requires(*real, remove=rm)
        elif k == "newSeq":
            _, q, items, req, s = op
            r = p.arg(req)
            txt = "newSeq/%d/%s/%s/%s" % (q, " ".join(p.enc_arg(a) for a in items), p.enc_arg(req, r if isinstance(r, set) else None), es(s))
            p.seqs[q] = Sequence(*[p.arg(a) for a in items], required=r, scheduler=sch(s))
        elif k == "append":
            _, q, items = op
            txt = "append/%d/%s" % (q, " ".join(p.enc_arg(a) for a in items))
            p.seqs[q].append(*[p.arg(a) for a in items])
        elif k == "seqRequires":
            _, q, args = op
            real = [p.arg(a) for a in args]
            txt = "seqRequires/%d/%s" % (q, " ".join(p.enc_arg(a, r if isinstance(r, set) else None) for a, r in zip(args, real)))
            p.seqs[q].requires(*real)
        elif k == "add":
            _, s, x = op
            txt = "add/%d/%s" % (s, p.enc_arg(x))
            p.jobs[s].add(p.arg(x))
        elif k == "update":
            _, s, xs = op
            txt = "update/%d/%s" % (s, " ".join(p.enc_arg(a) for a in xs))
            p.jobs[s].update([p.arg(a) for a in xs])
        elif k == "removeJob":
            _, s, j = op
            txt = "removeJob/%d/%d" % (s, j)
            p.jobs[s].remove(p.jobs[j])
        return txt, "-"
    except Exception as e:      # noqa
        return txt, exc_name(e)


def c19_oracle(p, op, before, exc, case, res):
    """the clauses of C19 that concern this statement, on the real objects"""
    k = op[0]
    reqs = lambda j: {pseudo_jid(r) for r in p.jobs[j].required}
    V = lambda msg: res.violations.append((msg, case))
    for j in p.jobs:
        if j in reqs(j):
            V("job %d requires itself" % j)
    if k in ("requires", "seqRequires", "newJob", "newSched"):
        if k == "requires":
            j, args, rm = op[1], op[2], op[3]
        elif k == "seqRequires":
            js = before["Q"][op[1]]
            if not js:
                # a sequence without job yet: what it is told to require goes to its first job, whenever it shows up
                if exc == "-":
                    pend = p.pending.setdefault(op[1], [])
                    for a in op[2]:
                        pend += ref_flat_before(before, a)
                return
            j, args, rm = js[0], op[2], False
        else:
            j, args, rm = op[1], [op[2] if k == "newJob" else op[3]], False
        named = []
        for a in args:
            named += ref_flat_before(before, a)
        old = before["R"].get(j, set())
        if not rm:
            if exc != "-":
                V("requires() raised %s" % exc)
                return
            want = old | {x for x in named if x != j}
            if reqs(j) != want:
                V("requires(): got %s, documented %s" % (sorted(reqs(j)), sorted(want)))
        else:
            cur = set(old)
            ok = True
            for x in named:
                if x in cur:
                    cur.discard(x)
                else:
                    ok = False
                    break
            if ok and (exc != "-" or reqs(j) != cur):
                V("requires(remove=True): got %s exc=%s, documented %s" % (sorted(reqs(j)), exc, sorted(cur)))
            if not ok and exc != "KeyError":
                V("requires(remove=True) of an absent requirement did not raise KeyError (got %s)" % exc)
        # frame: nobody else's requirements change
        for o in p.jobs:
            if o != j and o in before["R"] and reqs(o) != before["R"][o]:
                V("requires() on %d changed requirements of %d" % (j, o))
    if k in ("newSeq", "append"):
        q = op[1]
        if exc != "-":
            V("%s raised %s" % (k, exc))
            return
        items = op[2]
        newflat = ref_seqflat_before(before, items)
        oldjobs = before["Q"].get(q, []) if k == "append" else []
        wantjobs = oldjobs + newflat
        got = [j.jid for j in p.seqs[q].jobs]
        if got != wantjobs:
            V("%s: sequence jobs are %s, flattened order is %s" % (k, got, wantjobs))
            return
        allowed = {}
        # the links this call is responsible for (older links may have been removed explicitly since)
        linked = (oldjobs[-1:] + newflat) if k == "append" else wantjobs
        for a, b in zip(linked, linked[1:]):
            if a != b:
                if a not in reqs(b):
                    V("%s: job %d does not require its predecessor %d" % (k, b, a))
                allowed.setdefault(b, set()).add(a)
        if k == "newSeq" and wantjobs:
            first = wantjobs[0]
            named = [x for x in ref_flat_before(before, op[3]) if x != first]
            if not set(named) <= reqs(first):
                V("newSeq: required= not given to the first job")
            allowed.setdefault(first, set()).update(named)
        if k == "newSeq" and not wantjobs:
            # "gives required= to its first job": there is none yet, the requirement waits for it
            p.pending[q] = list(ref_flat_before(before, op[3]))
        if k == "append" and not oldjobs and wantjobs and p.pending.get(q):
            first = wantjobs[0]
            named = [x for x in p.pending.pop(q) if x != first]
            if not set(named) <= reqs(first):
                V("a sequence that had no job when it was given required= / requires(): its first job (appended later) "
                  "does not get those requirements: %d requires %s, expected at least %s" % (first, sorted(reqs(first)), sorted(named)))
            allowed.setdefault(first, set()).update(named)
        for o in p.jobs:
            if o in before["R"]:
                extra = reqs(o) - before["R"][o] - allowed.get(o, set())
                if extra:
                    V("%s added an undocumented requirement %d -> %s" % (k, o, sorted(extra)))
                if before["R"][o] - reqs(o):
                    V("%s removed a requirement" % k)
        s = op[4] if k == "newSeq" else before["QS"].get(q)
        if s is not None:
            mem = {x.jid for x in p.jobs[s].jobs}
            if not set(newflat) <= mem or mem != before["M"][s] | set(newflat):
                V("%s: scheduler= does not register exactly the jobs involved" % k)
    if k in ("add", "update"):
        s = op[1]
        items = [op[2]] if k == "add" else op[2]
        if exc != "-":
            V("%s raised %s" % (k, exc))
            return
        fl = set(ref_seqflat_before(before, items))
        mem = [x.jid for x in p.jobs[s].jobs]
        if set(mem) != before["M"][s] | fl or len(mem) != len(set(mem)):
            V("%s does not register every job involved, once" % k)
    if k in ("newJob", "newSched") and op[3 if k == "newJob" else 4] is not None and exc == "-":
        s = op[3 if k == "newJob" else 4]
        if {x.jid for x in p.jobs[s].jobs} != before["M"][s] | {op[1]}:
            V("scheduler= does not register the new job")


def ref_flat_before(before, a):
    k = a[0]
    if k == "N":
        return []
    if k == "J":
        return [a[1]]
    if k == "Q":
        js = before["Q"].get(a[1], [])
        return [js[-1]] if js else []
    out = []
    for x in a[2]:
        out += ref_flat_before(before, x)
    return out


def ref_seqflat_before(before, items):
    out = []
    for a in items:
        if a[0] == "J":
            out.append(a[1])
        elif a[0] == "Q":
            out += before["Q"].get(a[1], [])
    return out


def snapshot(p):
    # (anything in `required` that is not a job - None, a tuple, a Sequence - shows up as a negative pseudo-id)
    return dict(R={j: {pseudo_jid(r) for r in o.required} for j, o in p.jobs.items()},
                Q={q: [j.jid for j in s.jobs] for q, s in p.seqs.items()},
                QS={q: (s.scheduler.jid if s.scheduler is not None else None) for q, s in p.seqs.items()},
                M={j: {k.jid for k in o.jobs} for j, o in p.jobs.items() if isinstance(o, PureScheduler)})


def c19_case(prog, nj, nq, res, batch, tag):
    p = Prog(nj, nq)
    res.evaluations += 1
    texts, obs = [], []
    done = []
    for op in prog:
        before = snapshot(p)
        txt, exc = c19_exec(p, op)
        done.append(op)
        texts.append(txt)
        obs.append(p.state() + " E=" + exc)
        res.hist("c19_op", op[0])
        if exc != "-":
            res.hist("c19_exc", exc)
        case = dict(kind="prog", prog=[list(o) for o in done], nj=nj, nq=nq, tag=tag)
        c19_oracle(p, op, before, exc, case, res)
        if exc != "-":
            break
    case = dict(kind="prog", prog=[list(o) for o in done], nj=nj, nq=nq, tag=tag)
    src = ";".join(texts)
    batch.add("build", case, "prog nj=%d nq=%d ops=%s" % (nj, nq, src.encode().hex()), "#".join(obs))
    if len(done) >= 2:
        res.nontrivial.add(src)
    res.hist("c19_len", len(done))


def gen_arg(rng, jobs, seqs, depth=0, allow_coll=True):
    r = rng.random()
    if r < 0.12:
        return ("N",)
    if r < 0.55 and jobs:
        return ("J", rng.choice(jobs))
    if r < 0.75 and seqs:
        return ("Q", rng.choice(seqs))
    if allow_coll and depth < 3:
        kind = rng.choice(["list", "tuple", "set"])
        items = [gen_arg(rng, jobs, seqs, depth + 1, allow_coll=(kind != "set")) for _ in range(rng.randint(0, 3))]
        if kind == "set":
            # hashable, distinct elements only: jobs, None, sequences, tuples of those
            def hashable(it):
                return it[0] in ("J", "N", "Q") or (it[0] == "C" and it[1] == "tuple" and all(hashable(x) for x in it[2]))
            items = [gen_arg(rng, jobs, seqs, depth + 1, allow_coll=True) for _ in range(rng.randint(0, 3))]
            seen, out = set(), []
            for it in items:
                if hashable(it) and tuplify(it) not in seen:
                    seen.add(tuplify(it))
                    out.append(it)
            items = out
        return ("C", kind, items)
    return ("J", rng.choice(jobs)) if jobs else ("N",)


def gen_prog(rng, maxlen=10):
    nj, nq = 8, 3
    jobs, seqs, scheds = [], [], []
    prog = []
    for _ in range(rng.randint(1, maxlen)):
        choices = ["newJob"] * 3
        if len(jobs) >= 1:
            choices += ["requires"] * 4 + ["newSeq"] * 2 + ["newSched"]
        if seqs:
            choices += ["append"] * 3 + ["seqRequires"]
        if scheds:
            choices += ["add", "update", "removeJob"]
        k = rng.choice(choices)
        free_j = [j for j in range(nj) if j not in jobs]
        free_q = [q for q in range(nq) if q not in seqs]
        sch = rng.choice(scheds) if scheds and rng.random() < 0.4 else None
        seq_items = lambda: [gen_arg(rng, jobs, seqs, 3, allow_coll=False) if rng.random() < 0.93 else ("C", "list", [("J", rng.choice(jobs))] if jobs else [])
                             for _ in range(rng.randint(0, 4))]
        if k == "newJob" and free_j:
            j = free_j[0]
            prog.append(("newJob", j, gen_arg(rng, jobs, seqs) if rng.random() < 0.5 else ("N",), sch))
            jobs.append(j)
        elif k == "newSched" and free_j:
            j = free_j[0]
            prog.append(("newSched", j, seq_items(), gen_arg(rng, jobs, seqs) if rng.random() < 0.3 else ("N",), sch))
            jobs.append(j)
            scheds.append(j)
        elif k == "requires":
            j = rng.choice(jobs)
            rm = rng.random() < 0.3
            prog.append(("requires", j, [gen_arg(rng, jobs, seqs) for _ in range(rng.randint(0, 3))], rm))
        elif k == "newSeq" and free_q:
            q = free_q[0]
            prog.append(("newSeq", q, seq_items(), gen_arg(rng, jobs, seqs) if rng.random() < 0.4 else ("N",), sch))
            seqs.append(q)
        elif k == "append":
            q = rng.choice(seqs)
            # (the sequence as a requirement just before and just after it is extended: it stands for its current last job)
            if jobs and rng.random() < 0.3:
                prog.append(("requires", rng.choice(jobs), [("Q", q)], False))
            prog.append(("append", q, seq_items()))
            if jobs and rng.random() < 0.3:
                prog.append(("requires", rng.choice(jobs), [("Q", q)], rng.random() < 0.3))
        elif k == "seqRequires":
            prog.append(("seqRequires", rng.choice(seqs), [gen_arg(rng, jobs, seqs) for _ in range(rng.randint(0, 2))]))
        elif k == "add":
            prog.append(("add", rng.choice(scheds), gen_arg(rng, jobs, seqs, 3, allow_coll=False)))
        elif k == "update":
            prog.append(("update", rng.choice(scheds), seq_items()))
        elif k == "removeJob":
            prog.append(("removeJob", rng.choice(scheds), rng.choice(jobs)))
    return prog, nj, nq


def tuplify(x):
    if isinstance(x, (list, tuple)):
        return tuple(tuplify(y) for y in x)
    return x


def fix_arg(a):
    """after a json round trip: args are lists"""
    a = list(a)
    if a[0] == "C":
        return ("C", a[1], [fix_arg(x) for x in a[2]])
    return tuple(a)


def fix_op(op):
    op = list(op)
    k = op[0]
    if k == "newJob":
        return (k, op[1], fix_arg(op[2]), op[3]) + tuple(op[4:5])
    if k in ("newSched", "newSeq"):
        return (k, op[1], [fix_arg(a) for a in op[2]], fix_arg(op[3]), op[4])
    if k == "requires":
        return (k, op[1], [fix_arg(a) for a in op[2]], op[3])
    if k in ("append", "seqRequires", "update"):
        return (k, op[1], [fix_arg(a) for a in op[2]])
    if k == "add":
        return (k, op[1], fix_arg(op[2]))
    return tuple(op)


def run_C19(tier, seed, res, drv, replay=None):
    rng = random.Random(seed)
    batch = Batch(res, drv)
    res.rule = ("random construction programs of 1-10 statements over <= 8 jobs/schedulers and <= 3 sequences, "
                "arguments nested to depth 3 (lists, tuples, sets, None, sequences inside collections, empty "
                "sequences), append with several arguments, remove=True with sequences and collections; fixed corpus "
                "of documented idioms; state compared after every statement. non-trivial = at least two statements "
                "executed; distinct by program text Also: sequences built, edited (chain edge removed, requirement added, required by an outsider), then extended.")
    if replay:
        c = replay["case"]
        c19_case([fix_op(o) for o in c["prog"]], c["nj"], c["nq"], res, batch, "replay")
        batch.flush()
        return
    J = lambda i: ("J", i)
    Q = lambda i: ("Q", i)
    N = ("N",)
    L = lambda *xs: ("C", "list", list(xs))
    base = [("newJob", i, N, None) for i in range(5)]
    corpus = [
        # a sequence used as a requirement, extended, used again (also with remove=True): it stands for its *current* last job
        base + [("newSeq", 0, [J(0), J(1)], N, None), ("requires", 3, [Q(0)], False), ("append", 0, [J(2)]), ("requires", 4, [Q(0)], False)],
        base + [("newSeq", 0, [J(0)], N, None), ("requires", 3, [Q(0)], False), ("append", 0, [J(1)]), ("requires", 3, [Q(0)], False),
                ("append", 0, [J(2)]), ("requires", 3, [Q(0)], True), ("requires", 4, [L(Q(0))], False)],
        base + [("newSeq", 0, [J(0)], N, None), ("newSeq", 1, [J(3)], Q(0), None), ("append", 0, [J(1)]), ("newSeq", 2, [J(4)], Q(0), None)],
        base + [("newSeq", 0, [J(0), J(1)], N, None), ("append", 0, [J(2)])],
    ] + [
        base + [("newSeq", 0, [J(0)], N, None), ("append", 0, [J(1), J(2)])],
        base + [("newSeq", 0, [J(0), J(1)], N, None), ("append", 0, [N])],
        base + [("newSeq", 0, [], N, None), ("append", 0, [J(1), J(2), J(3)])],
        base + [("newSeq", 0, [J(0), J(1)], N, None), ("requires", 2, [Q(0)], False), ("requires", 2, [Q(0)], True)],
        base + [("newSeq", 0, [J(0), J(1)], N, None), ("requires", 2, [Q(0)], True)],
        base + [("requires", 0, [L(J(1), L(L(J(2)))), ("C", "tuple", [J(3), N])], False), ("requires", 0, [L(J(1), J(3))], True)],
        base + [("requires", 0, [J(0), L(J(0))], False), ("requires", 0, [J(4)], True)],
        base + [("newSeq", 0, [J(0), N, J(1)], J(4), None), ("newSeq", 1, [Q(0), J(2)], N, None), ("append", 1, [J(3)])],
        base + [("newSched", 5, [J(0)], N, None), ("newSeq", 0, [J(1), J(2)], N, 5), ("append", 0, [J(3), J(4)]), ("add", 5, Q(0)), ("update", 5, [J(0), Q(0)])],
        base + [("newSeq", 0, [], N, None), ("requires", 1, [Q(0)], False), ("seqRequires", 0, [J(2)])],
        # schedulers that are still empty when they are used (an empty scheduler is falsy: __len__)
        base + [("newSched", 5, [], N, None), ("newSeq", 0, [], N, 5), ("append", 0, [J(0), J(1)]), ("append", 0, [J(2)])],
        base + [("newSched", 5, [], N, None), ("newSeq", 0, [N], N, 5), ("append", 0, [J(0)])],
        base + [("newSched", 5, [], N, None), ("newSched", 6, [], N, None), ("requires", 0, [J(5), J(6)], False), ("newSeq", 0, [J(1), J(5), J(2)], J(6), None)],
        base + [("newSched", 5, [], N, None), ("newJob", 6, J(5), 5), ("add", 5, J(0)), ("update", 5, [J(1), N])],
        # requirements held by a still-empty sequence survive an append() that brings no job
        base + [("newSeq", 0, [], J(4), None), ("append", 0, [N]), ("append", 0, [J(0), J(1)])],
        base + [("newSeq", 0, [], N, None), ("newSeq", 1, [N], N, None), ("seqRequires", 0, [J(3), L(J(4), N)]),
                ("append", 0, [Q(1)]), ("append", 0, [J(0)])],
        base + [("newSeq", 0, [N], J(3), None), ("append", 0, [L()]), ("append", 0, [N, J(0)]), ("append", 0, [N]), ("append", 0, [J(1)])],
    ]
    for prog in corpus:
        c19_case(prog, 8, 3, res, batch, "corpus")
    # a sequence that is built, EDITED (a chain edge removed, a requirement added to a middle job, a job of it
    # required by an outsider), then extended: append() chains the new jobs only
    for i in range(300 if tier == "quick" else 6000):
        n0 = rng.randint(2, 4)
        prog = [("newJob", k, N, None) for k in range(7)] + [("newSeq", 0, [J(k) for k in range(n0)], N, None)]
        for _ in range(rng.randint(1, 3)):
            kind = rng.choice(["cut", "cut", "extra", "outsider"])
            if kind == "cut":
                k = rng.randint(1, n0 - 1)
                prog.append(("requires", k, [J(k - 1)], True))
            elif kind == "extra":
                prog.append(("requires", rng.randint(0, n0 - 1), [J(6)], False))
            else:
                prog.append(("requires", 6, [J(rng.randint(0, n0 - 1))], False))
        prog.append(("append", 0, [J(k) for k in range(n0, rng.randint(n0 + 1, 6))]))
        if rng.random() < 0.5:
            prog.append(("append", 0, [J(5)]))
        c19_case(prog, 8, 3, res, batch, "seq-edit-append")
    # a sequence that holds requirements while it is empty, job-less append()s, then its first jobs
    for i in range(150 if tier == "quick" else 3000):
        prog = [("newJob", k, N, None) for k in range(7)]
        prog.append(("newSeq", 1, rng.choice([[], [N]]), N, None))
        prog.append(("newSeq", 0, rng.choice([[], [N], [Q(1)]]), rng.choice([N, J(5), L(J(5), J(6))]), None))
        steps = rng.randint(2, 5)
        first = rng.randint(1, steps - 1)
        nxt = 0
        for t in range(steps):
            if rng.random() < 0.3:
                prog.append(("seqRequires", 0, [J(rng.choice([5, 6]))]))
            if t < first:
                prog.append(("append", 0, rng.choice([[N], [Q(1)], [L()], [N, L(N)], []])))
            else:
                k = min(rng.randint(1, 2), 5 - nxt)      # (jobs 5 and 6 are the ones given as requirements)
                if k <= 0:
                    break
                prog.append(("append", 0, [J(nxt + x) for x in range(k)]))
                nxt += k
        c19_case(prog, 8, 3, res, batch, "pending-fill")
    # the same collection object given to two constructors, then one of the two jobs edited: the other must not move
    for i in range(150 if tier == "quick" else 3000):
        kind = rng.choice(["set", "list", "tuple"])
        members = rng.sample(range(4), rng.randint(1, 3))
        coll = ("C", kind, [J(m) for m in members])
        prog = [("newJob", k, N, None) for k in (0, 1, 2, 3, 6)]
        prog += [("newJob", 4, coll, None, False), ("newJob", 5, coll, None, True)]
        for _ in range(rng.randint(1, 3)):
            who = rng.choice([4, 5])
            if rng.random() < 0.5:
                prog.append(("requires", who, [J(rng.choice([0, 1, 2, 3, 6]))], False))
            else:
                prog.append(("requires", who, [J(rng.choice(members))], True))
        c19_case(prog, 8, 3, res, batch, "shared-collection")
    for i in range(3000 if tier == "quick" else 80000):
        prog, nj, nq = gen_prog(rng, maxlen=10 if i % 4 else 4)
        c19_case(prog, nj, nq, res, batch, "rand")
        if len(batch.items) > 5000:
            batch.flush()
    batch.flush()


# ================================================================================ C20

ALPH = ['a', 'b', ' ', '"', "'", '\n', '{', '}', '[', ']', ';', ',', '=', '-', '>', 'é', '∞', '<', '/', '#', '%', ':', '\t', '""']
HAVE_DOT = shutil.which("dot")


def lab(rng):
    return ''.join(rng.choice(ALPH) for _ in range(rng.randint(0, 6)))


def dot_accepts(texts):
    """graphviz itself as a syntax oracle (one process for many graphs)"""
    if not HAVE_DOT or not texts:
        return None
    p = subprocess.run([HAVE_DOT, "-Tcanon"], input="\n".join(texts), capture_output=True, text=True)
    return p.returncode == 0 and "syntax error" not in p.stderr, p.stderr[-300:]


def graph_canon(g):
    """what dotparse.parse saw, as one canonical string"""
    A = lambda d: ",".join("%s=%s" % kv for kv in sorted(d.items()))
    return "N[%s] C[%s] E[%s]" % (
        ";".join("%s@%s{%s}" % (i, c, A(a)) for i, c, a in sorted(g.nodes, key=lambda x: x[0])),
        ";".join("%s@%s{%s}" % (n, p, A(a)) for n, p, a in sorted(g.clusters, key=lambda x: x[0])),
        ";".join("%s>%s{%s}" % (a, b, A(at)) for a, b, at in sorted(g.edges, key=lambda x: (x[0], x[1], sorted(x[2].items())))))


def lean_parse_canon(out):
    """the statement list printed by `ajdriver parse`, folded into the same canonical string"""
    if not out.startswith("ok "):
        return out
    H = lambda h: bytes.fromhex(h).decode()
    def AT(a):
        return {} if a == "-" else {H(kv.split("=")[0]): H(kv.split("=")[1]) for kv in a.split(";")}
    parts = out.split(" ")
    stmts = parts[2].split("|") if len(parts) > 2 and parts[2] else []
    g = dotparse.Graph()
    stack = [None]
    open_idx = []
    for st in stmts:
        f = st.split(",")
        if f[0] == "n":
            g.nodes.append((H(f[1]), stack[-1], AT(f[2])))
        elif f[0] == "e":
            g.edges.append((H(f[1]), H(f[2]), AT(f[3])))
        elif f[0] == "o":
            name = None if f[1] == "-" else H(f[1])
            open_idx.append(len(g.clusters))
            g.clusters.append([name, stack[-1], {}])
            stack.append(name)
        elif f[0] == "c":
            stack.pop()
            open_idx.pop()
        elif f[0] == "t" and H(f[1]) == "graph" and open_idx:
            g.clusters[open_idx[-1]][2].update(AT(f[2]))
    g.clusters = [tuple(c) for c in g.clusters]
    return graph_canon(g)


FUZZ_IDS = ["a", "b1", "_x", "node1", "N", "cluster_01", "01", "12", "3.5", ".5", "1.", "1.2.3", "1a", "a.b", "-1", "x-y",
            "graph1", "Node", "SUBGRAPH", "strict", "Digraph", "edge", '"q s"', '""', '"a\\"b"', '"{"', "a_b", "A1"]


def dot_fuzz_doc(rng):
    """a random document in a language a little wider than DOT's subset (odd ids, keywords in odd places, stray tokens)"""
    ident = lambda: rng.choice(FUZZ_IDS)

    def attrs():
        n = rng.randint(0, 3)
        parts = []
        for i in range(n):
            parts.append("%s=%s" % (ident(), ident()))
            if i < n - 1 or rng.random() < 0.3:
                parts.append(rng.choice([",", ";", " ", ""]))
        return "[" + " ".join(parts) + "]"

    def stmt(d):
        r = rng.random()
        if r < 0.3:
            return "%s %s" % (ident(), attrs() if rng.random() < 0.6 else "")
        if r < 0.55:
            return "%s -> %s %s" % (ident(), ident(), attrs() if rng.random() < 0.5 else "")
        if r < 0.65:
            return "%s = %s" % (ident(), ident())
        if r < 0.8:
            return "%s %s" % (rng.choice(["graph", "node", "edge", "GRAPH", "Node"]), attrs())
        if d < 3:
            return "%s { %s }" % (rng.choice(["subgraph " + ident(), "subgraph", ""]), body(d + 1))
        return ident()

    def body(d):
        return " ".join(stmt(d) + rng.choice([";", "", " ;", "\n"]) for _ in range(rng.randint(0, 4)))
    tail = rng.choice(["", "\n", " }", " x"]) if rng.random() < 0.1 else ""
    return "%sdigraph %s{ %s }%s" % (rng.choice(["", "strict ", "STRICT "]), rng.choice([ident() + " ", ""]), body(0), tail)


def has_empty_linked(spec):
    """an empty nested scheduler reachable by the descent from a scheduler that has or is a requirement"""
    sched = set(spec["sched"])
    linked = set()
    for j, rs in spec["req"].items():
        if j in sched and rs:
            linked.add(j)
        for r in rs:
            if r in sched:
                linked.add(r)
    # descent may go through nested schedulers: conservative = any empty scheduler below a linked one
    def below(s):
        out = [s]
        for k in spec["mem"].get(s, []):
            if k in sched:
                out += below(k)
        return out
    return any(not spec["mem"].get(x) for l in linked for x in below(l))


def c20_case(spec, res, batch, tag, dot_texts):
    spec = norm_spec(spec)
    objs = build(spec)
    top = objs[0]
    case = dict(kind="dot", spec=spec, tag=tag)
    res.evaluations += 1
    scheds = subtree_scheds(spec, 0)
    atomic = subtree_jobs(spec, 0)
    enc = encode(objs)
    r = try_call(top.dot_format)
    if r[0] == "ok":
        width = min([len(sched_id(o)) for o in objs[1:] if sched_id(o)] or [1])
        obs = "ok " + r[1].encode().hex()
    else:
        width = 1
        obs = "err " + ("cycle" if r[1] == "Exception" else r[1])
    labels = ",".join(text_label_of(objs[j]).encode().hex() if hasattr(objs[j], "text_label") else "" for j in range(spec["n"]))
    batch.add("dotitems", case, "dot %s s=0 w=%d labels=%s" % (enc, width, labels), obs)
    res.hist("c20_scheds", len(scheds))
    res.hist("c20_result", r[0] if r[0] == "ok" else r[1])
    if len(scheds) > 1 or any(c in (spec["labels"].get(j) or "") for j in atomic for c in '"\n{}'):
        res.nontrivial.add((str(sorted(spec["mem"].items())), str(sorted(spec["req"].items())), str(sorted(spec["labels"].items()))))
    # ---- oracle: only for acyclic closed trees without backslash in labels
    if not all(closed(spec, s) and acyclic(spec["mem"].get(s, []), edges_within(spec, s)) for s in scheds):
        return
    if r[0] != "ok":
        if r[1] == "ValueError" and has_empty_linked(spec):
            res.violations.append(("KNOWN:D9 dot_format() raises ValueError: empty nested scheduler that has or is a requirement", case))
        else:
            res.violations.append(("dot_format() raised %s on an acyclic closed tree" % r[1], case))
        return
    text = r[1]
    try:
        g = dotparse.parse(text)
    except dotparse.DotSyntaxError as e:
        res.violations.append(("dot_format() is not valid DOT: %s" % e, case))
        return
    dot_texts.append((text, case))
    # the model's own DOT lexer + parser (Model/DotLex, Model/DotParse: the ones `render_parses` is about) applied
    # to the real text must accept it and see the same graph as the independent Python parser
    batch.add("dotparse", case, "parse text=%s" % text.encode().hex(), graph_canon(g), canon=lean_parse_canon)
    ids = {j: sched_id(objs[j]) for j in range(1, spec["n"]) if sched_id(objs[j])}
    # nodes <-> atomic jobs. An EMPTY nested scheduler may own one invisible node, named after itself and placed in its
    # own cluster, for the edges from / to that cluster to hold on to (each atomic job is still exactly one node)
    empty_scheds = {k for k in spec["sched"] if k != 0 and k in ids and not spec["mem"].get(k)}
    holders = {}
    real_nodes = []
    for nid, cluster, attrs in g.nodes:
        k = next((k for k in empty_scheds if ids[k] == nid), None)
        if k is not None and attrs.get("style") == "invis":
            if k in holders or cluster != "cluster_" + ids[k]:
                res.violations.append(("the invisible node of an empty nested scheduler is not unique / not inside its own cluster", case))
            holders[k] = nid
        else:
            real_nodes.append((nid, cluster, attrs))
    node_ids = [nid for nid, _, _ in real_nodes]
    want_nodes = sorted(ids[j] for j in atomic)
    if sorted(node_ids) != want_nodes or len(set(want_nodes)) != len(want_nodes):
        res.violations.append(("nodes are not exactly the atomic jobs with unique ids", case))
        return
    all_ids = [ids[j] for s in scheds for j in spec["mem"].get(s, [])]
    if len(set(all_ids)) != len(all_ids):
        res.violations.append(("ids are not unique tree-wide", case))
    by_id = {ids[j]: j for j in ids}
    # clusters nested as the schedulers
    want_clusters = {}
    for s in scheds:
        for k in spec["mem"].get(s, []):
            if k in spec["sched"]:
                want_clusters["cluster_" + ids[k]] = ("cluster_" + ids[s]) if s != 0 else None
    got_clusters = {name: parent for name, parent, _ in g.clusters}
    if got_clusters != want_clusters:
        res.violations.append(("clusters are not exactly the nested schedulers, nested as they are", case))
    # node placement
    for nid, cluster, attrs in real_nodes:
        j = by_id[nid]
        parent = next(s for s in scheds if j in spec["mem"].get(s, []))
        if cluster != (("cluster_" + ids[parent]) if parent != 0 else None):
            res.violations.append(("a node is not inside the cluster of its scheduler", case))
        check_style(spec, objs, j, nid, attrs, case, res, atomic=True)
    # (a cluster inherits the graph attributes of the cluster that encloses it: what counts is the effective style)
    own = {name: (parent, attrs) for name, parent, attrs in g.clusters}
    def effective(name, seen=()):
        parent, attrs = own[name]
        base = effective(parent, seen + (name,)) if parent in own and parent not in seen and parent != name else {}
        return dict(base, **attrs)
    for name, parent, attrs in g.clusters:
        j = by_id[name[len("cluster_"):]]
        check_style(spec, objs, j, ids[j], dict(effective(name), label=attrs.get("label")), case, res, atomic=False)
    # edges <-> requirement pairs
    want_edges = []
    for s in scheds:
        for x in spec["mem"].get(s, []):
            for y in objs[x].required:
                want_edges.append((x, y.jid))
    got = []
    def inside(s):
        return set(subtree_jobs(spec, s))
    for a, b, attrs in g.edges:
        ja, jb = by_id.get(a), by_id.get(b)
        ok_end = lambda j: j is not None and (j in atomic or j in holders)
        if not ok_end(ja) or not ok_end(jb):
            res.violations.append(("an edge endpoint is not a node of the document (an atomic job, or the invisible node of an empty nested scheduler)", case))
            continue
        if (ja in holders and "ltail" not in attrs) or (jb in holders and "lhead" not in attrs):
            res.violations.append(("an edge uses the invisible node of an empty scheduler without naming its cluster", case))
            continue
        src = ja
        dst = jb
        if "ltail" in attrs:
            c = by_id.get(attrs["ltail"][len("cluster_"):])
            if c is None or (ja not in inside(c) and ja != c and ja not in subtree_scheds(spec, c)):
                res.violations.append(("ltail names a cluster that does not contain the tail node", case))
                continue
            src = c
        if "lhead" in attrs:
            c = by_id.get(attrs["lhead"][len("cluster_"):])
            if c is None or (jb not in inside(c) and jb != c and jb not in subtree_scheds(spec, c)):
                res.violations.append(("lhead names a cluster that does not contain the head node", case))
                continue
            dst = c
        got.append((dst, src))
        if len(getattr(g, "edge_clusters", [])) == len(g.edges):
            # an edge statement inside a subgraph pulls both end nodes into that cluster: it has to be written in the body
            # of the scheduler that owns the requiring job (the top-level body for the jobs of the top-level scheduler)
            where = g.edge_clusters[g.edges.index((a, b, attrs))]
            owner = next((s for s in scheds if dst in spec["mem"].get(s, [])), None)
            w = by_id.get(where[len("cluster_"):]) if where else scheds[0] if scheds else None
            if owner is not None and w != owner and not (where is None and owner == 0):
                res.violations.append(("the edge for '%s requires %s' is written inside %s, not in the body of scheduler %s"
                                       % (dst, src, where or "the top-level graph", owner), case))
    if sorted(got) != sorted(want_edges):
        res.violations.append(("edges %s are not exactly the requirements %s" % (sorted(got), sorted(want_edges)), case))
    used = {by_id.get(a) for a, b, _ in g.edges} | {by_id.get(b) for a, b, _ in g.edges}
    for k in holders:
        if k not in used:
            res.violations.append(("a node that is neither an atomic job nor the anchor of any edge (invisible node of an empty "
                                   "nested scheduler that no edge is attached to)", case))
    if g.compound is not True:
        res.violations.append(("compound=true missing (edges to clusters would not be clipped)", case))


def check_style(spec, objs, j, nid, attrs, case, res, atomic):
    label = objs[j].label
    want_label = "%s: %s" % (nid, label if label is not None else "NOLABEL")
    if attrs.get("label") != want_label:
        res.violations.append(("label did not survive quoting: %r vs %r" % (attrs.get("label"), want_label), case))
    styles = [s for s in (attrs.get("style") or "").split(",") if s]
    crit = j in spec["critical"]
    if crit and not (attrs.get("color") == "red" and attrs.get("penwidth") == "2"):
        res.violations.append(("critical job not rendered red / penwidth 2", case))
    if not crit and (attrs.get("color") == "red" or attrs.get("penwidth") != "0.5"):
        res.violations.append(("non-critical job rendered as critical", case))
    if (j in spec["forever"]) != ("dashed" in styles):
        res.violations.append(("forever flag not rendered as dashed", case))
    if atomic != ("rounded" in styles):
        res.violations.append(("rounded corners must mark atomic jobs only", case))
    if attrs.get("shape") != "box":
        res.violations.append(("shape is not box", case))


def run_C20(tier, seed, res, drv, replay=None):
    rng = random.Random(seed)
    batch = Batch(res, drv)
    dot_texts = []
    res.rule = ("random scheduler trees of depth <= 3 (empty nested schedulers included), requirement DAG at each "
                "level, labels over quotes / newlines / DOT punctuation / non-ASCII / empty (no backslash), all flag "
                "assignments; every string also quoted alone (quote component). dot_format() compared byte for byte "
                "with the model's rendering, parsed by an independent DOT-subset parser and fed to `dot -Tcanon`. "
                "non-trivial = nested scheduler or a label with a quote/newline/brace; distinct by (tree, edges, labels) Also: trees reached through a history (list / list_safe / dot_format / run(), then part of the edges added); the model's own DOT lexer + parser applied to the real text (dotparse) and fuzzed against graphviz (dotgrammar).")
    if replay:
        c20_case(replay["case"]["spec"], res, batch, "replay", dot_texts)
        batch.flush()
        return
    fixed = [
        dict(n=3, sched=[0, 2], mem={0: [1, 2], 2: []}, req={2: [1]}, labels={1: "a", 2: "e"}),     # D9
        dict(n=3, sched=[0, 1], mem={0: [1, 2], 1: []}, req={2: [1]}, labels={1: "e", 2: "b"}),     # D9
        dict(n=3, sched=[0, 1], mem={0: [1, 2], 1: []}, req={}, labels={1: "e", 2: "b"}),           # empty, unlinked: fine
        dict(n=6, sched=[0, 2], mem={0: [1, 2, 5], 2: [3, 4]}, req={2: [1], 5: [2], 4: [3]}, labels={1: 'q"q', 3: "x\ny", 4: "{};", 5: "é∞"}, forever=[3, 4]),
    ]
    for spec in fixed:
        spec = dict(spec, rank={j: j for j in range(spec["n"])})
        c20_case(spec, res, batch, "fixed", dot_texts)
    for i in range(1500 if tier == "quick" else 30000):
        spec = random_tree(rng, labels=lab, p_sched=rng.choice([0.2, 0.35, 0.5]), allow_empty=(i % 3 != 0))
        spec["top_pure"] = rng.random() < 0.3
        if i % 3 == 1:
            spec = with_history(spec, rng)      # listed / exported / run before, then edited: same text expected
        c20_case(spec, res, batch, "rand" if i % 3 != 1 else "rand-history", dot_texts)
        if len(batch.items) > 3000:
            batch.flush()
    # quoting alone
    from asynciojobs.dotstyle import DotStyle
    for i in range(500 if tier == "quick" else 20000):
        s = ''.join(rng.choice(ALPH) for _ in range(rng.randint(0, 12)))
        q = DotStyle.protect(s)
        res.count("quote", 0)
        batch.add("quote", dict(kind="quote", s=s), "quote s=%s" % s.encode().hex(), "%s true true" % q.encode().hex())
        try:
            back = dotparse.unquote(q)
        except dotparse.DotSyntaxError:
            back = None
        if back != s:
            res.violations.append(("protect(%r) does not read back as the same string in DOT" % s, dict(kind="quote", s=s)))
    batch.flush()
    # the model's DOT lexer + parser (what `render_parses` is about) must not be more permissive than graphviz: every
    # random document they accept, `dot` accepts (documents are drawn from a grammar a little wider than DOT's)
    if HAVE_DOT:
        docs = [dot_fuzz_doc(rng) for _ in range(250 if tier == "quick" else 4000)]
        outs = drv.ask(["parse text=%s" % d.encode().hex() for d in docs])
        accepted = [d for d, o in zip(docs, outs) if o.startswith("ok")]
        res.dist["dotgrammar"] = {"documents": len(docs), "accepted_by_model": len(accepted)}
        for d in accepted:
            res.count("dotgrammar")
            p = subprocess.run([HAVE_DOT, "-Tcanon"], input=d, capture_output=True, text=True)
            if p.returncode != 0 or "syntax error" in p.stderr or "syntax ambiguity" in p.stderr:
                res.mismatches.append(("dotgrammar", dict(kind="dotdoc", text=d), "accepted by the model's lexer and parser",
                                       "rejected by graphviz: " + p.stderr.strip()[:200]))
    # graphviz as a second syntax oracle, in chunks; on failure find the culprit
    if HAVE_DOT:
        chunk = 200
        for i in range(0, len(dot_texts), chunk):
            part = dot_texts[i:i + chunk]
            ok = dot_accepts([t for t, _ in part])
            res.count("dot-Tcanon", len(part))
            if ok and not ok[0]:
                for t, case in part:
                    o = dot_accepts([t])
                    if o and not o[0]:
                        res.violations.append(("graphviz rejects the output: " + o[1], case))
                        break
    else:
        res.notes.append("graphviz `dot` not found: syntax oracle is the in-house parser only")


RUNNERS = {"C15": run_C15, "C16": run_C16, "C17": run_C17, "C18": run_C18, "C19": run_C19, "C20": run_C20}
