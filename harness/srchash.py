"""
Evidence only (never decides anything): a normalised-AST hash of every Python function the Lean models transcribe.
When a hash differs from the one recorded when the model was last compared with the source by a person
(lean/model_source_hashes.json), the run says so in its evidence and raises its generation budget.
"""
import ast, hashlib, json, os
from aj_common import REPO, LEAN

MODELLED = {
    "purescheduler.py": ["PureScheduler.__init__", "PureScheduler.update", "PureScheduler.add", "PureScheduler.remove",
                         "PureScheduler.failed_time_out", "PureScheduler.failed_critical", "PureScheduler.why",
                         "PureScheduler.sanitize", "PureScheduler.check_cycles", "PureScheduler.topological_order",
                         "PureScheduler.entry_jobs", "PureScheduler.exit_jobs", "PureScheduler._neighbours",
                         "PureScheduler.predecessors", "PureScheduler.successors", "PureScheduler._neighbours_closure",
                         "PureScheduler.predecessors_upstream", "PureScheduler.successors_downstream",
                         "PureScheduler.bypass_and_remove", "PureScheduler.keep_only", "PureScheduler.keep_only_between",
                         "PureScheduler._middle_entry_job", "PureScheduler._middle_exit_job", "PureScheduler._backlinks",
                         "PureScheduler._create_task", "PureScheduler._record_beginning", "PureScheduler._remaining_timeout",
                         "PureScheduler._tidy_tasks", "PureScheduler._tidy_tasks_exception", "PureScheduler.co_shutdown",
                         "PureScheduler.co_run", "PureScheduler._co_run", "PureScheduler._set_sched_ids",
                         "PureScheduler.list", "PureScheduler._stats", "PureScheduler.stats", "PureScheduler.iterate_jobs", "PureScheduler.dot_format", "PureScheduler._dot_body"],
    "scheduler.py": ["Scheduler.__init__", "Scheduler.co_run", "Scheduler._set_sched_id", "Scheduler._iterate_jobs",
                     "Scheduler.dot_cluster_name", "Scheduler.check_cycles"],
    "job.py": ["AbstractJob.__init__", "AbstractJob._set_sched_id", "AbstractJob.dot_style", "AbstractJob._add_one_requirement",
               "AbstractJob.requires", "AbstractJob.is_idle", "AbstractJob.is_scheduled", "AbstractJob.is_running",
               "AbstractJob.is_done", "AbstractJob.raised_exception", "AbstractJob.result", "Job.co_run", "Job.co_shutdown"],
    "window.py": ["Window.__init__", "Window.run_job"],
    "sequence.py": ["Sequence.__init__", "Sequence._flatten", "Sequence.append", "Sequence.requires"],
    "dotstyle.py": ["DotStyle.__repr__", "DotStyle.protect", "DotStyle.value"],
}


def current():
    out = {}
    for fn, names in MODELLED.items():
        path = os.path.join(REPO, "asynciojobs", fn)
        try:
            tree = ast.parse(open(path).read())
        except Exception as e:          # noqa
            out[fn] = "unparsable: %s" % e
            continue
        found = {}
        for node in tree.body:
            if isinstance(node, ast.ClassDef):
                for sub in node.body:
                    if isinstance(sub, (ast.FunctionDef, ast.AsyncFunctionDef)):
                        # docstrings do not count
                        body = sub.body[1:] if (sub.body and isinstance(sub.body[0], ast.Expr) and
                                                isinstance(getattr(sub.body[0], "value", None), ast.Constant) and
                                                isinstance(sub.body[0].value.value, str)) else sub.body
                        dump = ast.dump(ast.Module(body=body, type_ignores=[])) + ast.dump(sub.args)
                        found["%s.%s" % (node.name, sub.name)] = hashlib.sha256(dump.encode()).hexdigest()[:12]
        for n in names:
            out["%s:%s" % (fn, n)] = found.get(n, "missing")
    return out


def drift():
    """names of modelled functions whose source differs from the recorded baseline"""
    base_path = os.path.join(LEAN, "model_source_hashes.json")
    cur = current()
    if not os.path.exists(base_path):
        return None, cur
    base = json.load(open(base_path))
    return sorted(k for k in set(base) | set(cur) if base.get(k) != cur.get(k)), cur


if __name__ == "__main__":
    import sys
    if len(sys.argv) > 1 and sys.argv[1] == "--record":
        json.dump(current(), open(os.path.join(LEAN, "model_source_hashes.json"), "w"), indent=1, sort_keys=True)
        print("recorded")
    else:
        print(drift()[0])
