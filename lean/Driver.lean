/-
  ajdriver: line protocol between the Python harness and the executable Lean models.
  One input line = one request, one output line = the model's canonical answer.
  A malformed line is answered `bad-request …`, never defaulted.
-/
import AJ.Model.Graph
import AJ.Model.Surgery
import AJ.Model.Build
import AJ.Model.Dot
import AJ.Model.DotParse
import AJ.DriverDyn
open AJ

namespace Drv

def splitOn1 (s : String) (sep : String) : List String := s.splitOn sep

def parseNat? (s : String) : Option Nat := s.toNat?

/-- `a,b,c` (empty string = empty list) -/
def parseNats (s : String) : Option (List Nat) :=
  if s.isEmpty then some [] else (s.splitOn ",").mapM parseNat?

/-- `k:a,b|k2:c` -/
def parseMap (s : String) : Option (List (Nat × List Nat)) :=
  if s.isEmpty then some [] else
  (s.splitOn "|").mapM fun e =>
    match e.splitOn ":" with
    | [k, v] => do let k ← parseNat? k; let v ← parseNats v; pure (k, v)
    | _ => none

def lookupMap (m : List (Nat × List Nat)) (k : Nat) : List Nat :=
  match m.find? (·.1 = k) with | some p => p.2 | none => []

abbrev KV := List (String × String)

def parseKV (toks : List String) : KV :=
  toks.filterMap fun tok =>
    match tok.splitOn "=" with
    | k :: rest => some (k, "=".intercalate rest)
    | _ => none

def KV.get (kv : KV) (k : String) : Option String := (kv.find? (·.1 = k)).map (·.2)
def KV.nats (kv : KV) (k : String) : Option (List Nat) := do parseNats (← kv.get k)
def KV.nat (kv : KV) (k : String) : Option Nat := do parseNat? (← kv.get k)
def KV.map (kv : KV) (k : String) : Option (List (Nat × List Nat)) := do parseMap (← kv.get k)
def KV.bool (kv : KV) (k : String) : Option Bool := do
  match ← kv.get k with | "1" => some true | "0" => some false | _ => none

def parseTree (kv : KV) : Option T := do
  let n ← kv.nat "n"
  let S ← kv.nats "S"
  let M ← kv.map "M"
  let R ← kv.map "R"
  let F ← kv.nats "F"
  let C ← kv.nats "C"
  pure { n := n, isSched := fun j => j ∈ S, mem := lookupMap M, req := lookupMap R,
         forever := fun j => j ∈ F, critical := fun j => j ∈ C }

def sortNats (l : List Nat) : List Nat := (l.toArray.qsort (· < ·)).toList
def showNats (l : List Nat) : String := ",".intercalate (l.map toString)
def showSet (l : List Nat) : String := showNats (sortNats l)

def showReqs (t : T) : String :=
  "|".intercalate ((List.range t.n).map fun j => s!"{j}:{showSet (t.req j)}")
def showMems (t : T) : String :=
  "|".intercalate (((List.range t.n).filter t.isSched).map fun j => s!"{j}:{showSet (t.mem j)}")

def hexDigit (c : Char) : Option Nat :=
  if '0' ≤ c ∧ c ≤ '9' then some (c.toNat - '0'.toNat)
  else if 'a' ≤ c ∧ c ≤ 'f' then some (c.toNat - 'a'.toNat + 10) else none

def unhex (s : String) : Option String := do
  let rec go : List Char → Option (List UInt8)
    | [] => some []
    | a :: b :: rest => do
      let x ← hexDigit a; let y ← hexDigit b; let r ← go rest
      pure (UInt8.ofNat (16 * x + y) :: r)
    | _ => none
  let bytes ← go s.toList
  String.fromUTF8? (ByteArray.mk bytes.toArray)

def hexOf (s : String) : String :=
  let d := fun (n : Nat) => "0123456789abcdef".toList[n]!
  String.ofList (s.toUTF8.toList.flatMap fun b => [d (b.toNat / 16), d (b.toNat % 16)])

/-! construction programs: tokens `N`, `J3`, `Q1`, `[`, `]` -/

partial def parseArgs : List String → Option (List Arg × List String)
  | [] => some ([], [])
  | "]" :: rest => some ([], "]" :: rest)
  | "N" :: rest => do let (as, r) ← parseArgs rest; pure (Arg.none :: as, r)
  | "[" :: rest => do
    let (inner, r) ← parseArgs rest
    match r with
    | "]" :: r' => do let (as, r'') ← parseArgs r'; pure (Arg.coll inner :: as, r'')
    | _ => none
  | tok :: rest => do
    let k ← parseNat? (tok.drop 1).toString
    let a ← if tok.startsWith "J" then some (Arg.job k) else if tok.startsWith "Q" then some (Arg.seq k) else none
    let (as, r) ← parseArgs rest
    pure (a :: as, r)

def parseArgList (s : String) : Option (List Arg) :=
  match parseArgs ((s.splitOn " ").filter (· ≠ "")) with
  | some (as, []) => some as
  | _ => none

def parseArg1 (s : String) : Option Arg := do
  match ← parseArgList s with | [a] => some a | _ => none

def parseOptNat (s : String) : Option (Option Nat) :=
  if s = "-" then some none else (parseNat? s).map some

/-- one statement: fields separated by `/` -/
def parseOp (s : String) : Option Op :=
  match (s.splitOn "/").map (·.trimAscii.toString) with
  | ["newJob", j, req, sch] => do pure (.newJob (← parseNat? j) (← parseArg1 req) (← parseOptNat sch))
  | ["newSched", j, items, req, sch] => do
    pure (.newSched (← parseNat? j) (← parseArgList items) (← parseArg1 req) (← parseOptNat sch))
  | ["requires", j, args, rm] => do
    pure (.requires (← parseNat? j) (← parseArgList args) (rm = "1"))
  | ["newSeq", q, items, req, sch] => do
    pure (.newSeq (← parseNat? q) (← parseArgList items) (← parseArg1 req) (← parseOptNat sch))
  | ["append", q, items] => do pure (.append (← parseNat? q) (← parseArgList items))
  | ["seqRequires", q, args] => do pure (.seqRequires (← parseNat? q) (← parseArgList args))
  | ["add", s, x] => do pure (.add (← parseNat? s) (← parseArg1 x))
  | ["update", s, xs] => do pure (.update (← parseNat? s) (← parseArgList xs))
  | ["removeJob", s, j] => do pure (.removeJob (← parseNat? s) (← parseNat? j))
  | _ => none

def showHeap (h : Heap) (nj nq : Nat) : String :=
  let r := "|".intercalate ((List.range nj).map fun j => s!"{j}:{showSet (h.req j)}")
  let q := "|".intercalate ((List.range nq).map fun j => s!"{j}:{showNats (h.seqJobs j)}")
  let m := "|".intercalate ((List.range nj).map fun j => s!"{j}:{showSet (h.mem j)}")
  s!"R={r} Q={q} M={m}"

def showExcept (r : Except Err String) : String :=
  match r with | .ok s => "ok " ++ s | .error e => "err " ++ toString e

def staticRequest (cmd : String) (kv : KV) : Option String := do
  match cmd with
  | "prog" =>
    let nj ← kv.nat "nj"; let nq ← kv.nat "nq"
    let src ← unhex (← kv.get "ops")
    let ops ← (src.splitOn ";").mapM parseOp
    -- state after every statement, `#`-separated
    let (_, outs) := ops.foldl (init := (Heap.empty, ([] : List String))) fun (acc : Heap × List String) op =>
      let (h', e) := interp acc.1 op
      (h', acc.2 ++ [showHeap h' nj nq ++ " E=" ++ (match e with | some e => toString e | none => "-")])
    pure ("#".intercalate outs)
  | "quote" =>
    let s ← unhex (← kv.get "s")
    let q := protect s
    let back := match q.toList with
      | '"' :: rest => (unquoteChars rest).map fun (p : List Char × List Char) => (String.ofList p.1, p.2.isEmpty)
      | _ => none
    pure (hexOf q ++ " " ++ (match back with | some (b, e) => s!"{decide (b = s)} {e}" | none => "none"))
  | "parse" =>
    -- the DOT lexer + parser of the model applied to a text (the real output of dot_format())
    let txt ← unhex (← kv.get "text")
    let hx := fun (cs : List Char) => hexOf (String.ofList cs)
    let attrs := fun (as : DAttrs) =>
      if as.isEmpty then "-" else ";".intercalate (as.map fun kv => hx kv.1 ++ "=" ++ hx kv.2)
    let showStmt : DStmt → String
      | .assign k v => s!"a,{hx k},{hx v}"
      | .attr k as => s!"t,{hx k},{attrs as}"
      | .node i as => s!"n,{hx i},{attrs as}"
      | .edge a b as => s!"e,{hx a},{hx b},{attrs as}"
      | .openSub none => "o,-"
      | .openSub (some nm) => s!"o,{hx nm}"
      | .closeSub => "c"
    match parseString txt with
    | none => pure "none"
    | some (nm, ss) => pure ("ok " ++ (match nm with | some x => hx x | none => "-") ++ " " ++ "|".intercalate (ss.map showStmt))
  | _ =>
  let t ← parseTree kv
  let s ← kv.nat "s"
  let fuel := t.n + 1
  match cmd with
  | "topo" =>
    let ext ← kv.nats "ext"
    pure (showExcept ((topo t s ext).map showNats))
  | "cycles" => let ext ← kv.nats "ext"; pure (toString (checkCyclesPure t s ext))
  | "cyclesN" => pure (toString (checkCyclesNested t fuel s))
  | "ids" =>
    pure (showExcept ((assignIds t fuel s 1).map fun (nxt, l) =>
      s!"{nxt} " ++ ",".intercalate (l.map fun (j, i) => s!"{j}:{i}")))
  | "listing" => pure (showExcept ((listing t fuel s).map showNats))
  | "sanitize" =>
    let (t', b) := sanitize t fuel s
    pure s!"{b} R={showReqs t'}"
  | "neigh" => pure (showSet (neigh t s (← kv.bool "up") (← kv.nats "starts")))
  | "closure" => pure (showSet (closure t s (← kv.bool "up") (← kv.nats "starts")))
  | "entry" => pure (showNats (entryJobs t s))
  | "exit" => pure (showNats (exitJobs t s (← kv.bool "discard")))
  | "iterate" => pure (showNats (iterateJobs t (← kv.bool "scan") fuel s))
  | "bypass" =>
    pure (showExcept ((bypass t s (← kv.nat "j")).map fun t' => s!"M={showMems t'} R={showReqs t'}"))
  | "keeponly" =>
    let t' := keepOnly t fuel s (← kv.nats "remains")
    pure s!"M={showMems t'} R={showReqs t'}"
  | "between" =>
    let t' := keepOnlyBetween t fuel s (← kv.nats "starts") (← kv.nats "ends") (← kv.bool "ks") (← kv.bool "ke")
    pure s!"M={showMems t'} R={showReqs t'}"
  | "dot" =>
    let w ← kv.nat "w"
    let labs ← ((← kv.get "labels").splitOn ",").mapM unhex
    match assignIds t fuel s 1 with
    | .error e => pure ("err " ++ toString e)
    | .ok (_, ids) =>
      match dotBody t fuel fuel s with
      | .error e => pure ("err " ++ toString e)
      | .ok items =>
        let ctx : RenderCtx := { t := t, w := w, label := fun j => labs.getD j "",
                                 idOf := fun j => match ids.find? (·.1 = j) with | some p => p.2 | none => 0 }
        pure ("ok " ++ hexOf (render ctx items))
  | "middle" =>
    pure (showExcept ((middleEntry t fuel s).map toString) ++ " " ++ showExcept ((middleExit t fuel s).map toString))
  | _ => none

end Drv

def handleLine (line : String) : String :=
  let toks := (line.trimAscii.toString.splitOn " ").filter (· ≠ "")
  match toks with
  | [] => "bad-request empty"
  | cmd :: rest =>
    if cmd = "prog" || cmd = "quote" || cmd = "parse" then
      -- `prog`/`quote` carry hex payloads only: safe to split on spaces
      match Drv.staticRequest cmd (Drv.parseKV rest) with
      | some out => out | none => "bad-request " ++ cmd
    else if AJ.Dyn.isDynCmd cmd then AJ.Dyn.handle cmd rest
    else
      match Drv.staticRequest cmd (Drv.parseKV rest) with
      | some out => out | none => "bad-request " ++ cmd

partial def loop (hin hout : IO.FS.Stream) : IO Unit := do
  let line ← hin.getLine
  if line.isEmpty then return ()
  hout.putStrLn (handleLine line)
  loop hin hout

def main : IO Unit := do
  let hin ← IO.getStdin
  let hout ← IO.getStdout
  loop hin hout
  hout.flush
