/-
  Reference relations the static theorems are stated against (no Mathlib needed).
-/
import AJ.Model.Graph
import AJ.Model.Surgery
import AJ.Model.Build
import AJ.Model.Dot
namespace AJ

/-- `x` requires `y`, both members of scheduler `s` -/
def Edge (t : T) (s x y : Nat) : Prop := y ∈ t.req x ∧ x ∈ t.mem s ∧ y ∈ t.mem s

/-- one or more requirement links inside scheduler `s` (`x` must run after `y`) -/
inductive Reach (t : T) (s : Nat) : Nat → Nat → Prop
  | single {x y : Nat} : Edge t s x y → Reach t s x y
  | tail {x y z : Nat} : Reach t s x y → Edge t s y z → Reach t s x z

def Acyclic (t : T) (s : Nat) : Prop := ∀ x, ¬ Reach t s x x

/-- every requirement of a member is a member -/
def Closed (t : T) (s : Nat) : Prop := ∀ x ∈ t.mem s, ∀ y ∈ t.req x, y ∈ t.mem s

/-- one link as `_neighbours` follows it: the *target* must be a member, the source need not.
    `up = true`: `y` is required by `x`; `up = false`: `y` requires `x`. -/
def Link (t : T) (s : Nat) (up : Bool) (x y : Nat) : Prop :=
  y ∈ t.mem s ∧ (if up then y ∈ t.req x else x ∈ t.req y)

/-- one or more such links -/
inductive ReachL (t : T) (s : Nat) (up : Bool) : Nat → Nat → Prop
  | single {x y : Nat} : Link t s up x y → ReachL t s up x y
  | tail {x y z : Nat} : ReachL t s up x y → Link t s up y z → ReachL t s up x z

/-- `d` is a job of the subtree of scheduler `s` (at any depth) -/
inductive Desc (t : T) : Nat → Nat → Prop
  | child {s k : Nat} : t.isSched s = true → k ∈ t.mem s → Desc t s k
  | deeper {s k d : Nat} : t.isSched s = true → k ∈ t.mem s → Desc t k d → Desc t s d

/-- sequential removal, as `requires(..., remove=True)` performs it: `none` = `KeyError` -/
def removeAll : List Nat → List Nat → Option (List Nat)
  | l, [] => some l
  | l, x :: xs => if x ∈ l then removeAll (l.erase x) xs else none

/-- consecutive pairs of a list -/
def pairs : List Nat → List (Nat × Nat)
  | a :: b :: rest => (a, b) :: pairs (b :: rest)
  | _ => []

end AJ
