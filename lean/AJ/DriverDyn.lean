/- dynamic part of the driver (replay of real traces, monitors) -/
namespace AJ.Dyn
def isDynCmd (_cmd : String) : Bool := false
def handle (_cmd : String) (_toks : List String) : String := "bad-request"
end AJ.Dyn
