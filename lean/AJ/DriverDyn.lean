/-
  dynamic part of the driver: replay of a real trace (translated by harness/dyn_replay.py into model
  events + the reactions observed on the implementation) through the executable model.

  request:  replayA <cfg tokens> ev=<e1;e2;…>
  answer:   ok <n>                                  every event accepted, every observed reaction = prescribed
            reject <i> <component> <detail>         first difference (i = index of the event)
-/
import AJ.Model.Run
import AJ.Model.Full
namespace AJ.Dyn
open AJ.Run

def parseNats (s : String) : Option (List Nat) :=
  if s.isEmpty || s = "-" then some [] else (s.splitOn ",").mapM (·.toNat?)

def parseMapNat (s : String) : Option (List (Nat × Nat)) :=
  if s.isEmpty || s = "-" then some [] else
  (s.splitOn ",").mapM fun e =>
    match e.splitOn ":" with
    | [k, v] => do pure (← k.toNat?, ← v.toNat?)
    | _ => none

def parseMapList (s : String) : Option (List (Nat × List Nat)) :=
  if s.isEmpty || s = "-" then some [] else
  (s.splitOn "|").mapM fun e =>
    match e.splitOn ":" with
    | [k, v] => do pure (← k.toNat?, ← parseNats v)
    | _ => none

def kvOf (toks : List String) : List (String × String) :=
  toks.filterMap fun tok =>
    match tok.splitOn "=" with
    | k :: rest => some (k, "=".intercalate rest)
    | _ => none

def getKV (kv : List (String × String)) (k : String) : Option String := (kv.find? (·.1 = k)).map (·.2)

def look {α : Type} (m : List (Nat × α)) (k : Nat) : Option α := (m.find? (·.1 = k)).map (·.2)

def parseCfg (kv : List (String × String)) : Option Cfg := do
  let n ← (← getKV kv "n").toNat?
  let P ← parseNats (← getKV kv "P")
  let S ← parseNats (← getKV kv "S")
  let R ← parseMapList (← getKV kv "R")
  let C ← parseNats (← getKV kv "C")
  let F ← parseNats (← getKV kv "F")
  let W ← parseMapNat (← getKV kv "W")
  let T ← parseMapNat (← getKV kv "T")
  let X ← parseMapNat (← getKV kv "X")
  let pure_ ← getKV kv "pure"
  pure { n := n, parent := fun j => P.getD j 0, isSched := fun j => j ∈ S,
         req := fun j => (look R j).getD [], critical := fun j => j ∈ C, forever := fun j => j ∈ F,
         window := fun j => (look W j).getD 0, timeout := look T, sdTimeout := look X,
         topPure := pure_ = "1" }

def parseRes (s : String) : Option (Option Res) :=
  if s = "c" then some none
  else if s = "own" then some (some .retOwn)
  else if s = "t" then some (some (.retBool true))
  else if s = "f" then some (some (.retBool false))
  else if s.startsWith "xj" then (s.drop 2).toString.toNat?.map fun k => some (.exc (.byJob k))
  else if s.startsWith "xt" then (s.drop 2).toString.toNat?.map fun k => some (.exc (.tmo k))
  else none

def showNats (l : List Nat) : String := ",".intercalate ((l.toArray.qsort (· < ·)).toList.map toString)

def sameSet (a b : List Nat) : Bool := a.all (· ∈ b) && b.all (· ∈ a)

/-- jobs that became queued in this step -/
def newlyQueued (c : Cfg) (st st' : StA) : List Nat :=
  (List.range c.n).filter fun k => st.ph k == .idle && st'.ph k == .queued

/-- one translated event of layer A: the event, the `done` set observed (for wait-returns) and the set
    of jobs the implementation started in reaction -/
structure ObsA where
  ev      : EvA
  done    : Option (List Nat)
  started : Option (List Nat)

def parseEvA (s : String) : Option ObsA :=
  match s.splitOn " " with
  | ["B", st] => do pure ⟨.runBegin, none, some (← parseNats st)⟩
  | ["G", j, st] => do pure ⟨.grant (← j.toNat?), none, some (← parseNats st)⟩
  | ["E", j, ok] => do pure ⟨.bodyEnd (← j.toNat?) (ok = "1"), none, none⟩
  | ["A", j] => do pure ⟨.cancelAck (← j.toNat?), none, none⟩
  | ["W", s, lv, K, D, st] => do
    pure ⟨.waitReturn (← s.toNat?) (lv = "1") (← parseNats K), some (← parseNats D), some (← parseNats st)⟩
  | ["L", s, K] => do pure ⟨.leave (← s.toNat?) (← parseNats K), none, some []⟩
  | ["F", s, r] => do pure ⟨.finish (← s.toNat?) (← parseRes r), none, none⟩
  | ["T", d] => do pure ⟨.tick (← d.toNat?), none, none⟩
  | _ => none

/-- why `stepA` refuses an event (diagnostic only) -/
def whyRejectA (c : Cfg) (st : StA) : EvA → String
  | .grant j => s!"grant {j}: ph={repr (st.ph j)} creq={st.creq j} slotFree={slotFree c st (c.parent j)} q={st.qcount (c.parent j)}"
  | .bodyEnd j _ => s!"bodyEnd {j}: ph={repr (st.ph j)} creq={st.creq j}"
  | .cancelAck j => s!"cancelAck {j}: ph={repr (st.ph j)} creq={st.creq j}"
  | .waitReturn s _ K => s!"waitReturn {s}: pc={repr (st.pc s)} D={doneSet c st s} K={K}"
  | .leave s K => s!"leave {s}: pc={repr (st.pc s)} K={K}"
  | .finish s _ => s!"finish {s}: pc={repr (st.pc s)} ph={repr (st.ph s)}"
  | .tick _ =>
    let g := (List.range c.n).filter fun j => 0 < j && st.ph j == .queued && !st.creq j && slotFree c st (c.parent j)
    let w := (List.range c.n).filter fun s => c.isSched s && st.pc s == .loop && !(doneSet c st s).isEmpty
    s!"tick: grantable={g} waitable={w}"
  | .runBegin => "runBegin"

def replayA (c : Cfg) (evs : List ObsA) : String := Id.run do
  let mut st := StA.init
  let mut i := 0
  for o in evs do
    -- A1: the done set handed over is exactly the finished, not yet reported jobs
    match o.ev, o.done with
    | .waitReturn s _ _, some D =>
      if !sameSet D (doneSet c st s) then
        return s!"reject {i} env:A1 wait-return of {s} observed={showNats D} model={showNats (doneSet c st s)}"
    | _, _ => pure ()
    match stepA c st o.ev with
    | none => return s!"reject {i} env:guard {whyRejectA c st o.ev}"
    | some st' =>
      match o.started with
      | some S =>
        let S' := newlyQueued c st st'
        if !sameSet S S' then
          return s!"reject {i} impl:start event={repr o.ev} observed={showNats S} model={showNats S'}"
      | none => pure ()
      if st'.dbl then return s!"reject {i} impl:start a task was created twice"
      st := st'
    i := i + 1
  return s!"ok {i}"

def isDynCmd (cmd : String) : Bool := cmd = "replayA" || cmd = "replayB"

def handle (cmd : String) (toks : List String) : String :=
  let kv := kvOf toks
  match parseCfg kv with
  | none => "bad-request cfg"
  | some c =>
    if !c.wf then "bad-request cfg-not-wf" else
    match getKV kv "ev" with
    | none => "bad-request ev"
    | some evs =>
      if cmd = "replayA" then
        match (evs.splitOn ";").filter (· ≠ "") |>.mapM (fun s => parseEvA (s.replace "_" " ")) with
        | none => "bad-request event"
        | some l => replayA c l
      else AJ.Full.handleB c evs

end AJ.Dyn
