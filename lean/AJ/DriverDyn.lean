/-
  dynamic part of the driver: replay of a real trace (translated by harness/dyn_replay.py into model
  events + the reactions observed on the implementation) through the executable model.

  request:  replayA <cfg tokens> ev=<e1;e2;…>
  answer:   ok <n>                                  every event accepted, every observed reaction = prescribed
            reject <i> <component> <detail>         first difference (i = index of the event)
  request:  timing <cfg tokens> ev=<e1;e2;…>        (layer-B events, as for replayB)
  answer:   ok plain=<0|1> acc=<0|1> B=<j>:<t>,… E=<j>:<t>,…      see `timingLine`
-/
import AJ.Model.Run
import AJ.Model.Lax
import AJ.Model.Why
import AJ.Model.Stats
import AJ.Model.Full
import AJ.Model.Flat
namespace AJ.Dyn
open AJ.Run

def parseNats (s : String) : Option (List Nat) :=
  if s.isEmpty || s = "-" then some [] else (s.splitOn ",").mapM (·.toNat?)

def parseMapNat (s : String) : Option (List (Nat × Nat)) :=
  if s.isEmpty || s = "-" then some [] else
  (s.splitOn ",").mapM fun e =>
    match e.splitOn ":" with
    | [k, v] => do pure (← k.toNat?, ← v.toNat?)
    | _ => none

def parseMapList (s : String) : Option (List (Nat × List Nat)) :=
  if s.isEmpty || s = "-" then some [] else
  (s.splitOn "|").mapM fun e =>
    match e.splitOn ":" with
    | [k, v] => do pure (← k.toNat?, ← parseNats v)
    | _ => none

def kvOf (toks : List String) : List (String × String) :=
  toks.filterMap fun tok =>
    match tok.splitOn "=" with
    | k :: rest => some (k, "=".intercalate rest)
    | _ => none

def getKV (kv : List (String × String)) (k : String) : Option String := (kv.find? (·.1 = k)).map (·.2)

def look {α : Type} (m : List (Nat × α)) (k : Nat) : Option α := (m.find? (·.1 = k)).map (·.2)

def parseCfg (kv : List (String × String)) : Option Cfg := do
  let n ← (← getKV kv "n").toNat?
  let P ← parseNats (← getKV kv "P")
  let S ← parseNats (← getKV kv "S")
  let R ← parseMapList (← getKV kv "R")
  let C ← parseNats (← getKV kv "C")
  let F ← parseNats (← getKV kv "F")
  let W ← parseMapNat (← getKV kv "W")
  let T ← parseMapNat (← getKV kv "T")
  let X ← parseMapNat (← getKV kv "X")
  let pure_ ← getKV kv "pure"
  pure { n := n, parent := fun j => P.getD j 0, isSched := fun j => j ∈ S,
         req := fun j => (look R j).getD [], critical := fun j => j ∈ C, forever := fun j => j ∈ F,
         window := fun j => (look W j).getD 0, timeout := look T, sdTimeout := look X,
         topPure := pure_ = "1" }

def parseRes (s : String) : Option (Option Res) :=
  if s = "c" then some none
  else if s = "own" then some (some .retOwn)
  else if s = "t" then some (some (.retBool true))
  else if s = "f" then some (some (.retBool false))
  -- an exception object that is neither a job's own nor a scheduler's TimeoutError (layer A does not look at it;
  -- layer B reports it as a `verdict` difference)
  else if s = "x?" then some (some (.exc (.tmo 0)))
  else if s.startsWith "xj" then (s.drop 2).toString.toNat?.map fun k => some (.exc (.byJob k))
  else if s.startsWith "xt" then (s.drop 2).toString.toNat?.map fun k => some (.exc (.tmo k))
  -- the exception raised by the orchestration code of scheduler `k` itself
  else if s.startsWith "xo" then (s.drop 2).toString.toNat?.map fun k => some (.exc (.orch k))
  else none

def showNats (l : List Nat) : String := ",".intercalate ((l.toArray.qsort (· < ·)).toList.map toString)

def sameSet (a b : List Nat) : Bool := a.all (· ∈ b) && b.all (· ∈ a)

/-- jobs that became queued in this step -/
def newlyQueued (c : Cfg) (st st' : StA) : List Nat :=
  (List.range c.n).filter fun k => st.ph k == .idle && st'.ph k == .queued

/-- one translated event of layer A: the event, the `done` set observed (for wait-returns) and the set
    of jobs the implementation started in reaction -/
structure ObsA where
  ev      : EvA
  done    : Option (List Nat)
  started : Option (List Nat)

def parseEvA (s : String) : Option ObsA :=
  match s.splitOn " " with
  | ["B", st] => do pure ⟨.runBegin, none, some (← parseNats st)⟩
  | ["G", j, st] => do pure ⟨.grant (← j.toNat?), none, some (← parseNats st)⟩
  | ["E", j, ok] => do pure ⟨.bodyEnd (← j.toNat?) (ok = "1"), none, none⟩
  | ["A", j] => do pure ⟨.cancelAck (← j.toNat?), none, none⟩
  | ["W", s, D] => do pure ⟨.waitReturn (← s.toNat?), some (← parseNats D), none⟩
  | ["R", s, lv, K, st] => do
    pure ⟨.react (← s.toNat?) (lv = "1") (← parseNats K), none, some (← parseNats st)⟩
  | ["L", s, K] => do pure ⟨.leave (← s.toNat?) (← parseNats K), none, some []⟩
  | ["F", s, r] => do pure ⟨.finish (← s.toNat?) (← parseRes r), none, none⟩
  | ["T", d] => do pure ⟨.tick (← d.toNat?), none, none⟩
  | ["XC"] => some ⟨.extCancel, none, none⟩
  | _ => none

/-- why `stepA` refuses an event (diagnostic only) -/
def whyRejectA (c : Cfg) (st : StA) : EvA → String
  | .grant j => s!"grant {j}: ph={repr (st.ph j)} creq={st.creq j} slotFree={slotFree c st (c.parent j)} q={st.qcount (c.parent j)}"
  | .bodyEnd j _ => s!"bodyEnd {j}: ph={repr (st.ph j)} creq={st.creq j}"
  | .cancelAck j => s!"cancelAck {j}: ph={repr (st.ph j)} creq={st.creq j}"
  | .waitReturn s => s!"waitReturn {s}: pc={repr (st.pc s)} D={doneSet c st s} rx={st.rx s}"
  | .react s lv K => s!"react {s}: pc={repr (st.pc s)} rx={st.rx s} leave={lv} K={K}"
  | .leave s K => s!"leave {s}: pc={repr (st.pc s)} K={K}"
  | .finish s _ => s!"finish {s}: pc={repr (st.pc s)} ph={repr (st.ph s)}"
  | .tick _ =>
    let g := (List.range c.n).filter fun j => 0 < j && st.ph j == .queued && !st.creq j && slotFree c st (c.parent j)
    let w := (List.range c.n).filter fun s => c.isSched s && st.pc s == .loop && (!(doneSet c st s).isEmpty || (st.rx s).isSome)
    s!"tick: grantable={g} waitable={w}"
  | .runBegin => "runBegin"
  | .extCancel => s!"extCancel: ph0={repr (st.ph 0)} creq0={st.creq 0}"

/-- the guard of `tick` that failed, if the step can be forced (`eager` / `urgent`) -/
def tickWhyA (c : Cfg) (st : StA) : String :=
  let g := (List.range c.n).filter fun j => 0 < j && st.ph j == .queued && !st.creq j && slotFree c st (c.parent j)
  if !g.isEmpty then "eager" else "urgent"

/-- Replays the events; a difference that concerns one component only (a window limit not enforced, the clock
    advancing while something urgent is pending, a start set that differs) is recorded, the observed behaviour is
    adopted and the replay goes on; a difference the replay cannot get past ends it. The answer lists the
    differences: `ok n` or `diff n | i comp detail | …` (at most 6). -/
def replayA (c0 : Cfg) (evs : List ObsA) (laxTime noWindow : Bool := false) : String := Id.run do
  -- `noWindow`: the model of `c.noWindow`; `laxTime`: the model `stepAL` (see AJ/Model/Lax.lean and Proofs/LaxA.lean)
  let c := if noWindow then c0.noWindow else c0
  let stepA := fun (c : Cfg) (st : StA) (e : EvA) => if laxTime then stepAL c st e else AJ.Run.stepA c st e
  let mut st := StA.init
  let mut i := 0
  let mut diffs : Array String := #[]
  for o in evs do
    if diffs.size ≥ 6 then break
    match o.ev, o.done with
    | .waitReturn s, some D =>
      if !sameSet D (doneSet c st s) then
        diffs := diffs.push s!"{i} env:A1 wait-return of {s} observed={showNats D} model={showNats (doneSet c st s)}"
        break
    | _, _ => pure ()
    let mut r := stepA c st o.ev
    if r.isNone then
      match o.ev with
      | .tick d =>
        diffs := diffs.push s!"{i} {tickWhyA c st} {whyRejectA c st o.ev}"
        r := some { st with now := st.now + d }
      | .grant j =>
        -- the window limit alone refuses it?
        let c' := { c with window := fun _ => 0 }
        match stepA c' st o.ev with
        | some st' =>
          diffs := diffs.push s!"{i} slot-limit {whyRejectA c st (.grant j)}"
          r := some st'
        | none => pure ()
      | _ => pure ()
    match r with
    | none =>
      diffs := diffs.push s!"{i} env:guard {whyRejectA c st o.ev}"
      break
    | some st' =>
      let mut st2 := st'
      match o.started with
      | some S =>
        let S' := newlyQueued c st st'
        if !sameSet S S' then
          diffs := diffs.push s!"{i} start event={repr o.ev} observed={showNats S} model={showNats S'}"
          -- adopt the observed start set
          st2 := { st' with ph := fun k => if k ∈ S ∧ st.ph k = .idle then .queued
                                            else if k ∈ S' ∧ k ∉ S then .idle else st'.ph k }
      | none => pure ()
      st := st2
    i := i + 1
  if diffs.isEmpty then return s!"ok {i}"
  return s!"diff {i} | " ++ " | ".intercalate diffs.toList

/-! ### layer B -/
open AJ.Full

/-- a translated event of layer B with the reactions observed on the implementation -/
structure ObsB where
  ev  : EvB
  /-- observed fields: D (done set), S (started), K (cancel() calls — on `R_…`, `OF_…`, `CA_…`, `TF_…`: every event
      by which a run may leave its main loop; on `XC`: the top-level task `0`), H (handler tasks created),
      HC (handler tasks cancelled), R (result of a run that ends: job id + token), V (value of co_shutdown) -/
  obs : List (String × String)

def parseEvB (s : String) : Option ObsB := do
  let parts := s.splitOn "~"
  let head ← parts.head?
  let obs := kvOf parts.tail
  let ev ← match head.splitOn "_" with
    | ["B"] => some EvB.runBegin
    | ["G", j] => do pure (.grant (← j.toNat?))
    | ["E", j, ok] => do pure (.bodyEnd (← j.toNat?) (ok = "1"))
    | ["A", j] => do pure (.cancelAck (← j.toNat?))
    | ["CA", s] => do pure (.cancelArrive (← s.toNat?))
    | ["W", s] => do pure (.waitReturn (← s.toNat?))
    | ["R", s] => do pure (.react (← s.toNat?))
    | ["OF", s] => do pure (.orchFail (← s.toNat?))
    | ["TF", s] => do pure (.timeoutFire (← s.toNat?))
    | ["TR", s, p] => do pure (.tidyReturn (← s.toNat?) (← p.toNat?))
    | ["HS", j] => do pure (.hStep (← j.toNat?))
    | ["HE", j] => do pure (.hEnd (← j.toNat?))
    | ["HA", j] => do pure (.hCancelAck (← j.toNat?))
    | ["HX", s] => do pure (.hCancelArrive (← s.toNat?))
    | ["SW", s, p] => do pure (.sdWaitReturn (← s.toNat?) (← p.toNat?))
    | ["ST", s] => do pure (.sdTimeoutFire (← s.toNat?))
    | ["SY", s, p] => do pure (.sdTidyReturn (← s.toNat?) (← p.toNat?))
    | ["T", d] => do pure (.tick (← d.toNat?))
    | ["XC"] => some EvB.extCancel
    | _ => none
  pure ⟨ev, obs⟩

def evSched : EvB → Nat
  | .cancelArrive s | .waitReturn s | .react s | .orchFail s | .timeoutFire s | .tidyReturn s _ | .hStep s
  | .hCancelArrive s | .sdWaitReturn s _ | .sdTimeoutFire s | .sdTidyReturn s _ => s
  -- the cancellation from outside concerns the top-level scheduler
  | .extCancel => 0
  | _ => 0

def resToken : Ph → String
  | .cancelled => "c"
  | .done .retOwn => "own"
  | .done (.retBool true) => "t"
  | .done (.retBool false) => "f"
  | .done (.exc (.byJob k)) => s!"xj{k}"
  | .done (.exc (.tmo k)) => s!"xt{k}"
  | .done (.exc (.orch k)) => s!"xo{k}"
  | _ => "?"

def whyRejectB (c : Cfg) (st : StB) (e : EvB) : String :=
  let s := evSched e
  s!"{repr e}: pcB={repr (st.pcB s)} ph={repr (st.a.ph s)} creq={st.a.creq s} carrived={st.carrived s} rx={st.a.rx s} " ++
  s!"D={doneSet c st.a s} live={liveChildren c st.a s} bc={repr (st.bc s)} hph={repr (st.hph s)} hcreq={st.hcreq s} " ++
  s!"active={activeHandlers c st s} didSd={st.didSd s} now={st.a.now} dl={st.deadline s} hdl={st.hdeadline s} quiet={quietB c st}" ++
  (match e with
   | .grant j | .bodyEnd j _ | .cancelAck j | .hEnd j | .hCancelAck j =>
     s!" job{j}: ph={repr (st.a.ph j)} creq={st.a.creq j} hph={repr (st.hph j)} hcreq={st.hcreq j} q={st.a.qcount (c.parent j)}"
   | _ => "")

def tickWhyB (c : Cfg) (st : StB) : String :=
  let g := (List.range c.n).filter fun j => 0 < j && st.a.ph j == .queued && !st.a.creq j && slotFree c st.a (c.parent j)
  if !g.isEmpty then "eager" else "urgent"

def evTag : EvB → String
  | .cancelArrive _ => "CA" | .react _ => "R" | .orchFail _ => "OF" | .timeoutFire _ => "TF" | .tidyReturn _ _ => "TR" | .hStep _ => "HS"
  | .hCancelArrive _ => "HX" | .sdWaitReturn _ _ => "SW" | .sdTimeoutFire _ => "ST" | .sdTidyReturn _ _ => "SY"
  | .extCancel => "XC"
  | _ => "-"

def exTag : Exit → String
  | .success => "S" | .critical => "C" | .timeout => "T" | .cancelled => "X" | .crashed => "O"

def whoTag : Who → String
  | .inline => "i" | .relay => "r"

def pcTag : PcB → String
  | .notBegun => "n" | .loop => "loop" | .tidy x => "tidy" ++ exTag x | .shut x => "shut" ++ exTag x
  | .shutTidy x => "shtd" ++ exTag x | .over => "over"

def bcTag : Bc → String
  | .bnone => "" | .bwait w => "/w" ++ whoTag w | .btidy w => "/t" ++ whoTag w | .bover => "/o"

/-- the token the harness derives from the string `why()` returns -/
def whyTag : Why → String
  | .fine => "F" | .critical => "C" | .timedOut (some n) => s!"T{n}" | .timedOut none => "TN"

def replayB (c : Cfg) (evs : List ObsB) (diag : List (Nat × Bool × Bool × String))
    (fin stats : List (Nat × String) := []) : String := Id.run do
  let mut st := StB.init
  let mut i := 0
  let mut diffs : Array String := #[]
  let mut cov : Array String := #[]
  let rng := List.range c.n
  for o in evs do
    if diffs.size ≥ 6 then break
    let get := fun k => (getKV o.obs k).bind parseNats
    match o.ev, get "D" with
    | .waitReturn s, some D =>
      if !sameSet D (doneSet c st.a s) then
        diffs := diffs.push s!"{i} env:A1 wait-return of {s} observed={showNats D} model={showNats (doneSet c st.a s)}"
        break
    | _, _ => pure ()
    let mut nxt := stepB c st o.ev
    -- exit decision: did the implementation leave its main loop where the model stays, or the converse?
    match o.ev, getKV o.obs "L", nxt with
    | .react s, some lv, some st' =>
      let modelLeaves := st'.pcB s != .loop
      if modelLeaves != (lv = "1") then
        diffs := diffs.push s!"{i} exit event={repr o.ev} observed-leave={lv} model-leave={modelLeaves} D={st.a.rx s}"
        let D := (st.a.rx s).getD []
        let nb := st.nbDone s + (D.filter fun d => !c.forever d).length
        if lv = "1" then
          -- adopt: the run leaves its loop, cancelling what the implementation cancelled
          let K := ((getKV o.obs "K").bind parseNats).getD []
          match stepA c st.a (.react s true (K.filter fun k => k ∈ liveChildren c st.a s)) with
          | some a' => nxt := some (exitLoop c { st with nbDone := setAt st.nbDone s nb } s .success a')
          | none => nxt := none
        else
          match stepA c st.a (.react s false []) with
          | some a' => nxt := some { st with a := a', nbDone := setAt st.nbDone s nb }
          | none => nxt := none
    | _, _, _ => pure ()
    if nxt.isNone then
      match o.ev with
      | .tick d =>
        diffs := diffs.push s!"{i} {tickWhyB c st} {whyRejectB c st o.ev}"
        nxt := some { st with a := { st.a with now := st.a.now + d } }
      | .grant j =>
        let c' := { c with window := fun _ => 0 }
        match stepB c' st o.ev with
        | some st' =>
          diffs := diffs.push s!"{i} slot-limit {whyRejectB c st (.grant j)}"
          nxt := some st'
        | none => pure ()
      | .tidyReturn s _ | .sdWaitReturn s _ | .sdTidyReturn s _ =>
        -- is it only the verdict that cannot be formed (no critical job of `s` raised the observed exception)?
        -- then let the run end as a non-critical one; the observed result is adopted below (difference `verdict`)
        let c' := { c with critical := fun j => if j = s then false else c.critical j }
        match stepB c' st o.ev with
        | some st' => nxt := some st'
        | none => pure ()
      | _ => pure ()
    match nxt with
    | none =>
      diffs := diffs.push s!"{i} guard {whyRejectB c st o.ev}"
      break
    | some st' =>
      let mut st2 := st'
      match get "S" with
      | some S =>
        let S' := rng.filter fun k => st.a.ph k == .idle && st'.a.ph k == .queued
        if !sameSet S S' then
          diffs := diffs.push s!"{i} start event={repr o.ev} observed={showNats S} model={showNats S'}"
          st2 := { st2 with a := { st2.a with ph := fun k => if k ∈ S ∧ st.a.ph k = .idle then .queued
                                                              else if k ∈ S' ∧ k ∉ S then .idle else st2.a.ph k } }
      | none => pure ()
      match get "K" with
      | some K =>
        let K' := rng.filter fun k => !st.a.creq k && st'.a.creq k
        if !sameSet K K' then
          diffs := diffs.push s!"{i} cancel event={repr o.ev} observed={showNats K} model={showNats K'}"
          st2 := { st2 with a := { st2.a with creq := fun k => st.a.creq k || decide (k ∈ K) } }
      | none => pure ()
      match get "H" with
      | some H =>
        let H' := rng.filter fun k => st'.hcalls k != st.hcalls k
        if !sameSet H H' then
          diffs := diffs.push s!"{i} sd event={repr o.ev} observed={showNats H} model={showNats H'}"
          st2 := { st2 with hph := fun k => if k ∈ H then .hactive else if k ∈ H' then st.hph k else st2.hph k
                            hcalls := fun k => if k ∈ H then st.hcalls k + 1 else st.hcalls k }
      | none => pure ()
      match get "HC" with
      | some H =>
        let H' := rng.filter fun k => !st.hcreq k && st'.hcreq k
        if !sameSet H H' then
          diffs := diffs.push s!"{i} sdto event={repr o.ev} observed={showNats H} model={showNats H'}"
          st2 := { st2 with hcreq := fun k => st.hcreq k || decide (k ∈ H) }
      | none => pure ()
      match getKV o.obs "R" with
      | some r =>
        let s := match o.ev with | .grant j => j | e => evSched e
        if resToken (st'.a.ph s) != r then
          diffs := diffs.push s!"{i} verdict event={repr o.ev} observed={r} model={resToken (st'.a.ph s)}"
          match parseRes r with
          | some (some res) => st2 := { st2 with a := { st2.a with ph := setAt st2.a.ph s (.done res) } }
          | some none => st2 := { st2 with a := { st2.a with ph := setAt st2.a.ph s .cancelled } }
          | none => pure ()
      | none => pure ()
      match getKV o.obs "V" with
      | some v =>
        let s := evSched o.ev
        let m := match st'.sdValue s with | some true => "t" | some false => "f" | none => "n"
        if m != v then diffs := diffs.push s!"{i} sdvalue event={repr o.ev} observed={v} model={m}"
      | none => pure ()
      if st'.a.dbl then diffs := diffs.push s!"{i} start a task was created twice"
      -- which branch of the model the event took: phase of the scheduler concerned before > after
      match o.ev with
      | .cancelArrive s | .react s | .orchFail s | .timeoutFire s | .tidyReturn s _ | .hStep s | .hCancelArrive s
      | .sdWaitReturn s _ | .sdTimeoutFire s | .sdTidyReturn s _ =>
        if st.pcB s != st'.pcB s || st.bc s != st'.bc s then
          cov := cov.push s!"{evTag o.ev}:{pcTag (st.pcB s)}{bcTag (st.bc s)}>{pcTag (st'.pcB s)}{bcTag (st'.bc s)}"
      -- the cancellation from outside changes no phase: the label says in which phase the top-level run was
      | .extCancel => cov := cov.push s!"{evTag o.ev}:{pcTag (st.pcB 0)}{bcTag (st.bc 0)}"
      | _ => pure ()
      st := st2
    i := i + 1
  -- diagnosis after the run: failed_time_out() / failed_critical() of every scheduler that ended
  for (s, ft, fc, w) in diag do
    if st.pcB s == .over && (st.failT s != ft || st.failC s != fc) then
      diffs := diffs.push s!"{i} diag scheduler {s} observed=({ft},{fc}) model=({st.failT s},{st.failC s})"
    -- … and `why()` (Model/Why.lean); "-" = not observed
    if st.pcB s == .over && w != "-" && whyTag (st.why c s) != w then
      diffs := diffs.push s!"{i} diag scheduler {s} why observed={w} model={whyTag (st.why c s)}"
    if st.pcB s == .over && w != "-" then cov := cov.push s!"why:{(whyTag (st.why c s)).take 1}"
  -- the inspection API after the run (component `final`): is_idle / is_scheduled / is_running / is_done of every job,
  -- as four bits, against the functions of AJ/Model/Run.lean; and `stats()` of every scheduler (component `stats`)
  -- against `statsOf` (AJ/Model/Stats.lean).  Only when the whole history was accepted without a difference.
  if diffs.isEmpty then
    let bit := fun (b : Bool) => if b then "1" else "0"
    for (j, obs) in fin do
      let m := bit (isIdle st.a j) ++ bit (isScheduled st.a j) ++ bit (isRunning st.a j) ++ bit (isDone st.a j)
      if m != obs then diffs := diffs.push s!"{i} final job {j} idle/scheduled/running/done observed={obs} model={m}"
    for (s, obs) in stats do
      let (d, r, il, n) := statsOf c st.a s
      let m := s!"{d}.{r}.{il}.{n}"
      if m != obs then diffs := diffs.push s!"{i} stats scheduler {s} observed={obs} model={m}"
    if !fin.isEmpty then cov := cov.push "final"
    if !stats.isEmpty then cov := cov.push "stats"
  let covs := ",".intercalate cov.toList
  if diffs.isEmpty then return s!"ok {i} cov={covs}"
  return s!"diff {i} | " ++ " | ".intercalate diffs.toList

/-- `k:word,k:word,…` (or `-`) -/
def parseTagged (s : String) : Option (List (Nat × String)) :=
  if s.isEmpty || s = "-" then some [] else
  (s.splitOn ",").mapM fun e =>
    match e.splitOn ":" with
    | [k, w] => do pure (← k.toNat?, w)
    | _ => none

def parseDiag (s : String) : Option (List (Nat × Bool × Bool × String)) :=
  if s.isEmpty || s = "-" then some [] else
  (s.splitOn ",").mapM fun e =>
    match e.splitOn ":" with
    | [k, a, b] => do pure (← k.toNat?, a = "1", b = "1", "-")
    | [k, a, b, w] => do pure (← k.toNat?, a = "1", b = "1", w)
    | _ => none

def isDynCmd (cmd : String) : Bool := cmd = "replayA" || cmd = "replayB" || cmd = "flatreq" || cmd = "timing"

/-- `flatreq cfg…`: the requirements of every atomic job in the flattened graph (`AJ.Flat.flatReq`), or `not-flattenable`
    when a nested scheduler is empty -/
def flatReqLine (c : Cfg) : String :=
  if !AJ.Flat.noEmptyNested c then "not-flattenable" else
  "ok " ++ ";".intercalate (((List.range c.n).filter fun j => 0 < j && !c.isSched j).map fun j =>
    toString j ++ ":" ++ showNats ((AJ.Flat.flatReq c c.n j).eraseDups))

/-- `timing cfg… ev=…` (the events of layer B, as for `replayB`; the observations after `~` are ignored): the instants
    read off the history by `AJ.Flat.firstNow` — those of `Proofs.FlatC.flatten_same_times` —:
    `ok plain=<0|1> acc=<0|1> B=<j>:<t>,… E=<j>:<t>,…` where `plain` is `AJ.Flat.plainCheck`, `acc` says whether the
    strict model accepts the whole history, `B` (`E`) lists the jobs that began (ended) with the clock at that point.
    `firstNow` stops at the first event the model rejects: what would happen after it is not listed. -/
def timingLine (c : Cfg) (evs : List EvB) : String :=
  let bit := fun (b : Bool) => if b then "1" else "0"
  let col := fun (P : Nat → StB → Bool) =>
    ",".intercalate ((List.range c.n).filterMap fun j =>
      (AJ.Flat.firstNow c (P j) StB.init evs).map fun t => toString j ++ ":" ++ toString t)
  "ok plain=" ++ bit (AJ.Flat.plainCheck c evs) ++ " acc=" ++ bit (acceptB c StB.init evs).isSome ++
    " B=" ++ col AJ.Flat.beganP ++ " E=" ++ col AJ.Flat.endedP

def handle (cmd : String) (toks : List String) : String :=
  let kv := kvOf toks
  match parseCfg kv with
  | none => "bad-request cfg"
  | some c =>
    if !c.wf then "bad-request cfg-not-wf" else
    if cmd = "flatreq" then flatReqLine c else
    match getKV kv "ev" with
    | none => "bad-request ev"
    | some evs =>
      let items := (evs.splitOn ";").filter (· ≠ "")
      if cmd = "replayA" then
        match items.mapM (fun s => parseEvA (s.replace "_" " ")) with
        | none => "bad-request event"
        | some l =>
          let mode := (getKV kv "mode").getD "strict"
          replayA c l (mode = "laxtime" || mode = "laxall") (mode = "laxall")
      else if cmd = "timing" then
        match items.mapM parseEvB with
        | none => "bad-request event"
        | some l => timingLine c (l.map (·.ev))
      else
        match items.mapM parseEvB, (getKV kv "diag").bind parseDiag,
              parseTagged ((getKV kv "fin").getD "-"), parseTagged ((getKV kv "stats").getD "-") with
        | some l, some d, some f, some t => replayB c l d f t
        | _, _, _, _ => "bad-request event"

end AJ.Dyn
