/-
  C20 — DOT export and listing describe the scheduler tree faithfully.
-/
import AJ.Spec
import AJ.Proofs.C15
namespace AJ.Proofs.C20
open AJ

/-! ### helpers: `foldlM` in `Except` -/

/-- single fold, invariant indexed by the prefix already processed -/
theorem foldlM_prefix_inv {α β ε : Type} (step : β → α → Except ε β) (Q : List α → β → Prop)
    (hstep : ∀ pre a acc res, Q pre acc → step acc a = .ok res → Q (pre ++ [a]) res) :
    ∀ (l pre : List α) (acc res : β), Q pre acc → l.foldlM step acc = .ok res → Q (pre ++ l) res := by
  intro l
  induction l with
  | nil =>
    intro pre acc res hq h
    simp [pure, Except.pure] at h
    subst h
    simpa using hq
  | cons a l ih =>
    intro pre acc res hq h
    rw [List.foldlM_cons] at h
    cases hs : step acc a with
    | error e => rw [hs] at h; simp [bind, Except.bind] at h
    | ok r =>
      rw [hs] at h
      have h' : l.foldlM step r = .ok res := h
      have := ih (pre ++ [a]) r res (hstep _ _ _ _ hq hs) h'
      simpa using this

/-- single fold, plain invariant -/
theorem foldlM_inv {α β ε : Type} (step : β → α → Except ε β) (Q : β → Prop)
    (hstep : ∀ a acc res, Q acc → step acc a = .ok res → Q res)
    (l : List α) (acc res : β) (hq : Q acc) (h : l.foldlM step acc = .ok res) : Q res :=
  foldlM_prefix_inv step (fun _ b => Q b) (fun _ a acc res hq hs => hstep a acc res hq hs) l [] acc res hq h

/-- two folds over the same list, relational invariant -/
theorem foldlM_rel {α β γ ε : Type} (s1 : β → α → Except ε β) (s2 : γ → α → Except ε γ)
    (R : β → γ → Prop)
    (hstep : ∀ a b c b' c', R b c → s1 b a = .ok b' → s2 c a = .ok c' → R b' c') :
    ∀ (l : List α) (b : β) (c : γ) (b' : β) (c' : γ), R b c →
      l.foldlM s1 b = .ok b' → l.foldlM s2 c = .ok c' → R b' c' := by
  intro l
  induction l with
  | nil =>
    intro b c b' c' hr h1 h2
    simp [pure, Except.pure] at h1 h2
    subst h1; subst h2; exact hr
  | cons a l ih =>
    intro b c b' c' hr h1 h2
    rw [List.foldlM_cons] at h1 h2
    cases hs1 : s1 b a with
    | error e => rw [hs1] at h1; simp [bind, Except.bind] at h1
    | ok r1 =>
      cases hs2 : s2 c a with
      | error e => rw [hs2] at h2; simp [bind, Except.bind] at h2
      | ok r2 =>
        rw [hs1] at h1; rw [hs2] at h2
        have h1' : l.foldlM s1 r1 = .ok b' := h1
        have h2' : l.foldlM s2 r2 = .ok c' := h2
        exact ih r1 r2 b' c' (hstep _ _ _ _ _ hr hs1 hs2) h1' h2'

/-! ### helpers: `middleEntry`, `middleExit`, `edgesOf` -/

/-- `_middle_entry_job` returns an atomic job, or a scheduler without jobs (which stands for itself) -/
theorem middleEntry_atomic (t : T) : ∀ (fuel s r : Nat), middleEntry t fuel s = .ok r →
    t.isSched r = false ∨ t.mem r = [] := by
  intro fuel
  induction fuel with
  | zero => intro s r h; simp [middleEntry] at h
  | succ n ih =>
    intro s r h
    unfold middleEntry at h
    simp only at h
    split at h
    · rename_i he
      injection h with h; subst h
      exact Or.inr (List.isEmpty_iff.1 he)
    · split at h
      · simp at h
      · split at h
        · exact ih _ _ h
        · injection h with h; subst h; simp_all

theorem middleExit_atomic (t : T) : ∀ (fuel s r : Nat), middleExit t fuel s = .ok r →
    t.isSched r = false ∨ t.mem r = [] := by
  intro fuel
  induction fuel with
  | zero => intro s r h; simp [middleExit] at h
  | succ n ih =>
    intro s r h
    unfold middleExit at h
    simp only at h
    split at h
    · rename_i he
      injection h with h; subst h
      exact Or.inr (List.isEmpty_iff.1 he)
    · split at h
      · simp at h
      · split at h
        · exact ih _ _ h
        · injection h with h; subst h; simp_all

/-- an end of an edge: an atomic job, or an empty scheduler whose cluster the edge names -/
def GoodEnd (t : T) (x : Nat) (cl : Option Nat) : Prop :=
  t.isSched x = false ∨ (t.isSched x = true ∧ t.mem x = [] ∧ ∃ c, cl = some c)

theorem goodEnd_of_atomic {t : T} {x : Nat} {cl : Option Nat} (h : t.isSched x = false) : GoodEnd t x cl :=
  Or.inl h

theorem goodEnd_of_middle {t : T} {x c : Nat} (h : t.isSched x = false ∨ t.mem x = []) : GoodEnd t x (some c) := by
  cases hx : t.isSched x with
  | false => exact Or.inl hx
  | true =>
    rcases h with h | h
    · rw [hx] at h; cases h
    · exact Or.inr ⟨hx, h, c, rfl⟩

/-- an edge item whose endpoints are atomic (or empty schedulers named by `ltail` / `lhead`) and whose cluster
    annotations are schedulers -/
def GoodEdge (t : T) : Item → Prop
  | .edge src dst lh lt =>
      GoodEnd t src lt ∧ GoodEnd t dst lh ∧
      (∀ c, lh = some c → t.isSched c = true) ∧ (∀ c, lt = some c → t.isSched c = true)
  | _ => False

/-- the logical endpoints of an edge item (same as `edgeKey` below) -/
def ekey : Item → Option (Nat × Nat)
  | .edge src dst lhead ltail => some (lhead.getD dst, ltail.getD src)
  | _ => none

theorem edgesOf_spec (t : T) (F j : Nat) (es : List Item) (h : edgesOf t F j = .ok es) :
    es.filterMap ekey = (t.req j).map (fun r => (j, r)) ∧ ∀ i ∈ es, GoodEdge t i := by
  unfold edgesOf at h
  have := foldlM_prefix_inv _
    (fun (pre : List Nat) (acc : List Item) =>
      acc.filterMap ekey = pre.map (fun r => (j, r)) ∧ ∀ i ∈ acc, GoodEdge t i)
    ?_ (t.req j) [] [] es (by simp) h
  · simpa using this
  · intro pre r acc res ⟨hk, hg⟩ hs
    split at hs
    · rename_i hj
      split at hs
      · rename_i hr
        split at hs
        · simp at hs
        · rename_i src hsrc
          split at hs
          · simp at hs
          · rename_i dst hdst
            injection hs with hs; subst hs
            have h1 := goodEnd_of_middle (c := r) (middleExit_atomic _ _ _ _ hsrc)
            have h2 := goodEnd_of_middle (c := j) (middleEntry_atomic _ _ _ _ hdst)
            refine ⟨by simp [hk, ekey], ?_⟩
            intro i hi
            rcases List.mem_append.1 hi with hi | hi
            · exact hg i hi
            · simp at hi; subst hi; exact ⟨h1, h2, by simp [hj], by simp [hr]⟩
      · rename_i hr
        split at hs
        · simp at hs
        · rename_i dst hdst
          injection hs with hs; subst hs
          have h2 := goodEnd_of_middle (c := j) (middleEntry_atomic _ _ _ _ hdst)
          refine ⟨by simp [hk, ekey], ?_⟩
          intro i hi
          rcases List.mem_append.1 hi with hi | hi
          · exact hg i hi
          · simp at hi; subst hi
            exact ⟨goodEnd_of_atomic (by simpa using hr), h2, by simp [hj], by simp⟩
    · rename_i hj
      split at hs
      · rename_i hr
        split at hs
        · simp at hs
        · rename_i src hsrc
          injection hs with hs; subst hs
          have h1 := goodEnd_of_middle (c := r) (middleExit_atomic _ _ _ _ hsrc)
          refine ⟨by simp [hk, ekey], ?_⟩
          intro i hi
          rcases List.mem_append.1 hi with hi | hi
          · exact hg i hi
          · simp at hi; subst hi
            exact ⟨h1, goodEnd_of_atomic (by simpa using hj), by simp, by simp [hr]⟩
      · rename_i hr
        injection hs with hs; subst hs
        refine ⟨by simp [hk, ekey], ?_⟩
        intro i hi
        rcases List.mem_append.1 hi with hi | hi
        · exact hg i hi
        · simp at hi; subst hi
          exact ⟨goodEnd_of_atomic (by simpa using hr), goodEnd_of_atomic (by simpa using hj), by simp, by simp⟩

def nodeOf : Item → Option Nat
  | .node j => some j
  | _ => none

def clusterOf : Item → Option Nat
  | .openCluster j => some j
  | _ => none

def holderId : Item → Option Nat
  | .holder j => some j
  | _ => none

@[simp] theorem nodeOf_holder (j : Nat) : nodeOf (.holder j) = none := rfl
@[simp] theorem clusterOf_holder (j : Nat) : clusterOf (.holder j) = none := rfl
@[simp] theorem ekey_holder (j : Nat) : ekey (.holder j) = none := rfl
@[simp] theorem holderId_node (j : Nat) : holderId (.node j) = none := rfl
@[simp] theorem holderId_open (j : Nat) : holderId (.openCluster j) = none := rfl
@[simp] theorem holderId_close : holderId .close = none := rfl
@[simp] theorem holderId_edge (a b : Nat) (c d : Option Nat) : holderId (.edge a b c d) = none := rfl
@[simp] theorem holderId_holder (j : Nat) : holderId (.holder j) = some j := rfl
@[simp] theorem nodeOf_node (j : Nat) : nodeOf (.node j) = some j := rfl
@[simp] theorem nodeOf_open (j : Nat) : nodeOf (.openCluster j) = none := rfl
@[simp] theorem nodeOf_close : nodeOf .close = none := rfl
@[simp] theorem nodeOf_edge (a b : Nat) (c d : Option Nat) : nodeOf (.edge a b c d) = none := rfl
@[simp] theorem clusterOf_node (j : Nat) : clusterOf (.node j) = none := rfl
@[simp] theorem clusterOf_open (j : Nat) : clusterOf (.openCluster j) = some j := rfl
@[simp] theorem clusterOf_close : clusterOf .close = none := rfl
@[simp] theorem clusterOf_edge (a b : Nat) (c d : Option Nat) : clusterOf (.edge a b c d) = none := rfl
@[simp] theorem ekey_node (j : Nat) : ekey (.node j) = none := rfl
@[simp] theorem ekey_open (j : Nat) : ekey (.openCluster j) = none := rfl
@[simp] theorem ekey_close : ekey .close = none := rfl

theorem nodeOf_eq : (fun i : Item => match i with | .node j => some j | _ => none) = nodeOf := by
  funext i; cases i <;> rfl

theorem clusterOf_eq : (fun i : Item => match i with | .openCluster j => some j | _ => none) = clusterOf := by
  funext i; cases i <;> rfl

theorem holderId_eq : (fun i : Item => match i with | .holder j => some j | _ => none) = holderId := by
  funext i; cases i <;> rfl

@[simp] theorem holderOf_nodeOf (t : T) (anch : List Nat) (j : Nat) : (holderOf t anch j).filterMap nodeOf = [] := by
  unfold holderOf; split <;> simp

@[simp] theorem holderOf_clusterOf (t : T) (anch : List Nat) (j : Nat) : (holderOf t anch j).filterMap clusterOf = [] := by
  unfold holderOf; split <;> simp

@[simp] theorem holderOf_ekey (t : T) (anch : List Nat) (j : Nat) : (holderOf t anch j).filterMap ekey = [] := by
  unfold holderOf; split <;> simp

theorem holderOf_pos {t : T} {anch : List Nat} {j : Nat} (h : ((t.mem j).isEmpty && anch.contains j) = true) :
    holderOf t anch j = [Item.holder j] := by
  unfold holderOf; rw [if_pos h]

theorem holderOf_neg {t : T} {anch : List Nat} {j : Nat} (h : ¬ ((t.mem j).isEmpty && anch.contains j) = true) :
    holderOf t anch j = [] := by
  unfold holderOf; rw [if_neg h]

theorem holderOf_holderId (t : T) (anch : List Nat) (j : Nat) :
    (holderOf t anch j).filterMap holderId = if (t.mem j).isEmpty && anch.contains j then [j] else [] := by
  unfold holderOf; split <;> simp

theorem goodEdges_holderId (t : T) (es : List Item) (h : ∀ i ∈ es, GoodEdge t i) : es.filterMap holderId = [] := by
  rw [List.filterMap_eq_nil_iff]
  intro i hi
  have := h i hi
  cases i <;> simp [GoodEdge, holderId] at *

theorem goodEdges_nodeOf (t : T) (es : List Item) (h : ∀ i ∈ es, GoodEdge t i) : es.filterMap nodeOf = [] := by
  rw [List.filterMap_eq_nil_iff]
  intro i hi
  have := h i hi
  cases i <;> simp [GoodEdge, nodeOf] at *

theorem goodEdges_clusterOf (t : T) (es : List Item) (h : ∀ i ∈ es, GoodEdge t i) : es.filterMap clusterOf = [] := by
  rw [List.filterMap_eq_nil_iff]
  intro i hi
  have := h i hi
  cases i <;> simp [GoodEdge, clusterOf] at *

/-- unfolding of `dotBody` at successor fuel as a fold -/
theorem dotBodyWith_succ (t : T) (anch : List Nat) (F fuel s : Nat) (items : List Item) (h : dotBodyWith t anch F (fuel + 1) s = .ok items) :
    ∃ l, topo t s = .ok l ∧
      l.foldlM (m := Except Err) (init := ([] : List Item)) (fun acc j =>
        if t.isSched j then
          match dotBodyWith t anch F fuel j with
          | .error e => .error e
          | .ok sub =>
            match edgesOf t F j with
            | .error e => .error e
            | .ok es => .ok (acc ++ Item.openCluster j :: holderOf t anch j ++ sub ++ Item.close :: es)
        else
          match edgesOf t F j with
          | .error e => .error e
          | .ok es => .ok (acc ++ Item.node j :: es)) = .ok items := by
  unfold dotBodyWith at h
  split at h
  · simp at h
  · rename_i l hl
    exact ⟨l, hl, h⟩

/-- one step of the `dotBody` fold, characterised -/
theorem dotBodyWith_step (t : T) (anch : List Nat) (F fuel j : Nat) (acc res : List Item)
    (h : (if t.isSched j then
          match dotBodyWith t anch F fuel j with
          | .error e => .error e
          | .ok sub =>
            match edgesOf t F j with
            | .error e => .error e
            | .ok es => .ok (acc ++ Item.openCluster j :: holderOf t anch j ++ sub ++ Item.close :: es)
        else
          match edgesOf t F j with
          | .error e => .error e
          | .ok es => .ok (acc ++ Item.node j :: es) : Except Err (List Item)) = .ok res) :
    ∃ es, edgesOf t F j = .ok es ∧
      ((t.isSched j = true ∧ ∃ sub, dotBodyWith t anch F fuel j = .ok sub ∧
          res = acc ++ Item.openCluster j :: holderOf t anch j ++ sub ++ Item.close :: es) ∨
       (t.isSched j = false ∧ res = acc ++ Item.node j :: es)) := by
  split at h
  · rename_i hj
    split at h
    · simp at h
    · rename_i sub hsub
      split at h
      · simp at h
      · rename_i es hes
        injection h with h
        exact ⟨es, hes, Or.inl ⟨hj, sub, hsub, h.symm⟩⟩
  · rename_i hj
    split at h
    · simp at h
    · rename_i es hes
      injection h with h
      exact ⟨es, hes, Or.inr ⟨by simpa using hj, h.symm⟩⟩

theorem listing_succ (t : T) (fuel s : Nat) (l : List Nat) (h : listing t (fuel + 1) s = .ok l) :
    ∃ l0, topo t s = .ok l0 ∧
      l0.foldlM (m := Except Err) (init := ([] : List Nat)) (fun acc j =>
        if t.isSched j then
          match listing t fuel j with
          | .error e => .error e
          | .ok sub => .ok (acc ++ j :: sub)
        else .ok (acc ++ [j])) = .ok l := by
  unfold listing at h
  split at h
  · simp at h
  · rename_i l0 hl
    exact ⟨l0, hl, h⟩

theorem listing_step (t : T) (fuel j : Nat) (acc res : List Nat)
    (h : (if t.isSched j then
          match listing t fuel j with
          | .error e => .error e
          | .ok sub => .ok (acc ++ j :: sub)
        else .ok (acc ++ [j]) : Except Err (List Nat)) = .ok res) :
    (t.isSched j = true ∧ ∃ sub, listing t fuel j = .ok sub ∧ res = acc ++ j :: sub) ∨
    (t.isSched j = false ∧ res = acc ++ [j]) := by
  split at h
  · rename_i hj
    split at h
    · simp at h
    · rename_i sub hsub
      injection h with h
      exact Or.inl ⟨hj, sub, hsub, h.symm⟩
  · rename_i hj
    injection h with h
    exact Or.inr ⟨by simpa using hj, h.symm⟩

/-- labels survive quoting: reading `protect s` back by DOT's rule gives `s`, for every string without
    backslash (quotes, newlines, DOT punctuation, non-ASCII included) -/
theorem quote_roundtrip (s rest : List Char) (h : ∀ c ∈ s, c ≠ '\\') :
    unquoteChars (protectChars s ++ '"' :: rest) = some (s, rest) := by
  induction s with
  | nil => simp [protectChars, unquoteChars]
  | cons c cs ih =>
    have hc : c ≠ '\\' := h c (by simp)
    have ih' := ih (fun d hd => h d (by simp [hd]))
    by_cases hq : c = '"'
    · subst hq
      simp [protectChars, unquoteChars, ih']
    · simp only [protectChars, if_neg hq, List.cons_append]
      rw [unquoteChars]
      · simp [ih']
      · intro hh; exact hq hh
      · intro r hh _; exact hc hh

theorem protect_no_bare_quote_aux (s : List Char) :
    ∀ pre post, protectChars s = pre ++ '"' :: post → pre.getLast? = some '\\' := by
  induction s with
  | nil => intro pre post hp; simp [protectChars] at hp
  | cons c cs ih =>
    intro pre post hp
    by_cases hq : c = '"'
    · subst hq
      simp only [protectChars, if_pos] at hp
      match pre, hp with
      | [], hp => simp at hp
      | [x], hp =>
        simp at hp
        simp [hp.1.symm]
      | x :: y :: pre', hp =>
        simp at hp
        have := ih pre' post hp.2.2
        cases pre' with
        | nil => simp at this
        | cons z zs => simpa [List.getLast?_cons_cons] using this
    · simp only [protectChars, if_neg hq] at hp
      match pre, hp with
      | [], hp => simp at hp; exact absurd hp.1 hq
      | x :: pre', hp =>
        simp at hp
        have := ih pre' post hp.2
        cases pre' with
        | nil => simp at this
        | cons z zs => simpa [List.getLast?_cons_cons] using this

/-- … and the quoted text contains no bare double quote -/
theorem protect_no_bare_quote (s : List Char) (h : ∀ c ∈ s, c ≠ '\\') :
    ∀ pre post, protectChars s = pre ++ '"' :: post → pre.getLast? = some '\\' :=
  have _ := h
  protect_no_bare_quote_aux s

/-- flags are rendered as documented: EVERY job and scheduler has exactly one `color` and one `penwidth`
    attribute; the colour is `red` when critical and `black` otherwise (it is never left out, so that a nested
    scheduler cannot inherit the colour of the enclosing cluster), the pen width `2` when critical and `0.5`
    otherwise; a key occurs at most once -/
theorem style_critical (c : RenderCtx) (j : Nat) :
    (∀ v, ("color", v) ∈ styleAttrs c j ↔ v = if c.t.critical j = true then "red" else "black") ∧
    (∀ v, ("penwidth", v) ∈ styleAttrs c j ↔ v = if c.t.critical j = true then "2" else "0.5") ∧
    ((styleAttrs c j).map Prod.fst).Nodup := by
  cases h : c.t.critical j <;> simp [styleAttrs, h]

/-- the same, one flag value at a time: `color` is always present, `red` iff critical and `black` iff not;
    `penwidth` is `2` iff critical and `0.5` iff not -/
theorem style_color (c : RenderCtx) (j : Nat) :
    (∃ v, ("color", v) ∈ styleAttrs c j) ∧
    (("color", "red") ∈ styleAttrs c j ↔ c.t.critical j = true) ∧
    (("color", "black") ∈ styleAttrs c j ↔ c.t.critical j = false) ∧
    (("penwidth", "2") ∈ styleAttrs c j ↔ c.t.critical j = true) ∧
    (("penwidth", "0.5") ∈ styleAttrs c j ↔ c.t.critical j = false) := by
  obtain ⟨hc, hp, _⟩ := style_critical c j
  refine ⟨⟨_, (hc _).2 rfl⟩, ?_, ?_, ?_, ?_⟩
  · rw [hc]; cases c.t.critical j <;> decide
  · rw [hc]; cases c.t.critical j <;> decide
  · rw [hp]; cases c.t.critical j <;> decide
  · rw [hp]; cases c.t.critical j <;> decide

/-- no colour is ever inherited from an enclosing cluster: the attribute list written for `.openCluster s`
    (`renderItem` writes `renderAttrs (styleAttrs c s)` between the brackets of the cluster's `graph` statement)
    always has a `color` key of its own, `red` when `s` is critical and `black` otherwise;
    `cluster_color_parsed` (C20Parse) says the same of the parsed document -/
theorem cluster_color_explicit (c : RenderCtx) (s : Nat) :
    ∃ v, ("color", v) ∈ styleAttrs c s ∧ v = (if c.t.critical s = true then "red" else "black") := by
  exact ⟨_, ((style_critical c s).1 _).2 rfl, rfl⟩

theorem style_shape (c : RenderCtx) (j : Nat) :
    ("style", ",".intercalate (styleList c j)) ∈ styleAttrs c j ∧ ("shape", "box") ∈ styleAttrs c j ∧
    ("dashed" ∈ styleList c j ↔ c.t.forever j = true) ∧
    ("rounded" ∈ styleList c j ↔ c.t.isSched j = false) := by
  refine ⟨by simp [styleAttrs], by simp [styleAttrs], ?_, ?_⟩
  · simp only [styleList]
    cases c.t.isSched j <;> cases c.t.forever j <;> simp
  · simp only [styleList]
    cases c.t.isSched j <;> cases c.t.forever j <;> simp

/-- the node items are, in order, the atomic jobs of `listing`; the cluster items the nested schedulers -/
theorem dotBodyWith_nodes (t : T) (anch : List Nat) (F fuel s : Nat) (items : List Item) (l : List Nat)
    (h : dotBodyWith t anch F fuel s = .ok items) (hl : listing t fuel s = .ok l) :
    items.filterMap (fun i => match i with | .node j => some j | _ => none) = l.filter (fun j => !t.isSched j) ∧
    items.filterMap (fun i => match i with | .openCluster j => some j | _ => none) = l.filter (fun j => t.isSched j) := by
  rw [nodeOf_eq, clusterOf_eq]
  induction fuel generalizing s items l with
  | zero => simp [dotBodyWith] at h
  | succ n ih =>
    obtain ⟨l0, hl0, hf⟩ := dotBodyWith_succ t anch F n s items h
    obtain ⟨l0', hl0', hf'⟩ := listing_succ t n s l hl
    rw [hl0] at hl0'
    injection hl0' with hl0'
    subst hl0'
    refine foldlM_rel _ _
      (fun (a : List Item) (b : List Nat) =>
        a.filterMap nodeOf = b.filter (fun j => !t.isSched j) ∧
        a.filterMap clusterOf = b.filter (fun j => t.isSched j))
      ?_ l0 [] [] items l (by simp) hf hf'
    intro j a b a' b' ⟨hr1, hr2⟩ hs1 hs2
    obtain ⟨es, hes, hcase⟩ := dotBodyWith_step t anch F n j a a' hs1
    obtain ⟨_, hg⟩ := edgesOf_spec t F j es hes
    have hn := goodEdges_nodeOf t es hg
    have hc := goodEdges_clusterOf t es hg
    rcases hcase with ⟨hj, sub, hsub, rfl⟩ | ⟨hj, rfl⟩
    · rcases listing_step t n j b b' hs2 with ⟨_, sub', hsub', rfl⟩ | ⟨hj', _⟩
      · obtain ⟨i1, i2⟩ := ih j sub sub' hsub hsub'
        simp [List.filterMap_append, List.filterMap_cons, List.filter_append, hr1, hr2, hn, hc, i1, i2, hj]
      · rw [hj] at hj'; cases hj'
    · rcases listing_step t n j b b' hs2 with ⟨hj', _⟩ | ⟨_, rfl⟩
      · rw [hj] at hj'; cases hj'
      · simp [List.filterMap_append, List.filterMap_cons, List.filter_append, hr1, hr2, hn, hc, hj]

/-- the invisible nodes are, in order, the anchored nested schedulers without jobs of `listing` -/
theorem dotBodyWith_holders (t : T) (anch : List Nat) (F fuel s : Nat) (items : List Item) (l : List Nat)
    (h : dotBodyWith t anch F fuel s = .ok items) (hl : listing t fuel s = .ok l) :
    items.filterMap (fun i => match i with | .holder j => some j | _ => none) =
      l.filter (fun j => t.isSched j && ((t.mem j).isEmpty && anch.contains j)) := by
  rw [holderId_eq]
  induction fuel generalizing s items l with
  | zero => simp [dotBodyWith] at h
  | succ n ih =>
    obtain ⟨l0, hl0, hf⟩ := dotBodyWith_succ t anch F n s items h
    obtain ⟨l0', hl0', hf'⟩ := listing_succ t n s l hl
    rw [hl0] at hl0'
    injection hl0' with hl0'
    subst hl0'
    refine foldlM_rel _ _
      (fun (a : List Item) (b : List Nat) =>
        a.filterMap holderId = b.filter (fun j => t.isSched j && ((t.mem j).isEmpty && anch.contains j)))
      ?_ l0 [] [] items l (by simp) hf hf'
    intro j a b a' b' hr hs1 hs2
    obtain ⟨es, hes, hcase⟩ := dotBodyWith_step t anch F n j a a' hs1
    obtain ⟨_, hg⟩ := edgesOf_spec t F j es hes
    have hn := goodEdges_holderId t es hg
    rcases hcase with ⟨hj, sub, hsub, rfl⟩ | ⟨hj, rfl⟩
    · rcases listing_step t n j b b' hs2 with ⟨_, sub', hsub', rfl⟩ | ⟨hj', _⟩
      · have i1 := ih j sub sub' hsub hsub'
        simp only [List.filterMap_append, List.filterMap_cons, List.filter_append, hr, hn, i1,
          holderOf_holderId, holderId_open, holderId_close, List.append_nil, List.filter_cons, hj, Bool.true_and]
        simp only [List.isEmpty_iff, List.contains_eq_mem, Bool.and_eq_true, decide_eq_true_eq]
        split <;> simp
      · rw [hj] at hj'; cases hj'
    · rcases listing_step t n j b b' hs2 with ⟨hj', _⟩ | ⟨_, rfl⟩
      · rw [hj] at hj'; cases hj'
      · simp [List.filterMap_append, List.filterMap_cons, List.filter_append, hr, hn, hj]

/-- every `holder` item sits right after the `openCluster` of the same scheduler and right before its `close` -/
def Placed (items : List Item) : Prop :=
  ∀ pre s post, items = pre ++ Item.holder s :: post →
    (∃ pre', pre = pre' ++ [Item.openCluster s]) ∧ ∃ post', post = Item.close :: post'

theorem placed_of_no_holder {items : List Item} (h : ∀ s, Item.holder s ∉ items) : Placed items := by
  intro pre s post e
  exact absurd (by rw [e]; simp) (h s)

theorem placed_append {a b : List Item} (ha : Placed a) (hb : Placed b) : Placed (a ++ b) := by
  intro pre s post e
  rcases List.append_eq_append_iff.1 e with ⟨a', rfl, hb'⟩ | ⟨c', rfl, hc⟩
  · obtain ⟨⟨p, hp⟩, q⟩ := hb a' s post hb'
    exact ⟨⟨a ++ p, by rw [hp]; simp⟩, q⟩
  · cases c' with
    | nil =>
      simp only [List.nil_append] at hc
      obtain ⟨⟨p, hp⟩, _⟩ := hb [] s post hc.symm
      simp at hp
    | cons x c'' =>
      simp only [List.cons_append, List.cons.injEq] at hc
      obtain ⟨rfl, rfl⟩ := hc
      obtain ⟨p, q, hq⟩ := ha pre s c'' rfl
      exact ⟨p, q ++ b, by rw [hq]; simp⟩

theorem placed_goodEdges (t : T) (es : List Item) (h : ∀ i ∈ es, GoodEdge t i) : Placed es :=
  placed_of_no_holder (fun s hs => by simpa [GoodEdge] using h _ hs)

theorem placed_empty_cluster (j : Nat) : Placed [Item.openCluster j, Item.holder j, Item.close] := by
  intro pre s post e
  match pre, e with
  | [], e => simp at e
  | [x], e =>
    simp at e
    obtain ⟨rfl, rfl, rfl⟩ := e
    exact ⟨⟨[], rfl⟩, ⟨[], rfl⟩⟩
  | [x, y], e => simp at e
  | [x, y, z], e => simp at e
  | x :: y :: z :: u :: r, e => simp at e

/-- a scheduler without jobs has an empty body -/
theorem dotBodyWith_empty (t : T) (anch : List Nat) (F fuel j : Nat) (sub : List Item) (he : (t.mem j).isEmpty = true)
    (h : dotBodyWith t anch F fuel j = .ok sub) : sub = [] := by
  cases fuel with
  | zero => simp [dotBodyWith] at h
  | succ n =>
    obtain ⟨l0, hl0, hf⟩ := dotBodyWith_succ t anch F n j sub h
    have hsub := C15.topo_subset t j [] l0 hl0
    have : l0 = [] := by
      cases l0 with
      | nil => rfl
      | cons x r =>
        have := hsub x (by simp)
        rw [List.isEmpty_iff.1 he] at this
        cases this
    subst this
    simp [pure, Except.pure] at hf
    exact hf

theorem dotBodyWith_placed (t : T) (anch : List Nat) (F fuel s : Nat) (items : List Item)
    (h : dotBodyWith t anch F fuel s = .ok items) : Placed items := by
  induction fuel generalizing s items with
  | zero => simp [dotBodyWith] at h
  | succ n ih =>
    obtain ⟨l0, hl0, hf⟩ := dotBodyWith_succ t anch F n s items h
    refine foldlM_inv _ Placed ?_ l0 [] items (placed_of_no_holder (by simp)) hf
    intro j a a' hq hs
    obtain ⟨es, hes, hcase⟩ := dotBodyWith_step t anch F n j a a' hs
    obtain ⟨_, hg⟩ := edgesOf_spec t F j es hes
    have hb := placed_goodEdges t es hg
    rcases hcase with ⟨hj, sub, hsub, rfl⟩ | ⟨hj, rfl⟩
    · by_cases he : ((t.mem j).isEmpty && anch.contains j) = true
      · have := dotBodyWith_empty t anch F n j sub (by simp at he; simp [he.1]) hsub
        subst this
        have := placed_append hq (placed_append (placed_empty_cluster j) hb)
        rw [holderOf_pos he]
        simpa using this
      · have h1 : Placed ([Item.openCluster j] ++ (sub ++ [Item.close])) :=
          placed_append (placed_of_no_holder (by simp))
            (placed_append (ih j sub hsub) (placed_of_no_holder (by simp)))
        have := placed_append hq (placed_append h1 hb)
        rw [holderOf_neg he]
        simpa using this
    · have h1 : Placed [Item.node j] := placed_of_no_holder (by simp)
      have := placed_append hq (placed_append h1 hb)
      simpa using this

/-- the invisible node of an empty nested scheduler is inside its own cluster, which contains nothing else:
    a `holder s` item comes right after `openCluster s` and right before the `close` of that cluster -/
theorem dotBodyWith_holder_place (t : T) (anch : List Nat) (F fuel s : Nat) (items : List Item)
    (h : dotBodyWith t anch F fuel s = .ok items) :
    ∀ pre j post, items = pre ++ Item.holder j :: post →
      (∃ pre', pre = pre' ++ [Item.openCluster j]) ∧ ∃ post', post = Item.close :: post' :=
  dotBodyWith_placed t anch F fuel s items h

/-- clusters are well bracketed: every prefix has at least as many `openCluster` as `close`, the whole list as many -/
def depthOk : Nat → List Item → Bool
  | d, [] => d == 0
  | d, .openCluster _ :: r => depthOk (d + 1) r
  | 0, .close :: _ => false
  | d + 1, .close :: r => depthOk d r
  | d, _ :: r => depthOk d r

/-- a block that leaves the nesting depth unchanged and never closes more than it opened -/
def Bal (items : List Item) : Prop := ∀ d rest, depthOk d (items ++ rest) = depthOk d rest

theorem bal_nil : Bal [] := by intro d rest; rfl

theorem bal_append {a b : List Item} (ha : Bal a) (hb : Bal b) : Bal (a ++ b) := by
  intro d rest
  rw [List.append_assoc, ha, hb]

theorem bal_node (j : Nat) : Bal [Item.node j] := by
  intro d rest
  cases d <;> simp [depthOk]

theorem bal_goodEdges (t : T) (es : List Item) (h : ∀ i ∈ es, GoodEdge t i) : Bal es := by
  induction es with
  | nil => exact bal_nil
  | cons e es ih =>
    intro d rest
    have he := h e (by simp)
    have := ih (fun i hi => h i (by simp [hi])) d rest
    cases e with
    | edge a b c d' => cases d <;> simpa [depthOk] using this
    | node _ => simp [GoodEdge] at he
    | openCluster _ => simp [GoodEdge] at he
    | close => simp [GoodEdge] at he
    | holder _ => simp [GoodEdge] at he

theorem bal_holderOf (t : T) (anch : List Nat) (j : Nat) : Bal (holderOf t anch j) := by
  intro d rest
  unfold holderOf
  split
  · cases d <;> simp [depthOk]
  · rfl

theorem bal_cluster (j : Nat) (sub : List Item) (h : Bal sub) : Bal (Item.openCluster j :: sub ++ [Item.close]) := by
  intro d rest
  have := h (d + 1) (Item.close :: rest)
  simp [depthOk] at this ⊢
  rw [this]

theorem dotBodyWith_bal (t : T) (anch : List Nat) (F fuel s : Nat) (items : List Item)
    (h : dotBodyWith t anch F fuel s = .ok items) : Bal items := by
  induction fuel generalizing s items with
  | zero => simp [dotBodyWith] at h
  | succ n ih =>
    obtain ⟨l0, hl0, hf⟩ := dotBodyWith_succ t anch F n s items h
    refine foldlM_inv _ Bal ?_ l0 [] items bal_nil hf
    intro j a a' hq hs
    obtain ⟨es, hes, hcase⟩ := dotBodyWith_step t anch F n j a a' hs
    obtain ⟨_, hg⟩ := edgesOf_spec t F j es hes
    have hb := bal_goodEdges t es hg
    rcases hcase with ⟨hj, sub, hsub, rfl⟩ | ⟨hj, rfl⟩
    · have h1 := bal_cluster j (holderOf t anch j ++ sub) (bal_append (bal_holderOf t anch j) (ih j sub hsub))
      have := bal_append hq (bal_append h1 hb)
      simpa using this
    · have := bal_append hq (bal_append (bal_node j) hb)
      simpa using this

theorem dotBodyWith_brackets (t : T) (anch : List Nat) (F fuel s : Nat) (items : List Item)
    (h : dotBodyWith t anch F fuel s = .ok items) : depthOk 0 items = true := by
  have := dotBodyWith_bal t anch F fuel s items h 0 []
  simpa [depthOk] using this

/-- every requirement of every listed job is exactly one edge: the logical endpoints of the edge items
    (cluster if `lhead`/`ltail` is given, node otherwise) are, in order, the pairs (job, requirement) -/
def edgeKey : Item → Option (Nat × Nat)
  | .edge src dst lhead ltail => some (lhead.getD dst, ltail.getD src)
  | _ => none

theorem edgeKey_eq : edgeKey = ekey := by
  funext i; cases i <;> rfl

theorem dotBodyWith_edges (t : T) (anch : List Nat) (F fuel s : Nat) (items : List Item) (l : List Nat)
    (h : dotBodyWith t anch F fuel s = .ok items) (hl : listing t fuel s = .ok l) :
    (items.filterMap edgeKey).Perm (l.flatMap fun x => (t.req x).map fun r => (x, r)) := by
  rw [edgeKey_eq]
  induction fuel generalizing s items l with
  | zero => simp [dotBodyWith] at h
  | succ n ih =>
    obtain ⟨l0, hl0, hf⟩ := dotBodyWith_succ t anch F n s items h
    obtain ⟨l0', hl0', hf'⟩ := listing_succ t n s l hl
    rw [hl0] at hl0'
    injection hl0' with hl0'
    subst hl0'
    refine foldlM_rel _ _
      (fun (a : List Item) (b : List Nat) =>
        (a.filterMap ekey).Perm (b.flatMap fun x => (t.req x).map fun r => (x, r)))
      ?_ l0 [] [] items l (by simp) hf hf'
    intro j a b a' b' hr hs1 hs2
    obtain ⟨es, hes, hcase⟩ := dotBodyWith_step t anch F n j a a' hs1
    obtain ⟨hk, _⟩ := edgesOf_spec t F j es hes
    rcases hcase with ⟨hj, sub, hsub, rfl⟩ | ⟨hj, rfl⟩
    · rcases listing_step t n j b b' hs2 with ⟨_, sub', hsub', rfl⟩ | ⟨hj', _⟩
      · have i1 := ih j sub sub' hsub hsub'
        have e1 : List.filterMap ekey (a ++ Item.openCluster j :: holderOf t anch j ++ sub ++ Item.close :: es)
            = List.filterMap ekey a ++ (List.filterMap ekey sub ++ List.filterMap ekey es) := by
          simp [List.filterMap_append, List.filterMap_cons]
        have e2 : (b ++ j :: sub').flatMap (fun x => (t.req x).map fun r => (x, r))
            = b.flatMap (fun x => (t.req x).map fun r => (x, r)) ++
              (List.filterMap ekey es ++ sub'.flatMap (fun x => (t.req x).map fun r => (x, r))) := by
          simp [List.flatMap_append, hk]
        rw [e1, e2]
        exact List.Perm.append hr (List.perm_append_comm.trans (List.Perm.append_left _ i1))
      · rw [hj] at hj'; cases hj'
    · rcases listing_step t n j b b' hs2 with ⟨hj', _⟩ | ⟨_, rfl⟩
      · rw [hj] at hj'; cases hj'
      · have e1 : List.filterMap ekey (a ++ Item.node j :: es)
            = List.filterMap ekey a ++ List.filterMap ekey es := by
          simp [List.filterMap_append, List.filterMap_cons]
        have e2 : (b ++ [j]).flatMap (fun x => (t.req x).map fun r => (x, r))
            = b.flatMap (fun x => (t.req x).map fun r => (x, r)) ++ List.filterMap ekey es := by
          simp [List.flatMap_append, hk]
        rw [e1, e2]
        exact List.Perm.append hr (List.Perm.refl _)

theorem dotBodyWith_allGood (t : T) (anch : List Nat) (F fuel s : Nat) (items : List Item)
    (h : dotBodyWith t anch F fuel s = .ok items) :
    ∀ src dst lh lt, Item.edge src dst lh lt ∈ items → GoodEdge t (Item.edge src dst lh lt) := by
  induction fuel generalizing s items with
  | zero => simp [dotBodyWith] at h
  | succ n ih =>
    obtain ⟨l0, hl0, hf⟩ := dotBodyWith_succ t anch F n s items h
    refine foldlM_inv _
      (fun (a : List Item) => ∀ src dst lh lt, Item.edge src dst lh lt ∈ a → GoodEdge t (Item.edge src dst lh lt))
      ?_ l0 [] items (by simp) hf
    intro j a a' hq hs
    obtain ⟨es, hes, hcase⟩ := dotBodyWith_step t anch F n j a a' hs
    obtain ⟨_, hg⟩ := edgesOf_spec t F j es hes
    rcases hcase with ⟨hj, sub, hsub, rfl⟩ | ⟨hj, rfl⟩
    · intro src dst lh lt hm
      simp at hm
      rcases hm with hm | hm | hm | hm
      · exact hq _ _ _ _ hm
      · unfold holderOf at hm
        split at hm <;> simp at hm
      · exact ih j sub hsub _ _ _ _ hm
      · exact hg _ hm
    · intro src dst lh lt hm
      simp at hm
      rcases hm with hm | hm
      · exact hq _ _ _ _ hm
      · exact hg _ hm

/-- edge endpoints: `src` (resp. `dst`) is an atomic job, or an empty scheduler (its invisible node) in which case
    `ltail` (resp. `lhead`) names a cluster; the clusters `lhead`/`ltail` name are schedulers -/
theorem dotBodyWith_edge_endpoints (t : T) (anch : List Nat) (F fuel s : Nat) (items : List Item)
    (h : dotBodyWith t anch F fuel s = .ok items) :
    ∀ src dst lh lt, Item.edge src dst lh lt ∈ items →
      (t.isSched src = false ∨ (t.isSched src = true ∧ t.mem src = [] ∧ ∃ c, lt = some c)) ∧
      (t.isSched dst = false ∨ (t.isSched dst = true ∧ t.mem dst = [] ∧ ∃ c, lh = some c)) ∧
      (∀ c, lh = some c → t.isSched c = true) ∧ (∀ c, lt = some c → t.isSched c = true) :=
  dotBodyWith_allGood t anch F fuel s items h

/-! ### `dot_format()` does not raise on a tree whose ids could be assigned (no cycle)

  Since an empty scheduler stands for itself, `_middle_entry_job` / `_middle_exit_job` cannot fail any more on a
  scheduler whose topological order exists: a non-empty one has a first job (an entry) and a last job (an exit). -/

theorem foldlM_ok_of_steps {α β ε : Type} (step : β → α → Except ε β) :
    ∀ (l : List α), (∀ a ∈ l, ∀ acc, ∃ r, step acc a = .ok r) → ∀ acc, ∃ r, l.foldlM step acc = .ok r := by
  intro l
  induction l with
  | nil => intro _ acc; exact ⟨acc, rfl⟩
  | cons a l ih =>
    intro h acc
    obtain ⟨r, hr⟩ := h a (by simp) acc
    obtain ⟨r', hr'⟩ := ih (fun b hb => h b (by simp [hb])) r
    refine ⟨r', ?_⟩
    rw [List.foldlM_cons, hr]
    exact hr'

/-- if the fold of `listing` succeeds, `listing` succeeded on every nested scheduler met -/
theorem listing_fold_ok (t : T) (fuel : Nat) : ∀ (l0 : List Nat) (acc res : List Nat),
    l0.foldlM (m := Except Err) (fun acc j =>
        if t.isSched j then
          match listing t fuel j with
          | .error e => .error e
          | .ok sub => .ok (acc ++ j :: sub)
        else .ok (acc ++ [j])) acc = .ok res →
    ∀ j ∈ l0, t.isSched j = true → ∃ sub, listing t fuel j = .ok sub := by
  intro l0
  induction l0 with
  | nil => intro _ _ _ j hj; cases hj
  | cons a l0 ih =>
    intro acc res h j hj hs
    obtain ⟨mid, hmid, hrest⟩ := C15.foldlM_cons_ok _ _ _ _ _ h
    rcases List.mem_cons.1 hj with rfl | hj
    · rcases listing_step t fuel j acc mid hmid with ⟨_, sub, hsub, _⟩ | ⟨hj', _⟩
      · exact ⟨sub, hsub⟩
      · rw [hs] at hj'; cases hj'
    · exact ih mid res hrest j hj hs

theorem middleIndex_lt {n : Nat} (h : 0 < n) : middleIndex n < n := by
  unfold middleIndex; omega

/-- the first job of a topological order is an entry job -/
theorem entry_exists (t : T) (s : Nat) (l : List Nat) (h : topo t s = .ok l) (hne : t.mem s ≠ []) :
    entryJobs t s ≠ [] := by
  have hperm := C15.topo_perm_aux t s [] l h
  cases l with
  | nil => exact absurd hperm.symm.eq_nil hne
  | cons x b =>
    have hreq : t.req x = [] := by
      have := C15.topo_order_inv t s (x :: b) h [] x b rfl
      cases hr : t.req x with
      | nil => rfl
      | cons y ys => exact absurd (this y (by rw [hr]; simp)) (by simp)
    have hx : x ∈ entryJobs t s := by
      unfold entryJobs
      rw [List.mem_filter]
      exact ⟨C15.topo_subset t s [] _ h x (by simp), by simp [hreq]⟩
    intro he
    rw [he] at hx
    cases hx

/-- the last job of a topological order is an exit job (possibly a forever one) -/
theorem exit_exists (t : T) (s : Nat) (l : List Nat) (h : topo t s = .ok l) (hne : t.mem s ≠ []) :
    exitJobs t s false ≠ [] := by
  have hperm := C15.topo_perm_aux t s [] l h
  have hnd := C15.topo_nodup t s [] l h
  rcases List.eq_nil_or_concat l with rfl | ⟨a, x, hax⟩
  · exact absurd hperm.symm.eq_nil hne
  · rw [List.concat_eq_append] at hax
    subst hax
    have hsucc : succOf t s x = [] := by
      unfold succOf
      rw [List.filter_eq_nil_iff]
      intro k hk hxk
      have hxk : x ∈ t.req k := by simpa using hxk
      have hkl : k ∈ a ++ [x] := hperm.mem_iff.2 hk
      obtain ⟨a', b', hab⟩ := List.append_of_mem hkl
      have hxa : x ∈ a' := C15.topo_order_inv t s _ h a' k b' hab x hxk
      have hxb : x ∈ k :: b' := by
        have h1 : (a ++ [x]).getLast? = some x := by simp
        rw [hab, List.getLast?_append] at h1
        simp only [Option.or_eq_some_iff] at h1
        have h2 : (k :: b').getLast? = some x := by
          rcases h1 with h1 | ⟨h1, _⟩
          · exact h1
          · simp at h1
        exact List.mem_of_getLast? h2
      rw [hab] at hnd
      exact (List.nodup_append.1 hnd).2.2 x hxa x hxb rfl
    have hx : x ∈ exitJobs t s false := by
      unfold exitJobs
      rw [List.mem_filter]
      exact ⟨C15.topo_subset t s [] _ h x (by simp), by simp [hsucc]⟩
    intro he
    rw [he] at hx
    cases hx

/-- `_middle_entry_job` succeeds on every scheduler of a tree on which `listing` succeeds -/
theorem middleEntry_total (t : T) : ∀ (fuel F x : Nat) (lx : List Nat),
    t.isSched x = true →
    (∀ s', (s' = x ∨ Desc t x s') → t.isSched s' = true → ∀ k ∈ t.mem s', s' < k ∧ k < t.n) →
    t.n - x < F → listing t fuel x = .ok lx → ∃ r, middleEntry t F x = .ok r := by
  intro fuel
  induction fuel with
  | zero => intro F x lx _ _ _ h; simp [listing] at h
  | succ n ih =>
    intro F x lx hx hwf hF hl
    obtain ⟨l0, hl0, hf⟩ := listing_succ t n x lx hl
    obtain ⟨F', rfl⟩ : ∃ F', F = F' + 1 := ⟨F - 1, by omega⟩
    unfold middleEntry
    by_cases he : (t.mem x).isEmpty = true
    · exact ⟨x, by simp [he]⟩
    · have hne : t.mem x ≠ [] := fun e => he (by simp [e])
      have hent := entry_exists t x l0 hl0 hne
      have hlt := middleIndex_lt (List.length_pos_iff.2 hent)
      have hc : (entryJobs t x)[middleIndex (entryJobs t x).length]? =
          some ((entryJobs t x)[middleIndex (entryJobs t x).length]) := List.getElem?_eq_getElem hlt
      generalize (entryJobs t x)[middleIndex (entryJobs t x).length] = cand at hc
      have hcm : cand ∈ t.mem x := (List.mem_filter.1 (List.mem_of_getElem? hc)).1
      simp only [he, hc]
      cases hcs : t.isSched cand with
      | false => exact ⟨cand, by simp⟩
      | true =>
        have hb := hwf x (Or.inl rfl) hx cand hcm
        have hcl : cand ∈ l0 := (C15.topo_perm_aux t x [] l0 hl0).mem_iff.2 hcm
        obtain ⟨sub, hsub⟩ := listing_fold_ok t n l0 [] lx hf cand hcl hcs
        obtain ⟨r, hr⟩ := ih F' cand sub hcs
          (fun s' hs' => hwf s' (Or.inr (by
            rcases hs' with rfl | hs'
            · exact Desc.child hx hcm
            · exact Desc.deeper hx hcm hs')))
          (by omega) hsub
        exact ⟨r, by simpa using hr⟩

/-- `_middle_exit_job` succeeds on every scheduler of a tree on which `listing` succeeds -/
theorem middleExit_total (t : T) : ∀ (fuel F x : Nat) (lx : List Nat),
    t.isSched x = true →
    (∀ s', (s' = x ∨ Desc t x s') → t.isSched s' = true → ∀ k ∈ t.mem s', s' < k ∧ k < t.n) →
    t.n - x < F → listing t fuel x = .ok lx → ∃ r, middleExit t F x = .ok r := by
  intro fuel
  induction fuel with
  | zero => intro F x lx _ _ _ h; simp [listing] at h
  | succ n ih =>
    intro F x lx hx hwf hF hl
    obtain ⟨l0, hl0, hf⟩ := listing_succ t n x lx hl
    obtain ⟨F', rfl⟩ : ∃ F', F = F' + 1 := ⟨F - 1, by omega⟩
    unfold middleExit
    by_cases he : (t.mem x).isEmpty = true
    · exact ⟨x, by simp [he]⟩
    · have hne : t.mem x ≠ [] := fun e => he (by simp [e])
      have hex := exit_exists t x l0 hl0 hne
      simp only [he]
      generalize hE : (if (exitJobs t x true).isEmpty = true then exitJobs t x false else exitJobs t x true) = exits
      have hsub : ∀ k ∈ exits, k ∈ t.mem x := by
        intro k hk
        rw [← hE] at hk
        split at hk
        · exact (List.mem_filter.1 hk).1
        · exact (List.mem_filter.1 hk).1
      have hexits : exits ≠ [] := by
        rw [← hE]
        split
        · exact hex
        · rename_i h2
          intro e; exact h2 (by simp [e])
      have hlt := middleIndex_lt (List.length_pos_iff.2 hexits)
      have hc : exits[middleIndex exits.length]? = some (exits[middleIndex exits.length]) :=
        List.getElem?_eq_getElem hlt
      generalize exits[middleIndex exits.length] = cand at hc
      have hcm : cand ∈ t.mem x := hsub _ (List.mem_of_getElem? hc)
      simp only [hc]
      cases hcs : t.isSched cand with
      | false => exact ⟨cand, by simp⟩
      | true =>
        have hb := hwf x (Or.inl rfl) hx cand hcm
        have hcl : cand ∈ l0 := (C15.topo_perm_aux t x [] l0 hl0).mem_iff.2 hcm
        obtain ⟨sub, hsub'⟩ := listing_fold_ok t n l0 [] lx hf cand hcl hcs
        obtain ⟨r, hr⟩ := ih F' cand sub hcs
          (fun s' hs' => hwf s' (Or.inr (by
            rcases hs' with rfl | hs'
            · exact Desc.child hx hcm
            · exact Desc.deeper hx hcm hs')))
          (by omega) hsub'
        exact ⟨r, by simpa using hr⟩

theorem edgesOf_total (t : T) (F j : Nat)
    (hexit : ∀ r ∈ t.req j, t.isSched r = true → ∃ x, middleExit t F r = .ok x)
    (hentry : t.isSched j = true → ∃ x, middleEntry t F j = .ok x) :
    ∃ es, edgesOf t F j = .ok es := by
  unfold edgesOf
  apply foldlM_ok_of_steps
  intro r hr acc
  cases hj : t.isSched j with
  | true =>
    obtain ⟨dst, hdst⟩ := hentry hj
    cases hrs : t.isSched r with
    | true =>
      obtain ⟨src, hsrc⟩ := hexit r hr hrs
      simp [hsrc, hdst]
    | false => simp [hdst]
  | false =>
    cases hrs : t.isSched r with
    | true =>
      obtain ⟨src, hsrc⟩ := hexit r hr hrs
      simp [hsrc]
    | false => simp

/-- `_dot_body` succeeds on every tree on which `listing` does (topological order found at every level, i.e. no
    cycle and no requirement outside its scheduler): in particular empty nested schedulers, required or
    requiring, no longer make it raise.  `hwf`: members have larger ids, below `n` (what the harness generates);
    `hF`: the fuel of the `_middle_*_job` descents is at least `n` (the driver uses `n + 1`). -/
theorem dotBodyWith_total (t : T) (anch : List Nat) (F fuel s : Nat) (l : List Nat)
    (hs : t.isSched s = true)
    (hwf : ∀ s', (s' = s ∨ Desc t s s') → t.isSched s' = true → ∀ k ∈ t.mem s', s' < k ∧ k < t.n)
    (hF : t.n ≤ F)
    (hl : listing t fuel s = .ok l) :
    ∃ items, dotBodyWith t anch F fuel s = .ok items := by
  induction fuel generalizing s l with
  | zero => simp [listing] at hl
  | succ n ih =>
    obtain ⟨l0, hl0, hf⟩ := listing_succ t n s l hl
    unfold dotBodyWith
    simp only [hl0]
    apply foldlM_ok_of_steps
    intro j hj acc
    have hsubset := C15.topo_subset t s [] l0 hl0
    have hjm : j ∈ t.mem s := hsubset j hj
    have hwfj : ∀ k, k ∈ t.mem s → ∀ s', (s' = k ∨ Desc t k s') → t.isSched s' = true →
        ∀ k' ∈ t.mem s', s' < k' ∧ k' < t.n := by
      intro k hk s' hs'
      refine hwf s' (Or.inr ?_)
      rcases hs' with rfl | hs'
      · exact Desc.child hs hk
      · exact Desc.deeper hs hk hs'
    have hbound : ∀ k, k ∈ t.mem s → t.n - k < F := by
      intro k hk
      have := hwf s (Or.inl rfl) hs k hk
      omega
    obtain ⟨es, hes⟩ : ∃ es, edgesOf t F j = .ok es := by
      apply edgesOf_total
      · intro r hr hrs
        obtain ⟨a, b, hab⟩ := List.append_of_mem hj
        have hra : r ∈ l0 := by
          have := C15.topo_order_inv t s l0 hl0 a j b hab r hr
          rw [hab]; simp [this]
        obtain ⟨sub, hsub⟩ := listing_fold_ok t n l0 [] l hf r hra hrs
        exact middleExit_total t n F r sub hrs (hwfj r (hsubset r hra)) (hbound r (hsubset r hra)) hsub
      · intro hjs
        obtain ⟨sub, hsub⟩ := listing_fold_ok t n l0 [] l hf j hj hjs
        exact middleEntry_total t n F j sub hjs (hwfj j hjm) (hbound j hjm) hsub
    cases hjs : t.isSched j with
    | true =>
      obtain ⟨sub, hsub⟩ := listing_fold_ok t n l0 [] l hf j hj hjs
      obtain ⟨items, hitems⟩ := ih j sub hjs (hwfj j hjm) hsub
      simp [hitems, hes]
    | false => simp [hes]

/-! ### which empty schedulers get their invisible node: the anchored ones -/

theorem foldlM_inv_mem {α β ε : Type} (step : β → α → Except ε β) (Q : β → Prop) :
    ∀ (l : List α), (∀ a ∈ l, ∀ acc res, Q acc → step acc a = .ok res → Q res) →
      ∀ (acc res : β), Q acc → l.foldlM step acc = .ok res → Q res := by
  intro l
  induction l with
  | nil =>
    intro _ acc res hq h
    simp [pure, Except.pure] at h
    subst h; exact hq
  | cons a l ih =>
    intro hstep acc res hq h
    rw [List.foldlM_cons] at h
    cases hs : step acc a with
    | error e => rw [hs] at h; simp [bind, Except.bind] at h
    | ok r =>
      rw [hs] at h
      exact ih (fun b hb => hstep b (by simp [hb])) r res (hstep a (by simp) acc r hq hs) h

@[simp] theorem anchorsOf_nil (t : T) : anchorsOf t [] = [] := rfl
@[simp] theorem anchorsOf_append (t : T) (a b : List Item) : anchorsOf t (a ++ b) = anchorsOf t a ++ anchorsOf t b := by
  simp [anchorsOf]
@[simp] theorem anchorsOf_cons_node (t : T) (j : Nat) (r : List Item) : anchorsOf t (.node j :: r) = anchorsOf t r := by
  simp [anchorsOf]
@[simp] theorem anchorsOf_cons_open (t : T) (j : Nat) (r : List Item) :
    anchorsOf t (.openCluster j :: r) = anchorsOf t r := by
  simp [anchorsOf]
@[simp] theorem anchorsOf_cons_close (t : T) (r : List Item) : anchorsOf t (.close :: r) = anchorsOf t r := by
  simp [anchorsOf]
@[simp] theorem anchorsOf_cons_holder (t : T) (j : Nat) (r : List Item) :
    anchorsOf t (.holder j :: r) = anchorsOf t r := by
  simp [anchorsOf]
@[simp] theorem anchorsOf_holderOf (t : T) (anch : List Nat) (j : Nat) : anchorsOf t (holderOf t anch j) = [] := by
  unfold holderOf; split <;> simp

/-- the anchored schedulers are the empty schedulers that are the tail or the head of an edge item -/
theorem mem_anchorsOf (t : T) (items : List Item) (x : Nat) :
    x ∈ anchorsOf t items ↔
      (t.isSched x = true ∧ t.mem x = []) ∧
        ∃ src dst lh lt, Item.edge src dst lh lt ∈ items ∧ (src = x ∨ dst = x) := by
  unfold anchorsOf
  rw [List.mem_flatMap]
  constructor
  · rintro ⟨i, hi, hx⟩
    cases i with
    | edge src dst lh lt =>
      simp only [List.mem_filter, List.mem_cons, List.not_mem_nil, or_false, Bool.and_eq_true,
        List.isEmpty_iff] at hx
      exact ⟨hx.2, src, dst, lh, lt, hi, by rcases hx.1 with h | h <;> simp [h]⟩
    | _ => simp at hx
  · rintro ⟨hx, src, dst, lh, lt, hi, hsd⟩
    refine ⟨_, hi, ?_⟩
    simp only [List.mem_filter, List.mem_cons, List.not_mem_nil, or_false, Bool.and_eq_true, List.isEmpty_iff]
    exact ⟨by rcases hsd with h | h <;> simp [h], hx⟩

/-- the edges, hence the anchors, of a run of `_dot_body` do not depend on the `_dot_anchor` flags -/
theorem dotBodyWith_anchors (t : T) (a1 a2 : List Nat) (F : Nat) : ∀ (fuel s : Nat) (i1 i2 : List Item),
    dotBodyWith t a1 F fuel s = .ok i1 → dotBodyWith t a2 F fuel s = .ok i2 →
    anchorsOf t i1 = anchorsOf t i2 := by
  intro fuel
  induction fuel with
  | zero => intro s i1 i2 h; simp [dotBodyWith] at h
  | succ n ih =>
    intro s i1 i2 h1 h2
    obtain ⟨l0, hl0, hf1⟩ := dotBodyWith_succ t a1 F n s i1 h1
    obtain ⟨l0', hl0', hf2⟩ := dotBodyWith_succ t a2 F n s i2 h2
    rw [hl0] at hl0'
    injection hl0' with hl0'
    subst hl0'
    refine foldlM_rel _ _ (fun (a b : List Item) => anchorsOf t a = anchorsOf t b) ?_ l0 [] [] i1 i2 rfl hf1 hf2
    intro j a b a' b' hr hs1 hs2
    obtain ⟨es, hes, hc1⟩ := dotBodyWith_step t a1 F n j a a' hs1
    obtain ⟨es', hes', hc2⟩ := dotBodyWith_step t a2 F n j b b' hs2
    rw [hes] at hes'
    injection hes' with hes'
    subst hes'
    rcases hc1 with ⟨hj, sub, hsub, rfl⟩ | ⟨hj, rfl⟩
    · rcases hc2 with ⟨_, sub', hsub', rfl⟩ | ⟨hj', _⟩
      · simp [hr, ih j sub sub' hsub hsub']
      · rw [hj] at hj'; cases hj'
    · rcases hc2 with ⟨hj', _⟩ | ⟨_, rfl⟩
      · rw [hj] at hj'; cases hj'
      · simp [hr]

/-- `dot_format()`'s items are those of one run of `_dot_body` whose `_dot_anchor` flags are the anchors of the
    result itself -/
theorem dotBody_with (t : T) (F fuel s : Nat) (items : List Item) (h : dotBody t F fuel s = .ok items) :
    dotBodyWith t (anchorsOf t items) F fuel s = .ok items := by
  unfold dotBody at h
  split at h
  · cases h
  · rename_i i0 h0
    rw [← dotBodyWith_anchors t [] (anchorsOf t i0) F fuel s i0 items h0 h]
    exact h

theorem mem_holderOf (t : T) (anch : List Nat) (j : Nat) (i : Item) :
    i ∈ holderOf t anch j ↔ i = Item.holder j ∧ t.mem j = [] ∧ j ∈ anch := by
  unfold holderOf
  split
  · rename_i h
    simp only [Bool.and_eq_true, List.isEmpty_iff, List.contains_eq_mem, decide_eq_true_eq] at h
    simp [h]
  · rename_i h
    simp only [Bool.and_eq_true, List.isEmpty_iff, List.contains_eq_mem, decide_eq_true_eq] at h
    simp only [List.not_mem_nil, false_iff]
    intro hh; exact h hh.2

theorem goodEdges_no_holder (t : T) (es : List Item) (h : ∀ i ∈ es, GoodEdge t i) (x : Nat) :
    Item.holder x ∉ es := fun hx => by simpa [GoodEdge] using h _ hx

theorem goodEdges_no_open (t : T) (es : List Item) (h : ∀ i ∈ es, GoodEdge t i) (x : Nat) :
    Item.openCluster x ∉ es := fun hx => by simpa [GoodEdge] using h _ hx

/-- a holder item is the one of an empty, anchored scheduler whose cluster is in the list -/
theorem dotBodyWith_holder_sound (t : T) (anch : List Nat) (F fuel s : Nat) (items : List Item)
    (h : dotBodyWith t anch F fuel s = .ok items) :
    ∀ x, Item.holder x ∈ items → Item.openCluster x ∈ items ∧ t.mem x = [] ∧ x ∈ anch := by
  induction fuel generalizing s items with
  | zero => simp [dotBodyWith] at h
  | succ n ih =>
    obtain ⟨l0, hl0, hf⟩ := dotBodyWith_succ t anch F n s items h
    refine foldlM_inv _
      (fun (a : List Item) => ∀ x, Item.holder x ∈ a → Item.openCluster x ∈ a ∧ t.mem x = [] ∧ x ∈ anch)
      ?_ l0 [] items (by simp) hf
    intro j a a' hq hs
    obtain ⟨es, hes, hcase⟩ := dotBodyWith_step t anch F n j a a' hs
    obtain ⟨_, hg⟩ := edgesOf_spec t F j es hes
    have hnh := goodEdges_no_holder t es hg
    rcases hcase with ⟨hj, sub, hsub, rfl⟩ | ⟨hj, rfl⟩
    · intro x hx
      simp only [List.mem_append, List.mem_cons, reduceCtorEq, false_or] at hx
      rcases hx with ((hx | hx) | hx) | hx
      · obtain ⟨h1, h2⟩ := hq x hx
        exact ⟨by simp [h1], h2⟩
      · obtain ⟨h1, h2⟩ := (mem_holderOf t anch j _).1 hx
        injection h1 with h1
        subst h1
        exact ⟨by simp, h2⟩
      · obtain ⟨h1, h2⟩ := ih j sub hsub x hx
        exact ⟨by simp [h1], h2⟩
      · exact absurd hx (hnh x)
    · intro x hx
      simp only [List.mem_append, List.mem_cons, reduceCtorEq, false_or] at hx
      rcases hx with hx | hx
      · obtain ⟨h1, h2⟩ := hq x hx
        exact ⟨by simp [h1], h2⟩
      · exact absurd hx (hnh x)

/-- a cluster is the one of a scheduler; when that scheduler is empty and anchored, its holder is in the list -/
theorem dotBodyWith_open_spec (t : T) (anch : List Nat) (F fuel s : Nat) (items : List Item)
    (h : dotBodyWith t anch F fuel s = .ok items) :
    ∀ x, Item.openCluster x ∈ items →
      t.isSched x = true ∧ (t.mem x = [] → x ∈ anch → Item.holder x ∈ items) := by
  induction fuel generalizing s items with
  | zero => simp [dotBodyWith] at h
  | succ n ih =>
    obtain ⟨l0, hl0, hf⟩ := dotBodyWith_succ t anch F n s items h
    refine foldlM_inv _
      (fun (a : List Item) => ∀ x, Item.openCluster x ∈ a →
        t.isSched x = true ∧ (t.mem x = [] → x ∈ anch → Item.holder x ∈ a))
      ?_ l0 [] items (by simp) hf
    intro j a a' hq hs
    obtain ⟨es, hes, hcase⟩ := dotBodyWith_step t anch F n j a a' hs
    obtain ⟨_, hg⟩ := edgesOf_spec t F j es hes
    have hno := goodEdges_no_open t es hg
    rcases hcase with ⟨hj, sub, hsub, rfl⟩ | ⟨hj, rfl⟩
    · intro x hx
      simp only [List.mem_append, List.mem_cons, reduceCtorEq, false_or] at hx
      rcases hx with ((hx | hx | hx) | hx) | hx
      · obtain ⟨h1, h2⟩ := hq x hx
        exact ⟨h1, fun e ha => by simp [h2 e ha]⟩
      · injection hx with hx
        subst hx
        refine ⟨hj, fun e ha => ?_⟩
        have : Item.holder x ∈ holderOf t anch x := (mem_holderOf t anch x _).2 ⟨rfl, e, ha⟩
        simp [this]
      · exact absurd ((mem_holderOf t anch j _).1 hx).1 (by simp)
      · obtain ⟨h1, h2⟩ := ih j sub hsub x hx
        exact ⟨h1, fun e ha => by simp [h2 e ha]⟩
      · exact absurd hx (hno x)
    · intro x hx
      simp only [List.mem_append, List.mem_cons, reduceCtorEq, false_or] at hx
      rcases hx with hx | hx
      · obtain ⟨h1, h2⟩ := hq x hx
        exact ⟨h1, fun e ha => by simp [h2 e ha]⟩
      · exact absurd hx (hno x)

/-- **which schedulers get an invisible node**: `j` has a holder item iff it is a nested scheduler of the document
    (its cluster is there), it has no jobs, and it is the tail or the head of some edge item -/
theorem holder_iff_anchored (t : T) (F fuel s : Nat) (items : List Item)
    (h : dotBody t F fuel s = .ok items) (j : Nat) :
    Item.holder j ∈ items ↔
      Item.openCluster j ∈ items ∧ t.mem j = [] ∧
        ∃ src dst lh lt, Item.edge src dst lh lt ∈ items ∧ (src = j ∨ dst = j) := by
  have hW := dotBody_with t F fuel s items h
  constructor
  · intro hh
    obtain ⟨h1, h2, h3⟩ := dotBodyWith_holder_sound t _ F fuel s items hW j hh
    exact ⟨h1, h2, ((mem_anchorsOf t items j).1 h3).2⟩
  · rintro ⟨h1, h2, h3⟩
    obtain ⟨hs, hh⟩ := dotBodyWith_open_spec t _ F fuel s items hW j h1
    exact hh h2 ((mem_anchorsOf t items j).2 ⟨⟨hs, h2⟩, h3⟩)

/-! ### every edge endpoint is a node of the document -/

/-- where the edges of a job come from -/
theorem edgesOf_origin (t : T) (F j : Nat) (es : List Item) (h : edgesOf t F j = .ok es) :
    ∀ i ∈ es, ∃ src dst lh lt r, i = Item.edge src dst lh lt ∧ r ∈ t.req j ∧
      ((t.isSched r = false ∧ src = r) ∨ (t.isSched r = true ∧ middleExit t F r = .ok src)) ∧
      ((t.isSched j = false ∧ dst = j) ∨ (t.isSched j = true ∧ middleEntry t F j = .ok dst)) := by
  unfold edgesOf at h
  have := foldlM_prefix_inv _
    (fun (pre : List Nat) (acc : List Item) =>
      ∀ i ∈ acc, ∃ src dst lh lt r, i = Item.edge src dst lh lt ∧ r ∈ pre ∧
        ((t.isSched r = false ∧ src = r) ∨ (t.isSched r = true ∧ middleExit t F r = .ok src)) ∧
        ((t.isSched j = false ∧ dst = j) ∨ (t.isSched j = true ∧ middleEntry t F j = .ok dst)))
    ?_ (t.req j) [] [] es (by simp) h
  · simpa using this
  · intro pre r acc res hq hs
    have hold : ∀ i ∈ acc, ∃ src dst lh lt r', i = Item.edge src dst lh lt ∧ r' ∈ pre ++ [r] ∧
        ((t.isSched r' = false ∧ src = r') ∨ (t.isSched r' = true ∧ middleExit t F r' = .ok src)) ∧
        ((t.isSched j = false ∧ dst = j) ∨ (t.isSched j = true ∧ middleEntry t F j = .ok dst)) := by
      intro i hi
      obtain ⟨src, dst, lh, lt, r', e, hr', h1, h2⟩ := hq i hi
      exact ⟨src, dst, lh, lt, r', e, by simp [hr'], h1, h2⟩
    have hnew : ∀ src dst lh lt, res = acc ++ [Item.edge src dst lh lt] →
        ((t.isSched r = false ∧ src = r) ∨ (t.isSched r = true ∧ middleExit t F r = .ok src)) →
        ((t.isSched j = false ∧ dst = j) ∨ (t.isSched j = true ∧ middleEntry t F j = .ok dst)) →
        ∀ i ∈ res, ∃ src dst lh lt r', i = Item.edge src dst lh lt ∧ r' ∈ pre ++ [r] ∧
        ((t.isSched r' = false ∧ src = r') ∨ (t.isSched r' = true ∧ middleExit t F r' = .ok src)) ∧
        ((t.isSched j = false ∧ dst = j) ∨ (t.isSched j = true ∧ middleEntry t F j = .ok dst)) := by
      intro src dst lh lt e h1 h2 i hi
      rw [e] at hi
      rcases List.mem_append.1 hi with hi | hi
      · exact hold i hi
      · simp at hi
        exact ⟨src, dst, lh, lt, r, hi, by simp, h1, h2⟩
    split at hs
    · rename_i hj
      split at hs
      · rename_i hr
        split at hs
        · simp at hs
        · rename_i src hsrc
          split at hs
          · simp at hs
          · rename_i dst hdst
            injection hs with hs
            exact hnew _ _ _ _ hs.symm (Or.inr ⟨hr, hsrc⟩) (Or.inr ⟨hj, hdst⟩)
      · rename_i hr
        split at hs
        · simp at hs
        · rename_i dst hdst
          injection hs with hs
          exact hnew _ _ _ _ hs.symm (Or.inl ⟨by simpa using hr, rfl⟩) (Or.inr ⟨hj, hdst⟩)
    · rename_i hj
      split at hs
      · rename_i hr
        split at hs
        · simp at hs
        · rename_i src hsrc
          injection hs with hs
          exact hnew _ _ _ _ hs.symm (Or.inr ⟨hr, hsrc⟩) (Or.inl ⟨by simpa using hj, rfl⟩)
      · rename_i hr
        injection hs with hs
        exact hnew _ _ _ _ hs.symm (Or.inl ⟨by simpa using hr, rfl⟩) (Or.inl ⟨by simpa using hj, rfl⟩)

/-- what each job of the topological order contributes to the result of the `_dot_body` fold -/
theorem dotFold_contrib (t : T) (anch : List Nat) (F n : Nat) : ∀ (l0 : List Nat) (acc res : List Item),
    l0.foldlM (m := Except Err) (fun acc j =>
        if t.isSched j then
          match dotBodyWith t anch F n j with
          | .error e => .error e
          | .ok sub =>
            match edgesOf t F j with
            | .error e => .error e
            | .ok es => .ok (acc ++ Item.openCluster j :: holderOf t anch j ++ sub ++ Item.close :: es)
        else
          match edgesOf t F j with
          | .error e => .error e
          | .ok es => .ok (acc ++ Item.node j :: es)) acc = .ok res →
    (∀ i ∈ acc, i ∈ res) ∧ ∀ k ∈ l0, ∃ es, edgesOf t F k = .ok es ∧ (∀ i ∈ es, i ∈ res) ∧
      ((t.isSched k = true ∧ Item.openCluster k ∈ res ∧
          ∃ sub, dotBodyWith t anch F n k = .ok sub ∧ ∀ i ∈ sub, i ∈ res) ∨
       (t.isSched k = false ∧ Item.node k ∈ res)) := by
  intro l0
  induction l0 with
  | nil =>
    intro acc res h
    simp [pure, Except.pure] at h
    subst h
    exact ⟨fun _ hi => hi, fun k hk => by cases hk⟩
  | cons a l0 ih =>
    intro acc res h
    obtain ⟨mid, hmid, hrest⟩ := C15.foldlM_cons_ok _ _ _ _ _ h
    obtain ⟨hsub, hk⟩ := ih mid res hrest
    obtain ⟨es, hes, hcase⟩ := dotBodyWith_step t anch F n a acc mid hmid
    refine ⟨fun i hi => hsub i ?_, ?_⟩
    · rcases hcase with ⟨_, sub, _, rfl⟩ | ⟨_, rfl⟩ <;> simp [hi]
    · intro k hk'
      rcases List.mem_cons.1 hk' with rfl | hk'
      · refine ⟨es, hes, fun i hi => hsub i ?_, ?_⟩
        · rcases hcase with ⟨_, sub, _, rfl⟩ | ⟨_, rfl⟩ <;> simp [hi]
        · rcases hcase with ⟨hj, sub, hsb, rfl⟩ | ⟨hj, rfl⟩
          · exact Or.inl ⟨hj, hsub _ (by simp), sub, hsb, fun i hi => hsub i (by simp [hi])⟩
          · exact Or.inr ⟨hj, hsub _ (by simp)⟩
      · exact hk k hk'

/-- the job `_middle_exit_job` of scheduler `x` returns is `x` itself or is rendered inside the cluster of `x` -/
theorem middleExit_in_items (t : T) (anch : List Nat) (F0 : Nat) : ∀ (fuel F x : Nat) (sub : List Item) (r : Nat),
    dotBodyWith t anch F0 fuel x = .ok sub → middleExit t F x = .ok r →
    r = x ∨ (t.isSched r = true ∧ Item.openCluster r ∈ sub) ∨ (t.isSched r = false ∧ Item.node r ∈ sub) := by
  intro fuel
  induction fuel with
  | zero => intro F x sub r h; simp [dotBodyWith] at h
  | succ n ih =>
    intro F x sub r h hm
    obtain ⟨l0, hl0, hf⟩ := dotBodyWith_succ t anch F0 n x sub h
    obtain ⟨_, hk⟩ := dotFold_contrib t anch F0 n l0 [] sub hf
    cases F with
    | zero => simp [middleExit] at hm
    | succ F' =>
      unfold middleExit at hm
      simp only at hm
      split at hm
      · injection hm with hm; exact Or.inl hm.symm
      · split at hm
        · simp at hm
        · rename_i cand hc
          have hcm : cand ∈ t.mem x := by
            have := List.mem_of_getElem? hc
            split at this
            · exact (List.mem_filter.1 this).1
            · exact (List.mem_filter.1 this).1
          have hcl : cand ∈ l0 := (C15.topo_perm_aux t x [] l0 hl0).mem_iff.2 hcm
          obtain ⟨es, _, _, hcase⟩ := hk cand hcl
          split at hm
          · rename_i hcs
            rcases hcase with ⟨_, hopen, subc, hsubc, hin⟩ | ⟨hcs', _⟩
            · rcases ih F' cand subc r hsubc hm with rfl | ⟨h1, h2⟩ | ⟨h1, h2⟩
              · exact Or.inr (Or.inl ⟨hcs, hopen⟩)
              · exact Or.inr (Or.inl ⟨h1, hin _ h2⟩)
              · exact Or.inr (Or.inr ⟨h1, hin _ h2⟩)
            · rw [hcs] at hcs'; cases hcs'
          · rename_i hcs
            injection hm with hm
            subst hm
            rcases hcase with ⟨hcs', _⟩ | ⟨hcs', hnode⟩
            · exact absurd hcs' hcs
            · exact Or.inr (Or.inr ⟨hcs', hnode⟩)

/-- the same for `_middle_entry_job` -/
theorem middleEntry_in_items (t : T) (anch : List Nat) (F0 : Nat) : ∀ (fuel F x : Nat) (sub : List Item) (r : Nat),
    dotBodyWith t anch F0 fuel x = .ok sub → middleEntry t F x = .ok r →
    r = x ∨ (t.isSched r = true ∧ Item.openCluster r ∈ sub) ∨ (t.isSched r = false ∧ Item.node r ∈ sub) := by
  intro fuel
  induction fuel with
  | zero => intro F x sub r h; simp [dotBodyWith] at h
  | succ n ih =>
    intro F x sub r h hm
    obtain ⟨l0, hl0, hf⟩ := dotBodyWith_succ t anch F0 n x sub h
    obtain ⟨_, hk⟩ := dotFold_contrib t anch F0 n l0 [] sub hf
    cases F with
    | zero => simp [middleEntry] at hm
    | succ F' =>
      unfold middleEntry at hm
      simp only at hm
      split at hm
      · injection hm with hm; exact Or.inl hm.symm
      · split at hm
        · simp at hm
        · rename_i cand hc
          have hcm : cand ∈ t.mem x := (List.mem_filter.1 (List.mem_of_getElem? hc)).1
          have hcl : cand ∈ l0 := (C15.topo_perm_aux t x [] l0 hl0).mem_iff.2 hcm
          obtain ⟨es, _, _, hcase⟩ := hk cand hcl
          split at hm
          · rename_i hcs
            rcases hcase with ⟨_, hopen, subc, hsubc, hin⟩ | ⟨hcs', _⟩
            · rcases ih F' cand subc r hsubc hm with rfl | ⟨h1, h2⟩ | ⟨h1, h2⟩
              · exact Or.inr (Or.inl ⟨hcs, hopen⟩)
              · exact Or.inr (Or.inl ⟨h1, hin _ h2⟩)
              · exact Or.inr (Or.inr ⟨h1, hin _ h2⟩)
            · rw [hcs] at hcs'; cases hcs'
          · rename_i hcs
            injection hm with hm
            subst hm
            rcases hcase with ⟨hcs', _⟩ | ⟨hcs', hnode⟩
            · exact absurd hcs' hcs
            · exact Or.inr (Or.inr ⟨hcs', hnode⟩)

/-- an edge endpoint that is a scheduler is a nested scheduler of the document: its cluster is in the list -/
theorem dotBodyWith_endpoint_listed (t : T) (anch : List Nat) (F : Nat) : ∀ (fuel s : Nat) (items : List Item),
    dotBodyWith t anch F fuel s = .ok items →
    ∀ src dst lh lt, Item.edge src dst lh lt ∈ items →
      (t.isSched src = true → Item.openCluster src ∈ items) ∧
      (t.isSched dst = true → Item.openCluster dst ∈ items) := by
  intro fuel
  induction fuel with
  | zero => intro s items h; simp [dotBodyWith] at h
  | succ n ih =>
    intro s items h
    obtain ⟨l0, hl0, hf⟩ := dotBodyWith_succ t anch F n s items h
    obtain ⟨_, hk⟩ := dotFold_contrib t anch F n l0 [] items hf
    refine foldlM_inv_mem _
      (fun (a : List Item) => ∀ src dst lh lt, Item.edge src dst lh lt ∈ a →
        (t.isSched src = true → Item.openCluster src ∈ items) ∧
        (t.isSched dst = true → Item.openCluster dst ∈ items))
      l0 ?_ [] items (by simp) hf
    intro j hj a a' hq hs
    obtain ⟨es, hes, hcase⟩ := dotBodyWith_step t anch F n j a a' hs
    obtain ⟨es', hes', _, hjc⟩ := hk j hj
    rw [hes] at hes'
    injection hes' with hes'
    subst hes'
    have horig := edgesOf_origin t F j es hes
    -- the edges of `es`
    have hes_ok : ∀ src dst lh lt, Item.edge src dst lh lt ∈ es →
        (t.isSched src = true → Item.openCluster src ∈ items) ∧
        (t.isSched dst = true → Item.openCluster dst ∈ items) := by
      intro src dst lh lt hm
      obtain ⟨src', dst', lh', lt', r, e, hr, hsrc, hdst⟩ := horig _ hm
      injection e with e1 e2 e3 e4
      subst e1; subst e2
      constructor
      · intro hss
        rcases hsrc with ⟨h1, h2⟩ | ⟨hrs, hmid⟩
        · subst h2; rw [hss] at h1; cases h1
        · obtain ⟨a0, b0, hab⟩ := List.append_of_mem hj
          have hra : r ∈ l0 := by
            have := C15.topo_order_inv t s l0 hl0 a0 j b0 hab r hr
            rw [hab]; simp [this]
          obtain ⟨_, _, _, hrc⟩ := hk r hra
          rcases hrc with ⟨_, hopen, subr, hsubr, hin⟩ | ⟨hrs', _⟩
          · rcases middleExit_in_items t anch F n F r subr src hsubr hmid with rfl | ⟨_, h2⟩ | ⟨h1, _⟩
            · exact hopen
            · exact hin _ h2
            · rw [hss] at h1; cases h1
          · rw [hrs] at hrs'; cases hrs'
      · intro hds
        rcases hdst with ⟨h1, h2⟩ | ⟨hjs, hmid⟩
        · subst h2; rw [hds] at h1; cases h1
        · rcases hjc with ⟨_, hopen, subj, hsubj, hin⟩ | ⟨hjs', _⟩
          · rcases middleEntry_in_items t anch F n F j subj dst hsubj hmid with rfl | ⟨_, h2⟩ | ⟨h1, _⟩
            · exact hopen
            · exact hin _ h2
            · rw [hds] at h1; cases h1
          · rw [hjs] at hjs'; cases hjs'
    rcases hcase with ⟨hjs, sub, hsub, rfl⟩ | ⟨hjs, rfl⟩
    · intro src dst lh lt hm
      simp only [List.mem_append, List.mem_cons, reduceCtorEq, false_or] at hm
      rcases hm with ((hm | hm) | hm) | hm
      · exact hq _ _ _ _ hm
      · exact absurd ((mem_holderOf t anch j _).1 hm).1 (by simp)
      · rcases hjc with ⟨_, _, subj, hsubj, hin⟩ | ⟨hjs', _⟩
        · rw [hsub] at hsubj
          injection hsubj with hsubj
          subst hsubj
          obtain ⟨h1, h2⟩ := ih j sub hsub _ _ _ _ hm
          exact ⟨fun hh => hin _ (h1 hh), fun hh => hin _ (h2 hh)⟩
        · rw [hjs] at hjs'; cases hjs'
      · exact hes_ok _ _ _ _ hm
    · intro src dst lh lt hm
      simp only [List.mem_append, List.mem_cons, reduceCtorEq, false_or] at hm
      rcases hm with hm | hm
      · exact hq _ _ _ _ hm
      · exact hes_ok _ _ _ _ hm

/-! ### the theorems about `dot_format()`'s items (`dotBody` = the second run of `_dot_body`) -/

/-- the node items are, in order, the atomic jobs of `listing`; the cluster items the nested schedulers -/
theorem dotBody_nodes (t : T) (F fuel s : Nat) (items : List Item) (l : List Nat)
    (h : dotBody t F fuel s = .ok items) (hl : listing t fuel s = .ok l) :
    items.filterMap (fun i => match i with | .node j => some j | _ => none) = l.filter (fun j => !t.isSched j) ∧
    items.filterMap (fun i => match i with | .openCluster j => some j | _ => none) = l.filter (fun j => t.isSched j) :=
  dotBodyWith_nodes t _ F fuel s items l (dotBody_with t F fuel s items h) hl

/-- the invisible nodes are, in listing order, the nested schedulers without jobs that are anchored, i.e. (see
    `mem_anchorsOf`) that are the tail or the head of some edge item of the list -/
theorem dotBody_holders (t : T) (F fuel s : Nat) (items : List Item) (l : List Nat)
    (h : dotBody t F fuel s = .ok items) (hl : listing t fuel s = .ok l) :
    items.filterMap (fun i => match i with | .holder j => some j | _ => none) =
      l.filter (fun j => t.isSched j && ((t.mem j).isEmpty && (anchorsOf t items).contains j)) :=
  dotBodyWith_holders t _ F fuel s items l (dotBody_with t F fuel s items h) hl

/-- the invisible node of an empty nested scheduler is inside its own cluster, which contains nothing else:
    a `holder s` item comes right after `openCluster s` and right before the `close` of that cluster -/
theorem dotBody_holder_place (t : T) (F fuel s : Nat) (items : List Item)
    (h : dotBody t F fuel s = .ok items) :
    ∀ pre j post, items = pre ++ Item.holder j :: post →
      (∃ pre', pre = pre' ++ [Item.openCluster j]) ∧ ∃ post', post = Item.close :: post' :=
  dotBodyWith_holder_place t _ F fuel s items (dotBody_with t F fuel s items h)

theorem dotBody_brackets (t : T) (F fuel s : Nat) (items : List Item)
    (h : dotBody t F fuel s = .ok items) : depthOk 0 items = true :=
  dotBodyWith_brackets t _ F fuel s items (dotBody_with t F fuel s items h)

theorem dotBody_edges (t : T) (F fuel s : Nat) (items : List Item) (l : List Nat)
    (h : dotBody t F fuel s = .ok items) (hl : listing t fuel s = .ok l) :
    (items.filterMap edgeKey).Perm (l.flatMap fun x => (t.req x).map fun r => (x, r)) :=
  dotBodyWith_edges t _ F fuel s items l (dotBody_with t F fuel s items h) hl

/-- edge endpoints: `src` (resp. `dst`) is an atomic job, or an empty scheduler (its invisible node) in which case
    `ltail` (resp. `lhead`) names a cluster; the clusters `lhead`/`ltail` name are schedulers -/
theorem dotBody_edge_endpoints (t : T) (F fuel s : Nat) (items : List Item)
    (h : dotBody t F fuel s = .ok items) :
    ∀ src dst lh lt, Item.edge src dst lh lt ∈ items →
      (t.isSched src = false ∨ (t.isSched src = true ∧ t.mem src = [] ∧ ∃ c, lt = some c)) ∧
      (t.isSched dst = false ∨ (t.isSched dst = true ∧ t.mem dst = [] ∧ ∃ c, lh = some c)) ∧
      (∀ c, lh = some c → t.isSched c = true) ∧ (∀ c, lt = some c → t.isSched c = true) :=
  dotBodyWith_edge_endpoints t _ F fuel s items (dotBody_with t F fuel s items h)

/-- every edge endpoint is a node of the document: an endpoint that is a scheduler (necessarily an empty one, see
    `dotBody_edge_endpoints`; an atomic endpoint has its `node` item by `dotBody_nodes`) has its `holder` item -/
theorem edge_endpoint_has_node (t : T) (F fuel s : Nat) (items : List Item)
    (h : dotBody t F fuel s = .ok items) :
    ∀ src dst lh lt, Item.edge src dst lh lt ∈ items →
      (t.isSched src = true → Item.holder src ∈ items) ∧
      (t.isSched dst = true → Item.holder dst ∈ items) := by
  intro src dst lh lt hm
  have hW := dotBody_with t F fuel s items h
  obtain ⟨hl1, hl2⟩ := dotBodyWith_endpoint_listed t _ F fuel s items hW src dst lh lt hm
  obtain ⟨he1, he2, _⟩ := dotBody_edge_endpoints t F fuel s items h src dst lh lt hm
  constructor
  · intro hs
    rcases he1 with he1 | ⟨_, he1, _⟩
    · rw [hs] at he1; cases he1
    · exact (holder_iff_anchored t F fuel s items h src).2 ⟨hl1 hs, he1, src, dst, lh, lt, hm, Or.inl rfl⟩
  · intro hs
    rcases he2 with he2 | ⟨_, he2, _⟩
    · rw [hs] at he2; cases he2
    · exact (holder_iff_anchored t F fuel s items h dst).2 ⟨hl2 hs, he2, src, dst, lh, lt, hm, Or.inr rfl⟩

/-- `dot_format()`'s two runs of `_dot_body` succeed on every tree on which `listing` does (topological order found
    at every level, i.e. no cycle and no requirement outside its scheduler): in particular empty nested schedulers,
    required or requiring, no longer make it raise.  `hwf`: members have larger ids, below `n` (what the harness
    generates); `hF`: the fuel of the `_middle_*_job` descents is at least `n` (the driver uses `n + 1`). -/
theorem dotBody_total (t : T) (F fuel s : Nat) (l : List Nat)
    (hs : t.isSched s = true)
    (hwf : ∀ s', (s' = s ∨ Desc t s s') → t.isSched s' = true → ∀ k ∈ t.mem s', s' < k ∧ k < t.n)
    (hF : t.n ≤ F)
    (hl : listing t fuel s = .ok l) :
    ∃ items, dotBody t F fuel s = .ok items := by
  obtain ⟨i0, h0⟩ := dotBodyWith_total t [] F fuel s l hs hwf hF hl
  obtain ⟨items, h1⟩ := dotBodyWith_total t (anchorsOf t i0) F fuel s l hs hwf hF hl
  exact ⟨items, by unfold dotBody; rw [h0]; exact h1⟩

/-- `dot_format()` raises only what `_set_sched_ids` raises: once the ids are assigned, the body is produced -/
theorem dotItems_total (t : T) (fuel s nxt : Nat) (ids : List (Nat × Nat))
    (hs : t.isSched s = true)
    (hwf : ∀ s', (s' = s ∨ Desc t s s') → t.isSched s' = true → ∀ k ∈ t.mem s', s' < k ∧ k < t.n)
    (hF : t.n ≤ fuel)
    (hids : assignIds t fuel s 1 = .ok (nxt, ids)) :
    ∃ items, dotItems t fuel s = .ok items := by
  unfold dotItems
  rw [hids]
  exact dotBody_total t fuel fuel s _ hs hwf hF (C15.ids_consecutive t fuel s 1 nxt ids hids).2.2

end AJ.Proofs.C20
