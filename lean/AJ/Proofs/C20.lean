/-
  C20 — DOT export and listing describe the scheduler tree faithfully.
-/
import AJ.Spec
namespace AJ.Proofs.C20
open AJ

/-! ### helpers: `foldlM` in `Except` -/

/-- single fold, invariant indexed by the prefix already processed -/
theorem foldlM_prefix_inv {α β ε : Type} (step : β → α → Except ε β) (Q : List α → β → Prop)
    (hstep : ∀ pre a acc res, Q pre acc → step acc a = .ok res → Q (pre ++ [a]) res) :
    ∀ (l pre : List α) (acc res : β), Q pre acc → l.foldlM step acc = .ok res → Q (pre ++ l) res := by
  intro l
  induction l with
  | nil =>
    intro pre acc res hq h
    simp [pure, Except.pure] at h
    subst h
    simpa using hq
  | cons a l ih =>
    intro pre acc res hq h
    rw [List.foldlM_cons] at h
    cases hs : step acc a with
    | error e => rw [hs] at h; simp [bind, Except.bind] at h
    | ok r =>
      rw [hs] at h
      have h' : l.foldlM step r = .ok res := h
      have := ih (pre ++ [a]) r res (hstep _ _ _ _ hq hs) h'
      simpa using this

/-- single fold, plain invariant -/
theorem foldlM_inv {α β ε : Type} (step : β → α → Except ε β) (Q : β → Prop)
    (hstep : ∀ a acc res, Q acc → step acc a = .ok res → Q res)
    (l : List α) (acc res : β) (hq : Q acc) (h : l.foldlM step acc = .ok res) : Q res :=
  foldlM_prefix_inv step (fun _ b => Q b) (fun _ a acc res hq hs => hstep a acc res hq hs) l [] acc res hq h

/-- two folds over the same list, relational invariant -/
theorem foldlM_rel {α β γ ε : Type} (s1 : β → α → Except ε β) (s2 : γ → α → Except ε γ)
    (R : β → γ → Prop)
    (hstep : ∀ a b c b' c', R b c → s1 b a = .ok b' → s2 c a = .ok c' → R b' c') :
    ∀ (l : List α) (b : β) (c : γ) (b' : β) (c' : γ), R b c →
      l.foldlM s1 b = .ok b' → l.foldlM s2 c = .ok c' → R b' c' := by
  intro l
  induction l with
  | nil =>
    intro b c b' c' hr h1 h2
    simp [pure, Except.pure] at h1 h2
    subst h1; subst h2; exact hr
  | cons a l ih =>
    intro b c b' c' hr h1 h2
    rw [List.foldlM_cons] at h1 h2
    cases hs1 : s1 b a with
    | error e => rw [hs1] at h1; simp [bind, Except.bind] at h1
    | ok r1 =>
      cases hs2 : s2 c a with
      | error e => rw [hs2] at h2; simp [bind, Except.bind] at h2
      | ok r2 =>
        rw [hs1] at h1; rw [hs2] at h2
        have h1' : l.foldlM s1 r1 = .ok b' := h1
        have h2' : l.foldlM s2 r2 = .ok c' := h2
        exact ih r1 r2 b' c' (hstep _ _ _ _ _ hr hs1 hs2) h1' h2'

/-! ### helpers: `middleEntry`, `middleExit`, `edgesOf` -/

theorem middleEntry_atomic (t : T) : ∀ (fuel s r : Nat), middleEntry t fuel s = .ok r → t.isSched r = false := by
  intro fuel
  induction fuel with
  | zero => intro s r h; simp [middleEntry] at h
  | succ n ih =>
    intro s r h
    unfold middleEntry at h
    simp only at h
    split at h
    · simp at h
    · split at h
      · exact ih _ _ h
      · injection h with h; subst h; simp_all

theorem middleExit_atomic (t : T) : ∀ (fuel s r : Nat), middleExit t fuel s = .ok r → t.isSched r = false := by
  intro fuel
  induction fuel with
  | zero => intro s r h; simp [middleExit] at h
  | succ n ih =>
    intro s r h
    unfold middleExit at h
    simp only at h
    split at h
    · simp at h
    · split at h
      · exact ih _ _ h
      · injection h with h; subst h; simp_all

/-- an edge item whose endpoints are atomic and whose cluster annotations are schedulers -/
def GoodEdge (t : T) : Item → Prop
  | .edge src dst lh lt =>
      t.isSched src = false ∧ t.isSched dst = false ∧
      (∀ c, lh = some c → t.isSched c = true) ∧ (∀ c, lt = some c → t.isSched c = true)
  | _ => False

/-- the logical endpoints of an edge item (same as `edgeKey` below) -/
def ekey : Item → Option (Nat × Nat)
  | .edge src dst lhead ltail => some (lhead.getD dst, ltail.getD src)
  | _ => none

theorem edgesOf_spec (t : T) (F j : Nat) (es : List Item) (h : edgesOf t F j = .ok es) :
    es.filterMap ekey = (t.req j).map (fun r => (j, r)) ∧ ∀ i ∈ es, GoodEdge t i := by
  unfold edgesOf at h
  have := foldlM_prefix_inv _
    (fun (pre : List Nat) (acc : List Item) =>
      acc.filterMap ekey = pre.map (fun r => (j, r)) ∧ ∀ i ∈ acc, GoodEdge t i)
    ?_ (t.req j) [] [] es (by simp) h
  · simpa using this
  · intro pre r acc res ⟨hk, hg⟩ hs
    split at hs
    · rename_i hj
      split at hs
      · rename_i hr
        split at hs
        · simp at hs
        · rename_i src hsrc
          split at hs
          · simp at hs
          · rename_i dst hdst
            injection hs with hs; subst hs
            have h1 := middleExit_atomic _ _ _ _ hsrc
            have h2 := middleEntry_atomic _ _ _ _ hdst
            refine ⟨by simp [hk, ekey], ?_⟩
            intro i hi
            rcases List.mem_append.1 hi with hi | hi
            · exact hg i hi
            · simp at hi; subst hi; simp [GoodEdge, *]
      · rename_i hr
        split at hs
        · simp at hs
        · rename_i dst hdst
          injection hs with hs; subst hs
          have h2 := middleEntry_atomic _ _ _ _ hdst
          refine ⟨by simp [hk, ekey], ?_⟩
          intro i hi
          rcases List.mem_append.1 hi with hi | hi
          · exact hg i hi
          · simp at hi; subst hi; simp [GoodEdge, *]
    · rename_i hj
      split at hs
      · rename_i hr
        split at hs
        · simp at hs
        · rename_i src hsrc
          injection hs with hs; subst hs
          have h1 := middleExit_atomic _ _ _ _ hsrc
          refine ⟨by simp [hk, ekey], ?_⟩
          intro i hi
          rcases List.mem_append.1 hi with hi | hi
          · exact hg i hi
          · simp at hi; subst hi; simp [GoodEdge, *]
      · rename_i hr
        injection hs with hs; subst hs
        refine ⟨by simp [hk, ekey], ?_⟩
        intro i hi
        rcases List.mem_append.1 hi with hi | hi
        · exact hg i hi
        · simp at hi; subst hi; simp [GoodEdge, *]

def nodeOf : Item → Option Nat
  | .node j => some j
  | _ => none

def clusterOf : Item → Option Nat
  | .openCluster j => some j
  | _ => none

@[simp] theorem nodeOf_node (j : Nat) : nodeOf (.node j) = some j := rfl
@[simp] theorem nodeOf_open (j : Nat) : nodeOf (.openCluster j) = none := rfl
@[simp] theorem nodeOf_close : nodeOf .close = none := rfl
@[simp] theorem nodeOf_edge (a b : Nat) (c d : Option Nat) : nodeOf (.edge a b c d) = none := rfl
@[simp] theorem clusterOf_node (j : Nat) : clusterOf (.node j) = none := rfl
@[simp] theorem clusterOf_open (j : Nat) : clusterOf (.openCluster j) = some j := rfl
@[simp] theorem clusterOf_close : clusterOf .close = none := rfl
@[simp] theorem clusterOf_edge (a b : Nat) (c d : Option Nat) : clusterOf (.edge a b c d) = none := rfl
@[simp] theorem ekey_node (j : Nat) : ekey (.node j) = none := rfl
@[simp] theorem ekey_open (j : Nat) : ekey (.openCluster j) = none := rfl
@[simp] theorem ekey_close : ekey .close = none := rfl

theorem nodeOf_eq : (fun i : Item => match i with | .node j => some j | _ => none) = nodeOf := by
  funext i; cases i <;> rfl

theorem clusterOf_eq : (fun i : Item => match i with | .openCluster j => some j | _ => none) = clusterOf := by
  funext i; cases i <;> rfl

theorem goodEdges_nodeOf (t : T) (es : List Item) (h : ∀ i ∈ es, GoodEdge t i) : es.filterMap nodeOf = [] := by
  rw [List.filterMap_eq_nil_iff]
  intro i hi
  have := h i hi
  cases i <;> simp [GoodEdge, nodeOf] at *

theorem goodEdges_clusterOf (t : T) (es : List Item) (h : ∀ i ∈ es, GoodEdge t i) : es.filterMap clusterOf = [] := by
  rw [List.filterMap_eq_nil_iff]
  intro i hi
  have := h i hi
  cases i <;> simp [GoodEdge, clusterOf] at *

/-- unfolding of `dotBody` at successor fuel as a fold -/
theorem dotBody_succ (t : T) (F fuel s : Nat) (items : List Item) (h : dotBody t F (fuel + 1) s = .ok items) :
    ∃ l, topo t s = .ok l ∧
      l.foldlM (m := Except Err) (init := ([] : List Item)) (fun acc j =>
        if t.isSched j then
          match dotBody t F fuel j with
          | .error e => .error e
          | .ok sub =>
            match edgesOf t F j with
            | .error e => .error e
            | .ok es => .ok (acc ++ Item.openCluster j :: sub ++ Item.close :: es)
        else
          match edgesOf t F j with
          | .error e => .error e
          | .ok es => .ok (acc ++ Item.node j :: es)) = .ok items := by
  unfold dotBody at h
  split at h
  · simp at h
  · rename_i l hl
    exact ⟨l, hl, h⟩

/-- one step of the `dotBody` fold, characterised -/
theorem dotBody_step (t : T) (F fuel j : Nat) (acc res : List Item)
    (h : (if t.isSched j then
          match dotBody t F fuel j with
          | .error e => .error e
          | .ok sub =>
            match edgesOf t F j with
            | .error e => .error e
            | .ok es => .ok (acc ++ Item.openCluster j :: sub ++ Item.close :: es)
        else
          match edgesOf t F j with
          | .error e => .error e
          | .ok es => .ok (acc ++ Item.node j :: es) : Except Err (List Item)) = .ok res) :
    ∃ es, edgesOf t F j = .ok es ∧
      ((t.isSched j = true ∧ ∃ sub, dotBody t F fuel j = .ok sub ∧
          res = acc ++ Item.openCluster j :: sub ++ Item.close :: es) ∨
       (t.isSched j = false ∧ res = acc ++ Item.node j :: es)) := by
  split at h
  · rename_i hj
    split at h
    · simp at h
    · rename_i sub hsub
      split at h
      · simp at h
      · rename_i es hes
        injection h with h
        exact ⟨es, hes, Or.inl ⟨hj, sub, hsub, h.symm⟩⟩
  · rename_i hj
    split at h
    · simp at h
    · rename_i es hes
      injection h with h
      exact ⟨es, hes, Or.inr ⟨by simpa using hj, h.symm⟩⟩

theorem listing_succ (t : T) (fuel s : Nat) (l : List Nat) (h : listing t (fuel + 1) s = .ok l) :
    ∃ l0, topo t s = .ok l0 ∧
      l0.foldlM (m := Except Err) (init := ([] : List Nat)) (fun acc j =>
        if t.isSched j then
          match listing t fuel j with
          | .error e => .error e
          | .ok sub => .ok (acc ++ j :: sub)
        else .ok (acc ++ [j])) = .ok l := by
  unfold listing at h
  split at h
  · simp at h
  · rename_i l0 hl
    exact ⟨l0, hl, h⟩

theorem listing_step (t : T) (fuel j : Nat) (acc res : List Nat)
    (h : (if t.isSched j then
          match listing t fuel j with
          | .error e => .error e
          | .ok sub => .ok (acc ++ j :: sub)
        else .ok (acc ++ [j]) : Except Err (List Nat)) = .ok res) :
    (t.isSched j = true ∧ ∃ sub, listing t fuel j = .ok sub ∧ res = acc ++ j :: sub) ∨
    (t.isSched j = false ∧ res = acc ++ [j]) := by
  split at h
  · rename_i hj
    split at h
    · simp at h
    · rename_i sub hsub
      injection h with h
      exact Or.inl ⟨hj, sub, hsub, h.symm⟩
  · rename_i hj
    injection h with h
    exact Or.inr ⟨by simpa using hj, h.symm⟩

/-- labels survive quoting: reading `protect s` back by DOT's rule gives `s`, for every string without
    backslash (quotes, newlines, DOT punctuation, non-ASCII included) -/
theorem quote_roundtrip (s rest : List Char) (h : ∀ c ∈ s, c ≠ '\\') :
    unquoteChars (protectChars s ++ '"' :: rest) = some (s, rest) := by
  induction s with
  | nil => simp [protectChars, unquoteChars]
  | cons c cs ih =>
    have hc : c ≠ '\\' := h c (by simp)
    have ih' := ih (fun d hd => h d (by simp [hd]))
    by_cases hq : c = '"'
    · subst hq
      simp [protectChars, unquoteChars, ih']
    · simp only [protectChars, if_neg hq, List.cons_append]
      rw [unquoteChars]
      · simp [ih']
      · intro hh; exact hq hh
      · intro r hh _; exact hc hh

theorem protect_no_bare_quote_aux (s : List Char) :
    ∀ pre post, protectChars s = pre ++ '"' :: post → pre.getLast? = some '\\' := by
  induction s with
  | nil => intro pre post hp; simp [protectChars] at hp
  | cons c cs ih =>
    intro pre post hp
    by_cases hq : c = '"'
    · subst hq
      simp only [protectChars, if_pos] at hp
      match pre, hp with
      | [], hp => simp at hp
      | [x], hp =>
        simp at hp
        simp [hp.1.symm]
      | x :: y :: pre', hp =>
        simp at hp
        have := ih pre' post hp.2.2
        cases pre' with
        | nil => simp at this
        | cons z zs => simpa [List.getLast?_cons_cons] using this
    · simp only [protectChars, if_neg hq] at hp
      match pre, hp with
      | [], hp => simp at hp; exact absurd hp.1 hq
      | x :: pre', hp =>
        simp at hp
        have := ih pre' post hp.2
        cases pre' with
        | nil => simp at this
        | cons z zs => simpa [List.getLast?_cons_cons] using this

/-- … and the quoted text contains no bare double quote -/
theorem protect_no_bare_quote (s : List Char) (h : ∀ c ∈ s, c ≠ '\\') :
    ∀ pre post, protectChars s = pre ++ '"' :: post → pre.getLast? = some '\\' :=
  have _ := h
  protect_no_bare_quote_aux s

/-- flags are rendered as documented -/
theorem style_critical (c : RenderCtx) (j : Nat) :
    (c.t.critical j = true → ("color", "red") ∈ styleAttrs c j ∧ ("penwidth", "2") ∈ styleAttrs c j) ∧
    (c.t.critical j = false → ("penwidth", "0.5") ∈ styleAttrs c j ∧ ∀ v, ("color", v) ∉ styleAttrs c j) := by
  constructor
  · intro h; simp [styleAttrs, h]
  · intro h; simp [styleAttrs, h]

theorem style_shape (c : RenderCtx) (j : Nat) :
    ("style", ",".intercalate (styleList c j)) ∈ styleAttrs c j ∧ ("shape", "box") ∈ styleAttrs c j ∧
    ("dashed" ∈ styleList c j ↔ c.t.forever j = true) ∧
    ("rounded" ∈ styleList c j ↔ c.t.isSched j = false) := by
  refine ⟨by simp [styleAttrs], by simp [styleAttrs], ?_, ?_⟩
  · simp only [styleList]
    cases c.t.isSched j <;> cases c.t.forever j <;> simp
  · simp only [styleList]
    cases c.t.isSched j <;> cases c.t.forever j <;> simp

/-- the node items are, in order, the atomic jobs of `listing`; the cluster items the nested schedulers -/
theorem dotBody_nodes (t : T) (F fuel s : Nat) (items : List Item) (l : List Nat)
    (h : dotBody t F fuel s = .ok items) (hl : listing t fuel s = .ok l) :
    items.filterMap (fun i => match i with | .node j => some j | _ => none) = l.filter (fun j => !t.isSched j) ∧
    items.filterMap (fun i => match i with | .openCluster j => some j | _ => none) = l.filter (fun j => t.isSched j) := by
  rw [nodeOf_eq, clusterOf_eq]
  induction fuel generalizing s items l with
  | zero => simp [dotBody] at h
  | succ n ih =>
    obtain ⟨l0, hl0, hf⟩ := dotBody_succ t F n s items h
    obtain ⟨l0', hl0', hf'⟩ := listing_succ t n s l hl
    rw [hl0] at hl0'
    injection hl0' with hl0'
    subst hl0'
    refine foldlM_rel _ _
      (fun (a : List Item) (b : List Nat) =>
        a.filterMap nodeOf = b.filter (fun j => !t.isSched j) ∧
        a.filterMap clusterOf = b.filter (fun j => t.isSched j))
      ?_ l0 [] [] items l (by simp) hf hf'
    intro j a b a' b' ⟨hr1, hr2⟩ hs1 hs2
    obtain ⟨es, hes, hcase⟩ := dotBody_step t F n j a a' hs1
    obtain ⟨_, hg⟩ := edgesOf_spec t F j es hes
    have hn := goodEdges_nodeOf t es hg
    have hc := goodEdges_clusterOf t es hg
    rcases hcase with ⟨hj, sub, hsub, rfl⟩ | ⟨hj, rfl⟩
    · rcases listing_step t n j b b' hs2 with ⟨_, sub', hsub', rfl⟩ | ⟨hj', _⟩
      · obtain ⟨i1, i2⟩ := ih j sub sub' hsub hsub'
        simp [List.filterMap_append, List.filterMap_cons, List.filter_append, hr1, hr2, hn, hc, i1, i2, hj]
      · rw [hj] at hj'; cases hj'
    · rcases listing_step t n j b b' hs2 with ⟨hj', _⟩ | ⟨_, rfl⟩
      · rw [hj] at hj'; cases hj'
      · simp [List.filterMap_append, List.filterMap_cons, List.filter_append, hr1, hr2, hn, hc, hj]

/-- clusters are well bracketed: every prefix has at least as many `openCluster` as `close`, the whole list as many -/
def depthOk : Nat → List Item → Bool
  | d, [] => d == 0
  | d, .openCluster _ :: r => depthOk (d + 1) r
  | 0, .close :: _ => false
  | d + 1, .close :: r => depthOk d r
  | d, _ :: r => depthOk d r

/-- a block that leaves the nesting depth unchanged and never closes more than it opened -/
def Bal (items : List Item) : Prop := ∀ d rest, depthOk d (items ++ rest) = depthOk d rest

theorem bal_nil : Bal [] := by intro d rest; rfl

theorem bal_append {a b : List Item} (ha : Bal a) (hb : Bal b) : Bal (a ++ b) := by
  intro d rest
  rw [List.append_assoc, ha, hb]

theorem bal_node (j : Nat) : Bal [Item.node j] := by
  intro d rest
  cases d <;> simp [depthOk]

theorem bal_goodEdges (t : T) (es : List Item) (h : ∀ i ∈ es, GoodEdge t i) : Bal es := by
  induction es with
  | nil => exact bal_nil
  | cons e es ih =>
    intro d rest
    have he := h e (by simp)
    have := ih (fun i hi => h i (by simp [hi])) d rest
    cases e with
    | edge a b c d' => cases d <;> simpa [depthOk] using this
    | node _ => simp [GoodEdge] at he
    | openCluster _ => simp [GoodEdge] at he
    | close => simp [GoodEdge] at he

theorem bal_cluster (j : Nat) (sub : List Item) (h : Bal sub) : Bal (Item.openCluster j :: sub ++ [Item.close]) := by
  intro d rest
  have := h (d + 1) (Item.close :: rest)
  simp [depthOk] at this ⊢
  rw [this]

theorem dotBody_bal (t : T) (F fuel s : Nat) (items : List Item)
    (h : dotBody t F fuel s = .ok items) : Bal items := by
  induction fuel generalizing s items with
  | zero => simp [dotBody] at h
  | succ n ih =>
    obtain ⟨l0, hl0, hf⟩ := dotBody_succ t F n s items h
    refine foldlM_inv _ Bal ?_ l0 [] items bal_nil hf
    intro j a a' hq hs
    obtain ⟨es, hes, hcase⟩ := dotBody_step t F n j a a' hs
    obtain ⟨_, hg⟩ := edgesOf_spec t F j es hes
    have hb := bal_goodEdges t es hg
    rcases hcase with ⟨hj, sub, hsub, rfl⟩ | ⟨hj, rfl⟩
    · have h1 := bal_cluster j sub (ih j sub hsub)
      have := bal_append hq (bal_append h1 hb)
      simpa using this
    · have := bal_append hq (bal_append (bal_node j) hb)
      simpa using this

theorem dotBody_brackets (t : T) (F fuel s : Nat) (items : List Item)
    (h : dotBody t F fuel s = .ok items) : depthOk 0 items = true := by
  have := dotBody_bal t F fuel s items h 0 []
  simpa [depthOk] using this

/-- every requirement of every listed job is exactly one edge: the logical endpoints of the edge items
    (cluster if `lhead`/`ltail` is given, node otherwise) are, in order, the pairs (job, requirement) -/
def edgeKey : Item → Option (Nat × Nat)
  | .edge src dst lhead ltail => some (lhead.getD dst, ltail.getD src)
  | _ => none

theorem edgeKey_eq : edgeKey = ekey := by
  funext i; cases i <;> rfl

theorem dotBody_edges (t : T) (F fuel s : Nat) (items : List Item) (l : List Nat)
    (h : dotBody t F fuel s = .ok items) (hl : listing t fuel s = .ok l) :
    (items.filterMap edgeKey).Perm (l.flatMap fun x => (t.req x).map fun r => (x, r)) := by
  rw [edgeKey_eq]
  induction fuel generalizing s items l with
  | zero => simp [dotBody] at h
  | succ n ih =>
    obtain ⟨l0, hl0, hf⟩ := dotBody_succ t F n s items h
    obtain ⟨l0', hl0', hf'⟩ := listing_succ t n s l hl
    rw [hl0] at hl0'
    injection hl0' with hl0'
    subst hl0'
    refine foldlM_rel _ _
      (fun (a : List Item) (b : List Nat) =>
        (a.filterMap ekey).Perm (b.flatMap fun x => (t.req x).map fun r => (x, r)))
      ?_ l0 [] [] items l (by simp) hf hf'
    intro j a b a' b' hr hs1 hs2
    obtain ⟨es, hes, hcase⟩ := dotBody_step t F n j a a' hs1
    obtain ⟨hk, _⟩ := edgesOf_spec t F j es hes
    rcases hcase with ⟨hj, sub, hsub, rfl⟩ | ⟨hj, rfl⟩
    · rcases listing_step t n j b b' hs2 with ⟨_, sub', hsub', rfl⟩ | ⟨hj', _⟩
      · have i1 := ih j sub sub' hsub hsub'
        have e1 : List.filterMap ekey (a ++ Item.openCluster j :: sub ++ Item.close :: es)
            = List.filterMap ekey a ++ (List.filterMap ekey sub ++ List.filterMap ekey es) := by
          simp [List.filterMap_append, List.filterMap_cons]
        have e2 : (b ++ j :: sub').flatMap (fun x => (t.req x).map fun r => (x, r))
            = b.flatMap (fun x => (t.req x).map fun r => (x, r)) ++
              (List.filterMap ekey es ++ sub'.flatMap (fun x => (t.req x).map fun r => (x, r))) := by
          simp [List.flatMap_append, hk]
        rw [e1, e2]
        exact List.Perm.append hr (List.perm_append_comm.trans (List.Perm.append_left _ i1))
      · rw [hj] at hj'; cases hj'
    · rcases listing_step t n j b b' hs2 with ⟨hj', _⟩ | ⟨_, rfl⟩
      · rw [hj] at hj'; cases hj'
      · have e1 : List.filterMap ekey (a ++ Item.node j :: es)
            = List.filterMap ekey a ++ List.filterMap ekey es := by
          simp [List.filterMap_append, List.filterMap_cons]
        have e2 : (b ++ [j]).flatMap (fun x => (t.req x).map fun r => (x, r))
            = b.flatMap (fun x => (t.req x).map fun r => (x, r)) ++ List.filterMap ekey es := by
          simp [List.flatMap_append, hk]
        rw [e1, e2]
        exact List.Perm.append hr (List.Perm.refl _)

theorem dotBody_allGood (t : T) (F fuel s : Nat) (items : List Item)
    (h : dotBody t F fuel s = .ok items) :
    ∀ src dst lh lt, Item.edge src dst lh lt ∈ items → GoodEdge t (Item.edge src dst lh lt) := by
  induction fuel generalizing s items with
  | zero => simp [dotBody] at h
  | succ n ih =>
    obtain ⟨l0, hl0, hf⟩ := dotBody_succ t F n s items h
    refine foldlM_inv _
      (fun (a : List Item) => ∀ src dst lh lt, Item.edge src dst lh lt ∈ a → GoodEdge t (Item.edge src dst lh lt))
      ?_ l0 [] items (by simp) hf
    intro j a a' hq hs
    obtain ⟨es, hes, hcase⟩ := dotBody_step t F n j a a' hs
    obtain ⟨_, hg⟩ := edgesOf_spec t F j es hes
    rcases hcase with ⟨hj, sub, hsub, rfl⟩ | ⟨hj, rfl⟩
    · intro src dst lh lt hm
      simp at hm
      rcases hm with hm | hm | hm
      · exact hq _ _ _ _ hm
      · exact ih j sub hsub _ _ _ _ hm
      · exact hg _ hm
    · intro src dst lh lt hm
      simp at hm
      rcases hm with hm | hm
      · exact hq _ _ _ _ hm
      · exact hg _ hm

/-- edge endpoints are atomic jobs; `lhead`/`ltail` name a scheduler exactly when the requirement's
    end is a scheduler -/
theorem dotBody_edge_endpoints (t : T) (F fuel s : Nat) (items : List Item)
    (h : dotBody t F fuel s = .ok items) :
    ∀ src dst lh lt, Item.edge src dst lh lt ∈ items →
      t.isSched src = false ∧ t.isSched dst = false ∧
      (∀ c, lh = some c → t.isSched c = true) ∧ (∀ c, lt = some c → t.isSched c = true) :=
  dotBody_allGood t F fuel s items h

end AJ.Proofs.C20

