/-
  Gap-closing statements for C06–C10 (audit 2).  Core Lean only.
-/
import AJ.Proofs.ExitB
import AJ.Proofs.LatC
import AJ.Proofs.NestB
import AJ.Proofs.SimB
import AJ.Proofs.TmoB
import AJ.Proofs.ScopeB
import AJ.Proofs.ProgBInv

namespace AJ.Proofs.Gap2
open AJ.Run AJ.Full AJ.Proofs.CoreA AJ.Proofs.CoreB AJ.Proofs.LatC AJ.Proofs.LatB AJ.Proofs.ProgB AJ.Proofs.FinB
open AJ.Proofs.TmoB AJ.Proofs.SimB AJ.Proofs.ScopeB

/-- auxiliary invariant: a run in its main loop has not yet counted all its regular jobs (unless it has none) -/
def CountOpen (c : Cfg) (st : StB) : Prop :=
  ∀ s, st.pcB s = .loop → st.nbDone s = nbFinite c s → nbFinite c s = 0

/-- `finishRun` touches neither `nbDone` nor any program counter but that of `s` -/
theorem finishRun_nb {c : Cfg} {st st' : StB} {s : Nat} {x : Exit} {pick : Nat}
    (h : finishRun c st s x pick = some st') : st'.nbDone = st.nbDone ∧ st'.pcB = setAt st.pcB s .over := by
  unfold finishRun at h
  split at h
  · cases h
  · split at h
    · cases h
    · cases h; exact ⟨rfl, rfl⟩

/-- `CountOpen` is preserved by every step -/
theorem countOpen_step (c : Cfg) (st st' : StB) (e : EvB) (h : stepB c st e = some st') (hJ : CountOpen c st) : CountOpen c st' := by
  intro s
  have := hJ s
  cases e <;> simp only [stepB] at h <;> (repeat' split at h) <;> (try (cases h; done)) <;>
    (try (have hf := finishRun_nb h; revert this; rw [hf.1, hf.2]; simp only [setAt]; grind)) <;>
    (try (cases h; simp only [beginB, exitLoop, broadcast, setAt] at *; (repeat' split) <;> grind)) <;>
    (try (cases h; unfold beginB; split <;> simp only [setAt] <;> (repeat' split) <;> grind))

/-- `CountOpen` holds initially -/
theorem countOpen_init (c : Cfg) : CountOpen c StB.init := by
  intro s h; simp [StB.init] at h

/-- `CountOpen` holds along every accepted history -/
theorem countOpen_accept (c : Cfg) (evs : List EvB) : ∀ st0 st, CountOpen c st0 → acceptB c st0 evs = some st → CountOpen c st := by
  induction evs with
  | nil => intro st0 st h0 h; simp only [acceptB] at h; cases h; exact h0
  | cons e es ih =>
    intro st0 st h0 h
    simp only [acceptB] at h
    split at h
    · rename_i st1 hs; exact ih st1 st (countOpen_step c st0 st1 e hs h0) h
    · cases h

/-- C09 "as soon as", forward direction: in a reachable state where time can pass (`quietB`), a scheduler `s` that is
    still in its main loop and has at least one non-forever job has some non-forever job that is not finished —
    i.e. the run leaves its loop before any time passes once all its regular jobs are finished. -/
theorem regular_done_not_in_loop (c : Cfg) (hwf : c.wf = true) (evs : List EvB) (st : StB)
    (h : acceptB c StB.init evs = some st) (hq : quietB c st = true)
    (s : Nat) (hs : s < c.n) (hsch : c.isSched s = true) (hl : st.pcB s = .loop) (hpos : 0 < nbFinite c s) :
    ∃ k ∈ c.children s, c.forever k = false ∧ (st.a.ph k).isDone = false := by
  have hB := invB_reach c hwf evs st h
  have hJ := countOpen_accept c evs StB.init st (countOpen_init c) h
  have hQ := (quietB_iff c st).1 hq s hs
  have hds : doneSet c st.a s = [] := by
    cases hD : doneSet c st.a s with
    | nil => rfl
    | cons a l => exact absurd ⟨hsch, hl, Or.inl (by simp [hD])⟩ hQ.q3
  have hrx : st.a.rx s = none := by
    cases hD : st.a.rx s with
    | none => rfl
    | some D => exact absurd ⟨hsch, hl, Or.inr (by simp [hD])⟩ hQ.q3
  apply Classical.byContradiction
  intro hno
  have hall : ∀ k ∈ c.children s, c.forever k = false → (st.a.ph k).isDone = true := by
    intro k hk hf
    cases hd : (st.a.ph k).isDone with
    | true => rfl
    | false => exact absurd ⟨k, hk, hf, hd⟩ hno
  have hdel : ∀ k ∈ c.children s, c.forever k = false → st.a.deliv k = true := by
    intro k hk hf
    cases hd : st.a.deliv k with
    | true => rfl
    | false =>
      have : k ∈ doneSet c st.a s := AJ.Proofs.CoreA.mem_doneSet.2 ⟨hk, Or.inl (hall k hk hf), hd⟩
      rw [hds] at this; cases this
  have hcnt : st.nbDone s = nbFinite c s := by
    rw [hB.count s hl]
    unfold nbFinite
    congr 1
    apply List.filter_congr
    intro k hk
    cases hf : c.forever k with
    | true => simp
    | false => simp [rxD, hrx, hdel k hk hf]
  have := hJ s hl hcnt
  omega

/-- C08 "finish strictly before T ⇒ no effect", one-step core: a scheduler with at least one non-forever job leaves its
    main loop by timeout only in a state where one of its non-forever jobs has not been reported by its main wait. -/
theorem timeout_means_unreported (c : Cfg) (hwf : c.wf = true) (evs : List EvB) (e : EvB) (s : Nat) (st0 st : StB)
    (h0 : acceptB c StB.init evs = some st0) (h1 : stepB c st0 e = some st)
    (hloop : st0.pcB s = .loop) (hx : st.pcB s = .tidy .timeout) (hpos : 0 < nbFinite c s) :
    ∃ k ∈ c.children s, c.forever k = false ∧ st0.a.deliv k = false := by
  have hA := invA_of_reachB c hwf evs st0 h0
  have hB := invB_reach c hwf evs st0 h0
  have hJ := countOpen_accept c evs StB.init st0 (countOpen_init c) h0
  apply Classical.byContradiction
  intro hno
  have hdel : ∀ k ∈ c.children s, c.forever k = false → st0.a.deliv k = true := by
    intro k hk hf
    cases hd : st0.a.deliv k with
    | true => rfl
    | false => exact absurd ⟨k, hk, hf, hd⟩ hno
  have hfull : ((c.children s).filter fun k => !c.forever k && st0.a.deliv k && !(([] : List Nat).contains k)).length
      = nbFinite c s := by
    unfold nbFinite
    congr 1
    apply List.filter_congr
    intro k hk
    cases hf : c.forever k with
    | true => simp
    | false => simp [hdel k hk hf]
  obtain ⟨dl, hdl, hle, hr⟩ := AJ.Proofs.ExitB.exit_reason c st0 st e s .timeout hB h1 hloop hx
  rcases hr with ⟨he, hds⟩ | ⟨he, D, hD, hcrit, hcnt⟩
  · subst he
    have hrx : st0.a.rx s = none := by
      simp only [stepB] at h1
      split at h1
      · next hg => exact hg.2.2.1
      · cases h1
    have hc := hB.count s hloop
    simp only [rxD, hrx, Option.getD_none] at hc
    rw [hfull] at hc
    have := hJ s hloop hc
    omega
  · have hc := hB.count s hloop
    obtain ⟨q, hq⟩ := hB.rxSub s D hD
    have hrl := (hA.rxLoop s D hD).2
    simp only [rxD, hD, Option.getD_some] at hc
    have hcr := count_react (c.children s) D c.forever st0.a.deliv q hq hrl
    rw [← hc, hfull] at hcr
    exact hcnt hcr

/-- C08/C09: a job whose cancellation has been requested (`creq`) never begins its body: `grant j` is refused. -/
theorem creq_blocks_grant (c : Cfg) (st st' : StB) (j : Nat) (h : stepB c st (.grant j) = some st') :
    st.a.creq j = false := by
  simp only [stepB] at h
  split at h
  · cases h
  · rename_i a' ha
    simp only [stepA] at ha
    split at ha
    · rename_i hg; exact hg.2.2.2.1
    · cases ha

/-- C09 "same rules for forever jobs": layer A (start rules, windows, waits, cancellation acknowledgements) does not
    look at the `forever` flag at all. -/
theorem forever_blind_A (c : Cfg) (f : Nat → Bool) (st : StA) (e : EvA) :
    stepA { c with forever := f } st e = stepA c st e := by
  cases e <;> rfl

/-! ### facts carried along a history -/

/-- from a state satisfying the invariants, along any accepted history: finished phases stay, reports stay, a run
    that has left its main loop never goes back to it; the invariants hold at the end -/
theorem accept_facts (c : Cfg) (hwf : c.wf = true) (evs : List EvB) : ∀ (sta st0 : StB), InvA c sta.a → InvB c sta →
    acceptB c sta evs = some st0 →
    (∀ k r, sta.a.ph k = .done r → st0.a.ph k = .done r) ∧
    (∀ k, sta.a.deliv k = true → st0.a.deliv k = true) ∧
    (∀ s, sta.pcB s ≠ .loop → sta.pcB s ≠ .notBegun → st0.pcB s ≠ .loop ∧ st0.pcB s ≠ .notBegun) := by
  induction evs with
  | nil =>
    intro sta st0 _ _ h
    simp only [acceptB] at h; cases h
    exact ⟨fun _ _ h => h, fun _ h => h, fun _ h1 h2 => ⟨h1, h2⟩⟩
  | cons e es ih =>
    intro sta st0 hA hB h
    simp only [acceptB] at h
    split at h
    · rename_i st1 hs
      have hB1 := invB_step c hwf sta st1 e hA hB hs
      have hA1 : InvA c st1.a := by
        rcases stepB_refines c sta st1 e hs with heq | ⟨ea, hea⟩
        · rw [heq]; exact hA
        · exact invA_step c hwf sta.a st1.a ea hA hea
      obtain ⟨i1, i2, i3⟩ := ih st1 st0 hA1 hB1 h
      refine ⟨fun k r hd => i1 k r (done_stable_stepB c sta st1 e hs k r hd),
        fun k hd => i2 k ((AJ.Proofs.ExitB.step_facts c sta st1 e hs).2.1 k hd), ?_⟩
      intro s h1 h2
      have := AJ.Proofs.ExitB.loop_left_for_good c sta st1 e s hA hB hs h1 h2
      exact i3 s this.1 this.2
    · cases h

/-- C08 "finish strictly before T ⇒ no effect", history form: if the run of `s` (with at least one non-forever job)
    leaves its main loop by timeout, one of its non-forever jobs was unfinished at every instant strictly before the
    expiry — i.e. in every state of the history from which time passed (`tick`). -/
theorem timeout_means_regular_pending (c : Cfg) (hwf : c.wf = true) (evs : List EvB) (e : EvB) (s : Nat) (st0 st : StB)
    (h0 : acceptB c StB.init evs = some st0) (h1 : stepB c st0 e = some st)
    (hloop : st0.pcB s = .loop) (hx : st.pcB s = .tidy .timeout) (hpos : 0 < nbFinite c s) :
    ∃ k ∈ c.children s, c.forever k = false ∧
      ∀ a d b sta, evs = a ++ .tick d :: b → acceptB c StB.init a = some sta → (sta.a.ph k).isDone = false := by
  obtain ⟨k, hk, hf, hdl⟩ := timeout_means_unreported c hwf evs e s st0 st h0 h1 hloop hx hpos
  refine ⟨k, hk, hf, ?_⟩
  intro a d b sta hev ha
  subst hev
  have w := CoreB.wf_of c hwf
  obtain ⟨hkn, hk0, hkp⟩ := CoreB.mem_children.1 hk
  have hk0' : 0 < k := Nat.pos_of_ne_zero hk0
  have hsn : s < c.n := by have := w.parLt k hk0' hkn; omega
  have hss : c.isSched s = true := by have := w.parSched k hk0' hkn; rwa [hkp] at this
  have hAa := invA_of_reachB c hwf a sta ha
  have hBa := invB_reach c hwf a sta ha
  rw [acceptB_append, ha] at h0
  simp only [Option.bind_some] at h0
  obtain ⟨f1, f2, f3⟩ := accept_facts c hwf (.tick d :: b) sta st0 hAa hBa h0
  -- the state before the tick is quiet
  have hq : quietB c sta = true := by
    simp only [acceptB] at h0
    split at h0
    · rename_i st1 hs
      simp only [stepB] at hs
      split at hs
      · rename_i hg; exact hg.1
      · cases hs
    · cases h0
  have hQ := (quietB_iff c sta).1 hq s hsn
  cases hd : (sta.a.ph k).isDone with
  | false => rfl
  | true =>
    exfalso
    obtain ⟨r, hr⟩ : ∃ r, sta.a.ph k = .done r := by
      cases hp : sta.a.ph k <;> simp [hp, Ph.isDone] at hd
      exact ⟨_, rfl⟩
    have hdla : sta.a.deliv k = false := by
      cases hh : sta.a.deliv k with
      | false => rfl
      | true => rw [f2 k hh] at hdl; cases hdl
    have hmem : k ∈ doneSet c sta.a s := AJ.Proofs.CoreA.mem_doneSet.2 ⟨hk, Or.inl hd, hdla⟩
    have hnl : sta.pcB s ≠ .loop := by
      intro hl
      apply hQ.q3
      refine ⟨hss, hl, Or.inl ?_⟩
      intro hnil; rw [hnil] at hmem; cases hmem
    have hnb : sta.pcB s ≠ .notBegun := by
      intro hnb
      have h1 := (hBa.pcNotBegun s).1 hnb
      have := hAa.childIdle k hk0' hkn (by rw [hkp]; exact h1)
      rw [hr] at this; cases this
    exact (f3 s hnl hnb).1 hloop

/-! ### converse of `timeout_silent` -/

local macro "nt_norm_h" h:ident : tactic => `(tactic| simp only [stepB, eraseDl_a, eraseDl_pcB, eraseDl_nbDone, eraseDl_carrived, eraseDl_didSd, eraseDl_bc, eraseDl_hdeadline, eraseDl_hph, eraseDl_hcreq, eraseDl_hcarrived, eraseDl_hcalls, eraseDl_failT, eraseDl_failC, eraseDl_sdValue, eraseDl_tbegin, eraseDl_tsd, noTimeout_n, noTimeout_parent, noTimeout_isSched, noTimeout_req, noTimeout_critical, noTimeout_forever, noTimeout_window, noTimeout_sdTimeout, noTimeout_topPure, cancelPending_nt, hcancelPending_nt, relayActive_nt, doneSet_nt, critIn_nt, nbFinite_nt, children_nt, liveChildren_nt, activeHandlers_nt, quietB_erase, stepA_noTimeout] at $h:ident)

/-- `finishRun` is enabled with the timeout of `s` whenever it is without -/
theorem finishRun_enabled (c : Cfg) (s : Nat) (X Y st1' : StB) (k : Nat) (x : Exit) (pick : Nat)
    (hY : Y = eraseDl s X) (h : finishRun (noTimeout c s) Y k x pick = some st1') :
    (finishRun c X k x pick).isSome = true := by
  subst hY
  rw [finishRun_nt] at h
  cases hf : finishRun c X k x pick with
  | none => rw [hf] at h; cases h
  | some v => rfl

/-- a step accepted without the timeout of `s` is accepted with it, as long as the deadline of `s` is neither reached
    (for the reactions / the expiry of `s`) nor passed by the `tick` -/
theorem conv_enabled (c : Cfg) (s : Nat) (st st1' : StB) (e : EvB)
    (h : stepB (noTimeout c s) (eraseDl s st) e = some st1')
    (hne : st.pcB s = .loop → expired (st.deadline s) st.a.now = false)
    (hw : ∀ d, e = .tick d → st.pcB s = .loop → within (st.deadline s) st.a.now d = true) :
    (stepB c st e).isSome = true := by
  cases e
  case react k =>
    nt_norm_h h; simp only [stepB]
    by_cases hk : k = s
    · subst hk
      rw [eraseDl_deadline] at h
      simp only [setAt, if_true, expired] at h
      (repeat' split at h) <;> (try (cases h; done)) <;> grind
    · rw [expired_erase_ne s k st _ hk] at h
      (repeat' split at h) <;> (try (cases h; done)) <;> grind
  case timeoutFire k =>
    nt_norm_h h; simp only [stepB]
    by_cases hk : k = s
    · subst hk
      rw [expired_erase_self] at h
      simp at h
    · rw [expired_erase_ne s k st _ hk] at h
      (repeat' split at h) <;> (try (cases h; done)) <;> grind
  case tidyReturn k pick =>
    simp only [stepB] at h ⊢
    split at h
    · rename_i x hx
      have hx' : st.pcB k = .tidy x := hx
      rw [hx']
      split at h
      · rename_i hc
        have hc' : liveChildren c st.a k = [] ∧ cancelPending st k = false := hc
        simp only [if_pos hc']
        split at h
        · rename_i hd
          have hd' : st.didSd k = true := hd
          simp only [if_pos hd']
          exact finishRun_enabled c s { st with sdValue := setAt st.sdValue k none } _ st1' k x pick rfl h
        · rename_i hd
          have hd' : ¬ st.didSd k = true := hd
          simp only [if_neg hd']; rfl
      · cases h
    · cases h
  case sdWaitReturn k pick =>
    simp only [stepB] at h ⊢
    split at h
    · rename_i hc
      have hc' : activeHandlers c st k = [] ∧ cancelPending st k = false ∧ hcancelPending st k = false := hc
      simp only [if_pos hc']
      split at h
      · rename_i hb
        have hb' : st.bc k = .bwait .inline := hb
        rw [hb']
        split at h
        · rename_i x hx
          have hx' : st.pcB k = .shut x := hx
          rw [hx']
          exact finishRun_enabled c s { st with bc := setAt st.bc k .bover, sdValue := setAt st.sdValue k (some true) } _ st1' k x pick rfl h
        · cases h
      · rename_i hb
        have hb' : st.bc k = .bwait .relay := hb
        rw [hb']; rfl
      · cases h
    · cases h
  case sdTidyReturn k pick =>
    simp only [stepB] at h ⊢
    split at h
    · rename_i hc
      have hc' : activeHandlers c st k = [] ∧ cancelPending st k = false ∧ hcancelPending st k = false := hc
      simp only [if_pos hc']
      split at h
      · rename_i hb
        have hb' : st.bc k = .btidy .inline := hb
        rw [hb']
        split at h
        · rename_i x hx
          have hx' : st.pcB k = .shutTidy x := hx
          rw [hx']
          exact finishRun_enabled c s { st with bc := setAt st.bc k .bover, sdValue := setAt st.sdValue k (some false) } _ st1' k x pick rfl h
        · cases h
      · rename_i hb
        have hb' : st.bc k = .btidy .relay := hb
        rw [hb']; rfl
      · cases h
    · cases h
  case tick d =>
    nt_norm_h h; simp only [stepB]
    split at h
    · rename_i hc
      have hc' : quietB c st = true ∧
          (∀ k ∈ List.range c.n, st.pcB k = .loop → within (st.deadline k) st.a.now d = true) ∧
          (∀ k ∈ List.range c.n, (st.bc k).isWait = true → within (st.hdeadline k) st.a.now d = true) := by
        refine ⟨hc.1, ?_, hc.2.2⟩
        intro k hk hl
        by_cases hks : k = s
        · subst hks; exact hw d rfl hl
        · have := hc.2.1 k hk hl
          rw [eraseDl_deadline] at this
          simpa [setAt, hks] using this
      rw [if_pos hc']
      split at h
      · cases h
      · simp
    · cases h
  all_goals
    (nt_norm_h h; simp only [stepB]; (repeat' split at h) <;> (try (cases h; done)) <;> grind)
/-- a step does not take `s` out of its loop on expiry while its deadline is not reached -/
theorem conv_nt_step (c : Cfg) (s : Nat) (st st1 : StB) (e : EvB) (h : stepB c st e = some st1)
    (hnt : st.pcB s ≠ .tidy .timeout)
    (hne : st.pcB s = .loop → expired (st.deadline s) st.a.now = false) : st1.pcB s ≠ .tidy .timeout := by
  cases e <;> simp only [stepB] at h <;> (repeat' split at h) <;> (try (cases h; done))
  all_goals first
    | (obtain ⟨r, a', _, _, rfl⟩ := finishRun_spec h; simp only [setAt]; grind)
    | (cases h; simp only [beginB_pcB, exitLoop, broadcast, setAt]; grind)

/-- while the run of `s` is in its loop its deadline is `begin + T` -/
def DlArmed (s T : Nat) (st : StB) : Prop := st.pcB s = .loop → st.deadline s = some (st.tbegin s + T)

/-- `DlArmed` is preserved by every step -/
theorem dlArmed_step (c : Cfg) (s T : Nat) (hT : c.timeout s = some T) (st st1 : StB) (e : EvB) (h : stepB c st e = some st1)
    (hd : DlArmed s T st) : DlArmed s T st1 := by
  unfold DlArmed at *
  cases e <;> simp only [stepB] at h <;> (repeat' split at h) <;> (try (cases h; done))
  all_goals first
    | (obtain ⟨r, a', _, _, rfl⟩ := finishRun_spec h; simp only [setAt]; grind)
    | (cases h; simp only [exitLoop, broadcast, setAt]; grind)
    | (cases h; unfold beginB; split <;> simp only [setAt] <;> grind)

/-- one step of the converse simulation: the run without the timeout of `s` is followed by the run with it, as long
    as the deadline `begin + T` is not reached while `s` is in its main loop -/
theorem conv_step (c : Cfg) (s T : Nat) (hT : c.timeout s = some T) (st st1' : StB) (e : EvB)
    (hd : DlArmed s T st) (hnt : st.pcB s ≠ .tidy .timeout)
    (h : stepB (noTimeout c s) (eraseDl s st) e = some st1')
    (hb : st.pcB s = .loop → st.a.now < st.tbegin s + T)
    (ha : st1'.pcB s = .loop → st1'.a.now < st1'.tbegin s + T) :
    ∃ st1, stepB c st e = some st1 ∧ eraseDl s st1 = st1' ∧ DlArmed s T st1 ∧ st1.pcB s ≠ .tidy .timeout := by
  have hne : st.pcB s = .loop → expired (st.deadline s) st.a.now = false := by
    intro hl
    rw [hd hl]
    have := hb hl
    simp only [expired, decide_eq_false_iff_not]
    omega
  have hw : ∀ d, e = .tick d → st.pcB s = .loop → within (st.deadline s) st.a.now d = true := by
    intro d he hl
    subst he
    rw [hd hl]
    simp only [within, decide_eq_true_eq]
    simp only [stepB] at h
    split at h
    · split at h
      · cases h
      · rename_i a' hA
        cases h
        have hA' : stepA c st.a (.tick d) = some a' := by rw [← stepA_noTimeout c s]; exact hA
        have hn := (stepA_tick hA').2.2.2.2.2
        have := ha hl
        simp only [hn] at this
        exact Nat.le_of_lt this
    · cases h
  have hen := conv_enabled c s st st1' e h hne hw
  cases hs : stepB c st e with
  | none => rw [hs] at hen; cases hen
  | some st1 =>
    have hnt1 := conv_nt_step c s st st1 e hs hnt hne
    have hsim := step_sim c s st st1 e hs hnt1
    rw [h] at hsim
    cases hsim
    exact ⟨st1, rfl, rfl, dlArmed_step c s T hT st st1 e hs hd, hnt1⟩

/-- the converse simulation along a history -/
theorem conv_accept (c : Cfg) (s T : Nat) (hT : c.timeout s = some T) (evs : List EvB) :
    ∀ (st st' : StB), DlArmed s T st → st.pcB s ≠ .tidy .timeout →
      acceptB (noTimeout c s) (eraseDl s st) evs = some st' →
      (∀ pre sta, pre <+: evs → acceptB (noTimeout c s) (eraseDl s st) pre = some sta → sta.pcB s = .loop →
          sta.a.now < sta.tbegin s + T) →
      ∃ st2, acceptB c st evs = some st2 ∧ eraseDl s st2 = st' ∧ ¬ timesOutFrom c s st evs := by
  induction evs with
  | nil =>
    intro st st' hd hnt h _
    simp only [acceptB] at h
    cases h
    exact ⟨st, rfl, rfl, fun hto => hnt ((timesOutFrom_nil c s st).1 hto)⟩
  | cons e es ih =>
    intro st st' hd hnt h hbef
    simp only [acceptB] at h
    split at h
    · rename_i st1' hs
      have hb : st.pcB s = .loop → st.a.now < st.tbegin s + T :=
        hbef [] (eraseDl s st) List.nil_prefix rfl
      have ha : st1'.pcB s = .loop → st1'.a.now < st1'.tbegin s + T :=
        hbef [e] st1' (List.cons_prefix_cons.2 ⟨rfl, List.nil_prefix⟩) (by simp only [acceptB, hs])
      obtain ⟨st1, hs1, he1, hd1, hnt1⟩ := conv_step c s T hT st st1' e hd hnt hs hb ha
      subst he1
      obtain ⟨st2, h2, he2, hno2⟩ := ih st1 st' hd1 hnt1 h (by
        intro pre sta hp hacc
        exact hbef (e :: pre) sta (List.cons_prefix_cons.2 ⟨rfl, hp⟩) (by simp only [acceptB, hs]; exact hacc))
      refine ⟨st2, by simp only [acceptB, hs1]; exact h2, he2, ?_⟩
      rw [timesOutFrom_cons c s st st1 e es hs1]
      rintro (hx | hx)
      · exact hnt hx
      · exact hno2 hx
    · cases h

/-- C08 "finish strictly before T ⇒ no effect", converse of `TmoB.timeout_silent`: take a history accepted WITHOUT the
    timeout of `s` in which, at every instant at which the run of `s` is in its main loop, strictly less than `T` has
    elapsed since that run began.  Then the same history is accepted WITH the timeout `T` (same events at the same
    instants), leads to the same state (up to the armed deadline), and the run of `s` never leaves its loop on expiry:
    a timeout that is not reached changes nothing. -/
theorem timeout_silent_conv (c : Cfg) (s T : Nat) (hT : c.timeout s = some T) (evs : List EvB) (st' : StB)
    (h : acceptB (noTimeout c s) StB.init evs = some st')
    (hbefore : ∀ pre sta, pre <+: evs → acceptB (noTimeout c s) StB.init pre = some sta → sta.pcB s = .loop →
        sta.a.now < sta.tbegin s + T) :
    ∃ st, acceptB c StB.init evs = some st ∧ eraseDl s st = eraseDl s st' ∧ ¬ timesOut c s evs := by
  have hd : DlArmed s T StB.init := by intro hl; simp [StB.init] at hl
  have hnt : StB.init.pcB s ≠ .tidy .timeout := by simp [StB.init]
  rw [← eraseDl_init s] at h hbefore
  obtain ⟨st2, h2, he2, hno⟩ := conv_accept c s T hT evs StB.init st' hd hnt h hbefore
  refine ⟨st2, h2, ?_, hno⟩
  rw [← he2, eraseDl_idem]


/-- C08/C09, history form: in a reachable state a job obtains a window slot (its body begins) only while its own
    scheduler is in its main loop — never once that scheduler has started to leave it (cancelled, timed out, failed). -/
theorem grant_only_in_loop (c : Cfg) (hwf : c.wf = true) (evs : List EvB) (st st' : StB) (j : Nat) (hj : 0 < j)
    (h : acceptB c StB.init evs = some st) (hg : stepB c st (.grant j) = some st') : st.pcB (c.parent j) = .loop := by
  have hA := invA_of_reachB c hwf evs st h
  have hB := invB_reach c hwf evs st h
  simp only [stepB] at hg
  split at hg
  · cases hg
  · rename_i a' ha
    simp only [stepA] at ha
    split at ha
    · rename_i hc
      obtain ⟨_, hjn, hq, hcr, _⟩ := hc
      have hk : j ∈ c.children (c.parent j) := CoreB.mem_children.2 ⟨hjn, Nat.ne_of_gt hj, rfl⟩
      have hlive : (st.a.ph j).live = true := by rw [hq]; rfl
      cases hp : st.pcB (c.parent j) with
      | loop => rfl
      | notBegun =>
        have := hA.childIdle j hj hjn ((hB.pcNotBegun _).1 hp)
        rw [hq] at this; cases this
      | over =>
        have := hB.overQuiet _ hp j hk
        rw [hlive] at this; cases this
      | tidy x =>
        have := hB.exitCancelled (c.parent j) (by rw [hp]; rfl) j hk hlive
        rw [hcr] at this; cases this
      | shut x =>
        have := hB.exitCancelled (c.parent j) (by rw [hp]; rfl) j hk hlive
        rw [hcr] at this; cases this
      | shutTidy x =>
        have := hB.exitCancelled (c.parent j) (by rw [hp]; rfl) j hk hlive
        rw [hcr] at this; cases this
    · cases ha

/-- C10 (b)/(c): a scheduler leaves its main loop for reason "critical failure" only if one of its own CRITICAL jobs
    (atomic or nested scheduler) has raised: a failed non-critical job — in particular a non-critical nested
    scheduler whose run failed — never makes its parent abort. -/
theorem noncritical_contained (c : Cfg) (hwf : c.wf = true) (evs : List EvB) (e : EvB) (p : Nat) (st0 st : StB)
    (h0 : acceptB c StB.init evs = some st0) (h1 : stepB c st0 e = some st)
    (hl : st0.pcB p = .loop) (hx : st.pcB p = .tidy .critical) :
    ∃ k ∈ c.children p, c.critical k = true ∧ ∃ ex, st0.a.ph k = .done (.exc ex) := by
  have hB := invB_reach c hwf evs st0 h0
  rcases crit_step c st0 st e h1 p (by rw [hx]; rfl) with h | ⟨_, D, hD, hc⟩
  · rw [hl] at h; cases h
  · obtain ⟨d, hd, hcd, ex, hex⟩ := critIn_true hc
    obtain ⟨q, hq⟩ := hB.rxSub p D hD
    rw [hq] at hd
    exact ⟨d, (List.mem_filter.1 hd).1, hcd, ex, hex⟩

/-! ### scope of cancellation -/

/-- C08/C10 scope of cancellation: in one step, `cancel()` is newly requested on the task of job `k` only (i) from
    outside, on the top-level run (`extCancel`, `k = 0`), or (ii) by `k`'s own scheduler `parent k`, in the very step
    in which that scheduler leaves its main loop (critical failure, all regular jobs done, expiry, its own cancellation,
    orchestration failure).  No other scheduler, and no later phase (`co_shutdown` cancels handlers, not job tasks),
    ever cancels a job's task. -/
theorem cancel_scope (c : Cfg) (st st' : StB) (e : EvB) (k : Nat) (h : stepB c st e = some st')
    (h0 : st.a.creq k = false) (h1 : st'.a.creq k = true) :
    (k = 0 ∧ e = .extCancel) ∨ (0 < k ∧ st.pcB (c.parent k) = .loop ∧ st'.pcB (c.parent k) ≠ .loop) := by
  cases e <;> simp only [stepB] at h <;> (repeat' split at h) <;> (try (cases h; done))
  all_goals first
    | (obtain ⟨r, a', _, ha, rfl⟩ := finishRun_spec h
       have hsp := stepA_finish ha
       simp only [hsp.2.2.1, setAt] at h1
       grind)
    | (cases h
       first
        | (have hsp := stepA_leave ‹stepA c st.a (.leave _ _) = some _›
           simp only [exitLoop, hsp.2.2.1, Bool.or_eq_true, decide_eq_true_eq, h0] at h1
           simp only [exitLoop, setAt]
           grind [CoreB.mem_children, CoreB.mem_liveChildren])
        | (have hsp := stepA_react_leave ‹stepA c st.a (.react _ true _) = some _›
           simp only [exitLoop, hsp.2.2.2.1, Bool.or_eq_true, decide_eq_true_eq, h0] at h1
           simp only [exitLoop, setAt]
           grind [CoreB.mem_children, CoreB.mem_liveChildren])
        | (have hsp := stepA_runBegin ‹_›; simp only [beginB_a, hsp.2.1, h0] at h1; cases h1)
        | (have hsp := stepA_grant ‹_›; simp only [beginB_a, hsp.2.1, h0] at h1; cases h1)
        | (have hsp := stepA_bodyEnd ‹_›; simp only [hsp.2.2.1, h0] at h1; cases h1)
        | (have hsp := stepA_cancelAck ‹_›; simp only [hsp.2.2.1, setAt] at h1; grind)
        | (have hsp := stepA_waitReturn ‹_›; simp only [hsp.2.2.1, h0] at h1; cases h1)
        | (have hsp0 := stepA_react_go ‹_›; obtain ⟨D, _, _, _, hsp, _⟩ := hsp0; simp only [hsp, h0] at h1; cases h1)
        | (have hsp := stepA_tick ‹_›; simp only [hsp.2.1, h0] at h1; cases h1)
        | (have hsp := stepA_extCancel ‹_›; simp only [hsp.2, setAt] at h1; grind)
        | (simp only [broadcast, h0] at h1; cases h1))

/-- C07/C10: the window of scheduler `s` matters to the passing of time only through the queued jobs of `s`: when no
    job of `s` is waiting for a slot, a `tick` is accepted (and leads to the same state) whatever that window is. -/
theorem window_scoped_tick (c : Cfg) (s w : Nat) (st : StA) (d : Nat)
    (hq : ∀ j, c.parent j = s → st.ph j ≠ .queued) : stepA (setWindow c s w) st (.tick d) = stepA c st (.tick d) := by
  have hsf : ∀ j, st.ph j = .queued → slotFree (setWindow c s w) st (c.parent j) = slotFree c st (c.parent j) := by
    intro j hj
    exact slotFree_sw_ne c s w st _ (fun hp => hq j hp hj)
  simp only [stepA, sw_n, sw_parent, sw_isSched, doneSet_sw]
  have : (∀ j ∈ List.range c.n, ¬ (0 < j ∧ st.ph j = .queued ∧ st.creq j = false ∧
            slotFree (setWindow c s w) st (c.parent j) = true)) ↔
         (∀ j ∈ List.range c.n, ¬ (0 < j ∧ st.ph j = .queued ∧ st.creq j = false ∧
            slotFree c st (c.parent j) = true)) := by
    constructor
    · intro h j hj ⟨h1, h2, h3, h4⟩
      exact h j hj ⟨h1, h2, h3, by rw [hsf j h2]; exact h4⟩
    · intro h j hj ⟨h1, h2, h3, h4⟩
      exact h j hj ⟨h1, h2, h3, by rw [← hsf j h2]; exact h4⟩
  simp only [this]

/-! ### C06 for a set of jobs -/

/-- the same event, except that every job of the list `K` ends the other way (returns ↔ raises) -/
def flipEvs (K : List Nat) (e : EvB) : EvB := K.foldr flipEv e

/-- the same state, forgetting how the jobs of `K` ended -/
def normL (K : List Nat) (st : StB) : StB := K.foldr norm st

/-- unfolding `flipEvs` -/
theorem flipEvs_nil (e : EvB) : flipEvs [] e = e := by
  rfl
/-- unfolding `flipEvs` -/
theorem flipEvs_cons (k : Nat) (K : List Nat) (e : EvB) : flipEvs (k :: K) e = flipEv k (flipEvs K e) := by
  rfl
/-- unfolding `normL` -/
theorem normL_nil (st : StB) : normL [] st = st := by
  rfl
/-- unfolding `normL` -/
theorem normL_cons (k : Nat) (K : List Nat) (st : StB) : normL (k :: K) st = norm k (normL K st) := by
  rfl

/-- forgetting the results of two jobs: the order does not matter -/
theorem norm_comm (k k' : Nat) (st : StB) : norm k (norm k' st) = norm k' (norm k st) := by
  simp only [norm]
  congr 2
  funext j
  simp only [normPh]
  cases st.a.ph j <;> (repeat' split) <;> simp_all

/-- forgetting the result of `k` commutes with forgetting those of `K` -/
theorem norm_normL_comm (k : Nat) (K : List Nat) (st : StB) : norm k (normL K st) = normL K (norm k st) := by
  induction K with
  | nil => rfl
  | cons k' K ih => rw [normL_cons, normL_cons, norm_comm, ih]

/-- what `normL K` is: only the phases of the jobs of `K` are touched, and of those only the result -/
theorem normL_eq (K : List Nat) (st : StB) :
    normL K st = { st with a := { st.a with ph := fun j => if j ∈ K then normPh j j (st.a.ph j) else st.a.ph j } } := by
  induction K with
  | nil => simp [normL_nil]
  | cons k K ih =>
    rw [normL_cons, ih]
    simp only [norm]
    congr 2
    funext j
    by_cases hj : j = k
    · subst hj
      by_cases hK : j ∈ K <;> simp [hK]
    · simp [normPh_ne k j _ hj, hj]

/-- what `flipEvs K` is when `K` has no duplicates: `bodyEnd j ok` with `j ∈ K` has its outcome switched, every
    other event is unchanged -/
theorem flipEvs_eq (K : List Nat) (hnd : K.Nodup) (e : EvB) :
    flipEvs K e = match e with
      | .bodyEnd j ok => .bodyEnd j (if j ∈ K then !ok else ok)
      | e => e := by
  induction K with
  | nil => cases e <;> simp [flipEvs_nil]
  | cons k K ih =>
    rw [flipEvs_cons, ih (List.nodup_cons.1 hnd).2]
    have hk := (List.nodup_cons.1 hnd).1
    cases e <;> try rfl
    rename_i j ok
    simp only [flipEv]
    by_cases hj : j = k
    · subst hj; simp [hk]
    · simp [hj]

/-- C06 for a finite set of jobs: take any accepted history and switch the outcome (returns ↔ raises) of every
    `bodyEnd k _` with `k` in the list `K` of non-critical atomic jobs: the history is still accepted — same events at
    the same instants — and leads to the same state except for the results of the jobs of `K` (in particular every
    verdict, every other result, every diagnosis is the same).  By induction on `K` from `SimB.containment`. -/
theorem containment_list (c : Cfg) (K : List Nat) (hK : ∀ k ∈ K, c.critical k = false ∧ c.isSched k = false)
    (evs : List EvB) (st : StB) (h : acceptB c StB.init evs = some st) :
    ∃ st', acceptB c StB.init (evs.map (flipEvs K)) = some st' ∧ normL K st' = normL K st := by
  induction K with
  | nil =>
    refine ⟨st, ?_, rfl⟩
    have : evs.map (flipEvs []) = evs := by
      rw [show flipEvs [] = id from funext flipEvs_nil]; exact List.map_id evs
    rw [this]; exact h
  | cons k K ih =>
    obtain ⟨st1, h1, hn1⟩ := ih (fun k' hk' => hK k' (List.mem_cons_of_mem _ hk'))
    obtain ⟨hkc, hka⟩ := hK k (List.mem_cons_self ..)
    obtain ⟨st2, h2, hn2⟩ := containment c k hkc hka (evs.map (flipEvs K)) st1 h1
    refine ⟨st2, ?_, ?_⟩
    · rw [List.map_map] at h2
      exact h2
    · rw [normL_cons, normL_cons, norm_normL_comm, hn2, ← norm_normL_comm, hn1]

/-! ### non-vacuity

  A top-level scheduler `0` with two atomic jobs `1` and `2` (no requirements); `crit1`: job `1` is critical;
  `tmo`: timeout of scheduler `0`. -/

def gCfg (crit1 : Bool) (tmo : Option Nat) : Cfg :=
  { n := 3, parent := fun _ => 0, isSched := fun j => j == 0, req := fun _ => [],
    critical := fun j => crit1 && j == 1, forever := fun _ => false, window := fun _ => 0,
    timeout := fun j => if j = 0 then tmo else none, sdTimeout := fun _ => none, topPure := true }

/-- the hypotheses of the one-step theorems on a history `evs ++ [e]`: accepted, scheduler `0` in its loop before `e`
    and tidying for reason `x` after it -/
def gCheck (c : Cfg) (evs : List EvB) (e : EvB) (x : Exit) : Bool :=
  match acceptB c StB.init evs with
  | none => false
  | some st0 =>
    match stepB c st0 e with
    | none => false
    | some st => decide (st0.pcB 0 = .loop) && decide (st.pcB 0 = .tidy x)

/-- what `gCheck` checks -/
theorem gCheck_spec (c : Cfg) (evs : List EvB) (e : EvB) (x : Exit) (h : gCheck c evs e x = true) :
    ∃ st0 st, acceptB c StB.init evs = some st0 ∧ stepB c st0 e = some st ∧ st0.pcB 0 = .loop ∧ st.pcB 0 = .tidy x := by
  unfold gCheck at h
  split at h
  · cases h
  · rename_i st0 h0
    split at h
    · cases h
    · rename_i st h1
      simp only [Bool.and_eq_true, decide_eq_true_eq] at h
      exact ⟨st0, st, h0, h1, h.1, h.2⟩

/-- `regular_done_not_in_loop`: both jobs running, time can pass, scheduler `0` in its loop -/
example : (gCfg false none).wf = true ∧ 0 < nbFinite (gCfg false none) 0 ∧
    (acceptB (gCfg false none) StB.init [.runBegin, .grant 1, .grant 2]).map
      (fun st => (quietB (gCfg false none) st, st.pcB 0)) = some (true, .loop) := by
  decide

/-- … and once both jobs are finished time cannot pass before the run has left its loop -/
example : (acceptB (gCfg false none) StB.init
      [.runBegin, .grant 1, .grant 2, .tick 1, .bodyEnd 1 true, .bodyEnd 2 false]).map
      (fun st => (quietB (gCfg false none) st, st.pcB 0)) = some (false, .loop) := by
  decide

/-- `timeout_means_unreported` / `timeout_means_regular_pending`: the hypotheses hold for the expiry at instant 3
    (`timeoutFire`) and for the reaction that notices it -/
example : (gCfg false (some 3)).wf = true ∧ 0 < nbFinite (gCfg false (some 3)) 0 ∧
    gCheck (gCfg false (some 3)) [.runBegin, .grant 1, .grant 2, .tick 3] (.timeoutFire 0) .timeout = true ∧
    gCheck (gCfg false (some 3)) [.runBegin, .grant 1, .grant 2, .tick 3, .bodyEnd 1 true, .waitReturn 0]
      (.react 0) .timeout = true := by
  decide

/-- the hypothesis `hbefore` of `timeout_silent_conv`, as a computable check on the prefixes of the history -/
def beforeOk (c : Cfg) (s T : Nat) (evs : List EvB) : Bool :=
  (List.range (evs.length + 1)).all fun i =>
    match acceptB (noTimeout c s) StB.init (evs.take i) with
    | some sta => !decide (sta.pcB s = .loop) || decide (sta.a.now < sta.tbegin s + T)
    | none => true

/-- `beforeOk` decides the hypothesis `hbefore` of `timeout_silent_conv` -/
theorem beforeOk_spec (c : Cfg) (s T : Nat) (evs : List EvB) (h : beforeOk c s T evs = true) :
    ∀ pre sta, pre <+: evs → acceptB (noTimeout c s) StB.init pre = some sta → sta.pcB s = .loop →
      sta.a.now < sta.tbegin s + T := by
  intro pre sta hp hacc hl
  unfold beforeOk at h
  rw [List.all_eq_true] at h
  have hlen : pre.length < evs.length + 1 := Nat.lt_succ_of_le hp.length_le
  have := h pre.length (List.mem_range.2 hlen)
  rw [← List.prefix_iff_eq_take.1 hp, hacc] at this
  simpa [hl] using this

/-- `timeout_silent_conv`: both jobs finish at instant 2 < 3: the history of the run without timeout satisfies the
    hypotheses, hence is a history of the run with timeout 3, which does not time out -/
example : ∃ st, acceptB (gCfg false (some 3)) StB.init
      [.runBegin, .grant 1, .grant 2, .tick 2, .bodyEnd 1 true, .bodyEnd 2 true, .waitReturn 0, .react 0] = some st ∧
    ¬ timesOut (gCfg false (some 3)) 0
      [.runBegin, .grant 1, .grant 2, .tick 2, .bodyEnd 1 true, .bodyEnd 2 true, .waitReturn 0, .react 0] := by
  have hacc : (acceptB (noTimeout (gCfg false (some 3)) 0) StB.init
      [.runBegin, .grant 1, .grant 2, .tick 2, .bodyEnd 1 true, .bodyEnd 2 true, .waitReturn 0, .react 0]).isSome = true := by
    decide
  obtain ⟨st', hst'⟩ := Option.isSome_iff_exists.1 hacc
  obtain ⟨st, h1, _, h3⟩ := timeout_silent_conv (gCfg false (some 3)) 0 3 rfl _ st' hst'
    (beforeOk_spec _ 0 3 _ (by decide))
  exact ⟨st, h1, h3⟩

/-- `creq_blocks_grant` / `grant_only_in_loop`: a grant in a reachable state -/
example : (acceptB (gCfg false none) StB.init [.runBegin, .grant 1]).isSome = true := by
  decide

/-- … and no grant once the scheduler has left its loop: under window 1 job `2` is still queued when the critical job
    `1` raises; the aborting reaction requests its cancellation and it is never granted a slot afterwards -/
example : (acceptB (setWindow (gCfg true none) 0 1) StB.init
      [.runBegin, .grant 1, .tick 3, .bodyEnd 1 false, .waitReturn 0, .react 0]).map
      (fun st => (st.a.ph 2, st.a.creq 2, st.pcB 0)) = some (.queued, true, .tidy .critical) ∧
    (acceptB (setWindow (gCfg true none) 0 1) StB.init
      [.runBegin, .grant 1, .tick 3, .bodyEnd 1 false, .waitReturn 0, .react 0, .grant 2]).isNone = true := by
  decide

/-- `noncritical_contained`: the hypotheses hold when the critical job `1` raises (and the conclusion names it) -/
example : (gCfg true none).wf = true ∧
    gCheck (gCfg true none) [.runBegin, .grant 1, .grant 2, .tick 3, .bodyEnd 1 false, .waitReturn 0]
      (.react 0) .critical = true := by
  decide

/-- … while the same failure of a non-critical job `1` does not make the run abort -/
example : (acceptB (gCfg false none) StB.init
      [.runBegin, .grant 1, .grant 2, .tick 3, .bodyEnd 1 false, .waitReturn 0, .react 0]).map
      (fun st => (st.pcB 0, st.a.creq 2)) = some (.loop, false) := by
  decide

/-- `cancel_scope`, second disjunct: the aborting reaction of scheduler `0` requests the cancellation of its job `2` -/
example : (acceptB (gCfg true none) StB.init
      [.runBegin, .grant 1, .grant 2, .tick 3, .bodyEnd 1 false, .waitReturn 0]).map (fun st => st.a.creq 2) = some false ∧
    (acceptB (gCfg true none) StB.init
      [.runBegin, .grant 1, .grant 2, .tick 3, .bodyEnd 1 false, .waitReturn 0, .react 0]).map
      (fun st => (st.a.creq 2, st.pcB 0)) = some (true, .tidy .critical) := by
  decide

/-- `cancel_scope`, first disjunct: `extCancel` requests the cancellation of the top-level run -/
example : (acceptB (gCfg false none) StB.init [.runBegin, .grant 1]).map (fun st => st.a.creq 0) = some false ∧
    (acceptB (gCfg false none) StB.init [.runBegin, .grant 1, .extCancel]).map (fun st => st.a.creq 0) = some true := by
  decide

/-- `window_scoped_tick`: a state where no job of scheduler `0` is queued (both running) and time passes -/
example : (acceptA (gCfg false none) StA.init [.runBegin, .grant 1, .grant 2]).map
      (fun st => (decide (st.ph 1 ≠ .queued), decide (st.ph 2 ≠ .queued),
        (stepA (setWindow (gCfg false none) 0 1) st (.tick 1)).isSome)) = some (true, true, true) := by
  decide

/-- `containment_list`: with `K = [1, 2]` both outcomes are switched, other events are untouched -/
example : flipEvs [1, 2] (.bodyEnd 1 true) = .bodyEnd 1 false ∧ flipEvs [1, 2] (.bodyEnd 2 false) = .bodyEnd 2 true ∧
    flipEvs [1, 2] (.grant 1) = .grant 1 :=
  ⟨rfl, rfl, rfl⟩

/-- … and the flipped history of the example is accepted, with job `2`'s result forgotten by `normL` -/
example : (acceptB (gCfg false none) StB.init
      ([EvB.runBegin, .grant 1, .grant 2, .tick 1, .bodyEnd 1 true, .bodyEnd 2 false].map (flipEvs [1, 2]))).map
      (fun st => (st.a.ph 1, st.a.ph 2, (normL [1, 2] st).a.ph 1)) =
    some (.done (.exc (.byJob 1)), .done .retOwn, .done .retOwn) := by
  decide

end AJ.Proofs.Gap2

