/-
  C18 — graph surgery keeps exactly the documented jobs and preserves precedence.
-/
import AJ.Spec
import AJ.Proofs.C17
namespace AJ.Proofs.C18
open AJ

/-! ### helpers: list-as-set operations -/

theorem mem_addNew (l : List Nat) (x y : Nat) : y ∈ addNew l x ↔ y ∈ l ∨ y = x := by
  unfold addNew
  split
  · constructor
    · intro h; exact Or.inl h
    · rintro (h | h)
      · exact h
      · subst h; assumption
  · simp

theorem mem_unionNew (l xs : List Nat) (y : Nat) : y ∈ unionNew l xs ↔ y ∈ l ∨ y ∈ xs := by
  unfold unionNew
  induction xs generalizing l with
  | nil => simp
  | cons x xs ih =>
    rw [List.foldl_cons, ih, mem_addNew, List.mem_cons]
    constructor
    · rintro ((h | h) | h)
      · exact Or.inl h
      · exact Or.inr (Or.inl h)
      · exact Or.inr (Or.inr h)
    · rintro (h | h | h)
      · exact Or.inl (Or.inl h)
      · exact Or.inl (Or.inr h)
      · exact Or.inr h

/-! ### helpers: `Reach` -/

theorem Reach.trans {t : T} {s a b c : Nat} (h1 : Reach t s a b) (h2 : Reach t s b c) :
    Reach t s a c := by
  induction h2 with
  | single e => exact Reach.tail h1 e
  | tail _ e ih => exact Reach.tail ih e

theorem Reach.mono {t t' : T} {s : Nat} (hE : ∀ x y, Edge t s x y → Reach t' s x y)
    {a b : Nat} (h : Reach t s a b) : Reach t' s a b := by
  induction h with
  | single e => exact hE _ _ e
  | tail _ e ih => exact Reach.trans ih (hE _ _ e)

theorem Reach.mem_left {t : T} {s a b : Nat} (h : Reach t s a b) : a ∈ t.mem s := by
  induction h with
  | single e => exact e.2.1
  | tail _ _ ih => exact ih

/-! ### bypass -/

/-- everything `bypass` does, in relational form -/
theorem bypass_ok {t t' : T} {s j : Nat} (h : bypass t s j = .ok t') :
    j ∈ t.mem s ∧ t'.mem s = (t.mem s).filter (· ≠ j) ∧ (∀ k, k ≠ s → t'.mem k = t.mem k) ∧
    (∀ d, d ∈ t.mem s → j ∈ t.req d →
        ∀ y, y ∈ t'.req d ↔ y ≠ j ∧ (y ∈ t.req d ∨ (y ∈ t.req j ∧ y ≠ d))) ∧
    (∀ d, ¬ (d ∈ t.mem s ∧ j ∈ t.req d) → t'.req d = t.req d) := by
  unfold bypass at h
  split at h
  next hj =>
    injection h with h
    subst h
    refine ⟨hj, by simp, fun k hk => by simp [hk], ?_, ?_⟩
    · intro d hd hjd y
      have hdd : d ∈ List.filter (fun d => decide (j ∈ t.req d)) (t.mem s) := by
        simp [hd, hjd]
      simp only [hdd, if_true, List.mem_filter, mem_unionNew, ne_eq,
        decide_not, Bool.not_eq_true', decide_eq_false_iff_not]
      constructor
      · rintro ⟨h1, h2⟩; exact ⟨h2, h1⟩
      · rintro ⟨h1, h2⟩; exact ⟨h2, h1⟩
    · intro d hd
      have hdd : ¬ d ∈ List.filter (fun d => decide (j ∈ t.req d)) (t.mem s) := by
        simpa using hd
      simp only [hdd, if_false]
  next => cases h

/-- a non-member cannot be bypassed: `ValueError`, nothing changes -/
theorem bypass_nonmember (t : T) (s j : Nat) (h : j ∉ t.mem s) : bypass t s j = .error .valueError := by
  unfold bypass
  simp [h]

/-- removes exactly `j` -/
theorem bypass_mem (t t' : T) (s j : Nat) (h : bypass t s j = .ok t') :
    t'.mem s = (t.mem s).filter (· ≠ j) ∧ ∀ k, k ≠ s → t'.mem k = t.mem k := by
  obtain ⟨_, h1, h2, _⟩ := bypass_ok h
  exact ⟨h1, h2⟩

theorem mem_bypass_mem {t t' : T} {s j : Nat} (h : bypass t s j = .ok t') (x : Nat) :
    x ∈ t'.mem s ↔ x ∈ t.mem s ∧ x ≠ j := by
  rw [(bypass_mem t t' s j h).1]
  simp

/-- an edge of `t` that avoids `j` survives -/
theorem bypass_edge_keep {t t' : T} {s j : Nat} (h : bypass t s j = .ok t') {x y : Nat}
    (e : Edge t s x y) (hx : x ≠ j) (hy : y ≠ j) : Edge t' s x y := by
  obtain ⟨hyx, hxm, hym⟩ := e
  refine ⟨?_, (mem_bypass_mem h x).2 ⟨hxm, hx⟩, (mem_bypass_mem h y).2 ⟨hym, hy⟩⟩
  obtain ⟨_, _, _, hd, hnd⟩ := bypass_ok h
  by_cases hjx : j ∈ t.req x
  · exact (hd x hxm hjx y).2 ⟨hy, Or.inl hyx⟩
  · rw [hnd x (fun hh => hjx hh.2)]; exact hyx

/-- the two-step path `x → j → u` is replaced by a new edge -/
theorem bypass_edge_new {t t' : T} {s j : Nat} (hac : Acyclic t s) (h : bypass t s j = .ok t')
    {x u : Nat} (e1 : Edge t s x j) (e2 : Edge t s j u) : Edge t' s x u := by
  have hxj : x ≠ j := fun hh => hac j (Reach.single (hh ▸ e1))
  have huj : u ≠ j := fun hh => hac j (Reach.single (hh ▸ e2))
  have hux : u ≠ x := fun hh => hac x (Reach.tail (Reach.single e1) (hh ▸ e2))
  obtain ⟨_, _, _, hd, _⟩ := bypass_ok h
  exact ⟨(hd x e1.2.1 e1.1 u).2 ⟨huj, Or.inr ⟨e2.1, hux⟩⟩,
    (mem_bypass_mem h x).2 ⟨e1.2.1, hxj⟩, (mem_bypass_mem h u).2 ⟨e2.2.2, huj⟩⟩

/-- every edge of `t'` is a path of `t` -/
theorem bypass_edge_back {t t' : T} {s j : Nat} (h : bypass t s j = .ok t')
    {x y : Nat} (e : Edge t' s x y) : Reach t s x y := by
  obtain ⟨hyx, hxm, hym⟩ := e
  obtain ⟨hjm, _, _, hd, hnd⟩ := bypass_ok h
  have hx := (mem_bypass_mem h x).1 hxm
  have hy := (mem_bypass_mem h y).1 hym
  by_cases hjx : j ∈ t.req x
  · obtain ⟨_, h1 | ⟨h1, _⟩⟩ := (hd x hx.1 hjx y).1 hyx
    · exact Reach.single ⟨h1, hx.1, hy.1⟩
    · exact Reach.tail (Reach.single ⟨hjx, hx.1, hjm⟩) ⟨h1, hjm, hy.1⟩
  · rw [hnd x (fun hh => hjx hh.2)] at hyx
    exact Reach.single ⟨hyx, hx.1, hy.1⟩

theorem bypass_reach_fwd {t t' : T} {s j : Nat} (hac : Acyclic t s) (h : bypass t s j = .ok t')
    {a b : Nat} (hr : Reach t s a b) (ha : a ≠ j) :
    (b ≠ j → Reach t' s a b) ∧ (b = j → ∀ u, Edge t s j u → Reach t' s a u) := by
  induction hr with
  | @single y e =>
    constructor
    · intro hy; exact Reach.single (bypass_edge_keep h e ha hy)
    · intro hy u eu; subst hy; exact Reach.single (bypass_edge_new hac h e eu)
  | @tail y z hxy e ih =>
    constructor
    · intro hz
      by_cases hy : y = j
      · subst hy; exact ih.2 rfl z e
      · exact Reach.tail (ih.1 hy) (bypass_edge_keep h e hy hz)
    · intro hz u eu
      subst hz
      have hy : y ≠ z := fun hh => hac z (Reach.single (hh ▸ e))
      exact Reach.tail (ih.1 hy) (bypass_edge_new hac h e eu)

-- (`hcl` is part of the given statement; the proof does not need it)
set_option linter.unusedVariables false in
/-- the must-run-before relation between the remaining jobs is unchanged -/
theorem bypass_reach (t t' : T) (s j : Nat) (hcl : Closed t s) (hac : Acyclic t s)
    (h : bypass t s j = .ok t') (a b : Nat) (ha : a ≠ j) (hb : b ≠ j) :
    Reach t' s a b ↔ Reach t s a b := by
  constructor
  · intro hr; exact Reach.mono (fun x y e => bypass_edge_back h e) hr
  · intro hr; exact (bypass_reach_fwd hac h hr ha).1 hb

theorem bypass_closed (t t' : T) (s j : Nat) (hcl : Closed t s) (h : bypass t s j = .ok t') :
    Closed t' s := by
  intro x hx y hy
  obtain ⟨hjm, _, _, hd, hnd⟩ := bypass_ok h
  have hx' := (mem_bypass_mem h x).1 hx
  rw [mem_bypass_mem h y]
  by_cases hjx : j ∈ t.req x
  · obtain ⟨hyj, h1 | ⟨h1, _⟩⟩ := (hd x hx'.1 hjx y).1 hy
    · exact ⟨hcl x hx'.1 y h1, hyj⟩
    · exact ⟨hcl j hjm y h1, hyj⟩
  · rw [hnd x (fun hh => hjx hh.2)] at hy
    exact ⟨hcl x hx'.1 y hy, fun hh => hjx (hh ▸ hy)⟩

theorem bypass_acyclic (t t' : T) (s j : Nat) (hcl : Closed t s) (hac : Acyclic t s)
    (h : bypass t s j = .ok t') : Acyclic t' s := by
  intro x hr
  have hx := (mem_bypass_mem h x).1 (Reach.mem_left hr)
  exact hac x ((bypass_reach t t' s j hcl hac h x x hx.2 hx.2).1 hr)

/-- hypotheses for the flat use of `keep_only*` the property speaks about: the kept jobs are atomic
    (so `sanitize` has nothing to recurse into) -/
def FlatAt (t : T) (s : Nat) : Prop := ∀ k ∈ t.mem s, t.isSched k = false

/-! ### flat `sanitize` -/

/-- one iteration of the `for job in self.jobs` loop of `sanitize` -/
def sanStep (fuel : Nat) (members : List Nat) (acc : T × Bool) (j : Nat) : T × Bool :=
  let before := (acc.1.req j).length
  let newReq := (acc.1.req j).filter (· ∈ members)
  let t1 := acc.1.setReq j newReq
  let ch1 := acc.2 || (before != newReq.length)
  if t1.isSched j then
    let sub := sanitize t1 fuel j
    (sub.1, (!sub.2) || ch1)
  else (t1, ch1)

theorem sanitize_eq (t : T) (fuel s : Nat) :
    sanitize t (fuel + 1) s =
      (((t.mem s).foldl (sanStep fuel (t.mem s)) (t, false)).1,
        !((t.mem s).foldl (sanStep fuel (t.mem s)) (t, false)).2) := rfl

theorem sanStep_atomic (fuel : Nat) (members : List Nat) (t0 : T) (b : Bool) (j : Nat)
    (hj : t0.isSched j = false) :
    sanStep fuel members (t0, b) j =
      (t0.setReq j ((t0.req j).filter (· ∈ members)),
        b || ((t0.req j).length != ((t0.req j).filter (· ∈ members)).length)) := by
  have hsj : (t0.setReq j ((t0.req j).filter (· ∈ members))).isSched j = false := hj
  simp only [sanStep, hsj, Bool.false_eq_true, if_false]

/-- the fold of `sanitize` over a list of atomic jobs only filters their requirements -/
theorem sanitize_fold_flat (fuel : Nat) (members : List Nat) (l : List Nat) (t0 : T) (b : Bool)
    (hat : ∀ k ∈ l, t0.isSched k = false) :
    (l.foldl (sanStep fuel members) (t0, b)).1.mem = t0.mem ∧
    (l.foldl (sanStep fuel members) (t0, b)).1.isSched = t0.isSched ∧
    ∀ k, (l.foldl (sanStep fuel members) (t0, b)).1.req k =
      if k ∈ l then (t0.req k).filter (· ∈ members) else t0.req k := by
  induction l generalizing t0 b with
  | nil => simp
  | cons j l ih =>
    have hj : t0.isSched j = false := hat j (List.mem_cons_self ..)
    rw [List.foldl_cons, sanStep_atomic fuel members t0 b j hj]
    obtain ⟨h1, h2, h3⟩ := ih (t0.setReq j ((t0.req j).filter (· ∈ members)))
      (b || ((t0.req j).length != ((t0.req j).filter (· ∈ members)).length))
      (fun k hk => hat k (List.mem_cons_of_mem _ hk))
    refine ⟨h1, h2, ?_⟩
    intro k
    rw [h3 k]
    simp only [T.setReq, List.mem_cons]
    by_cases hkj : k = j
    · subst hkj
      simp [List.filter_filter]
    · simp [hkj]

theorem sanitize_flat (t : T) (fuel s : Nat) (hflat : FlatAt t s) :
    (sanitize t (fuel + 1) s).1.mem = t.mem ∧
    ∀ k, (sanitize t (fuel + 1) s).1.req k =
      if k ∈ t.mem s then (t.req k).filter (· ∈ t.mem s) else t.req k := by
  have := sanitize_fold_flat fuel (t.mem s) (t.mem s) t false hflat
  rw [sanitize_eq]
  exact ⟨this.1, this.2.2⟩

/-- `sanitize` after `setMem`, on atomic members -/
theorem sanitize_setMem_flat (t : T) (fuel s : Nat) (m : List Nat)
    (hat : ∀ k ∈ m, t.isSched k = false) :
    (sanitize (t.setMem s m) (fuel + 1) s).1.mem s = m ∧
    (∀ x ∈ m, (sanitize (t.setMem s m) (fuel + 1) s).1.req x = (t.req x).filter (· ∈ m)) ∧
    (∀ x, x ∉ m → (sanitize (t.setMem s m) (fuel + 1) s).1.req x = t.req x) := by
  have hms : (t.setMem s m).mem s = m := by simp [T.setMem]
  have hflat : FlatAt (t.setMem s m) s := by
    intro k hk; rw [hms] at hk; exact hat k hk
  obtain ⟨h1, h2⟩ := sanitize_flat (t.setMem s m) fuel s hflat
  rw [hms] at h2
  refine ⟨by rw [h1, hms], ?_, ?_⟩
  · intro x hx; rw [h2 x, if_pos hx]; rfl
  · intro x hx; rw [h2 x, if_neg hx]; rfl

theorem keepOnly_spec (t : T) (fuel s : Nat) (R : List Nat) (hflat : FlatAt t s) :
    (keepOnly t (fuel + 1) s R).mem s = (t.mem s).filter (· ∈ R) ∧
    (∀ x ∈ (keepOnly t (fuel + 1) s R).mem s,
        (keepOnly t (fuel + 1) s R).req x = (t.req x).filter (· ∈ (keepOnly t (fuel + 1) s R).mem s)) ∧
    (∀ x, x ∉ (keepOnly t (fuel + 1) s R).mem s → (keepOnly t (fuel + 1) s R).req x = t.req x) := by
  have hat : ∀ k ∈ (t.mem s).filter (· ∈ R), t.isSched k = false :=
    fun k hk => hflat k (List.mem_filter.1 hk).1
  obtain ⟨h1, h2, h3⟩ := sanitize_setMem_flat t fuel s _ hat
  unfold keepOnly
  rw [h1]
  exact ⟨rfl, h2, h3⟩

/-! ### keep_only_between -/

/-- the list of jobs `keep_only_between` preserves -/
def preserved (t : T) (s : Nat) (starts ends : List Nat) (ks ke : Bool) : List Nat :=
  let downwards := if starts.isEmpty then t.mem s else downstream t s starts
  let upwards := if ends.isEmpty then t.mem s else upstream t s ends
  let preserved := downwards.filter (· ∈ upwards)
  let preserved := if ks then unionNew preserved starts else preserved
  if ke then unionNew preserved ends else preserved

theorem keepOnlyBetween_eq (t : T) (fuel s : Nat) (starts ends : List Nat) (ks ke : Bool) :
    keepOnlyBetween t fuel s starts ends ks ke =
      (sanitize (t.setMem s (preserved t s starts ends ks ke)) fuel s).1 := rfl

theorem ReachL.mem_right {t : T} {s : Nat} {up : Bool} {a x : Nat} (h : ReachL t s up a x) :
    x ∈ t.mem s := by
  cases h with
  | single l => exact l.1
  | tail _ l => exact l.1

theorem mem_preserved (t : T) (s : Nat) (starts ends : List Nat) (ks ke : Bool) (x : Nat) :
    x ∈ preserved t s starts ends ks ke ↔
      (((starts = [] ∧ x ∈ t.mem s) ∨ ∃ a ∈ starts, ReachL t s false a x) ∧
       ((ends = [] ∧ x ∈ t.mem s) ∨ ∃ e ∈ ends, ReachL t s true e x)) ∨
      (ks = true ∧ x ∈ starts) ∨ (ke = true ∧ x ∈ ends) := by
  have hdown : x ∈ (if starts.isEmpty then t.mem s else downstream t s starts) ↔
      ((starts = [] ∧ x ∈ t.mem s) ∨ ∃ a ∈ starts, ReachL t s false a x) := by
    cases starts with
    | nil => simp
    | cons a l =>
      simp only [List.isEmpty_cons, Bool.false_eq_true, if_false, downstream, C17.closure_iff]
      simp
  have hup : x ∈ (if ends.isEmpty then t.mem s else upstream t s ends) ↔
      ((ends = [] ∧ x ∈ t.mem s) ∨ ∃ e ∈ ends, ReachL t s true e x) := by
    cases ends with
    | nil => simp
    | cons a l =>
      simp only [List.isEmpty_cons, Bool.false_eq_true, if_false, upstream, C17.closure_iff]
      simp
  have hcore : x ∈ ((if starts.isEmpty then t.mem s else downstream t s starts).filter
      (· ∈ (if ends.isEmpty then t.mem s else upstream t s ends))) ↔
      (((starts = [] ∧ x ∈ t.mem s) ∨ ∃ a ∈ starts, ReachL t s false a x) ∧
       ((ends = [] ∧ x ∈ t.mem s) ∨ ∃ e ∈ ends, ReachL t s true e x)) := by
    rw [List.mem_filter, decide_eq_true_eq, hdown, hup]
  unfold preserved
  cases ks <;> cases ke <;>
    simp only [Bool.false_eq_true, ↓reduceIte, mem_unionNew, hcore, false_and, true_and, or_false, false_or,
      or_assoc]

/-! `downstream` / `upstream` only return members (proved directly, so that `between_req` does not
    depend on `C17.closure_iff`) -/

theorem foldl_inv {α β : Type} (P : β → Prop) (f : β → α → β) (hf : ∀ acc a, P acc → P (f acc a))
    (l : List α) (init : β) (h0 : P init) : P (l.foldl f init) := by
  induction l generalizing init with
  | nil => exact h0
  | cons a l ih => exact ih _ (hf _ _ h0)

theorem neigh_sub (t : T) (s : Nat) (up : Bool) (starts : List Nat) :
    ∀ x ∈ neigh t s up starts, x ∈ t.mem s := by
  unfold neigh
  apply foldl_inv (fun acc : List Nat => ∀ x ∈ acc, x ∈ t.mem s)
  · intro acc a hacc x hx
    rw [mem_unionNew] at hx
    rcases hx with hx | hx
    · exact hacc x hx
    · simpa using (List.mem_filter.1 hx).2
  · intro x hx; cases hx

theorem closureLoop_sub (t : T) (s : Nat) (up : Bool) (fuel : Nat) (cl : List Nat)
    (hcl : ∀ x ∈ cl, x ∈ t.mem s) : ∀ x ∈ closureLoop t s up fuel cl, x ∈ t.mem s := by
  induction fuel generalizing cl with
  | zero => exact hcl
  | succ fuel ih =>
    unfold closureLoop
    have hcl' : ∀ x ∈ cl.foldl (fun acc a => unionNew acc (neigh t s up [a])) cl, x ∈ t.mem s := by
      apply foldl_inv (fun acc : List Nat => ∀ x ∈ acc, x ∈ t.mem s)
      · intro acc a hacc x hx
        rw [mem_unionNew] at hx
        rcases hx with hx | hx
        · exact hacc x hx
        · exact neigh_sub t s up [a] x hx
      · exact hcl
    simp only
    split
    · exact hcl
    · exact ih _ hcl'

theorem closure_sub (t : T) (s : Nat) (up : Bool) (starts : List Nat) :
    ∀ x ∈ closure t s up starts, x ∈ t.mem s :=
  closureLoop_sub t s up _ _ (neigh_sub t s up starts)

theorem preserved_sub (t : T) (s : Nat) (starts ends : List Nat) (ks ke : Bool)
    (hst : ∀ a ∈ starts, a ∈ t.mem s) (hen : ∀ a ∈ ends, a ∈ t.mem s) :
    ∀ x ∈ preserved t s starts ends ks ke, x ∈ t.mem s := by
  intro x hx
  have hcore : x ∈ ((if starts.isEmpty then t.mem s else downstream t s starts).filter
      (· ∈ (if ends.isEmpty then t.mem s else upstream t s ends))) → x ∈ t.mem s := by
    intro h
    have h := (List.mem_filter.1 h).1
    split at h
    · exact h
    · exact closure_sub t s false starts x h
  unfold preserved at hx
  cases ks <;> cases ke <;>
    simp only [Bool.false_eq_true, ↓reduceIte, mem_unionNew] at hx
  · exact hcore hx
  · rcases hx with hx | hx
    · exact hcore hx
    · exact hen x hx
  · rcases hx with hx | hx
    · exact hcore hx
    · exact hst x hx
  · rcases hx with (hx | hx) | hx
    · exact hcore hx
    · exact hst x hx
    · exact hen x hx

/-- `keep_only_between`: exactly the documented subset … -/
theorem between_mem (t : T) (fuel s : Nat) (starts ends : List Nat) (ks ke : Bool) (x : Nat)
    (hflat : FlatAt t s) (hst : ∀ a ∈ starts, a ∈ t.mem s) (hen : ∀ a ∈ ends, a ∈ t.mem s) :
    x ∈ (keepOnlyBetween t (fuel + 1) s starts ends ks ke).mem s ↔
      (((starts = [] ∧ x ∈ t.mem s) ∨ ∃ a ∈ starts, ReachL t s false a x) ∧
       ((ends = [] ∧ x ∈ t.mem s) ∨ ∃ e ∈ ends, ReachL t s true e x)) ∨
      (ks = true ∧ x ∈ starts) ∨ (ke = true ∧ x ∈ ends) := by
  have hat : ∀ k ∈ preserved t s starts ends ks ke, t.isSched k = false :=
    fun k hk => hflat k (preserved_sub t s starts ends ks ke hst hen k hk)
  rw [keepOnlyBetween_eq, (sanitize_setMem_flat t fuel s _ hat).1]
  exact mem_preserved t s starts ends ks ke x

/-- … with exactly the original requirements among kept jobs and none to dropped ones -/
theorem between_req (t : T) (fuel s : Nat) (starts ends : List Nat) (ks ke : Bool)
    (hflat : FlatAt t s) (hst : ∀ a ∈ starts, a ∈ t.mem s) (hen : ∀ a ∈ ends, a ∈ t.mem s) :
    let t' := keepOnlyBetween t (fuel + 1) s starts ends ks ke
    ∀ x ∈ t'.mem s, t'.req x = (t.req x).filter (· ∈ t'.mem s) := by
  have hat : ∀ k ∈ preserved t s starts ends ks ke, t.isSched k = false :=
    fun k hk => hflat k (preserved_sub t s starts ends ks ke hst hen k hk)
  intro t'
  show ∀ x ∈ (keepOnlyBetween t (fuel + 1) s starts ends ks ke).mem s,
    (keepOnlyBetween t (fuel + 1) s starts ends ks ke).req x =
      (t.req x).filter (· ∈ (keepOnlyBetween t (fuel + 1) s starts ends ks ke).mem s)
  obtain ⟨h1, h2, _⟩ := sanitize_setMem_flat t fuel s _ hat
  rw [keepOnlyBetween_eq, h1]
  exact h2

/-- restricting members and requirements to a subset keeps a scheduler closed and acyclic
    (the shape both `keep_only` and `keep_only_between` produce) -/
theorem restrict_closed_acyclic (t t' : T) (s : Nat)
    (hsub : ∀ x ∈ t'.mem s, x ∈ t.mem s)
    (hreq : ∀ x ∈ t'.mem s, t'.req x = (t.req x).filter (· ∈ t'.mem s))
    (hac : Acyclic t s) : Closed t' s ∧ Acyclic t' s := by
  constructor
  · intro x hx y hy
    rw [hreq x hx] at hy
    simpa using (List.mem_filter.1 hy).2
  · intro x hr
    refine hac x (Reach.mono (fun a b e => Reach.single ?_) hr)
    obtain ⟨h1, h2, h3⟩ := e
    rw [hreq a h2] at h1
    exact ⟨(List.mem_filter.1 h1).1, hsub a h2, hsub b h3⟩

end AJ.Proofs.C18
