/-
  Layer B: non-critical failures are contained (C06) — whether a non-critical atomic job returns or raises is
  invisible to the rest of the run.
-/
import AJ.Proofs.CoreB
namespace AJ.Proofs.SimB
open AJ.Run AJ.Full

/-- the same event, except that job `k` ends the other way (returns ↔ raises) -/
def flipEv (k : Nat) : EvB → EvB
  | .bodyEnd j ok => if j = k then .bodyEnd j (!ok) else .bodyEnd j ok
  | e => e

/-- the same task phase, forgetting how job `k` ended -/
def normPh (k : Nat) (j : Nat) (p : Ph) : Ph :=
  if j = k then (match p with | .done _ => .done .retOwn | q => q) else p

/-- the same state, forgetting how job `k` ended -/
def norm (k : Nat) (st : StB) : StB :=
  { st with a := { st.a with ph := fun j => normPh k j (st.a.ph j) } }

/-! ### normal forms of layer-A states -/

def normA (k : Nat) (a : StA) : StA := { a with ph := fun j => normPh k j (a.ph j) }

theorem norm_eq (k : Nat) (st : StB) : norm k st = { st with a := normA k st.a } := rfl

@[simp] theorem normPh_idem (k j : Nat) (p : Ph) : normPh k j (normPh k j p) = normPh k j p := by
  by_cases h : j = k <;> cases p <;> simp [normPh, h]

@[simp] theorem normPh_eq_idle (k j : Nat) (p : Ph) : normPh k j p = .idle ↔ p = .idle := by
  by_cases h : j = k <;> cases p <;> simp [normPh, h]
@[simp] theorem normPh_eq_queued (k j : Nat) (p : Ph) : normPh k j p = .queued ↔ p = .queued := by
  by_cases h : j = k <;> cases p <;> simp [normPh, h]
@[simp] theorem normPh_eq_running (k j : Nat) (p : Ph) : normPh k j p = .running ↔ p = .running := by
  by_cases h : j = k <;> cases p <;> simp [normPh, h]
@[simp] theorem normPh_eq_cancelled (k j : Nat) (p : Ph) : normPh k j p = .cancelled ↔ p = .cancelled := by
  by_cases h : j = k <;> cases p <;> simp [normPh, h]
@[simp] theorem normPh_isDone (k j : Nat) (p : Ph) : (normPh k j p).isDone = p.isDone := by
  by_cases h : j = k <;> cases p <;> simp [normPh, h, Ph.isDone]
@[simp] theorem normPh_live (k j : Nat) (p : Ph) : (normPh k j p).live = p.live := by
  by_cases h : j = k <;> cases p <;> simp [normPh, h, Ph.live]
@[simp] theorem normPh_beq_idle (k j : Nat) (p : Ph) : (normPh k j p == .idle) = (p == .idle) := by
  rw [Bool.eq_iff_iff]; simp
@[simp] theorem normPh_beq_queued (k j : Nat) (p : Ph) : (normPh k j p == .queued) = (p == .queued) := by
  rw [Bool.eq_iff_iff]; simp
@[simp] theorem normPh_beq_running (k j : Nat) (p : Ph) : (normPh k j p == .running) = (p == .running) := by
  rw [Bool.eq_iff_iff]; simp
@[simp] theorem normPh_beq_cancelled (k j : Nat) (p : Ph) : (normPh k j p == .cancelled) = (p == .cancelled) := by
  rw [Bool.eq_iff_iff]; simp
@[simp] theorem normPh_bne_idle (k j : Nat) (p : Ph) : (normPh k j p != .idle) = (p != .idle) := by
  simp [bne]
theorem normPh_ne (k j : Nat) (p : Ph) (h : j ≠ k) : normPh k j p = p := by
  simp [normPh, h]
theorem normPh_done (k j : Nat) (r r' : Res) : normPh k j (.done r) = normPh k j (.done r') ↔ (j = k ∨ r = r') := by
  unfold normPh; split <;> simp [*]

@[simp] theorem normA_ph (k : Nat) (a : StA) (j : Nat) : (normA k a).ph j = normPh k j (a.ph j) := by cases a; rfl
@[simp] theorem normA_creq (k : Nat) (a : StA) : (normA k a).creq = a.creq := by cases a; rfl
@[simp] theorem normA_rflag (k : Nat) (a : StA) : (normA k a).rflag = a.rflag := by cases a; rfl
@[simp] theorem normA_deliv (k : Nat) (a : StA) : (normA k a).deliv = a.deliv := by cases a; rfl
@[simp] theorem normA_entries (k : Nat) (a : StA) : (normA k a).entries = a.entries := by cases a; rfl
@[simp] theorem normA_dbl (k : Nat) (a : StA) : (normA k a).dbl = a.dbl := by cases a; rfl
@[simp] theorem normA_pc (k : Nat) (a : StA) : (normA k a).pc = a.pc := by cases a; rfl
@[simp] theorem normA_qcount (k : Nat) (a : StA) : (normA k a).qcount = a.qcount := by cases a; rfl
@[simp] theorem normA_rx (k : Nat) (a : StA) : (normA k a).rx = a.rx := by cases a; rfl
@[simp] theorem normA_now (k : Nat) (a : StA) : (normA k a).now = a.now := by cases a; rfl

/-- two layer-A states have the same normal form iff they agree on everything but how `k` ended -/
theorem normA_eq_iff (k : Nat) (a1 a2 : StA) :
    normA k a1 = normA k a2 ↔
      (∀ j, normPh k j (a1.ph j) = normPh k j (a2.ph j)) ∧ a1.creq = a2.creq ∧ a1.rflag = a2.rflag ∧
      a1.deliv = a2.deliv ∧ a1.entries = a2.entries ∧ a1.dbl = a2.dbl ∧ a1.pc = a2.pc ∧
      a1.qcount = a2.qcount ∧ a1.rx = a2.rx ∧ a1.now = a2.now := by
  constructor
  · intro h
    refine ⟨fun j => ?_, ?_, ?_, ?_, ?_, ?_, ?_, ?_, ?_, ?_⟩
    · exact congrFun (congrArg StA.ph h) j
    · exact (congrArg StA.creq h :)
    · exact (congrArg StA.rflag h :)
    · exact (congrArg StA.deliv h :)
    · exact (congrArg StA.entries h :)
    · exact (congrArg StA.dbl h :)
    · exact (congrArg StA.pc h :)
    · exact (congrArg StA.qcount h :)
    · exact (congrArg StA.rx h :)
    · exact (congrArg StA.now h :)
  · rintro ⟨h1, h2, h3, h4, h5, h6, h7, h8, h9, h10⟩
    cases a1; cases a2
    simp only at h1 h2 h3 h4 h5 h6 h7 h8 h9 h10
    subst h2 h3 h4 h5 h6 h7 h8 h9 h10
    simp only [normA, StA.mk.injEq, and_true]
    funext j; exact h1 j

@[simp] theorem normA_idem (k : Nat) (a : StA) : normA k (normA k a) = normA k a := by
  simp [normA_eq_iff]

@[simp] theorem doneSet_normA (c : Cfg) (k : Nat) (a : StA) (s : Nat) : doneSet c (normA k a) s = doneSet c a s := by
  simp [doneSet]

@[simp] theorem startCands_normA (c : Cfg) (k : Nat) (a : StA) (s : Nat) (D : List Nat) :
    startCands c (normA k a) s D = startCands c a s D := by
  simp [startCands]

@[simp] theorem slotFree_normA (c : Cfg) (k : Nat) (a : StA) (p : Nat) : slotFree c (normA k a) p = slotFree c a p := by cases a; rfl

@[simp] theorem liveChildren_normA (c : Cfg) (k : Nat) (a : StA) (s : Nat) :
    liveChildren c (normA k a) s = liveChildren c a s := by
  simp [liveChildren]


theorem startJobs_normA (k : Nat) (a1 a2 : StA) (S : List Nat) (h : normA k a1 = normA k a2) :
    normA k (startJobs a1 S) = normA k (startJobs a2 S) := by
  rw [normA_eq_iff] at h ⊢
  obtain ⟨h1, h2, h3, h4, h5, h6, h7, h8, h9, h10⟩ := h
  have hidle : ∀ j, a1.ph j = .idle ↔ a2.ph j = .idle := fun j => by
    have := h1 j
    rw [← normPh_eq_idle k j (a1.ph j), this, normPh_eq_idle]
  simp only [startJobs]
  refine ⟨fun j => ?_, h2, h3, h4, h5, ?_, h7, h8, h9, h10⟩
  · simp only [hidle]; split <;> simp [h1]
  · rw [h6]; congr 2; funext j
    rw [← normPh_bne_idle k j (a1.ph j), h1 j, normPh_bne_idle]

theorem release_normA (c : Cfg) (k : Nat) (a1 a2 : StA) (j : Nat) (h : normA k a1 = normA k a2) :
    normA k (release c a1 j) = normA k (release c a2 j) := by
  rw [normA_eq_iff] at h ⊢
  obtain ⟨h1, h2, h3, h4, h5, h6, h7, h8, h9, h10⟩ := h
  simp only [release]
  exact ⟨h1, h2, h3, h4, h5, h6, h7, by rw [h8], h9, h10⟩

theorem beginRun_normA (c : Cfg) (k : Nat) (a1 a2 : StA) (s : Nat) (h : normA k a1 = normA k a2) :
    normA k (beginRun c a1 s) = normA k (beginRun c a2 s) := by
  unfold beginRun
  split
  · rw [normA_eq_iff] at h ⊢
    obtain ⟨h1, h2, h3, h4, h5, h6, h7, h8, h9, h10⟩ := h
    refine ⟨fun j => ?_, h2, h3, h4, h5, h6, by simp only [h7], h8, h9, h10⟩
    simp only [setAt]; split <;> simp [h1]
  · apply startJobs_normA
    rw [normA_eq_iff] at h ⊢
    obtain ⟨h1, h2, h3, h4, h5, h6, h7, h8, h9, h10⟩ := h
    exact ⟨h1, h2, h3, h4, h5, h6, by simp only [h7], by simp only [h8], by simp only [h9], h10⟩

theorem startCands_congr (c : Cfg) (k : Nat) (a1 a2 : StA) (s : Nat) (D : List Nat) (h : normA k a1 = normA k a2) :
    startCands c a1 s D = startCands c a2 s D := by
  rw [← startCands_normA c k a1, h, startCands_normA]

theorem react_normA (c : Cfg) (k : Nat) (a1 a2 : StA) (s : Nat) (D : List Nat) (h : normA k a1 = normA k a2) :
    normA k (startJobs a1 (startCands c a1 s D)) = normA k (startJobs a2 (startCands c a2 s D)) := by
  rw [startCands_congr c k a1 a2 s D h]; exact startJobs_normA k a1 a2 _ h

theorem stepA_norm_map (c : Cfg) (k : Nat) (a : StA) (e : EvA) :
    (stepA c (normA k a) e).map (normA k) = (stepA c a e).map (normA k) := by
  cases e
  all_goals simp only [stepA, normA_ph, normPh_eq_idle, normPh_eq_queued, normPh_eq_running,
     normPh_live, normA_creq, normA_pc, normA_rx, normA_qcount, normA_now, doneSet_normA, slotFree_normA]
  all_goals repeat' split
  all_goals simp only [Option.map_some, Option.map_none, Option.some.injEq]
  all_goals repeat (first | apply release_normA | apply beginRun_normA | apply react_normA)
  all_goals simp only [normA_eq_iff, setAt, normA_ph, normA_rflag, normA_deliv, normA_entries, normA_dbl, and_true]
  all_goals intro j
  all_goals (try split) <;> simp

/-- layer A cannot tell a state from its normal form -/
theorem stepA_norm (c : Cfg) (k : Nat) (a : StA) (e : EvA) :
    (stepA c (normA k a) e = none ∧ stepA c a e = none) ∨
    ∃ a1 a2, stepA c (normA k a) e = some a1 ∧ stepA c a e = some a2 ∧ normA k a1 = normA k a2 := by
  have h := stepA_norm_map c k a e
  cases h1 : stepA c (normA k a) e <;> cases h2 : stepA c a e <;> simp [h1, h2] at h ⊢
  exact h


/-! ### normal forms of layer-B states -/

@[simp] theorem norm_a (k : Nat) (st : StB) : (norm k st).a = normA k st.a := by cases st; rfl
@[simp] theorem norm_pcB (k : Nat) (st : StB) : (norm k st).pcB = st.pcB := by cases st; rfl
@[simp] theorem norm_nbDone (k : Nat) (st : StB) : (norm k st).nbDone = st.nbDone := by cases st; rfl
@[simp] theorem norm_deadline (k : Nat) (st : StB) : (norm k st).deadline = st.deadline := by cases st; rfl
@[simp] theorem norm_carrived (k : Nat) (st : StB) : (norm k st).carrived = st.carrived := by cases st; rfl
@[simp] theorem norm_didSd (k : Nat) (st : StB) : (norm k st).didSd = st.didSd := by cases st; rfl
@[simp] theorem norm_bc (k : Nat) (st : StB) : (norm k st).bc = st.bc := by cases st; rfl
@[simp] theorem norm_hdeadline (k : Nat) (st : StB) : (norm k st).hdeadline = st.hdeadline := by cases st; rfl
@[simp] theorem norm_hph (k : Nat) (st : StB) : (norm k st).hph = st.hph := by cases st; rfl
@[simp] theorem norm_hcreq (k : Nat) (st : StB) : (norm k st).hcreq = st.hcreq := by cases st; rfl
@[simp] theorem norm_hcarrived (k : Nat) (st : StB) : (norm k st).hcarrived = st.hcarrived := by cases st; rfl
@[simp] theorem norm_hcalls (k : Nat) (st : StB) : (norm k st).hcalls = st.hcalls := by cases st; rfl
@[simp] theorem norm_failT (k : Nat) (st : StB) : (norm k st).failT = st.failT := by cases st; rfl
@[simp] theorem norm_failC (k : Nat) (st : StB) : (norm k st).failC = st.failC := by cases st; rfl
@[simp] theorem norm_sdValue (k : Nat) (st : StB) : (norm k st).sdValue = st.sdValue := by cases st; rfl
@[simp] theorem norm_tbegin (k : Nat) (st : StB) : (norm k st).tbegin = st.tbegin := by cases st; rfl
@[simp] theorem norm_tsd (k : Nat) (st : StB) : (norm k st).tsd = st.tsd := by cases st; rfl

theorem norm_eq_iff (k : Nat) (s1 s2 : StB) :
    norm k s1 = norm k s2 ↔
      normA k s1.a = normA k s2.a ∧ s1.pcB = s2.pcB ∧ s1.nbDone = s2.nbDone ∧ s1.deadline = s2.deadline ∧ s1.carrived = s2.carrived ∧ s1.didSd = s2.didSd ∧ s1.bc = s2.bc ∧ s1.hdeadline = s2.hdeadline ∧ s1.hph = s2.hph ∧ s1.hcreq = s2.hcreq ∧ s1.hcarrived = s2.hcarrived ∧ s1.hcalls = s2.hcalls ∧ s1.failT = s2.failT ∧ s1.failC = s2.failC ∧ s1.sdValue = s2.sdValue ∧ s1.tbegin = s2.tbegin ∧ s1.tsd = s2.tsd := by
  constructor
  · intro h
    refine ⟨?_, ?_, ?_, ?_, ?_, ?_, ?_, ?_, ?_, ?_, ?_, ?_, ?_, ?_, ?_, ?_, ?_⟩
    · exact (congrArg StB.a h :)
    · exact (congrArg StB.pcB h :)
    · exact (congrArg StB.nbDone h :)
    · exact (congrArg StB.deadline h :)
    · exact (congrArg StB.carrived h :)
    · exact (congrArg StB.didSd h :)
    · exact (congrArg StB.bc h :)
    · exact (congrArg StB.hdeadline h :)
    · exact (congrArg StB.hph h :)
    · exact (congrArg StB.hcreq h :)
    · exact (congrArg StB.hcarrived h :)
    · exact (congrArg StB.hcalls h :)
    · exact (congrArg StB.failT h :)
    · exact (congrArg StB.failC h :)
    · exact (congrArg StB.sdValue h :)
    · exact (congrArg StB.tbegin h :)
    · exact (congrArg StB.tsd h :)
  · rintro ⟨h0, h1, h2, h3, h4, h5, h6, h7, h8, h9, h10, h11, h12, h13, h14, h15, h16⟩
    cases s1; cases s2
    simp only at h0 h1 h2 h3 h4 h5 h6 h7 h8 h9 h10 h11 h12 h13 h14 h15 h16
    subst h1 h2 h3 h4 h5 h6 h7 h8 h9 h10 h11 h12 h13 h14 h15 h16
    simp only [norm_eq, h0]

@[simp] theorem norm_idem (k : Nat) (st : StB) : norm k (norm k st) = norm k st := by
  simp [norm_eq_iff]

theorem stepA_congr (c : Cfg) (k : Nat) (a1 a2 : StA) (e : EvA) (h : normA k a1 = normA k a2) :
    (stepA c a1 e).map (normA k) = (stepA c a2 e).map (normA k) := by
  rw [← stepA_norm_map c k a1, h, stepA_norm_map]

theorem critIn_normA (c : Cfg) (k : Nat) (hk : c.critical k = false) (a : StA) (D : List Nat) :
    critIn c (normA k a) D = critIn c a D := by
  unfold critIn
  congr 1; funext d
  by_cases h : d = k
  · subst h; simp [hk]
  · simp [normPh_ne k d _ h]

@[simp] theorem activeHandlers_norm (c : Cfg) (k : Nat) (st : StB) (s : Nat) :
    activeHandlers c (norm k st) s = activeHandlers c st s := by cases st; rfl
@[simp] theorem cancelPending_norm (k : Nat) (st : StB) (s : Nat) : cancelPending (norm k st) s = cancelPending st s := by cases st; rfl
@[simp] theorem hcancelPending_norm (k : Nat) (st : StB) (s : Nat) : hcancelPending (norm k st) s = hcancelPending st s := by cases st; rfl
@[simp] theorem relayActive_norm (k : Nat) (st : StB) (s : Nat) : relayActive (norm k st) s = relayActive st s := by cases st; rfl

@[simp] theorem quietB_norm (c : Cfg) (k : Nat) (st : StB) : quietB c (norm k st) = quietB c st := by
  simp [quietB]

theorem verdict_norm (c : Cfg) (k : Nat) (hk : c.critical k = false) (st : StB) (s : Nat) (x : Exit) (pick : Nat) :
    verdict c (norm k st) s x pick = verdict c st s x pick := by
  unfold verdict
  cases x <;> simp only []
  split
  · split
    · rename_i h
      have hne : pick ≠ k := by
        intro he; rw [he, hk] at h; simp at h
      simp [normPh_ne k pick _ hne]
    · rfl
  · rfl

theorem verdict_congr (c : Cfg) (k : Nat) (hk : c.critical k = false) (s1 s2 : StB) (s : Nat) (x : Exit) (pick : Nat)
    (h : norm k s1 = norm k s2) : verdict c s1 s x pick = verdict c s2 s x pick := by
  rw [← verdict_norm c k hk s1, h, verdict_norm c k hk]


theorem finishRun_congr (c : Cfg) (k : Nat) (hk : c.critical k = false) (s1 s2 : StB) (s : Nat) (x : Exit) (pick : Nat)
    (h : norm k s1 = norm k s2) :
    (finishRun c s1 s x pick).map (norm k) = (finishRun c s2 s x pick).map (norm k) := by
  unfold finishRun
  rw [verdict_congr c k hk s1 s2 s x pick h]
  cases verdict c s2 s x pick with
  | none => rfl
  | some r =>
    simp only []
    have h' := h
    rw [norm_eq_iff] at h'
    have hA := stepA_congr c k s1.a s2.a (.finish s r) h'.1
    cases h1 : stepA c s1.a (.finish s r) <;> cases h2 : stepA c s2.a (.finish s r) <;>
      simp [h1, h2] at hA ⊢
    simp only [norm_eq_iff, hA, h', and_true]


theorem beginB_congr (c : Cfg) (k : Nat) (s1 s2 : StB) (s : Nat) (a1 a2 : StA)
    (h : norm k s1 = norm k s2) (ha : normA k a1 = normA k a2) :
    norm k (beginB c s1 s a1) = norm k (beginB c s2 s a2) := by
  have h' := h
  rw [norm_eq_iff] at h'
  have hnow : s1.a.now = s2.a.now := by
    have := h'.1; rw [normA_eq_iff] at this; exact this.2.2.2.2.2.2.2.2.2
  unfold beginB
  split <;> simp only [norm_eq_iff, ha, h', hnow, and_true]

theorem exitLoop_congr (c : Cfg) (k : Nat) (s1 s2 : StB) (s : Nat) (x : Exit) (a1 a2 : StA)
    (h : norm k s1 = norm k s2) (ha : normA k a1 = normA k a2) :
    norm k (exitLoop c s1 s x a1) = norm k (exitLoop c s2 s x a2) := by
  have h' := h
  rw [norm_eq_iff] at h'
  simp only [exitLoop, norm_eq_iff, ha, h', and_true]

theorem broadcast_congr (c : Cfg) (k : Nat) (s1 s2 : StB) (s : Nat) (w : Who) (h : norm k s1 = norm k s2) :
    norm k (broadcast c s1 s w) = norm k (broadcast c s2 s w) := by
  have h' := h
  rw [norm_eq_iff] at h'
  have hnow : s1.a.now = s2.a.now := by
    have := h'.1; rw [normA_eq_iff] at this; exact this.2.2.2.2.2.2.2.2.2
  simp only [broadcast, norm_eq_iff, h', hnow, and_true]

syntax "stepA_split " term:max term:max term:max term:max : tactic
macro_rules
  | `(tactic| stepA_split $c $k $a $ev) =>
    `(tactic| rcases stepA_norm $c $k $a $ev with ⟨h1, h2⟩ | ⟨a1, a2, h1, h2, h3⟩ <;>
        simp only [h1, h2, Option.map_none, Option.map_some, Option.some.injEq])

set_option hygiene false in
macro "fin" : tactic =>
  `(tactic| (
    repeat' split
    all_goals try simp only [*, and_self, ↓reduceIte, if_true, if_false]
    all_goals first
      | rfl
      | (apply finishRun_congr c k hk; simp [norm_eq_iff]; done)
      | (simp [norm_eq_iff, broadcast]; done)
      | (simp [norm_eq_iff, broadcast]; rfl)))

set_option linter.unusedSimpArgs false in
/-- layer B cannot tell a state from its normal form (`k` non-critical) -/
theorem stepB_norm_map (c : Cfg) (k : Nat) (hk : c.critical k = false) (st : StB) (e : EvB) :
    (stepB c (norm k st) e).map (norm k) = (stepB c st e).map (norm k) := by
  cases e
  all_goals simp only [stepB, norm_a, norm_pcB, norm_nbDone, norm_deadline, norm_carrived, norm_didSd, norm_bc,
    norm_hdeadline, norm_hph, norm_hcreq, norm_hcarrived, norm_hcalls, norm_failT, norm_failC, norm_sdValue,
    norm_tbegin, norm_tsd, normA_ph, normA_creq, normA_pc, normA_rx, normA_qcount, normA_now, slotFree_normA,
    activeHandlers_norm, cancelPending_norm, hcancelPending_norm, relayActive_norm, normPh_eq_idle, normPh_eq_queued, normPh_eq_running,
     normPh_live, doneSet_normA, liveChildren_normA, critIn_normA c k hk, quietB_norm]
  case runBegin =>
    stepA_split c k st.a .runBegin
    exact beginB_congr c k _ _ _ _ _ (norm_idem k st) ‹_›
  case grant j =>
    stepA_split c k st.a (.grant j)
    split
    · simp only [Option.map_some, Option.some.injEq]
      exact beginB_congr c k _ _ _ _ _ (norm_idem k st) ‹_›
    · simp only [Option.map_some, Option.some.injEq, norm_eq_iff, and_true]
      assumption
  case bodyEnd j ok =>
    stepA_split c k st.a (.bodyEnd j ok)
    simp only [norm_eq_iff, and_true]; assumption
  case cancelAck j =>
    stepA_split c k st.a (.cancelAck j)
    simp only [norm_eq_iff, and_true]; assumption
  case extCancel =>
    stepA_split c k st.a .extCancel
    simp only [norm_eq_iff, and_true]; assumption
  case waitReturn s =>
    stepA_split c k st.a (.waitReturn s)
    all_goals split
    all_goals simp only [Option.map_some, Option.map_none, Option.some.injEq, norm_eq_iff, and_true]
    assumption
  case tick d =>
    stepA_split c k st.a (.tick d)
    all_goals split
    all_goals simp only [Option.map_some, Option.map_none, Option.some.injEq, norm_eq_iff, and_true]
    assumption
  case timeoutFire s =>
    stepA_split c k st.a (.leave s (liveChildren c st.a s))
    all_goals split
    all_goals simp only [Option.map_some, Option.map_none, Option.some.injEq]
    exact exitLoop_congr c k _ _ _ _ _ _ (norm_idem k st) ‹_›
  case cancelArrive s =>
    stepA_split c k st.a (.leave s (liveChildren c st.a s))
    all_goals repeat' split
    all_goals simp only [Option.map_some, Option.map_none, Option.some.injEq]
    all_goals first
      | (apply exitLoop_congr c k _ _ _ _ _ _ _ ‹_›; simp [norm_eq_iff])
      | (simp [norm_eq_iff]; done)
      | (simp [norm_eq_iff]; rfl)
  case react s =>
    rcases stepA_norm c k st.a (.react s true (liveChildren c st.a s)) with ⟨h1, h2⟩ | ⟨a1, a2, h1, h2, h3⟩ <;>
    rcases stepA_norm c k st.a (.react s false []) with ⟨g1, g2⟩ | ⟨b1, b2, g1, g2, g3⟩ <;>
    simp only [h1, h2, g1, g2]
    all_goals repeat' split
    all_goals simp only [Option.map_some, Option.map_none, Option.some.injEq]
    all_goals first
      | (apply exitLoop_congr c k _ _ _ _ _ _ _ ‹_›; simp [norm_eq_iff])
      | simp [norm_eq_iff, *]
  case orchFail s =>
    stepA_split c k st.a (.react s true (liveChildren c st.a s))
    all_goals repeat' split
    all_goals simp only [Option.map_some, Option.map_none, Option.some.injEq]
    all_goals first
      | (apply exitLoop_congr c k _ _ _ _ _ _ _ ‹_›; simp [norm_eq_iff])
      | simp [norm_eq_iff, *]
  case tidyReturn s pick => fin
  case hStep j => fin
  case hEnd j => fin
  case hCancelAck j => fin
  case hCancelArrive j => fin
  case sdTimeoutFire j => fin
  case sdWaitReturn s pick => fin
  case sdTidyReturn s pick => fin

/-- switching the outcome of `k` changes nothing but the way `k` ended -/
theorem stepB_flip_map (c : Cfg) (k : Nat) (st : StB) (e : EvB) :
    (stepB c st (flipEv k e)).map (norm k) = (stepB c st e).map (norm k) := by
  cases e
  case bodyEnd j ok =>
    show (stepB c st (if j = k then .bodyEnd j (!ok) else .bodyEnd j ok)).map (norm k) = _
    by_cases hj : j = k
    · simp only [hj, if_true, stepB, stepA]
      by_cases hg : 0 < k ∧ k < c.n ∧ c.isSched k = false ∧ st.a.ph k = Ph.running ∧ st.a.creq k = false
      · simp only [hg, and_self, if_true, Option.map_some, Option.some.injEq, norm_eq_iff, and_true]
        apply release_normA
        simp only [normA_eq_iff, and_true]
        intro i
        simp only [setAt]
        split
        · simp [normPh, *]
        · rfl
      · simp only [hg, if_false]
    · simp only [hj, if_false]
  all_goals rfl

/-- one-step simulation -/
theorem stepB_sim (c : Cfg) (k : Nat) (hk : c.critical k = false) (st1 st2 st1' : StB) (e : EvB)
    (hn : norm k st2 = norm k st1) (h : stepB c st1 e = some st1') :
    ∃ st2', stepB c st2 (flipEv k e) = some st2' ∧ norm k st2' = norm k st1' := by
  have h1 : (stepB c st2 (flipEv k e)).map (norm k) = (stepB c st1 e).map (norm k) := by
    rw [stepB_flip_map, ← stepB_norm_map c k hk st2, hn, stepB_norm_map c k hk]
  rw [h] at h1
  cases h2 : stepB c st2 (flipEv k e) with
  | none => rw [h2] at h1; cases h1
  | some st2' =>
    rw [h2] at h1
    simp only [Option.map_some, Option.some.injEq] at h1
    exact ⟨st2', rfl, h1⟩

theorem acceptB_sim (c : Cfg) (k : Nat) (hk : c.critical k = false) (evs : List EvB) :
    ∀ (st1 st2 st : StB), norm k st2 = norm k st1 → acceptB c st1 evs = some st →
      ∃ st', acceptB c st2 (evs.map (flipEv k)) = some st' ∧ norm k st' = norm k st := by
  induction evs with
  | nil =>
    intro st1 st2 st hn h
    simp only [acceptB, Option.some.injEq] at h
    subst h
    exact ⟨st2, rfl, hn⟩
  | cons e es ih =>
    intro st1 st2 st hn h
    simp only [acceptB] at h
    cases hs : stepB c st1 e with
    | none => rw [hs] at h; cases h
    | some st1' =>
      rw [hs] at h
      obtain ⟨st2', hs2, hn'⟩ := stepB_sim c k hk st1 st2 st1' e hn hs
      obtain ⟨st', ha, hn''⟩ := ih st1' st2' st hn' h
      refine ⟨st', ?_, hn''⟩
      simp only [List.map_cons, acceptB, hs2]
      exact ha

/-- C06: take any accepted history and switch the outcome of a non-critical atomic job `k`: the history is still
    accepted — the same events at the same instants (the `tick`s are unchanged): the same jobs start, are granted
    slots, end, are cancelled, the same runs end — and leads to the same state except for the outcome of `k`
    itself (in particular every verdict, every other result, every diagnosis is the same) -/
theorem containment (c : Cfg) (k : Nat) (hk : c.critical k = false) (hatom : c.isSched k = false)
    (evs : List EvB) (st : StB) (h : acceptB c StB.init evs = some st) :
    ∃ st', acceptB c StB.init (evs.map (flipEv k)) = some st' ∧ norm k st' = norm k st := by
  have _ := hatom
  exact acceptB_sim c k hk evs StB.init StB.init st rfl h

/-- a finished task stays finished, with the same result, along a step of layer B -/
theorem stepB_done_stable (c : Cfg) (st st' : StB) (e : EvB) (h : stepB c st e = some st') (j : Nat) (r : Res)
    (hd : st.a.ph j = .done r) : st'.a.ph j = .done r := by
  rcases AJ.Proofs.CoreB.stepB_refines c st st' e h with heq | ⟨ea, hea⟩
  · rw [heq]; exact hd
  · exact (AJ.Proofs.CoreA.step_monotone c st.a st'.a ea hea j).1 r hd

theorem acceptB_done_stable (c : Cfg) (evs : List EvB) :
    ∀ (st0 st : StB), acceptB c st0 evs = some st → ∀ (j : Nat) (r : Res), st0.a.ph j = .done r → st.a.ph j = .done r := by
  induction evs with
  | nil =>
    intro st0 st h j r hd
    simp only [acceptB, Option.some.injEq] at h
    subst h; exact hd
  | cons e es ih =>
    intro st0 st h j r hd
    simp only [acceptB] at h
    cases hs : stepB c st0 e with
    | none => rw [hs] at h; cases h
    | some st1 =>
      rw [hs] at h
      exact ih st1 st h j r (stepB_done_stable c st0 st1 e hs j r hd)

theorem stepB_bodyEnd_false (c : Cfg) (st st' : StB) (k : Nat) (h : stepB c st (.bodyEnd k false) = some st') :
    st'.a.ph k = .done (.exc (.byJob k)) := by
  simp only [stepB, stepA] at h
  split at h
  · cases h
  · rename_i a' ha
    split at ha
    · simp only [Option.some.injEq] at ha h
      subst ha; subst h
      simp [release, setAt]
    · cases ha

theorem exception_kept_gen (c : Cfg) (k : Nat) (evs : List EvB) :
    ∀ (st0 st : StB), acceptB c st0 evs = some st → EvB.bodyEnd k false ∈ evs →
      st.a.ph k = .done (.exc (.byJob k)) := by
  induction evs with
  | nil => intro st0 st h hin; cases hin
  | cons e es ih =>
    intro st0 st h hin
    simp only [acceptB] at h
    cases hs : stepB c st0 e with
    | none => rw [hs] at h; cases h
    | some st1 =>
      rw [hs] at h
      rcases List.mem_cons.mp hin with he | hin'
      · subst he
        exact acceptB_done_stable c es st1 st h k _ (stepB_bodyEnd_false c st0 st1 k hs)
      · exact ih st1 st h hin'

/-- C06: the exception of the failed job stays retrievable from it -/
theorem exception_kept (c : Cfg) (k : Nat) (hatom : c.isSched k = false)
    (evs : List EvB) (st : StB) (h : acceptB c StB.init evs = some st)
    (hin : EvB.bodyEnd k false ∈ evs) : st.a.ph k = .done (.exc (.byJob k)) := by
  have _ := hatom
  exact exception_kept_gen c k evs StB.init st h hin

end AJ.Proofs.SimB

