/-
  C20 — the string returned by `dot_format()` is lexically valid DOT and lexes into exactly the intended tokens:
  every quoted string closes where it should, its contents are the raw attribute value (labels survive quoting),
  ids and cluster names are single ID tokens, and nothing else is in the text.
-/
import AJ.Model.DotLex
import AJ.Proofs.C20
import AJ.Proofs.C20LexAux
namespace AJ.Proofs.C20Lex
open AJ

/-- tokens of an attribute list `k1="v1",k2="v2",…` -/
def attrToks : List (String × String) → List Tok
  | [] => []
  | [kv] => [Tok.id kv.1.toList, Tok.eq, Tok.str kv.2.toList]
  | kv :: rest => Tok.id kv.1.toList :: Tok.eq :: Tok.str kv.2.toList :: Tok.comma :: attrToks rest

def clusterTok (c : RenderCtx) (s : Nat) : Tok := Tok.id (clusterName c s).toList

/-- the tokens one item is meant to produce -/
def itemToks (c : RenderCtx) : Item → List Tok
  | .node j => Tok.id (c.rid j).toList :: Tok.lbrack :: attrToks (styleAttrs c j) ++ [Tok.rbrack]
  | .openCluster s =>
    [Tok.id "subgraph".toList, clusterTok c s, Tok.lbrace, Tok.id "compound".toList, Tok.eq, Tok.id "true".toList,
     Tok.semi, Tok.id "graph".toList, Tok.lbrack] ++ attrToks (styleAttrs c s) ++ [Tok.rbrack, Tok.semi]
  | .close => [Tok.rbrace]
  | .edge a b none none => [Tok.id (c.rid a).toList, Tok.arrow, Tok.id (c.rid b).toList, Tok.semi]
  | .edge a b none (some tl) =>
    [Tok.id (c.rid a).toList, Tok.arrow, Tok.id (c.rid b).toList, Tok.lbrack, Tok.id "ltail".toList, Tok.eq,
     clusterTok c tl, Tok.rbrack, Tok.semi]
  | .edge a b (some hd) none =>
    [Tok.id (c.rid a).toList, Tok.arrow, Tok.id (c.rid b).toList, Tok.lbrack, Tok.id "lhead".toList, Tok.eq,
     clusterTok c hd, Tok.rbrack, Tok.semi]
  | .edge a b (some hd) (some tl) =>
    [Tok.id (c.rid a).toList, Tok.arrow, Tok.id (c.rid b).toList, Tok.lbrack, Tok.id "lhead".toList, Tok.eq,
     clusterTok c hd, Tok.id "ltail".toList, Tok.eq, clusterTok c tl, Tok.rbrack, Tok.semi]
  | .holder s => Tok.id (c.rid s).toList :: Tok.lbrack :: attrToks holderAttrs ++ [Tok.rbrack]

/-- the tokens of the whole output -/
def docToks (c : RenderCtx) (items : List Item) : List Tok :=
  [Tok.id "digraph".toList, Tok.id "asynciojobs".toList, Tok.lbrace, Tok.id "compound".toList, Tok.eq,
   Tok.id "true".toList, Tok.semi, Tok.id "graph".toList, Tok.lbrack, Tok.rbrack, Tok.semi] ++
  (items.flatMap (itemToks c)) ++ [Tok.rbrace]

/-! ### ids, keywords and attribute values -/

theorem isIdChar_of_isDigit {ch : Char} (h : ch.isDigit = true) : isIdChar ch = true := by
  simp [isIdChar, Char.isAlphanum, h]

/-- no backslash -/
def NoBs (v : List Char) : Prop := ∀ ch ∈ v, ch ≠ '\\'

theorem noBs_of_idChars {v : List Char} (h : ∀ ch ∈ v, isIdChar ch = true) : NoBs v := by
  intro ch hch e
  subst e
  exact absurd (h _ hch) (by decide)

theorem noBs_append {a b : List Char} (ha : NoBs a) (hb : NoBs b) : NoBs (a ++ b) := by
  intro ch hch
  rcases List.mem_append.1 hch with h | h
  · exact ha ch h
  · exact hb ch h

theorem rid_toList (c : RenderCtx) (j : Nat) :
    (c.rid j).toList = List.replicate (c.w - (toString (c.idOf j)).length) '0' ++ Nat.toDigits 10 (c.idOf j) := by
  simp only [RenderCtx.rid, padId, String.toList_append, String.toList_ofList, Nat.toString_eq_repr, Nat.toList_repr]

/-- a rendered id is a string of digits … -/
theorem rid_digits (c : RenderCtx) (j : Nat) : ∀ ch ∈ (c.rid j).toList, ch.isDigit = true := by
  rw [rid_toList]
  intro ch hch
  rcases List.mem_append.1 hch with h | h
  · rw [(List.mem_replicate.1 h).2]; decide
  · exact Nat.isDigit_of_mem_toDigits (by decide) (by decide) h

theorem rid_ne_nil (c : RenderCtx) (j : Nat) : (c.rid j).toList ≠ [] := by
  rw [rid_toList]
  intro h
  exact Nat.toDigits_ne_nil (List.append_eq_nil_iff.1 h).2

/-- … hence a numeral -/
theorem rid_idOk (c : RenderCtx) (j : Nat) : IdOk (c.rid j).toList :=
  idOk_of_digits (rid_ne_nil c j) (rid_digits c j)

theorem cluster_toList (c : RenderCtx) (s : Nat) : (clusterName c s).toList = "cluster_".toList ++ (c.rid s).toList := by
  simp only [clusterName, String.toList_append]

/-- a cluster name is an identifier -/
theorem cluster_idOk (c : RenderCtx) (s : Nat) : IdOk (clusterName c s).toList := by
  rw [cluster_toList]
  apply idOk_of_ident
  simp only [String.reduceToList, List.cons_append, List.nil_append, isIdentRun, Bool.and_eq_true, List.all_eq_true]
  refine ⟨by decide, ?_⟩
  intro ch hch
  simp only [List.mem_cons] at hch
  rcases hch with rfl | rfl | rfl | rfl | rfl | rfl | rfl | h
  iterate 7 decide
  simp [isIdentChar, Char.isAlphanum, rid_digits c s ch h]

theorem style_noBs (c : RenderCtx) (j : Nat) : NoBs (",".intercalate (styleList c j)).toList := by
  unfold styleList
  cases c.t.isSched j <;> cases c.t.forever j <;> simp [NoBs]

theorem styleAttrs_ok (c : RenderCtx) (hlab : ∀ j, NoBs (c.label j).toList) (j : Nat) :
    ∀ kv ∈ styleAttrs c j, IdOk kv.1.toList ∧ NoBs kv.2.toList := by
  have hl : NoBs (c.rid j ++ ": " ++ c.label j).toList := by
    simp only [String.toList_append]
    refine noBs_append (noBs_append (noBs_of_idChars (rid_idOk c j).2.1) ?_) (hlab j)
    unfold NoBs; decide
  have hbase : ∀ kv ∈ [("shape", "box"), ("color", "red"), ("penwidth", "2"), ("color", "black"), ("penwidth", "0.5")],
      IdOk (kv : String × String).1.toList ∧ NoBs kv.2.toList := by
    unfold IdOk NoBs; decide
  intro kv hkv
  unfold styleAttrs at hkv
  rcases List.mem_append.1 hkv with h | h
  · simp only [List.mem_cons, List.not_mem_nil, or_false] at h
    rcases h with rfl | rfl | rfl
    · exact ⟨show IdOk "style".toList by unfold IdOk; decide, style_noBs c j⟩
    · exact ⟨show IdOk "label".toList by unfold IdOk; decide, hl⟩
    · exact hbase _ (by simp)
  · by_cases hc : c.t.critical j = true
    · rw [if_pos hc] at h
      refine hbase kv (List.mem_cons_of_mem _ ?_)
      simp only [List.mem_cons, List.not_mem_nil, or_false] at h ⊢
      rcases h with rfl | rfl <;> simp
    · rw [if_neg hc] at h
      simp only [List.mem_cons, List.not_mem_nil, or_false] at h
      rcases h with rfl | rfl <;> exact hbase _ (by simp)

theorem holderAttrs_ok : ∀ kv ∈ holderAttrs, IdOk kv.1.toList ∧ NoBs kv.2.toList := by
  unfold holderAttrs IdOk NoBs; decide

/-! ### attribute lists -/

theorem lex_kv {k v : String} {rest : List Char} {ts : List Tok} (hk : IdOk k.toList) (hv : NoBs v.toList)
    (h : Lexes rest ts) :
    Lexes ((k ++ "=" ++ protect v).toList ++ rest) (Tok.id k.toList :: Tok.eq :: Tok.str v.toList :: ts) := by
  have e : (k ++ "=" ++ protect v).toList ++ rest = k.toList ++ '=' :: '"' :: (protectChars v.toList ++ '"' :: rest) := by
    simp [protect, String.toList_append]
  rw [e]
  exact lex_id hk (by decide) (lex_eq (lex_str hv h))

theorem lex_attrs : ∀ (as : List (String × String)), (∀ kv ∈ as, IdOk kv.1.toList ∧ NoBs kv.2.toList) →
    ∀ {rest : List Char} {ts : List Tok}, Lexes rest ts →
      Lexes ((renderAttrs as).toList ++ rest) (attrToks as ++ ts)
  | [], _, rest, ts, h => by simpa [renderAttrs, attrToks] using h
  | [kv], has, rest, ts, h => by
    have := has kv (by simp)
    simpa [renderAttrs, attrToks] using lex_kv this.1 this.2 h
  | kv :: kv' :: l, has, rest, ts, h => by
    have hkv := has kv (by simp)
    have ih := lex_attrs (kv' :: l) (fun x hx => has x (by simp [hx])) h
    have e : (renderAttrs (kv :: kv' :: l)).toList ++ rest =
        (kv.1 ++ "=" ++ protect kv.2).toList ++ ',' :: ((renderAttrs (kv' :: l)).toList ++ rest) := by
      simp only [renderAttrs, List.map_cons, String.intercalate_cons_cons, String.toList_append]
      simp
    rw [e]
    simp only [attrToks, List.cons_append]
    exact lex_kv hkv.1 hkv.2 (lex_comma ih)

/-! ### items -/

theorem kw_subgraph : IdOk "subgraph".toList := by unfold IdOk; decide
theorem kw_compound : IdOk "compound".toList := by unfold IdOk; decide
theorem kw_true : IdOk "true".toList := by unfold IdOk; decide
theorem kw_graph : IdOk "graph".toList := by unfold IdOk; decide
theorem kw_lhead : IdOk "lhead".toList := by unfold IdOk; decide
theorem kw_ltail : IdOk "ltail".toList := by unfold IdOk; decide
theorem kw_digraph : IdOk "digraph".toList := by unfold IdOk; decide
theorem kw_asynciojobs : IdOk "asynciojobs".toList := by unfold IdOk; decide

theorem lex_item (c : RenderCtx) (hlab : ∀ j, NoBs (c.label j).toList) (it : Item) {rest : List Char} {ts : List Tok}
    (h : Lexes rest ts) : Lexes ((renderItem c it).toList ++ rest) (itemToks c it ++ ts) := by
  match it with
  | .node j =>
    have e : (renderItem c (.node j)).toList ++ rest =
        (c.rid j).toList ++ ' ' :: '[' :: ((renderAttrs (styleAttrs c j)).toList ++ ']' :: '\n' :: rest) := by
      simp [renderItem, String.toList_append]
    rw [e]
    simp only [itemToks, List.cons_append, List.append_assoc, List.nil_append]
    refine lex_id (rid_idOk c j) (by decide) ?_
    refine lex_sp ?_
    refine lex_lbrack ?_
    refine lex_attrs _ (styleAttrs_ok c hlab j) ?_
    refine lex_rbrack ?_
    exact lex_nl h
  | .openCluster s =>
    have e : (renderItem c (.openCluster s)).toList ++ rest =
        "subgraph".toList ++ ' ' :: ((clusterName c s).toList ++ '{' :: '\n' :: ("compound".toList ++ '=' ::
          ("true".toList ++ ';' :: '\n' :: ("graph".toList ++ ' ' :: '[' ::
            ((renderAttrs (styleAttrs c s)).toList ++ ']' :: ';' :: '\n' :: rest))))) := by
      simp [renderItem, String.toList_append]
    rw [e]
    simp only [itemToks, clusterTok, List.cons_append, List.append_assoc, List.nil_append]
    refine lex_id kw_subgraph (by decide) ?_
    refine lex_sp ?_
    refine lex_id (cluster_idOk c s) (by decide) ?_
    refine lex_lbrace ?_
    refine lex_nl ?_
    refine lex_id kw_compound (by decide) ?_
    refine lex_eq ?_
    refine lex_id kw_true (by decide) ?_
    refine lex_semi ?_
    refine lex_nl ?_
    refine lex_id kw_graph (by decide) ?_
    refine lex_sp ?_
    refine lex_lbrack ?_
    refine lex_attrs _ (styleAttrs_ok c hlab s) ?_
    refine lex_rbrack ?_
    refine lex_semi ?_
    exact lex_nl h
  | .close =>
    have e : (renderItem c .close).toList ++ rest = '}' :: '\n' :: rest := by
      simp [renderItem]
    rw [e]
    refine lex_rbrace ?_
    exact lex_nl h
  | .edge a b none none =>
    have e : (renderItem c (.edge a b none none)).toList ++ rest =
        (c.rid a).toList ++ ' ' :: '-' :: '>' :: ' ' :: ((c.rid b).toList ++ ';' :: '\n' :: rest) := by
      simp [renderItem, String.toList_append]
    rw [e]
    simp only [itemToks, List.cons_append, List.nil_append]
    refine lex_id (rid_idOk c a) (by decide) ?_
    refine lex_sp ?_
    refine lex_arrow ?_
    refine lex_sp ?_
    refine lex_id (rid_idOk c b) (by decide) ?_
    refine lex_semi ?_
    exact lex_nl h
  | .edge a b none (some tl) =>
    have e : (renderItem c (.edge a b none (some tl))).toList ++ rest =
        (c.rid a).toList ++ ' ' :: '-' :: '>' :: ' ' :: ((c.rid b).toList ++ ' ' :: '[' :: ("ltail".toList ++ '=' ::
          ((clusterName c tl).toList ++ ']' :: ';' :: '\n' :: rest))) := by
      simp [renderItem, String.toList_append]
    rw [e]
    simp only [itemToks, clusterTok, List.cons_append, List.nil_append]
    refine lex_id (rid_idOk c a) (by decide) ?_
    refine lex_sp ?_
    refine lex_arrow ?_
    refine lex_sp ?_
    refine lex_id (rid_idOk c b) (by decide) ?_
    refine lex_sp ?_
    refine lex_lbrack ?_
    refine lex_id kw_ltail (by decide) ?_
    refine lex_eq ?_
    refine lex_id (cluster_idOk c tl) (by decide) ?_
    refine lex_rbrack ?_
    refine lex_semi ?_
    exact lex_nl h
  | .edge a b (some hd) none =>
    have e : (renderItem c (.edge a b (some hd) none)).toList ++ rest =
        (c.rid a).toList ++ ' ' :: '-' :: '>' :: ' ' :: ((c.rid b).toList ++ ' ' :: '[' :: ("lhead".toList ++ '=' ::
          ((clusterName c hd).toList ++ ']' :: ';' :: '\n' :: rest))) := by
      simp [renderItem, String.toList_append]
    rw [e]
    simp only [itemToks, clusterTok, List.cons_append, List.nil_append]
    refine lex_id (rid_idOk c a) (by decide) ?_
    refine lex_sp ?_
    refine lex_arrow ?_
    refine lex_sp ?_
    refine lex_id (rid_idOk c b) (by decide) ?_
    refine lex_sp ?_
    refine lex_lbrack ?_
    refine lex_id kw_lhead (by decide) ?_
    refine lex_eq ?_
    refine lex_id (cluster_idOk c hd) (by decide) ?_
    refine lex_rbrack ?_
    refine lex_semi ?_
    exact lex_nl h
  | .edge a b (some hd) (some tl) =>
    have e : (renderItem c (.edge a b (some hd) (some tl))).toList ++ rest =
        (c.rid a).toList ++ ' ' :: '-' :: '>' :: ' ' :: ((c.rid b).toList ++ ' ' :: '[' :: ("lhead".toList ++ '=' ::
          ((clusterName c hd).toList ++ ' ' :: ("ltail".toList ++ '=' ::
            ((clusterName c tl).toList ++ ']' :: ';' :: '\n' :: rest))))) := by
      simp [renderItem, String.toList_append]
    rw [e]
    simp only [itemToks, clusterTok, List.cons_append, List.nil_append]
    refine lex_id (rid_idOk c a) (by decide) ?_
    refine lex_sp ?_
    refine lex_arrow ?_
    refine lex_sp ?_
    refine lex_id (rid_idOk c b) (by decide) ?_
    refine lex_sp ?_
    refine lex_lbrack ?_
    refine lex_id kw_lhead (by decide) ?_
    refine lex_eq ?_
    refine lex_id (cluster_idOk c hd) (by decide) ?_
    refine lex_sp ?_
    refine lex_id kw_ltail (by decide) ?_
    refine lex_eq ?_
    refine lex_id (cluster_idOk c tl) (by decide) ?_
    refine lex_rbrack ?_
    refine lex_semi ?_
    exact lex_nl h
  | .holder s =>
    have e : (renderItem c (.holder s)).toList ++ rest =
        (c.rid s).toList ++ ' ' :: '[' :: ((renderAttrs holderAttrs).toList ++ ']' :: '\n' :: rest) := by
      simp [renderItem, String.toList_append]
    rw [e]
    simp only [itemToks, List.cons_append, List.append_assoc, List.nil_append]
    refine lex_id (rid_idOk c s) (by decide) ?_
    refine lex_sp ?_
    refine lex_lbrack ?_
    refine lex_attrs _ holderAttrs_ok ?_
    refine lex_rbrack ?_
    exact lex_nl h

theorem lex_items (c : RenderCtx) (hlab : ∀ j, NoBs (c.label j).toList) :
    ∀ (items : List Item) {rest : List Char} {ts : List Tok}, Lexes rest ts →
      Lexes ((String.join (items.map (renderItem c))).toList ++ rest) (items.flatMap (itemToks c) ++ ts)
  | [], rest, ts, h => by simpa using h
  | it :: items, rest, ts, h => by
    have ih := lex_items c hlab items h
    have := lex_item c hlab it ih
    simpa [String.toList_join, List.flatMap_cons, List.append_assoc] using this

/-- C20: for labels without backslash, `dot_format()`'s text lexes (DOT rules) into exactly the intended tokens -/
theorem render_lexes (c : RenderCtx) (items : List Item)
    (hlab : ∀ j, ∀ ch ∈ (c.label j).toList, ch ≠ '\\') (hw : 0 < c.w) :
    lexString (render c items) = some (docToks c items) := by
  have _ := hw
  have e : (render c items).toList =
      "digraph".toList ++ ' ' :: ("asynciojobs".toList ++ '{' :: '\n' :: ("compound".toList ++ '=' ::
        ("true".toList ++ ';' :: '\n' :: ("graph".toList ++ ' ' :: '[' :: ']' :: ';' :: '\n' ::
          ((String.join (items.map (renderItem c))).toList ++ '}' :: '\n' :: []))))) := by
    unfold render
    simp only [String.toList_append, String.reduceToList, List.cons_append, List.nil_append]
  have h0 : Lexes ['}', '\n'] ([Tok.rbrace] ++ []) := lex_rbrace (lex_nl lexes_nil)
  have h1 := lex_items c hlab items h0
  show Lexes (render c items).toList (docToks c items)
  rw [e]
  simp only [docToks, List.cons_append, List.nil_append]
  refine lex_id kw_digraph (by decide) ?_
  refine lex_sp ?_
  refine lex_id kw_asynciojobs (by decide) ?_
  refine lex_lbrace ?_
  refine lex_nl ?_
  refine lex_id kw_compound (by decide) ?_
  refine lex_eq ?_
  refine lex_id kw_true (by decide) ?_
  refine lex_semi ?_
  refine lex_nl ?_
  refine lex_id kw_graph (by decide) ?_
  refine lex_sp ?_
  refine lex_lbrack ?_
  refine lex_rbrack ?_
  refine lex_semi ?_
  exact lex_nl h1

end AJ.Proofs.C20Lex
