/-
  Layer B: no livelock (C03) — the number of events other than the passing of time in an accepted history is
  bounded by a function of the configuration alone: a run cannot go on for ever without time passing.
-/
import AJ.Proofs.CoreB
namespace AJ.Proofs.BoundB
open AJ.Run AJ.Full AJ.Proofs.CoreA AJ.Proofs.CoreB
set_option linter.unusedVariables false
set_option linter.unusedSimpArgs false

def isTick : EvB → Bool
  | .tick _ => true
  | _ => false

/-- number of events of the history that are not `tick`s -/
def work (evs : List EvB) : Nat := (evs.filter fun e => !isTick e).length

/-! ### sums over the ids `0 … n-1` -/

def sumR : Nat → (Nat → Nat) → Nat
  | 0, _ => 0
  | n + 1, f => sumR n f + f n

theorem sumR_le {n : Nat} {f g : Nat → Nat} (h : ∀ j, j < n → g j ≤ f j) : sumR n g ≤ sumR n f := by
  induction n with
  | zero => simp [sumR]
  | succ n ih =>
    have h1 := ih (fun j hj => h j (by omega))
    have h2 := h n (by omega)
    simp only [sumR]; omega

/-- nowhere up, down by `d` somewhere -/
theorem sumR_add_le {n : Nat} {f g : Nat → Nat} (d : Nat) (h : ∀ j, j < n → g j ≤ f j)
    (k : Nat) (hk : k < n) (hd : g k + d ≤ f k) : sumR n g + d ≤ sumR n f := by
  induction n with
  | zero => omega
  | succ n ih =>
    simp only [sumR]
    by_cases hkn : k = n
    · subst hkn
      have h1 := sumR_le (n := k) (f := f) (g := g) (fun j hj => h j (by omega))
      omega
    · have h1 := ih (fun j hj => h j (by omega)) (by omega)
      have h2 := h n (by omega)
      omega

/-- up by at most `d` at `s`, nowhere else -/
theorem sumR_le_add {n : Nat} {f g : Nat → Nat} (d s : Nat) (h : ∀ j, j < n → j ≠ s → g j ≤ f j)
    (hs : g s ≤ f s + d) : sumR n g ≤ sumR n f + d := by
  induction n with
  | zero => simp [sumR]
  | succ n ih =>
    simp only [sumR]
    by_cases hsn : s = n
    · subst hsn
      have h1 := sumR_le (n := s) (f := f) (g := g) (fun j hj => h j (by omega) (by omega))
      omega
    · have h1 := ih (fun j hj => h j (by omega))
      have h2 := h n (by omega) (by omega)
      omega

theorem sumR_bound {n : Nat} {f : Nat → Nat} (K : Nat) (h : ∀ j, j < n → f j ≤ K) : sumR n f ≤ K * n := by
  induction n with
  | zero => simp [sumR]
  | succ n ih =>
    have h1 := ih (fun j hj => h j (by omega))
    have h2 := h n (by omega)
    simp only [sumR, Nat.mul_succ]; omega

/-! ### the variant -/

def wPh : Ph → Nat
  | .idle => 3 | .queued => 2 | .running => 1 | _ => 0

def wPc : PcB → Nat
  | .notBegun => 3 | .loop => 3 | .tidy _ => 2 | .shut _ => 1 | .shutTidy _ => 1 | .over => 0

def wBc : Bc → Nat
  | .bwait _ => 2 | .btidy _ => 1 | _ => 0

/-- what is left to hand over in a `done` set -/
def wD (st : StB) (j : Nat) : Nat := if st.a.deliv j = true then 0 else 2

/-- what is left to do about id `j`, as a job (task, handler) and as a scheduler (reaction, run, cancellations,
    broadcast) -/
def wO (c : Cfg) (st : StB) (j : Nat) : Nat :=
  wPh (st.a.ph j) + (if st.a.rx j = none then 0 else 1) + wPc (st.pcB j) +
  (if st.carrived j = true then 0 else 1) + (if st.hcarrived j = true then 0 else 1) +
  (if st.didSd j = true then wBc (st.bc j) else 3) +
  (if st.didSd (c.parent j) = true then 0 else 2) + (if st.hph j = .hactive then 1 else 0)

/-- the variant without the share of the outside world (`extCancel`) -/
def mu0 (c : Cfg) (st : StB) : Nat := sumR c.n (wD st) + sumR c.n (wO c st)

/-- the cancellation from outside (`extCancel`) can still come: the top-level task is unfinished and `cancel()` has not
    been called on it.  It happens at most once: `creq 0` stands until the top-level run is over, and then the task is
    finished for good. -/
def wX (a : StA) : Nat :=
  if a.creq 0 = false ∧ (a.ph 0 = .idle ∨ a.ph 0 = .queued ∨ a.ph 0 = .running) then 1 else 0

def mu (c : Cfg) (st : StB) : Nat := mu0 c st + wX st.a

theorem mu0_init (c : Cfg) : mu0 c StB.init ≤ 15 * c.n := by
  have h1 : sumR c.n (wD StB.init) ≤ 2 * c.n := sumR_bound 2 (fun j _ => by simp [wD, StB.init, StA.init])
  have h2 : sumR c.n (wO c StB.init) ≤ 13 * c.n :=
    sumR_bound 13 (fun j _ => by simp [wO, StB.init, StA.init, wPh, wPc])
  unfold mu0; omega

theorem mu_lt_of {c : Cfg} {st st' : StB} (hd : ∀ j, j < c.n → wD st' j ≤ wD st j)
    (ho : ∀ j, j < c.n → wO c st' j ≤ wO c st j) (k : Nat) (hk : k < c.n) (hlt : wO c st' k < wO c st k) :
    mu0 c st' < mu0 c st := by
  have h1 := sumR_le hd
  have h2 := sumR_add_le 1 ho k hk (by omega)
  unfold mu0; omega

/-! ### every event other than `tick` makes the variant decrease -/

theorem mu_le_of {c : Cfg} {st st' : StB} (hd : ∀ j, j < c.n → wD st' j ≤ wD st j)
    (ho : ∀ j, j < c.n → wO c st' j ≤ wO c st j) : mu0 c st' ≤ mu0 c st := by
  have h1 := sumR_le hd
  have h2 := sumR_le ho
  unfold mu0; omega

/-- unfold the weights, then case analysis and arithmetic -/
macro "w_close" : tactic =>
  `(tactic| ((try simp only [wO, wD, setAt, broadcast, exitLoop, CoreB.mem_children, mem_activeHandlers,
      mem_liveChildren, Bool.or_eq_true, decide_eq_true_eq]) <;>
    grind [wPh, wPc, wBc]))

theorem mu_bodyEnd (c : Cfg) (w : CoreB.WF c) (st st' : StB) (j : Nat) (ok : Bool)
    (hA : InvA c st.a) (hinv : InvB c st) (h : stepB c st (.bodyEnd j ok) = some st') : mu0 c st' < mu0 c st := by
  simp only [stepB] at h
  split at h
  · cases h
  · rename_i a' ha
    cases h
    obtain ⟨⟨hj0, hjn, hjs, hjr, hjc⟩, hph, hcreq, hdeliv, hpc, hrx, hnow⟩ := stepA_bodyEnd ha
    apply mu_lt_of (k := j)
    · intro k hk; simp [wD, hdeliv]
    · intro k hk; simp only [wO, hph, hrx]; w_close
    · exact hjn
    · simp only [wO, hph, hrx]; w_close

theorem mu_cancelAck (c : Cfg) (w : CoreB.WF c) (st st' : StB) (j : Nat)
    (hA : InvA c st.a) (hinv : InvB c st) (h : stepB c st (.cancelAck j) = some st') : mu0 c st' < mu0 c st := by
  simp only [stepB] at h
  split at h
  · cases h
  · rename_i a' ha
    cases h
    obtain ⟨⟨hj0, hjn, hjc, hjp⟩, hph, hcreq, hdeliv, hpc, hrx, hnow⟩ := stepA_cancelAck ha
    apply mu_lt_of (k := j)
    · intro k hk; simp [wD, hdeliv]
    · intro k hk; simp only [wO, hph, hrx]; w_close
    · exact hjn
    · simp only [wO, hph, hrx]; w_close

theorem mu_runBegin (c : Cfg) (w : CoreB.WF c) (st st' : StB)
    (hA : InvA c st.a) (hinv : InvB c st) (h : stepB c st .runBegin = some st') : mu0 c st' < mu0 c st := by
  simp only [stepB] at h
  split at h
  · cases h
  · rename_i a' ha
    cases h
    obtain ⟨⟨h0i, h0p⟩, hcreq, hdeliv, hnow, hcase⟩ := stepA_runBegin ha
    have hpb := (hinv.pcNotBegun 0).2 h0p
    have hn := w.npos
    rcases hcase with ⟨he, hph, hpc, hrx⟩ | ⟨he, hph, hpc, hrx⟩
    · apply mu_lt_of (k := 0)
      · intro k hk; simp [wD, hdeliv]
      · intro k hk; simp only [wO, beginB, he, if_true, hph, hrx]; w_close
      · exact hn
      · simp only [wO, beginB, he, if_true, hph, hrx]; w_close
    · apply mu_lt_of (k := 0)
      · intro k hk; simp [wD, hdeliv]
      · intro k hk; simp only [wO, beginB, he, Bool.false_eq_true, if_false, hph, hrx]; w_close
      · exact hn
      · simp only [wO, beginB, he, Bool.false_eq_true, if_false, hph, hrx]; w_close

theorem mu_grant (c : Cfg) (w : CoreB.WF c) (st st' : StB) (j : Nat)
    (hA : InvA c st.a) (hinv : InvB c st) (h : stepB c st (.grant j) = some st') : mu0 c st' < mu0 c st := by
  simp only [stepB] at h
  split at h
  · cases h
  · rename_i a' ha
    obtain ⟨⟨hj0, hjn, hjq, hjc⟩, hcreq, hdeliv, hnow, hcase⟩ := stepA_grant ha
    rcases hcase with ⟨hs, hph, hpc, hrx⟩ | ⟨hs, he, hph, hpc, hrx⟩ | ⟨hs, he, hph, hpc, hrx⟩
    · simp only [hs, Bool.false_eq_true, if_false] at h
      cases h
      apply mu_lt_of (k := j)
      · intro k hk; simp [wD, hdeliv]
      · intro k hk; simp only [wO, hph, hrx]; w_close
      · exact hjn
      · simp only [wO, hph, hrx]; w_close
    · simp only [hs, if_true] at h
      cases h
      have hpb := (hinv.pcNotBegun j).2 (hA.notBegun j hs (Or.inr hjq))
      apply mu_lt_of (k := j)
      · intro k hk; simp [wD, hdeliv]
      · intro k hk; simp only [wO, beginB, he, if_true, hph, hrx]; w_close
      · exact hjn
      · simp only [wO, beginB, he, if_true, hph, hrx]; w_close
    · simp only [hs, if_true] at h
      cases h
      have hpb := (hinv.pcNotBegun j).2 (hA.notBegun j hs (Or.inr hjq))
      apply mu_lt_of (k := j)
      · intro k hk; simp [wD, hdeliv]
      · intro k hk; simp only [wO, beginB, he, Bool.false_eq_true, if_false, hph, hrx]; w_close
      · exact hjn
      · simp only [wO, beginB, he, Bool.false_eq_true, if_false, hph, hrx]; w_close

theorem mu_cancelArrive (c : Cfg) (w : CoreB.WF c) (st st' : StB) (s : Nat)
    (hA : InvA c st.a) (hinv : InvB c st) (h : stepB c st (.cancelArrive s) = some st') : mu0 c st' < mu0 c st := by
  simp only [stepB] at h
  split at h
  · rename_i hg
    obtain ⟨hsn, hss, hsr, hsc, hsa⟩ := hg
    have hb1 := hinv.bcInlineWait s
    have hb2 := hinv.bcNone s
    split at h
    · rename_i hpcs
      split at h
      · cases h
      · rename_i a' ha
        cases h
        obtain ⟨_, hph, hcreq, hdeliv, hpc, hrx, hnow⟩ := stepA_leave ha
        apply mu_lt_of (k := s)
        · intro k hk; simp [wD, exitLoop, hdeliv]
        · intro k hk; simp only [wO, exitLoop, hph, hrx]; w_close
        · exact hsn
        · simp only [wO, exitLoop, hph, hrx]; w_close
    · rename_i x hpcs
      cases h
      apply mu_lt_of (k := s)
      · intro k hk; simp [wD]
      · intro k hk; w_close
      · exact hsn
      · w_close
    · rename_i x hpcs
      cases h
      apply mu_lt_of (k := s)
      · intro k hk; simp [wD]
      · intro k hk; w_close
      · exact hsn
      · w_close
    · rename_i x hpcs
      cases h
      apply mu_lt_of (k := s)
      · intro k hk; simp [wD]
      · intro k hk; w_close
      · exact hsn
      · w_close
    · cases h
  · cases h

theorem mu_waitReturn (c : Cfg) (w : CoreB.WF c) (st st' : StB) (s : Nat)
    (hA : InvA c st.a) (hinv : InvB c st) (h : stepB c st (.waitReturn s) = some st') : mu0 c st' < mu0 c st := by
  simp only [stepB] at h
  split at h
  · rename_i hg
    split at h
    · cases h
    · rename_i a' ha
      cases h
      obtain ⟨⟨hsn, hss, hpcs, hrxs, hD⟩, hph, hcreq, hdeliv, hpc, hrx, hnow⟩ := stepA_waitReturn ha
      obtain ⟨k, hk⟩ := List.exists_mem_of_ne_nil _ hD
      obtain ⟨hkc, _, hkd⟩ := CoreB.mem_doneSet.1 hk
      have hkn := (CoreB.mem_children.1 hkc).1
      have h1 : sumR c.n (wD { st with a := a' }) + 2 ≤ sumR c.n (wD st) := by
        apply sumR_add_le 2 _ k hkn
        · simp [wD, hdeliv, hk, hkd]
        · intro j hj; simp only [wD, hdeliv]; grind
      have h2 : sumR c.n (wO c { st with a := a' }) ≤ sumR c.n (wO c st) + 1 := by
        apply sumR_le_add 1 s
        · intro j hj hjs; simp only [wO, hph, hrx]; w_close
        · simp only [wO, hph, hrx]; w_close
      unfold mu0; omega
  · cases h

theorem mu_react (c : Cfg) (w : CoreB.WF c) (st st' : StB) (s : Nat)
    (hA : InvA c st.a) (hinv : InvB c st) (h : stepB c st (.react s) = some st') : mu0 c st' < mu0 c st := by
  simp only [stepB] at h
  split at h
  · rename_i D hpcs hrxs
    split at h
    · cases h
    · split at h
      · split at h
        · cases h
        · rename_i a' ha
          cases h
          obtain ⟨_, ⟨hsn, _⟩, hph, hcreq, hdeliv, hpc, hrx, hnow⟩ := stepA_react_leave ha
          apply mu_lt_of (k := s)
          · intro k hk; simp [wD, exitLoop, hdeliv]
          · intro k hk; simp only [wO, exitLoop, hph, hrx]; w_close
          · exact hsn
          · simp only [wO, exitLoop, hph, hrx]; w_close
      · split at h
        · split at h
          · cases h
          · rename_i a' ha
            cases h
            obtain ⟨_, ⟨hsn, _⟩, hph, hcreq, hdeliv, hpc, hrx, hnow⟩ := stepA_react_leave ha
            apply mu_lt_of (k := s)
            · intro k hk; simp [wD, exitLoop, hdeliv]
            · intro k hk; simp only [wO, exitLoop, hph, hrx]; w_close
            · exact hsn
            · simp only [wO, exitLoop, hph, hrx]; w_close
        · split at h
          · split at h
            · cases h
            · rename_i a' ha
              cases h
              obtain ⟨_, ⟨hsn, _⟩, hph, hcreq, hdeliv, hpc, hrx, hnow⟩ := stepA_react_leave ha
              apply mu_lt_of (k := s)
              · intro k hk; simp [wD, exitLoop, hdeliv]
              · intro k hk; simp only [wO, exitLoop, hph, hrx]; w_close
              · exact hsn
              · simp only [wO, exitLoop, hph, hrx]; w_close
          · split at h
            · cases h
            · rename_i a' ha
              cases h
              obtain ⟨D', hD', ⟨hsn, _⟩, ⟨S, hS, hph⟩, hcreq, hdeliv, hpc, hrx, hnow⟩ := stepA_react_go ha
              apply mu_lt_of (k := s)
              · intro k hk; simp [wD, hdeliv]
              · intro k hk; simp only [wO, hph, hrx]; w_close
              · exact hsn
              · simp only [wO, hph, hrx]; w_close
  · cases h

theorem mu_orchFail (c : Cfg) (w : CoreB.WF c) (st st' : StB) (s : Nat)
    (hA : InvA c st.a) (hinv : InvB c st) (h : stepB c st (.orchFail s) = some st') : mu0 c st' < mu0 c st := by
  simp only [stepB] at h
  split at h
  · rename_i D hpcs hrxs
    split at h
    · cases h
    · split at h
      · cases h
      · rename_i a' ha
        cases h
        obtain ⟨_, ⟨hsn, _⟩, hph, hcreq, hdeliv, hpc, hrx, hnow⟩ := stepA_react_leave ha
        apply mu_lt_of (k := s)
        · intro k hk; simp [wD, exitLoop, hdeliv]
        · intro k hk; simp only [wO, exitLoop, hph, hrx]; w_close
        · exact hsn
        · simp only [wO, exitLoop, hph, hrx]; w_close
  · cases h

theorem mu_timeoutFire (c : Cfg) (w : CoreB.WF c) (st st' : StB) (s : Nat)
    (hA : InvA c st.a) (hinv : InvB c st) (h : stepB c st (.timeoutFire s) = some st') : mu0 c st' < mu0 c st := by
  simp only [stepB] at h
  split at h
  · rename_i hg
    obtain ⟨hpcs, _⟩ := hg
    split at h
    · cases h
    · rename_i a' ha
      cases h
      obtain ⟨⟨hsn, _⟩, hph, hcreq, hdeliv, hpc, hrx, hnow⟩ := stepA_leave ha
      apply mu_lt_of (k := s)
      · intro k hk; simp [wD, exitLoop, hdeliv]
      · intro k hk; simp only [wO, exitLoop, hph, hrx]; w_close
      · exact hsn
      · simp only [wO, exitLoop, hph, hrx]; w_close
  · cases h

theorem wPh_finPh (r : Option Res) : wPh (finPh r) = 0 := by cases r <;> rfl

theorem mu_finishRun (c : Cfg) (st st' : StB) (s : Nat) (x : Exit) (pick : Nat)
    (h : finishRun c st s x pick = some st') : mu0 c st' < mu0 c st := by
  unfold finishRun at h
  split at h
  · cases h
  · rename_i r hv
    split at h
    · cases h
    · rename_i a' ha
      cases h
      obtain ⟨⟨hsn, hss, hpcs, hphs⟩, hph, hcreq, hdeliv, hpc, hrx, hnow⟩ := stepA_finish ha
      have hf := wPh_finPh r
      apply mu_lt_of (k := s)
      · intro k hk; simp [wD, hdeliv]
      · intro k hk; simp only [wO, hph, hrx]; w_close
      · exact hsn
      · simp only [wO, hph, hrx]; w_close

theorem mu_tidyReturn (c : Cfg) (w : CoreB.WF c) (st st' : StB) (s pick : Nat)
    (hA : InvA c st.a) (hinv : InvB c st) (h : stepB c st (.tidyReturn s pick) = some st') : mu0 c st' < mu0 c st := by
  simp only [stepB] at h
  split at h
  · rename_i x hpcs
    split at h
    · rename_i hg
      split at h
      · have h1 := mu_finishRun _ _ _ _ _ _ h
        exact h1
      · rename_i hds
        cases h
        have hsn := (hinv.pcRange s (by rw [hpcs]; simp)).1
        apply mu_lt_of (k := s)
        · intro k hk; simp [wD, broadcast]
        · intro k hk; w_close
        · exact hsn
        · w_close
    · cases h
  · cases h

theorem mu_hStep (c : Cfg) (w : CoreB.WF c) (st st' : StB) (j : Nat)
    (hA : InvA c st.a) (hinv : InvB c st) (h : stepB c st (.hStep j) = some st') : mu0 c st' < mu0 c st := by
  simp only [stepB] at h
  split at h
  · rename_i hg
    obtain ⟨hj0, hjn, hjs, hjh, hjr⟩ := hg
    split at h
    · cases h
      apply mu_lt_of (k := j)
      · intro k hk; simp [wD]
      · intro k hk; w_close
      · exact hjn
      · w_close
    · rename_i hds
      cases h
      apply mu_lt_of (k := j)
      · intro k hk; simp [wD, broadcast]
      · intro k hk; w_close
      · exact hjn
      · w_close
  · cases h

theorem mu_hEnd (c : Cfg) (w : CoreB.WF c) (st st' : StB) (j : Nat)
    (hA : InvA c st.a) (hinv : InvB c st) (h : stepB c st (.hEnd j) = some st') : mu0 c st' < mu0 c st := by
  simp only [stepB] at h
  split at h
  · rename_i hg
    obtain ⟨hj0, hjn, hjs, hjh, hjr⟩ := hg
    cases h
    apply mu_lt_of (k := j)
    · intro k hk; simp [wD]
    · intro k hk; w_close
    · exact hjn
    · w_close
  · cases h

theorem mu_hCancelAck (c : Cfg) (w : CoreB.WF c) (st st' : StB) (j : Nat)
    (hA : InvA c st.a) (hinv : InvB c st) (h : stepB c st (.hCancelAck j) = some st') : mu0 c st' < mu0 c st := by
  simp only [stepB] at h
  split at h
  · rename_i hg
    obtain ⟨hj0, hjn, hjs, hjh, hjr⟩ := hg
    cases h
    apply mu_lt_of (k := j)
    · intro k hk; simp [wD]
    · intro k hk; w_close
    · exact hjn
    · w_close
  · cases h

theorem mu_hCancelArrive (c : Cfg) (w : CoreB.WF c) (st st' : StB) (s : Nat)
    (hA : InvA c st.a) (hinv : InvB c st) (h : stepB c st (.hCancelArrive s) = some st') : mu0 c st' < mu0 c st := by
  simp only [stepB] at h
  split at h
  · rename_i hg
    obtain ⟨hs0, hsn, hss, hsh, hsc, hsa⟩ := hg
    split at h
    · rename_i hbc
      cases h
      apply mu_lt_of (k := s)
      · intro k hk; simp [wD]
      · intro k hk; w_close
      · exact hsn
      · w_close
    · rename_i hbc
      cases h
      apply mu_lt_of (k := s)
      · intro k hk; simp [wD]
      · intro k hk; w_close
      · exact hsn
      · w_close
    · cases h
  · cases h

theorem mu_sdWaitReturn (c : Cfg) (w : CoreB.WF c) (st st' : StB) (s pick : Nat)
    (hA : InvA c st.a) (hinv : InvB c st) (h : stepB c st (.sdWaitReturn s pick) = some st') : mu0 c st' < mu0 c st := by
  simp only [stepB] at h
  split at h
  · rename_i hg
    split at h
    · rename_i hbc
      split at h
      · rename_i x hpcs
        refine Nat.lt_of_lt_of_le (mu_finishRun _ _ _ _ _ _ h) (mu_le_of ?_ ?_)
        · intro k hk; simp [wD]
        · intro k hk; w_close
      · cases h
    · rename_i hbc
      cases h
      have hb2 := hinv.bcNone s
      have hds : st.didSd s = true := by grind
      have hsn := (hinv.didSdRange s hds).1
      apply mu_lt_of (k := s)
      · intro k hk; simp [wD]
      · intro k hk; w_close
      · exact hsn
      · w_close
    · cases h
  · cases h

theorem mu_sdTidyReturn (c : Cfg) (w : CoreB.WF c) (st st' : StB) (s pick : Nat)
    (hA : InvA c st.a) (hinv : InvB c st) (h : stepB c st (.sdTidyReturn s pick) = some st') : mu0 c st' < mu0 c st := by
  simp only [stepB] at h
  split at h
  · rename_i hg
    split at h
    · rename_i hbc
      split at h
      · rename_i x hpcs
        refine Nat.lt_of_lt_of_le (mu_finishRun _ _ _ _ _ _ h) (mu_le_of ?_ ?_)
        · intro k hk; simp [wD]
        · intro k hk; w_close
      · cases h
    · rename_i hbc
      cases h
      have hb2 := hinv.bcNone s
      have hds : st.didSd s = true := by grind
      have hsn := (hinv.didSdRange s hds).1
      apply mu_lt_of (k := s)
      · intro k hk; simp [wD]
      · intro k hk; w_close
      · exact hsn
      · w_close
    · cases h
  · cases h

theorem mu_sdTimeoutFire (c : Cfg) (w : CoreB.WF c) (st st' : StB) (s : Nat)
    (hA : InvA c st.a) (hinv : InvB c st) (h : stepB c st (.sdTimeoutFire s) = some st') : mu0 c st' < mu0 c st := by
  simp only [stepB] at h
  split at h
  · rename_i hg
    obtain ⟨hw, _⟩ := hg
    have hb2 := hinv.bcNone s
    obtain ⟨w0, hbw⟩ : ∃ w0, st.bc s = .bwait w0 := by
      cases hb : st.bc s <;> simp_all [Bc.isWait]
    have hds : st.didSd s = true := by grind
    have hsn := (hinv.didSdRange s hds).1
    have hwho : (st.bc s).who = w0 := by rw [hbw]; rfl
    rw [hwho] at h
    cases w0 <;> cases hp : st.pcB s <;> simp only [hp] at h <;> cases h <;>
      (apply mu_lt_of (k := s)
       · intro k hk; simp [wD]
       · intro k hk; w_close
       · exact hsn
       · w_close)
  · cases h

theorem mu0_tick (c : Cfg) (st st' : StB) (d : Nat) (h : stepB c st (.tick d) = some st') : mu0 c st' ≤ mu0 c st := by
  simp only [stepB] at h
  split at h
  · split at h
    · cases h
    · rename_i a' ha
      cases h
      obtain ⟨hph, hcreq, hdeliv, hpc, hrx, hnow⟩ := stepA_tick ha
      apply mu_le_of
      · intro k hk; simp [wD, hdeliv]
      · intro k hk; simp only [wO, hph, hrx]; exact Nat.le_refl _
  · cases h

/-- `extCancel` changes nothing the weights of `mu0` look at -/
theorem mu0_extCancel (c : Cfg) (st st' : StB) (h : stepB c st .extCancel = some st') : mu0 c st' ≤ mu0 c st := by
  simp only [stepB] at h
  split at h
  · cases h
  · rename_i a' ha
    cases h
    obtain ⟨_, rfl⟩ := stepA_extCancel ha
    apply mu_le_of
    · intro k hk; simp [wD]
    · intro k hk; simp only [wO]; exact Nat.le_refl _

def isExt : EvB → Bool
  | .extCancel => true
  | _ => false

/-- `mu0` never increases, and decreases at every event other than `tick` and `extCancel` -/
theorem mu0_step (c : Cfg) (hwf : c.wf = true) (st st' : StB) (e : EvB)
    (hA : InvA c st.a) (hinv : InvB c st) (h : stepB c st e = some st') :
    mu0 c st' + (if isTick e = true ∨ isExt e = true then 0 else 1) ≤ mu0 c st := by
  have w := wf_of c hwf
  cases e with
  | runBegin => have := mu_runBegin c w st st' hA hinv h; simp only [isTick, isExt]; grind
  | grant j => have := mu_grant c w st st' j hA hinv h; simp only [isTick, isExt]; grind
  | bodyEnd j ok => have := mu_bodyEnd c w st st' j ok hA hinv h; simp only [isTick, isExt]; grind
  | cancelAck j => have := mu_cancelAck c w st st' j hA hinv h; simp only [isTick, isExt]; grind
  | cancelArrive s => have := mu_cancelArrive c w st st' s hA hinv h; simp only [isTick, isExt]; grind
  | waitReturn s => have := mu_waitReturn c w st st' s hA hinv h; simp only [isTick, isExt]; grind
  | react s => have := mu_react c w st st' s hA hinv h; simp only [isTick, isExt]; grind
  | orchFail s => have := mu_orchFail c w st st' s hA hinv h; simp only [isTick, isExt]; grind
  | timeoutFire s => have := mu_timeoutFire c w st st' s hA hinv h; simp only [isTick, isExt]; grind
  | tidyReturn s pick => have := mu_tidyReturn c w st st' s pick hA hinv h; simp only [isTick, isExt]; grind
  | hStep j => have := mu_hStep c w st st' j hA hinv h; simp only [isTick, isExt]; grind
  | hEnd j => have := mu_hEnd c w st st' j hA hinv h; simp only [isTick, isExt]; grind
  | hCancelAck j => have := mu_hCancelAck c w st st' j hA hinv h; simp only [isTick, isExt]; grind
  | hCancelArrive s => have := mu_hCancelArrive c w st st' s hA hinv h; simp only [isTick, isExt]; grind
  | sdWaitReturn s pick => have := mu_sdWaitReturn c w st st' s pick hA hinv h; simp only [isTick, isExt]; grind
  | sdTimeoutFire s => have := mu_sdTimeoutFire c w st st' s hA hinv h; simp only [isTick, isExt]; grind
  | sdTidyReturn s pick => have := mu_sdTidyReturn c w st st' s pick hA hinv h; simp only [isTick, isExt]; grind
  | tick d => have := mu0_tick c st st' d h; simp only [isTick, isExt]; grind
  | extCancel => have := mu0_extCancel c st st' h; simp only [isTick, isExt]; grind

/-- the share of the outside world never increases along a step of layer A, and is spent by `extCancel` -/
theorem wX_stepA (c : Cfg) (a a' : StA) (e : EvA) (h : stepA c a e = some a') :
    wX a' + (match e with | .extCancel => 1 | _ => 0) ≤ wX a := by
  cases e <;> simp only [stepA] at h <;> (repeat' split at h) <;> cases h <;>
    (try unfold beginRun) <;> (repeat' split) <;> simp only [wX, release, startJobs, setAt] <;> grind

theorem wX_stepB (c : Cfg) (st st' : StB) (e : EvB) (h : stepB c st e = some st') :
    wX st'.a + (if isExt e = true then 1 else 0) ≤ wX st.a := by
  by_cases he : e = .extCancel
  · subst he
    simp only [stepB] at h
    split at h
    · cases h
    · rename_i a' ha
      cases h
      have := wX_stepA c _ _ _ ha
      simpa [isExt] using this
  · have hx : isExt e = false := by cases e <;> simp_all [isExt]
    rcases stepB_refines c st st' e h with heq | ⟨ea, hea⟩
    · rw [heq, hx]; simp
    · have := wX_stepA c _ _ ea hea
      rw [hx]; simp only [Bool.false_eq_true, if_false]; omega

/-- the variant never increases, and decreases at every event other than `tick` -/
theorem mu_step (c : Cfg) (hwf : c.wf = true) (st st' : StB) (e : EvB)
    (hA : InvA c st.a) (hinv : InvB c st) (h : stepB c st e = some st') :
    mu c st' + (if isTick e = true then 0 else 1) ≤ mu c st := by
  have h1 := mu0_step c hwf st st' e hA hinv h
  have h2 := wX_stepB c st st' e h
  have h3 : ¬ (isTick e = true ∧ isExt e = true) := by cases e <;> simp [isTick, isExt]
  unfold mu
  cases ht : isTick e <;> cases hx : isExt e <;> simp_all <;> omega

theorem mu_init (c : Cfg) : mu c StB.init ≤ 16 * c.n + 16 := by
  have := mu0_init c
  have : wX StB.init.a ≤ 1 := by unfold wX; split <;> omega
  unfold mu; omega

theorem work_cons (e : EvB) (es : List EvB) : work (e :: es) = (if isTick e = true then 0 else 1) + work es := by
  unfold work
  cases ht : isTick e <;> simp [List.filter, ht] <;> omega

/-- the work still to come is paid for by the variant -/
theorem work_le_mu (c : Cfg) (hwf : c.wf = true) (evs : List EvB) (st0 st : StB)
    (hA : InvA c st0.a) (hB : InvB c st0) (h : acceptB c st0 evs = some st) : work evs + mu c st ≤ mu c st0 := by
  induction evs generalizing st0 with
  | nil => simp only [acceptB] at h; cases h; simp [work]
  | cons e es ih =>
    simp only [acceptB] at h
    split at h
    · rename_i st1 hs
      have hB1 := invB_step c hwf st0 st1 e hA hB hs
      have hA1 : InvA c st1.a := by
        rcases stepB_refines c st0 st1 e hs with heq | ⟨ea, hea⟩
        · rw [heq]; exact hA
        · exact invA_step c hwf st0.a st1.a ea hA hea
      have h1 := ih st1 hA1 hB1 h
      have h2 := mu_step c hwf st0 st1 e hA hB hs
      rw [work_cons]
      omega
    · cases h

/-- C03 (no livelock): every accepted history contains at most `16 * c.n + 16` events other than `tick`
    (each job is started, granted a slot, ended, cancelled, reported, shut down at most once; each scheduler takes
    a bounded number of turns; the outside world cancels the top-level task at most once) -/
theorem bounded_work (c : Cfg) (hwf : c.wf = true) (evs : List EvB) (st : StB)
    (h : acceptB c StB.init evs = some st) : work evs ≤ 16 * c.n + 16 := by
  have h1 := work_le_mu c hwf evs StB.init st (invA_init c) (invB_init c) h
  have h2 := mu_init c
  omega

/-! ### the cancellation from outside happens at most once -/

/-- number of `extCancel` events of the history -/
def extCount (evs : List EvB) : Nat := (evs.filter isExt).length

theorem extCount_cons (e : EvB) (es : List EvB) :
    extCount (e :: es) = (if isExt e = true then 1 else 0) + extCount es := by
  unfold extCount
  cases hx : isExt e <;> simp [List.filter, hx] <;> omega

theorem ext_le_wX (c : Cfg) (evs : List EvB) :
    ∀ st0 st : StB, acceptB c st0 evs = some st → extCount evs + wX st.a ≤ wX st0.a := by
  induction evs with
  | nil => intro st0 st h; simp only [acceptB] at h; cases h; simp [extCount]
  | cons e es ih =>
    intro st0 st h
    simp only [acceptB] at h
    split at h
    · rename_i st1 hs
      have h1 := ih st1 st h
      have h2 := wX_stepB c st0 st1 e hs
      rw [extCount_cons]
      omega
    · cases h

/-- an accepted history contains at most one `extCancel`: the request stands (`creq 0`) until the top-level run is
    over, and then the task is finished for good (needs no invariant, no well-formedness) -/
theorem extCancel_at_most_once (c : Cfg) (evs : List EvB) (st : StB)
    (h : acceptB c StB.init evs = some st) : extCount evs ≤ 1 := by
  have h1 := ext_le_wX c evs _ _ h
  have : wX StB.init.a ≤ 1 := by unfold wX; split <;> omega
  omega

end AJ.Proofs.BoundB
