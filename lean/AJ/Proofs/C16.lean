/-
  C16 — sanitize() closes the requirement relation minimally and reports truthfully.
-/
import AJ.Spec
namespace AJ.Proofs.C16
open AJ

/-- the tree hypotheses `T.wf` provides, for the subtree of `s`: members have larger ids (so the
    nesting is well founded) and no job is a member of two schedulers of the subtree -/
structure TreeAt (t : T) (s : Nat) : Prop where
  lt : ∀ s', (s' = s ∨ Desc t s s') → ∀ k ∈ t.mem s', s' < k ∧ k < t.n
  atomic : ∀ k, t.isSched k = false → t.mem k = []
  unique : ∀ s1 s2 k, (s1 = s ∨ Desc t s s1) → (s2 = s ∨ Desc t s s2) → k ∈ t.mem s1 → k ∈ t.mem s2 → s1 = s2

/-! ### helpers -/

/-- generic fold invariant indexed by the prefix already processed -/
theorem foldl_inv {α β : Type _} (f : β → α → β) (P : List α → β → Prop) (l : List α) (b : β)
    (h0 : P [] b) (hstep : ∀ pre x b, x ∈ l → P pre b → P (pre ++ [x]) (f b x)) :
    P l (l.foldl f b) := by
  suffices h : ∀ (rest pre : List α) (b : β), (∀ x ∈ rest, x ∈ l) → P pre b →
      P (pre ++ rest) (rest.foldl f b) by
    simpa using h l [] b (fun _ h => h) h0
  intro rest
  induction rest with
  | nil => intro pre b _ h; simpa using h
  | cons x rest ih =>
    intro pre b hsub h
    have := ih (pre ++ [x]) (f b x) (fun y hy => hsub y (List.mem_cons_of_mem _ hy))
      (hstep pre x b (hsub x List.mem_cons_self) h)
    simpa using this

theorem foldl_pres {α β : Type _} (f : β → α → β) (P : β → Prop) (l : List α) (b : β)
    (h0 : P b) (hstep : ∀ b x, x ∈ l → P b → P (f b x)) : P (l.foldl f b) :=
  foldl_inv f (fun _ b => P b) l b h0 (fun _ x b hx h => hstep b x hx h)

/-- the body of the loop of `sanitize` -/
def step (members : List Nat) (fuel : Nat) (acc : T × Bool) (j : Nat) : T × Bool :=
  let t1 := acc.1.setReq j ((acc.1.req j).filter (· ∈ members))
  let ch1 := acc.2 || ((acc.1.req j).length != ((acc.1.req j).filter (· ∈ members)).length)
  if acc.1.isSched j then ((sanitize t1 fuel j).1, (!(sanitize t1 fuel j).2) || ch1) else (t1, ch1)

theorem sanitize_succ (t : T) (fuel s : Nat) :
    sanitize t (fuel + 1) s =
      (((t.mem s).foldl (step (t.mem s) fuel) (t, false)).1,
        !((t.mem s).foldl (step (t.mem s) fuel) (t, false)).2) := rfl

theorem setReq_req (a : T) (j : Nat) (r : List Nat) (x : Nat) :
    (a.setReq j r).req x = if x = j then r else a.req x := rfl

/-! #### frame -/

def Frame (a t : T) : Prop :=
  a.mem = t.mem ∧ a.isSched = t.isSched ∧ a.forever = t.forever ∧ a.critical = t.critical ∧ a.n = t.n

theorem Frame.refl (t : T) : Frame t t := ⟨rfl, rfl, rfl, rfl, rfl⟩

theorem Frame.trans {a b c : T} (h1 : Frame a b) (h2 : Frame b c) : Frame a c :=
  ⟨h1.1.trans h2.1, h1.2.1.trans h2.2.1, h1.2.2.1.trans h2.2.2.1,
    h1.2.2.2.1.trans h2.2.2.2.1, h1.2.2.2.2.trans h2.2.2.2.2⟩

theorem Frame.setReq (a : T) (j : Nat) (r : List Nat) : Frame (a.setReq j r) a :=
  ⟨rfl, rfl, rfl, rfl, rfl⟩

theorem frame_aux : ∀ (fuel : Nat) (t : T) (s : Nat), Frame (sanitize t fuel s).1 t
  | 0, t, _ => Frame.refl t
  | fuel + 1, t, s => by
    rw [sanitize_succ]
    refine foldl_pres (step (t.mem s) fuel) (fun b : T × Bool => Frame b.1 t) (t.mem s) (t, false)
      ?_ ?_
    · exact Frame.refl t
    · intro b j _ hb
      unfold step
      dsimp only
      split
      · exact ((frame_aux fuel _ j).trans (Frame.setReq ..)).trans hb
      · exact (Frame.setReq ..).trans hb

/-! #### flag (no tree hypothesis is needed) -/

/-- the fold invariant for the flag: `c` is "something was removed so far" -/
def Q (t : T) (a : T) (c : Bool) : Prop :=
  (c = false ↔ ∀ x, a.req x = t.req x) ∧ ∀ x, (a.req x).Sublist (t.req x)

theorem Q_sub {t a a' : T} {c f : Bool} (hq : Q t a c)
    (hf : f = true ↔ ∀ x, a'.req x = a.req x) (hsub : ∀ x, (a'.req x).Sublist (a.req x)) :
    Q t a' (!f || c) := by
  refine ⟨?_, fun x => (hsub x).trans (hq.2 x)⟩
  constructor
  · intro h
    have hf' : f = true := by cases f <;> simp_all
    have hc' : c = false := by cases c <;> simp_all
    intro x
    rw [hf.1 hf' x, hq.1.1 hc' x]
  · intro h
    have key : ∀ x, a.req x = t.req x := by
      intro x
      have h1 := hsub x
      have h2 := hq.2 x
      rw [← h x] at h2
      rw [← h x]
      exact h2.eq_of_length_le h1.length_le
    have hc' : c = false := hq.1.2 key
    have hf' : f = true := hf.2 (fun x => by rw [h x, key x])
    simp [hc', hf']

theorem Q_filter {t a : T} {c : Bool} (hq : Q t a c) (j : Nat) (p : Nat → Bool) :
    Q t (a.setReq j ((a.req j).filter p))
      (c || ((a.req j).length != ((a.req j).filter p).length)) := by
  have := Q_sub (a' := a.setReq j ((a.req j).filter p))
    (f := ((a.req j).length == ((a.req j).filter p).length)) hq ?_ ?_
  · rw [Bool.or_comm]; exact this
  · rw [beq_iff_eq]
    constructor
    · intro h x
      rw [setReq_req]
      split
      · next hx =>
        subst hx
        exact List.filter_eq_self.2 (List.length_filter_eq_length_iff.1 h.symm)
      · rfl
    · intro h
      have := h j
      rw [setReq_req, if_pos rfl] at this
      rw [this]
  · intro x
    rw [setReq_req]
    split
    · next hx => subst hx; exact List.filter_sublist
    · exact List.Sublist.refl _

theorem flag_sub_aux : ∀ (fuel : Nat) (t : T) (s : Nat),
    ((sanitize t fuel s).2 = true ↔ ∀ x, (sanitize t fuel s).1.req x = t.req x) ∧
    ∀ x, ((sanitize t fuel s).1.req x).Sublist (t.req x)
  | 0, t, _ => by simp [sanitize]
  | fuel + 1, t, s => by
    rw [sanitize_succ]
    have h : Q t ((t.mem s).foldl (step (t.mem s) fuel) (t, false)).1
        ((t.mem s).foldl (step (t.mem s) fuel) (t, false)).2 := by
      refine foldl_pres (step (t.mem s) fuel) (fun b : T × Bool => Q t b.1 b.2) (t.mem s)
        (t, false) ?_ ?_
      · exact ⟨by simp, fun x => List.Sublist.refl _⟩
      · intro b j _ hb
        have h1 := Q_filter hb j (· ∈ t.mem s)
        unfold step
        dsimp only
        split
        · have ih := flag_sub_aux fuel (b.1.setReq j ((b.1.req j).filter (· ∈ t.mem s))) j
          exact Q_sub h1 ih.1 ih.2
        · exact h1
    refine ⟨?_, h.2⟩
    rw [← h.1]
    simp

/-! #### requirements -/

/-- `s'` is the scheduler of the subtree of `s` that `x` is a direct member of -/
def Cov (t : T) (s x s' : Nat) : Prop :=
  (s' = s ∨ Desc t s s') ∧ t.isSched s' = true ∧ x ∈ t.mem s'

theorem desc_parent {t : T} {s x : Nat} (h : Desc t s x) : ∃ s', Cov t s x s' := by
  induction h with
  | child hs hk => exact ⟨_, Or.inl rfl, hs, hk⟩
  | deeper hs hk _ ih =>
    obtain ⟨s', h1, h2, h3⟩ := ih
    refine ⟨s', Or.inr ?_, h2, h3⟩
    rcases h1 with rfl | h1
    · exact Desc.child hs hk
    · exact Desc.deeper hs hk h1

theorem desc_snoc {t : T} {k s' x : Nat} (h : Desc t k s') (hs' : t.isSched s' = true)
    (hx : x ∈ t.mem s') : Desc t k x := by
  induction h with
  | child hs hk => exact Desc.deeper hs hk (Desc.child hs' hx)
  | deeper hs hk _ ih => exact Desc.deeper hs hk (ih hs' hx)

theorem desc_sched {t : T} {k d : Nat} (h : Desc t k d) : t.isSched k = true := by
  cases h <;> assumption

theorem sub_of {t : T} {s j s' : Nat} (hs : t.isSched s = true) (hj : j ∈ t.mem s)
    (h : s' = j ∨ Desc t j s') : s' = s ∨ Desc t s s' := by
  rcases h with rfl | h
  · exact Or.inr (Desc.child hs hj)
  · exact Or.inr (Desc.deeper hs hj h)

theorem Cov_sub {t : T} {s j x s' : Nat} (hs : t.isSched s = true) (hj : j ∈ t.mem s)
    (h : Cov t j x s') : Cov t s x s' := ⟨sub_of hs hj h.1, h.2⟩

theorem TreeAt.sub {t : T} {s j : Nat} (h : TreeAt t s) (hs : t.isSched s = true)
    (hj : j ∈ t.mem s) : TreeAt t j where
  lt := fun s' hs' => h.lt s' (sub_of hs hj hs')
  atomic := h.atomic
  unique := fun s1 s2 k h1 h2 => h.unique s1 s2 k (sub_of hs hj h1) (sub_of hs hj h2)

/-- `x` has reached its final value (relative to the start tree `a` of the loop) -/
def Fin (t0 a : T) (s : Nat) (b : T) (x : Nat) : Prop :=
  ∃ s', Cov t0 s x s' ∧ b.req x = (a.req x).filter (· ∈ t0.mem s')

/-- loop invariant: same shape as `t0`, and every `req` is either untouched or final -/
def I0 (t0 a : T) (s : Nat) (b : T) : Prop :=
  b.mem = t0.mem ∧ b.isSched = t0.isSched ∧ ∀ x, b.req x = a.req x ∨ Fin t0 a s b x

theorem filter_mem_idem (m l : List Nat) :
    ((l.filter (· ∈ m)).filter (· ∈ m)) = l.filter (· ∈ m) := by
  simp [List.filter_filter]

/-- first half of a loop iteration: filter the requirements of member `j` -/
theorem stepA {t0 a : T} {s : Nat} (hs : t0.isSched s = true) (htree : TreeAt t0 s)
    {b : T} {j : Nat} (hj : j ∈ t0.mem s) (hb : I0 t0 a s b) :
    I0 t0 a s (b.setReq j ((b.req j).filter (· ∈ t0.mem s))) ∧
    (∀ x, Fin t0 a s b x → Fin t0 a s (b.setReq j ((b.req j).filter (· ∈ t0.mem s))) x) ∧
    Fin t0 a s (b.setReq j ((b.req j).filter (· ∈ t0.mem s))) j := by
  have hcj : Cov t0 s j s := ⟨Or.inl rfl, hs, hj⟩
  have hfj : Fin t0 a s (b.setReq j ((b.req j).filter (· ∈ t0.mem s))) j := by
    rcases hb.2.2 j with h | ⟨s'', hc, h⟩
    · exact ⟨s, hcj, by rw [setReq_req, if_pos rfl, h]⟩
    · have : s'' = s := htree.unique s'' s j hc.1 (Or.inl rfl) hc.2.2 hj
      subst this
      exact ⟨s'', hcj, by rw [setReq_req, if_pos rfl, h, filter_mem_idem]⟩
  have hmono : ∀ x, Fin t0 a s b x →
      Fin t0 a s (b.setReq j ((b.req j).filter (· ∈ t0.mem s))) x := by
    intro x hx
    by_cases hxj : x = j
    · subst hxj; exact hfj
    · obtain ⟨s', hc, h⟩ := hx
      exact ⟨s', hc, by rw [setReq_req, if_neg hxj, h]⟩
  refine ⟨⟨hb.1, hb.2.1, ?_⟩, hmono, hfj⟩
  intro x
  by_cases hxj : x = j
  · subst hxj; exact Or.inr hfj
  · rcases hb.2.2 x with h | h
    · exact Or.inl (by rw [setReq_req, if_neg hxj, h])
    · exact Or.inr (hmono x h)

/-- the statement proved by induction on the fuel, relative to a reference tree `t0` giving the shape -/
def ReqSpec (t0 : T) (fuel : Nat) : Prop :=
  ∀ (a : T) (s : Nat), a.mem = t0.mem → a.isSched = t0.isSched → t0.isSched s = true →
    s < t0.n → t0.n - s ≤ fuel → TreeAt t0 s →
    (∀ s' x, Cov t0 s x s' → (sanitize a fuel s).1.req x = (a.req x).filter (· ∈ t0.mem s')) ∧
    (∀ x, (∀ s', ¬ Cov t0 s x s') → (sanitize a fuel s).1.req x = a.req x)

/-- second half of a loop iteration: the recursive call on a scheduler member `j` -/
theorem stepB {t0 a : T} {s fuel : Nat} (IH : ReqSpec t0 fuel) (hs : t0.isSched s = true)
    (htree : TreeAt t0 s) {b : T} {j : Nat} (hj : j ∈ t0.mem s) (hjs : t0.isSched j = true)
    (hjn : j < t0.n) (hjf : t0.n - j ≤ fuel) (hb : I0 t0 a s b) :
    I0 t0 a s (sanitize b fuel j).1 ∧
    (∀ x, Fin t0 a s b x → Fin t0 a s (sanitize b fuel j).1 x) ∧
    (∀ x, Desc t0 j x → Fin t0 a s (sanitize b fuel j).1 x) := by
  obtain ⟨h1, h2⟩ := IH b j hb.1 hb.2.1 hjs hjn hjf (htree.sub hs hj)
  have hfr := frame_aux fuel b j
  have hin : ∀ x, (∃ s', Cov t0 j x s') → Fin t0 a s (sanitize b fuel j).1 x := by
    rintro x ⟨s', hc⟩
    have hc' : Cov t0 s x s' := Cov_sub hs hj hc
    rcases hb.2.2 x with h | ⟨s'', hc'', h⟩
    · exact ⟨s', hc', by rw [h1 s' x hc, h]⟩
    · have : s'' = s' := htree.unique s'' s' x hc''.1 hc'.1 hc''.2.2 hc'.2.2
      subst this
      exact ⟨s'', hc', by rw [h1 s'' x hc, h, filter_mem_idem]⟩
  have hmono : ∀ x, Fin t0 a s b x → Fin t0 a s (sanitize b fuel j).1 x := by
    intro x hx
    by_cases hcx : ∃ s', Cov t0 j x s'
    · exact hin x hcx
    · obtain ⟨s', hc, h⟩ := hx
      exact ⟨s', hc, by rw [h2 x (fun s' hs' => hcx ⟨s', hs'⟩), h]⟩
  refine ⟨⟨hfr.1.trans hb.1, hfr.2.1.trans hb.2.1, ?_⟩, hmono, fun x hx => hin x (desc_parent hx)⟩
  intro x
  by_cases hcx : ∃ s', Cov t0 j x s'
  · exact Or.inr (hin x hcx)
  · rcases hb.2.2 x with h | h
    · exact Or.inl (by rw [h2 x (fun s' hs' => hcx ⟨s', hs'⟩), h])
    · exact Or.inr (hmono x h)

/-- one full loop iteration -/
theorem step_req {t0 a : T} {s fuel : Nat} (IH : ReqSpec t0 fuel) (hs : t0.isSched s = true)
    (htree : TreeAt t0 s) (hfu : ∀ j ∈ t0.mem s, j < t0.n ∧ t0.n - j ≤ fuel)
    (b : T × Bool) {j : Nat} (hj : j ∈ t0.mem s) (hb : I0 t0 a s b.1) :
    I0 t0 a s (step (t0.mem s) fuel b j).1 ∧
    (∀ x, Fin t0 a s b.1 x → Fin t0 a s (step (t0.mem s) fuel b j).1 x) ∧
    Fin t0 a s (step (t0.mem s) fuel b j).1 j ∧
    (t0.isSched j = true → ∀ x, Desc t0 j x → Fin t0 a s (step (t0.mem s) fuel b j).1 x) := by
  obtain ⟨hA1, hA2, hA3⟩ := stepA hs htree hj hb
  unfold step
  dsimp only
  split
  · next hsj =>
    rw [hb.2.1] at hsj
    obtain ⟨hB1, hB2, hB3⟩ := stepB IH hs htree hj hsj (hfu j hj).1 (hfu j hj).2 hA1
    exact ⟨hB1, fun x hx => hB2 x (hA2 x hx), hB2 j hA3, fun _ => hB3⟩
  · next hsj =>
    rw [hb.2.1] at hsj
    exact ⟨hA1, hA2, hA3, fun h => absurd h hsj⟩

theorem req_aux (t0 : T) : ∀ fuel, ReqSpec t0 fuel := by
  intro fuel
  induction fuel with
  | zero => intro a s _ _ _ hlt hfuel _; omega
  | succ fuel IH =>
    intro a s hmem hsch hs hlt hfuel htree
    rw [sanitize_succ, hmem]
    have hfu : ∀ j ∈ t0.mem s, j < t0.n ∧ t0.n - j ≤ fuel := by
      intro j hj
      have := htree.lt s (Or.inl rfl) j hj
      omega
    have hinv := foldl_inv (step (t0.mem s) fuel)
      (fun pre b => I0 t0 a s b.1 ∧
        ∀ x, (x ∈ pre ∨ ∃ j ∈ pre, t0.isSched j = true ∧ Desc t0 j x) → Fin t0 a s b.1 x)
      (t0.mem s) (a, false)
      ⟨⟨hmem, hsch, fun x => Or.inl rfl⟩, by
        intro x hx
        rcases hx with hx | ⟨j, hj, _⟩
        · cases hx
        · cases hj⟩
      (by
        intro pre j b hj ⟨hb1, hb2⟩
        obtain ⟨h1, h2, h3, h4⟩ := step_req IH hs htree hfu b hj hb1
        refine ⟨h1, ?_⟩
        intro x hx
        rcases hx with hx | ⟨k, hk, hks, hkx⟩
        · rcases List.mem_append.1 hx with hx | hx
          · exact h2 x (hb2 x (Or.inl hx))
          · have : x = j := by simpa using hx
            subst this; exact h3
        · rcases List.mem_append.1 hk with hk | hk
          · exact h2 x (hb2 x (Or.inr ⟨k, hk, hks, hkx⟩))
          · have : k = j := by simpa using hk
            subst this; exact h4 hks x hkx)
    obtain ⟨hI, hF⟩ := hinv
    dsimp only at hI hF ⊢
    constructor
    · intro s' x hc
      have hfin : Fin t0 a s ((t0.mem s).foldl (step (t0.mem s) fuel) (a, false)).1 x := by
        apply hF
        obtain ⟨hd, hs', hx⟩ := hc
        rcases hd with rfl | hd
        · exact Or.inl hx
        · right
          cases hd with
          | child _ hk => exact ⟨s', hk, hs', Desc.child hs' hx⟩
          | deeper _ hk hd' => exact ⟨_, hk, desc_sched hd', desc_snoc hd' hs' hx⟩
      obtain ⟨s'', hc'', h⟩ := hfin
      have : s'' = s' := htree.unique s'' s' x hc''.1 hc.1 hc''.2.2 hc.2.2
      subst this
      exact h
    · intro x hx
      rcases hI.2.2 x with h | ⟨s', hc, _⟩
      · exact h
      · exact absurd hc (hx s')

/-- sanitize never touches membership, flags, or anything but `req` -/
theorem sanitize_frame (t : T) (fuel s : Nat) :
    (sanitize t fuel s).1.mem = t.mem ∧ (sanitize t fuel s).1.isSched = t.isSched ∧
    (sanitize t fuel s).1.forever = t.forever ∧ (sanitize t fuel s).1.critical = t.critical ∧
    (sanitize t fuel s).1.n = t.n :=
  frame_aux fuel t s

/-- minimality and closure in one statement: every member `x` of every scheduler `s'` of the subtree keeps
    exactly those of its requirements that are members of `s'`; every other job is untouched -/
theorem sanitize_req (t : T) (fuel s : Nat) (hs : t.isSched s = true) (hlt : s < t.n)
    (hfuel : t.n - s ≤ fuel) (htree : TreeAt t s) :
    (∀ s', (s' = s ∨ Desc t s s') → t.isSched s' = true → ∀ x ∈ t.mem s',
        (sanitize t fuel s).1.req x = (t.req x).filter (· ∈ t.mem s')) ∧
    (∀ x, (∀ s', (s' = s ∨ Desc t s s') → t.isSched s' = true → x ∉ t.mem s') →
        (sanitize t fuel s).1.req x = t.req x) := by
  obtain ⟨h1, h2⟩ := req_aux t fuel t s rfl rfl hs hlt hfuel htree
  refine ⟨fun s' hd hs' x hx => h1 s' x ⟨hd, hs', hx⟩, fun x hx => h2 x ?_⟩
  rintro s' ⟨hd, hs', hxm⟩
  exact hx s' hd hs' hxm

/-- after sanitize, the scheduler and every nested scheduler is closed -/
theorem sanitize_closed (t : T) (fuel s : Nat) (hs : t.isSched s = true) (hlt : s < t.n)
    (hfuel : t.n - s ≤ fuel) (htree : TreeAt t s) :
    ∀ s', (s' = s ∨ Desc t s s') → t.isSched s' = true → Closed (sanitize t fuel s).1 s' := by
  intro s' hd hs' x hx y hy
  have hfr := sanitize_frame t fuel s
  rw [hfr.1] at hx ⊢
  rw [(sanitize_req t fuel s hs hlt hfuel htree).1 s' hd hs' x hx] at hy
  simpa using (List.mem_filter.1 hy).2

set_option linter.unusedVariables false in
/-- the boolean is `true` iff nothing was removed anywhere
    (holds unconditionally, see `flag_sub_aux`; the hypotheses are kept for uniformity) -/
theorem sanitize_flag (t : T) (fuel s : Nat) (hs : t.isSched s = true) (hlt : s < t.n)
    (hfuel : t.n - s ≤ fuel) (htree : TreeAt t s) :
    (sanitize t fuel s).2 = true ↔ ∀ x, (sanitize t fuel s).1.req x = t.req x :=
  (flag_sub_aux fuel t s).1

/-- a second call returns `true` and changes nothing -/
theorem sanitize_idempotent (t : T) (fuel s : Nat) (hs : t.isSched s = true) (hlt : s < t.n)
    (hfuel : t.n - s ≤ fuel) (htree : TreeAt t s) :
    (sanitize (sanitize t fuel s).1 fuel s).2 = true ∧
    (sanitize (sanitize t fuel s).1 fuel s).1.req = (sanitize t fuel s).1.req := by
  have hfr := sanitize_frame t fuel s
  have hreq := sanitize_req t fuel s hs hlt hfuel htree
  have key : ∀ x, (sanitize (sanitize t fuel s).1 fuel s).1.req x = (sanitize t fuel s).1.req x := by
    obtain ⟨h1, h2⟩ := req_aux t fuel (sanitize t fuel s).1 s hfr.1 hfr.2.1 hs hlt hfuel htree
    intro x
    by_cases hcx : ∃ s', Cov t s x s'
    · obtain ⟨s', hc⟩ := hcx
      rw [h1 s' x hc, hreq.1 s' hc.1 hc.2.1 x hc.2.2, filter_mem_idem]
    · exact h2 x (fun s' hs' => hcx ⟨s', hs'⟩)
  exact ⟨(flag_sub_aux fuel _ s).1.2 key, funext key⟩

end AJ.Proofs.C16


