/-
  Helper lemmas for C20Parse: keywords, attribute lists, and one lemma per kind of statement of `parseStmts`.
-/
import AJ.Model.DotParse
import AJ.Proofs.C20
import AJ.Proofs.C20Lex
namespace AJ.Proofs.C20ParseAux
open AJ AJ.Proofs.C20 AJ.Proofs.C20Lex

/-! ### keywords -/

/-- every keyword starts (up to case) with one of `n e g d s` -/
theorem isKeyword_false_of_head {ch : Char} {rest : List Char}
    (h : ch.toLower ≠ 'n' ∧ ch.toLower ≠ 'e' ∧ ch.toLower ≠ 'g' ∧ ch.toLower ≠ 'd' ∧ ch.toLower ≠ 's') :
    isKeyword (ch :: rest) = false := by
  obtain ⟨h1, h2, h3, h4, h5⟩ := h
  simp [isKeyword, dotKeywords, lowerChars, h1, h2, h3, h4, h5]

theorem toLower_of_isDigit {ch : Char} (h : ch.isDigit = true) : ch.toLower = ch := by
  simp only [Char.isDigit, Bool.and_eq_true, decide_eq_true_eq] at h
  unfold Char.toLower
  rw [dif_neg]
  intro h2
  have h1 := h.2
  have h3 := h2.1
  simp only [ge_iff_le, UInt32.le_iff_toNat_le] at h1 h3
  have e1 : ('9' : Char).val.toNat = 57 := by decide
  have e2 : ('A' : Char).val.toNat = 65 := by decide
  omega

theorem isKeyword_false_of_digit {ch : Char} {rest : List Char} (h : ch.isDigit = true) :
    isKeyword (ch :: rest) = false := by
  apply isKeyword_false_of_head
  rw [toLower_of_isDigit h]
  refine ⟨?_, ?_, ?_, ?_, ?_⟩ <;> (intro e; subst e; revert h; decide)

theorem rid_digits (c : RenderCtx) (j : Nat) : ∀ ch ∈ (c.rid j).toList, ch.isDigit = true := by
  rw [rid_toList]
  intro ch hch
  rcases List.mem_append.1 hch with h | h
  · rw [(List.mem_replicate.1 h).2]; decide
  · exact Nat.isDigit_of_mem_toDigits (by decide) (by decide) h

theorem rid_notKeyword (c : RenderCtx) (j : Nat) : isKeyword (c.rid j).toList = false := by
  have hne := (rid_idOk c j).1
  have hd := rid_digits c j
  cases h : (c.rid j).toList with
  | nil => exact absurd h hne
  | cons ch rest =>
    rw [h] at hd
    exact isKeyword_false_of_digit (hd ch (by simp))

theorem cluster_notKeyword (c : RenderCtx) (s : Nat) : isKeyword (clusterName c s).toList = false := by
  rw [cluster_toList]
  exact isKeyword_false_of_head (by decide)

theorem idOf_rid (c : RenderCtx) (j : Nat) : idOf? (Tok.id (c.rid j).toList) = some (c.rid j).toList := by
  simp [idOf?, rid_notKeyword]

theorem idOf_cluster (c : RenderCtx) (s : Nat) : idOf? (clusterTok c s) = some (clusterName c s).toList := by
  simp [idOf?, clusterTok, cluster_notKeyword]

theorem lower_ne_of_notKeyword {s : List Char} (h : isKeyword s = false) :
    lowerChars s ≠ "subgraph".toList ∧ lowerChars s ≠ "graph".toList ∧ lowerChars s ≠ "node".toList ∧
      lowerChars s ≠ "edge".toList := by
  simp [isKeyword, dotKeywords] at h
  simp [h]

/-! ### unfolding `parseStmts` -/

theorem parseStmts_id (f d : Nat) (s : List Char) (r : List Tok) :
    parseStmts (f + 1) d (.id s :: r) =
      (let kw := lowerChars s
    if kw = "subgraph".toList then
      match r with
      | .lbrace :: r' => do
        let (ss, rest) ← parseStmts f (d + 1) r'
        pure (.openSub none :: ss, rest)
      | n :: .lbrace :: r' => do
        let n' ← idOf? n
        let (ss, rest) ← parseStmts f (d + 1) r'
        pure (.openSub (some n') :: ss, rest)
      | _ => none
    else if kw = "graph".toList || kw = "node".toList || kw = "edge".toList then
      match r with
      | .lbrack :: _ => do
        let (as, r') ← parseAttrList f r
        let (ss, rest) ← parseStmts f d (skipSemi r')
        pure (.attr kw as :: ss, rest)
      | _ => none
    else if isKeyword s then none
    else do
      let (st, r') ← parseIdStmt f s r
      let (ss, rest) ← parseStmts f d (skipSemi r')
      pure (st :: ss, rest)) := by
  rw [parseStmts.eq_def]
  cases d <;> rfl

/-- a statement that begins with an ID -/
theorem parseStmts_idStmt {f d : Nat} {s : List Char} {r r' rest : List Tok} {st : DStmt} {ss : List DStmt}
    (hk : isKeyword s = false) (h1 : parseIdStmt f s r = some (st, r'))
    (h2 : parseStmts f d (skipSemi r') = some (ss, rest)) :
    parseStmts (f + 1) d (.id s :: r) = some (st :: ss, rest) := by
  obtain ⟨n1, n2, n3, n4⟩ := lower_ne_of_notKeyword hk
  rw [parseStmts_id]
  dsimp only
  rw [if_neg n1, if_neg (by simp only [n2, n3, n4, decide_false, Bool.or_self]; decide), if_neg (by rw [hk]; decide), h1]
  simp only [Option.bind_eq_bind, Option.bind_some, h2]
  rfl

/-- `subgraph NAME {` -/
theorem parseStmts_sub {f d : Nat} {n : Tok} {n' : List Char} {r rest : List Tok} {ss : List DStmt}
    (hn : idOf? n = some n') (h : parseStmts f (d + 1) r = some (ss, rest)) :
    parseStmts (f + 1) d (.id "subgraph".toList :: n :: .lbrace :: r) = some (.openSub (some n') :: ss, rest) := by
  rw [parseStmts_id]
  have e : lowerChars "subgraph".toList = "subgraph".toList := by decide
  dsimp only
  rw [if_pos e]
  cases n <;> first | (simp only [hn, h, Option.bind_eq_bind, Option.bind_some]; rfl) | (exact absurd hn (by simp [idOf?]))

/-- `graph [...]` -/
theorem parseStmts_graph {f d : Nat} {r r' rest : List Tok} {as : DAttrs} {ss : List DStmt}
    (h1 : parseAttrList f (.lbrack :: r) = some (as, r')) (h2 : parseStmts f d (skipSemi r') = some (ss, rest)) :
    parseStmts (f + 1) d (.id "graph".toList :: .lbrack :: r) = some (.attr "graph".toList as :: ss, rest) := by
  rw [parseStmts_id]
  have e : lowerChars "graph".toList = "graph".toList := by decide
  have n1 : lowerChars "graph".toList ≠ "subgraph".toList := by decide
  dsimp only
  rw [if_neg n1, if_pos (by rw [e]; decide)]
  simp only [h1, h2, Option.bind_eq_bind, Option.bind_some, e]
  rfl

/-- `}` closing a subgraph -/
theorem parseStmts_close {f d : Nat} {r rest : List Tok} {ss : List DStmt}
    (h : parseStmts f d (skipSemi r) = some (ss, rest)) :
    parseStmts (f + 1) (d + 1) (.rbrace :: r) = some (.closeSub :: ss, rest) := by
  rw [parseStmts.eq_3]
  simp [h]

theorem parseIdStmt_assign {f : Nat} {x v' : List Char} {v : Tok} {r : List Tok} (hv : idOf? v = some v') :
    parseIdStmt f x (.eq :: v :: r) = some (.assign x v', r) := by
  simp [parseIdStmt, hv]

theorem parseIdStmt_edge {f : Nat} {x y' : List Char} {y : Tok} {r r' : List Tok} {as : DAttrs}
    (hy : idOf? y = some y') (h : parseAttrList f r = some (as, r')) :
    parseIdStmt f x (.arrow :: y :: r) = some (.edge x y' as, r') := by
  simp [parseIdStmt, hy, h]

theorem parseIdStmt_node {f : Nat} {x : List Char} {r r' : List Tok} {as : DAttrs}
    (h : parseAttrList f (.lbrack :: r) = some (as, r')) :
    parseIdStmt f x (.lbrack :: r) = some (.node x as, r') := by
  simp [parseIdStmt, h]

/-! ### attribute lists -/

/-- a token that can begin a statement or end a statement list (in particular neither `[` nor `;`) -/
def startOk : List Tok → Bool
  | .rbrace :: _ => true
  | .id _ :: _ => true
  | _ => false

theorem skipSemi_of_startOk {r : List Tok} (h : startOk r = true) : skipSemi r = r := by
  match r, h with
  | .rbrace :: _, _ => rfl
  | .id _ :: _, _ => rfl

theorem parseAttrList_of_startOk (f : Nat) {r : List Tok} (h : startOk r = true) :
    parseAttrList f r = some ([], r) := by
  match r, h with
  | .rbrace :: _, _ => cases f <;> rfl
  | .id _ :: _, _ => cases f <;> rfl

theorem parseAttrList_semi (f : Nat) (r : List Tok) : parseAttrList f (.semi :: r) = some ([], .semi :: r) := by
  cases f <;> rfl

theorem parseAList_nil (f : Nat) (r : List Tok) : parseAList f (.rbrack :: r) = some ([], r) := by
  cases f <;> rfl

theorem parseAList_cons {f : Nat} {k v : Tok} {k' v' : List Char} {r rest : List Tok} {as : DAttrs}
    (hk : idOf? k = some k') (hv : idOf? v = some v') (h : parseAList f (skipSep r) = some (as, rest)) :
    parseAList (f + 1) (k :: .eq :: v :: r) = some ((k', v') :: as, rest) := by
  cases k <;> first
    | (simp only [parseAList, hk, hv, h, Option.bind_eq_bind, Option.bind_some]; rfl)
    | (exact absurd hk (by simp [idOf?]))

theorem parseAttrList_one {f : Nat} {r rest : List Tok} {as : DAttrs}
    (h1 : parseAList f r = some (as, rest)) (h2 : parseAttrList f rest = some ([], rest)) :
    parseAttrList (f + 1) (.lbrack :: r) = some (as, rest) := by
  simp only [parseAttrList, h1, h2, Option.bind_eq_bind, Option.bind_some, List.append_nil]
  rfl

theorem parseAList_attrToks : ∀ (as : List (String × String)), (∀ kv ∈ as, isKeyword kv.1.toList = false) →
    ∀ (f : Nat) (rest : List Tok), as.length ≤ f →
      parseAList f (attrToks as ++ Tok.rbrack :: rest) = some (as.map fun kv => (kv.1.toList, kv.2.toList), rest)
  | [], _, f, rest, _ => parseAList_nil f rest
  | [kv], hk, f + 1, rest, _ => by
    have hk' := hk kv (by simp)
    exact parseAList_cons (by simp [idOf?, hk']) (by simp [idOf?]) (parseAList_nil f rest)
  | kv :: kv' :: l, hk, f + 1, rest, hf => by
    have hk' := hk kv (by simp)
    have ih := parseAList_attrToks (kv' :: l) (fun x hx => hk x (by simp [hx])) f rest
      (by simp only [List.length_cons] at hf ⊢; omega)
    exact parseAList_cons (by simp [idOf?, hk']) (by simp [idOf?]) ih

theorem length_le_attrToks : ∀ (as : List (String × String)), as.length ≤ (attrToks as).length
  | [] => by simp
  | [kv] => by simp [attrToks]
  | kv :: kv' :: l => by
    have := length_le_attrToks (kv' :: l)
    simp only [attrToks, List.length_cons] at this ⊢
    omega

theorem styleAttrs_notKeyword (c : RenderCtx) (j : Nat) : ∀ kv ∈ styleAttrs c j, isKeyword kv.1.toList = false := by
  have hbase : ∀ k ∈ ["style", "label", "shape", "color", "penwidth"], isKeyword (k : String).toList = false := by
    decide
  intro kv hkv
  apply hbase
  unfold styleAttrs at hkv
  rcases List.mem_append.1 hkv with h | h
  · simp only [List.mem_cons, List.not_mem_nil, or_false] at h
    rcases h with rfl | rfl | rfl <;> simp
  · by_cases hc : c.t.critical j = true
    · rw [if_pos hc] at h
      simp only [List.mem_cons, List.not_mem_nil, or_false] at h
      rcases h with rfl | rfl <;> simp
    · rw [if_neg hc] at h
      simp only [List.mem_cons, List.not_mem_nil, or_false] at h
      rcases h with rfl | rfl <;> simp

/-- a bracketed attribute list whose keys are not keywords -/
theorem parseAttrList_attrs (as : List (String × String)) (hk : ∀ kv ∈ as, isKeyword kv.1.toList = false)
    {f : Nat} {rest : List Tok}
    (hf : (attrToks as).length + 1 ≤ f) (h2 : ∀ f', parseAttrList f' rest = some ([], rest)) :
    parseAttrList f (Tok.lbrack :: (attrToks as ++ Tok.rbrack :: rest)) =
      some (as.map fun kv => (kv.1.toList, kv.2.toList), rest) := by
  obtain ⟨f', rfl⟩ : ∃ f', f = f' + 1 := ⟨f - 1, by omega⟩
  have := length_le_attrToks as
  exact parseAttrList_one (parseAList_attrToks _ hk f' rest (by omega)) (h2 f')

theorem holderAttrs_notKeyword : ∀ kv ∈ holderAttrs, isKeyword kv.1.toList = false := by
  unfold holderAttrs; decide

/-- the attribute list of a node or of a cluster -/
theorem parseAttrList_style (c : RenderCtx) (j : Nat) {f : Nat} {rest : List Tok}
    (hf : (attrToks (styleAttrs c j)).length + 1 ≤ f) (h2 : ∀ f', parseAttrList f' rest = some ([], rest)) :
    parseAttrList f (Tok.lbrack :: (attrToks (styleAttrs c j) ++ Tok.rbrack :: rest)) =
      some ((styleAttrs c j).map fun kv => (kv.1.toList, kv.2.toList), rest) := by
  obtain ⟨f', rfl⟩ : ∃ f', f = f' + 1 := ⟨f - 1, by omega⟩
  have := length_le_attrToks (styleAttrs c j)
  exact parseAttrList_one (parseAList_attrToks _ (styleAttrs_notKeyword c j) f' rest (by omega)) (h2 f')

end AJ.Proofs.C20ParseAux
