/-
  C03, liveness under fairness: an infinite run of the model in which the environment is fair — every job body that is
  running eventually ends (or acknowledges its cancellation), every shutdown handler that is active eventually ends
  (or acknowledges its cancellation) — reaches the end of the top-level run.  No bound on sizes; the run is an
  arbitrary infinite sequence of accepted events.

  The cancellation of the top-level task from outside (`extCancel`) is an event of the environment that is never
  *owed*: no fairness hypothesis mentions it, so the theorems below hold of the runs in which it never happens (nobody
  is obliged to cancel the run) as well as of those in which it does — an infinite run contains it at most once
  (`extCancel_once`), it counts among the boundedly many events other than `tick` (`BoundB.bounded_work`), and once
  requested its delivery `cancelArrive 0` is urgent like that of a nested run (`quietB`): the run then ends cancelled,
  which is still "the top-level run ends" (`pcB 0 = .over`).
-/
import AJ.Proofs.FinB
namespace AJ.Proofs.LiveB
open AJ.Run AJ.Full AJ.Proofs.CoreA AJ.Proofs.CoreB AJ.Proofs.BoundB AJ.Proofs.FinB

/-- an infinite run of the full model from the initial state -/
structure InfRun (c : Cfg) where
  st : Nat → StB
  ev : Nat → EvB
  init : st 0 = StB.init
  step : ∀ i, stepB c (st i) (ev i) = some (st (i + 1))

/-- the environment is fair to job bodies: a body that is running eventually ends or acknowledges a cancellation -/
def FairBodies {c : Cfg} (r : InfRun c) : Prop :=
  ∀ i j, j < c.n → c.isSched j = false → (r.st i).a.ph j = .running →
    ∃ k, i ≤ k ∧ (r.ev k = .bodyEnd j true ∨ r.ev k = .bodyEnd j false ∨ r.ev k = .cancelAck j)

/-- the environment is fair to shutdown handlers: an active handler eventually ends or acknowledges a cancellation -/
def FairHandlers {c : Cfg} (r : InfRun c) : Prop :=
  ∀ i j, j < c.n → c.isSched j = false → (r.st i).hph j = .hactive →
    ∃ k, i ≤ k ∧ (r.ev k = .hEnd j ∨ r.ev k = .hCancelAck j)

/-- every finite prefix of an infinite run is an accepted history -/
theorem prefix_accepted {c : Cfg} (r : InfRun c) (n : Nat) :
    acceptB c StB.init ((List.range n).map r.ev) = some (r.st n) := by
  induction n with
  | zero => simp [acceptB, r.init]
  | succ n ih =>
    rw [List.range_succ, List.map_append]
    exact acceptB_snoc ih (r.step n)

/-! ### a monotone bounded sequence of naturals is eventually constant -/

theorem mono_of_succ {f : Nat → Nat} (hm : ∀ i, f i ≤ f (i + 1)) : ∀ i j, i ≤ j → f i ≤ f j := by
  intro i j hij
  induction j with
  | zero =>
    have : i = 0 := by omega
    subst this; exact Nat.le_refl _
  | succ j ih =>
    by_cases h : i = j + 1
    · subst h; exact Nat.le_refl _
    · exact Nat.le_trans (ih (by omega)) (hm j)

theorem eventually_const {f : Nat → Nat} {B : Nat} (hm : ∀ i, f i ≤ f (i + 1)) (hb : ∀ i, f i ≤ B) :
    ∃ N, ∀ i, N ≤ i → f (i + 1) = f i := by
  have key : ∀ k M, B - f M ≤ k → ∃ N, ∀ i, N ≤ i → f (i + 1) = f i := by
    intro k
    induction k with
    | zero =>
      intro M hM
      refine ⟨M, fun i hi => ?_⟩
      have h1 := mono_of_succ hm M i hi
      have h2 := hb i
      have h3 := hb (i + 1)
      have h4 := hm i
      have h5 := hb M
      omega
    | succ k ih =>
      intro M hM
      by_cases hex : ∃ i, M ≤ i ∧ f (i + 1) ≠ f i
      · obtain ⟨i, hi, hne⟩ := hex
        have h1 := mono_of_succ hm M i hi
        have h4 := hm i
        have h3 := hb (i + 1)
        exact ih (i + 1) (by omega)
      · refine ⟨M, fun i hi => ?_⟩
        apply Classical.byContradiction
        intro hne
        exact hex ⟨i, hi, hne⟩
  exact key (B - f 0) 0 (Nat.le_refl _)

theorem work_snoc (evs : List EvB) (e : EvB) :
    work (evs ++ [e]) = work evs + (if isTick e = true then 0 else 1) := by
  unfold work
  cases ht : isTick e <;> simp [List.filter_append, List.filter, ht]

/-- from some point on, an infinite run only lets time pass (`bounded_work`: at most 16n+16 other events ever occur) -/
theorem eventually_only_ticks {c : Cfg} (hwf : c.wf = true) (r : InfRun c) :
    ∃ N, ∀ i, N ≤ i → isTick (r.ev i) = true := by
  have hsucc : ∀ i, work ((List.range (i + 1)).map r.ev) =
      work ((List.range i).map r.ev) + (if isTick (r.ev i) = true then 0 else 1) := by
    intro i
    rw [List.range_succ, List.map_append]
    exact work_snoc _ _
  obtain ⟨N, hN⟩ := eventually_const (f := fun i => work ((List.range i).map r.ev)) (B := 16 * c.n + 16)
    (fun i => by simp only [hsucc i]; omega)
    (fun i => bounded_work c hwf _ _ (prefix_accepted r i))
  refine ⟨N, fun i hi => ?_⟩
  have h1 := hN i hi
  simp only [hsucc i] at h1
  cases ht : isTick (r.ev i)
  · rw [ht] at h1; simp at h1
  · rfl

/-- an infinite run contains the cancellation from outside at most once -/
theorem extCancel_once {c : Cfg} (r : InfRun c) {i j : Nat} (hi : r.ev i = .extCancel) (hj : r.ev j = .extCancel) :
    i = j := by
  -- the number of `extCancel` in the prefixes: nondecreasing, at most 1, up by one at each occurrence
  let f : Nat → Nat := fun n => extCount ((List.range n).map r.ev)
  have hsucc : ∀ n, f (n + 1) = f n + (if isExt (r.ev n) = true then 1 else 0) := by
    intro n
    show extCount ((List.range (n + 1)).map r.ev) = _
    rw [List.range_succ, List.map_append]
    unfold extCount
    cases hx : isExt (r.ev n) <;> simp [List.filter_append, List.filter, hx] <;> rfl
  have hle : ∀ n, f n ≤ 1 := fun n => extCancel_at_most_once c _ _ (prefix_accepted r n)
  have hmono : ∀ a b, a ≤ b → f a ≤ f b := mono_of_succ (fun n => by rw [hsucc n]; omega)
  have key : ∀ a b, a < b → r.ev a = .extCancel → r.ev b = .extCancel → False := by
    intro a b hab ha hb
    have h1 := hsucc a
    have h2 := hsucc b
    rw [ha] at h1; rw [hb] at h2
    simp only [isExt, if_true] at h1 h2
    have h3 := hmono (a + 1) b (by omega)
    have h4 := hle (b + 1)
    omega
  rcases Nat.lt_trichotomy i j with h | h | h
  · exact (key i j h hi hj).elim
  · exact h
  · exact (key j i h hj hi).elim

/-! ### along a run -/

theorem run_invA {c : Cfg} (hwf : c.wf = true) (r : InfRun c) (i : Nat) : InvA c (r.st i).a :=
  invA_of_reachB c hwf _ _ (prefix_accepted r i)

theorem run_invB {c : Cfg} (hwf : c.wf = true) (r : InfRun c) (i : Nat) : InvB c (r.st i) :=
  invB_reach c hwf _ _ (prefix_accepted r i)

theorem run_invP {c : Cfg} (hwf : c.wf = true) (r : InfRun c) (i : Nat) : ProgB.InvP c (r.st i) :=
  ProgB.invP_reach c hwf _ _ (prefix_accepted r i)

/-- once the top-level run has begun it has begun at every later index -/
theorem begun_later {c : Cfg} (hwf : c.wf = true) (r : InfRun c) {i : Nat} (hb : (r.st i).pcB 0 ≠ .notBegun) :
    ∀ k, i ≤ k → (r.st k).pcB 0 ≠ .notBegun := by
  intro k hk
  induction k with
  | zero =>
    have : i = 0 := by omega
    subst this; exact hb
  | succ k ih =>
    by_cases h : i = k + 1
    · subst h; exact hb
    · exact begun_step c hwf _ _ _ (run_invA hwf r k) (run_invB hwf r k) (r.step k) 0 (ih (by omega))

/-- an event of a run that is a tick happens in a quiet state -/
theorem quiet_of_tick {c : Cfg} (r : InfRun c) {i : Nat} (ht : isTick (r.ev i) = true) :
    quietB c (r.st i) = true := by
  have hs := r.step i
  cases he : r.ev i with
  | tick d =>
    rw [he] at hs
    simp only [stepB] at hs
    split at hs
    · rename_i hq; exact hq.1
    · cases hs
  | _ => rw [he] at ht; cases ht

/-- in a fair run, at an index from which only ticks happen and at which the top-level run has begun, it is over -/
theorem over_of_late {c : Cfg} (hwf : c.wf = true) (r : InfRun c) (hb : FairBodies r) (hh : FairHandlers r)
    {N : Nat} (hN : ∀ i, N ≤ i → isTick (r.ev i) = true) {M : Nat} (hNM : N ≤ M)
    (hbeg : (r.st M).pcB 0 ≠ .notBegun) : (r.st M).pcB 0 = .over := by
  apply Classical.byContradiction
  intro ho
  have hq := quiet_of_tick r (hN M hNM)
  have hA := run_invA hwf r M
  have hB := run_invB hwf r M
  have hP := run_invP hwf r M
  have hQ := (ProgB.quietB_iff c (r.st M)).1 hq
  have w := CoreA.wf_of hwf
  have hbusy := busy_below w hA hB hP hQ c.n 0 (by omega) w.npos w.sched0 (Or.inl (hB.runPh 0 hbeg ho))
  rcases hbusy with ⟨j, hjn, hjs, hr⟩ | ⟨j, hjn, hjs, hr⟩
  · obtain ⟨k, hk, he⟩ := hb M j hjn hjs hr
    have ht := hN k (by omega)
    rcases he with he | he | he <;> rw [he] at ht <;> cases ht
  · obtain ⟨k, hk, he⟩ := hh M j hjn hjs hr
    have ht := hN k (by omega)
    rcases he with he | he <;> rw [he] at ht <;> cases ht

/-- C03: in a fair infinite run whose top-level `run()` has begun, the top-level run ends -/
theorem fair_run_ends {c : Cfg} (hwf : c.wf = true) (r : InfRun c)
    (hbegun : ∃ i, (r.st i).pcB 0 ≠ .notBegun) (hb : FairBodies r) (hh : FairHandlers r) :
    ∃ i, (r.st i).pcB 0 = .over := by
  obtain ⟨N, hN⟩ := eventually_only_ticks hwf r
  obtain ⟨i0, hi0⟩ := hbegun
  exact ⟨max N i0, over_of_late hwf r hb hh hN (Nat.le_max_left _ _)
    (begun_later hwf r hi0 _ (Nat.le_max_right _ _))⟩

/-- C03: ... and from then on nothing but the passing of time ever happens -/
theorem fair_run_ends_for_good {c : Cfg} (hwf : c.wf = true) (r : InfRun c)
    (hbegun : ∃ i, (r.st i).pcB 0 ≠ .notBegun) (hb : FairBodies r) (hh : FairHandlers r) :
    ∃ N, ∀ i, N ≤ i → (r.st i).pcB 0 = .over ∧ isTick (r.ev i) = true := by
  obtain ⟨N, hN⟩ := eventually_only_ticks hwf r
  obtain ⟨i0, hi0⟩ := hbegun
  refine ⟨max N i0, fun i hi => ?_⟩
  have h1 : N ≤ i := Nat.le_trans (Nat.le_max_left _ _) hi
  have h2 : i0 ≤ i := Nat.le_trans (Nat.le_max_right _ _) hi
  exact ⟨over_of_late hwf r hb hh hN h1 (begun_later hwf r hi0 i h2), hN i h1⟩

/-! ### non-vacuity: a concrete fair infinite run

  One top-level scheduler `0` with one atomic job `1`.  `run()` begins, the job gets its slot, time passes while its
  body runs, the body ends, the main wait returns, `co_run` reacts (all jobs done: it leaves the loop), `_tidy_tasks`
  returns (nothing left), `co_shutdown` broadcasts, the handler of job `1` ends, the bounded wait returns: the run is
  over.  Then time passes for ever. -/

def exCfg : Cfg :=
  { n := 2, parent := fun _ => 0, isSched := fun j => j == 0, req := fun _ => [],
    critical := fun _ => false, forever := fun _ => false, window := fun _ => 0, timeout := fun _ => none,
    sdTimeout := fun _ => none, topPure := true }

def exEvs : List EvB :=
  [.runBegin, .grant 1, .tick 3, .bodyEnd 1 true, .waitReturn 0, .react 0, .tidyReturn 0 0, .hEnd 1, .sdWaitReturn 0 0]

def exEv (i : Nat) : EvB := if h : i < exEvs.length then exEvs[i] else .tick 1

def exSt : Nat → StB
  | 0 => StB.init
  | i + 1 => (stepB exCfg (exSt i) (exEv i)).getD (exSt i)

example : exCfg.wf = true := by decide

/-- the finite part is accepted and ends with the top-level run over -/
example : (acceptB exCfg StB.init exEvs).map (fun st => (st.pcB 0, st.a.now)) = some (.over, 3) := by decide

/-- the state after the finite part, `t` units of time later -/
def exFin (t : Nat) : StB := { exSt 9 with a := { (exSt 9).a with now := 3 + t } }

theorem exEv_late (i : Nat) (h : 9 ≤ i) : exEv i = .tick 1 := by
  unfold exEv
  rw [dif_neg]
  simp [exEvs]; omega

theorem exFin_step (t : Nat) : stepB exCfg (exFin t) (.tick 1) = some (exFin (t + 1)) := rfl

theorem exSt_late (t : Nat) : exSt (9 + t) = exFin t := by
  induction t with
  | zero => rfl
  | succ t ih =>
    show (stepB exCfg (exSt (9 + t)) (exEv (9 + t))).getD (exSt (9 + t)) = exFin (t + 1)
    rw [ih, exEv_late _ (by omega), exFin_step]
    rfl

theorem exSt_step (i : Nat) : stepB exCfg (exSt i) (exEv i) = some (exSt (i + 1)) := by
  by_cases h : i < 9
  · have hsome : (stepB exCfg (exSt i) (exEv i)).isSome = true := by
      revert i; decide
    show _ = some ((stepB exCfg (exSt i) (exEv i)).getD (exSt i))
    cases hs : stepB exCfg (exSt i) (exEv i) with
    | none => rw [hs] at hsome; cases hsome
    | some s => rfl
  · obtain ⟨t, rfl⟩ : ∃ t, i = 9 + t := ⟨i - 9, by omega⟩
    rw [exSt_late, exEv_late _ (by omega), show 9 + t + 1 = 9 + (t + 1) by omega, exSt_late]
    exact exFin_step t

def exRun : InfRun exCfg := { st := exSt, ev := exEv, init := rfl, step := exSt_step }

theorem exRun_fairBodies : FairBodies exRun := by
  intro i j hj hs hr
  have hj1 : j = 1 := by
    have : j = 0 ∨ j = 1 := by have : j < 2 := hj; omega
    rcases this with rfl | rfl
    · cases hs
    · rfl
  subst hj1
  refine ⟨3, ?_, Or.inl rfl⟩
  by_cases h : i < 9
  · have : ∀ i, i < 9 → (exSt i).a.ph 1 = .running → i ≤ 3 := by decide
    exact this i h hr
  · exfalso
    obtain ⟨t, rfl⟩ : ∃ t, i = 9 + t := ⟨i - 9, by omega⟩
    have hr' : (exSt (9 + t)).a.ph 1 = .running := hr
    rw [exSt_late] at hr'
    have : (exSt 9).a.ph 1 ≠ .running := by decide
    exact this hr'

theorem exRun_fairHandlers : FairHandlers exRun := by
  intro i j hj hs hr
  have hj1 : j = 1 := by
    have : j = 0 ∨ j = 1 := by have : j < 2 := hj; omega
    rcases this with rfl | rfl
    · cases hs
    · rfl
  subst hj1
  refine ⟨7, ?_, Or.inl rfl⟩
  by_cases h : i < 9
  · have : ∀ i, i < 9 → (exSt i).hph 1 = .hactive → i ≤ 7 := by decide
    exact this i h hr
  · exfalso
    obtain ⟨t, rfl⟩ : ∃ t, i = 9 + t := ⟨i - 9, by omega⟩
    have hr' : (exSt (9 + t)).hph 1 = .hactive := hr
    rw [exSt_late] at hr'
    have : (exSt 9).hph 1 ≠ .hactive := by decide
    exact this hr'

/-- the fairness hypotheses are not vacuous on this run: at some index a body is running, at some index a handler
    is active -/
example : (exRun.st 2).a.ph 1 = .running ∧ (exRun.st 7).hph 1 = .hactive := by decide

/-- the hypotheses of `fair_run_ends` / `fair_run_ends_for_good` are satisfiable together -/
example : ∃ (c : Cfg) (_ : c.wf = true) (r : InfRun c),
    (∃ i, (r.st i).pcB 0 ≠ .notBegun) ∧ FairBodies r ∧ FairHandlers r :=
  ⟨exCfg, by decide, exRun, ⟨1, by decide⟩, exRun_fairBodies, exRun_fairHandlers⟩

/-- … and the conclusion, on this run, is what one sees: over from index 9 on, only ticks from there -/
example : ∀ i, 9 ≤ i → (exRun.st i).pcB 0 = .over ∧ isTick (exRun.ev i) = true := by
  intro i hi
  obtain ⟨t, rfl⟩ : ∃ t, i = 9 + t := ⟨i - 9, by omega⟩
  refine ⟨?_, ?_⟩
  · show (exSt (9 + t)).pcB 0 = .over
    rw [exSt_late]
    show (exSt 9).pcB 0 = .over
    decide
  · show isTick (exEv (9 + t)) = true
    rw [exEv_late _ (by omega)]
    rfl

example : ∃ N, ∀ i, N ≤ i → (exRun.st i).pcB 0 = .over ∧ isTick (exRun.ev i) = true :=
  fair_run_ends_for_good (by decide) exRun ⟨1, by decide⟩ exRun_fairBodies exRun_fairHandlers

/-! ### bodies that never end by themselves -/

/-- weak fairness to job bodies, relative to the set `fin` of jobs whose body ends by itself: a running body of a job of
    `fin` eventually ends; a running body whose cancellation was requested (whatever the job) eventually ends or
    acknowledges the cancellation -/
def WeakFairBodies {c : Cfg} (fin : Nat → Bool) (r : InfRun c) : Prop :=
  ∀ i j, j < c.n → c.isSched j = false → (r.st i).a.ph j = .running → (fin j = true ∨ (r.st i).a.creq j = true) →
    ∃ k, i ≤ k ∧ (r.ev k = .bodyEnd j true ∨ r.ev k = .bodyEnd j false ∨ r.ev k = .cancelAck j)

/-- the passing of time changes neither the phase of a task nor the cancellation requests -/
theorem tick_keeps {c : Cfg} {st st' : StB} {d : Nat} (h : stepB c st (.tick d) = some st') :
    st'.a.ph = st.a.ph ∧ st'.a.creq = st.a.creq := by
  simp only [stepB] at h
  split at h
  · split at h
    · cases h
    · rename_i a' ha
      cases h
      simp only [stepA] at ha
      split at ha
      · cases ha; exact ⟨rfl, rfl⟩
      · cases ha
  · cases h

/-- from an index on which only ticks happen, phases and cancellation requests are frozen -/
theorem frozen_later {c : Cfg} (r : InfRun c) {N : Nat} (hN : ∀ i, N ≤ i → isTick (r.ev i) = true) :
    ∀ i, N ≤ i → (r.st i).a.ph = (r.st N).a.ph ∧ (r.st i).a.creq = (r.st N).a.creq := by
  intro i hi
  induction i with
  | zero =>
    have : N = 0 := by omega
    subst this; exact ⟨rfl, rfl⟩
  | succ i ih =>
    by_cases h : N = i + 1
    · subst h; exact ⟨rfl, rfl⟩
    · have hprev := ih (by omega)
      have ht := hN i (by omega)
      have hs := r.step i
      cases he : r.ev i with
      | tick d =>
        rw [he] at hs
        have hk := tick_keeps hs
        exact ⟨hk.1.trans hprev.1, hk.2.trans hprev.2⟩
      | _ => rw [he] at ht; cases ht

/-- C03: under weak fairness the top-level run ends, unless some job that never ends by itself is left running,
    un-cancelled, for ever (which the library's contract allows only for trees that are not admissible: a never-ending
    job that is not `forever`, or a scheduler without timeout whose jobs are all never-ending) -/
theorem fair_run_ends_or_blocked {c : Cfg} (hwf : c.wf = true) (fin : Nat → Bool) (r : InfRun c)
    (hbegun : ∃ i, (r.st i).pcB 0 ≠ .notBegun) (hb : WeakFairBodies fin r) (hh : FairHandlers r) :
    (∃ i, (r.st i).pcB 0 = .over) ∨
    (∃ N j, j < c.n ∧ c.isSched j = false ∧ fin j = false ∧
       ∀ i, N ≤ i → (r.st i).a.ph j = .running ∧ (r.st i).a.creq j = false) := by
  obtain ⟨N, hN⟩ := eventually_only_ticks hwf r
  obtain ⟨i0, hi0⟩ := hbegun
  have hNM : N ≤ max N i0 := Nat.le_max_left _ _
  have hbeg := begun_later hwf r hi0 (max N i0) (Nat.le_max_right _ _)
  generalize max N i0 = M at hNM hbeg
  by_cases ho : (r.st M).pcB 0 = .over
  · exact Or.inl ⟨M, ho⟩
  · have hM : ∀ i, M ≤ i → isTick (r.ev i) = true := fun i hi => hN i (by omega)
    have hq := quiet_of_tick r (hN M hNM)
    have hA := run_invA hwf r M
    have hB := run_invB hwf r M
    have hP := run_invP hwf r M
    have hQ := (ProgB.quietB_iff c (r.st M)).1 hq
    have w := CoreA.wf_of hwf
    have hbusy := busy_below w hA hB hP hQ c.n 0 (by omega) w.npos w.sched0 (Or.inl (hB.runPh 0 hbeg ho))
    rcases hbusy with ⟨j, hjn, hjs, hr⟩ | ⟨j, hjn, hjs, hr⟩
    · by_cases hf : fin j = true ∨ (r.st M).a.creq j = true
      · exfalso
        obtain ⟨k, hk, he⟩ := hb M j hjn hjs hr hf
        have ht := hM k hk
        rcases he with he | he | he <;> rw [he] at ht <;> cases ht
      · have hf1 : fin j = false := by
          cases h : fin j
          · rfl
          · exact absurd (Or.inl h) hf
        have hf2 : (r.st M).a.creq j = false := by
          cases h : (r.st M).a.creq j
          · rfl
          · exact absurd (Or.inr h) hf
        refine Or.inr ⟨M, j, hjn, hjs, hf1, fun i hi => ?_⟩
        obtain ⟨h1, h2⟩ := frozen_later r hM i hi
        rw [h1, h2]
        exact ⟨hr, hf2⟩
    · exfalso
      obtain ⟨k, hk, he⟩ := hh M j hjn hjs hr
      have ht := hM k hk
      rcases he with he | he <;> rw [he] at ht <;> cases ht

/-- `FairBodies` is weak fairness with every body ending by itself -/
theorem weak_of_fair {c : Cfg} {r : InfRun c} (hb : FairBodies r) : WeakFairBodies (fun _ => true) r :=
  fun i j hjn hjs hr _ => hb i j hjn hjs hr

/-- `fair_run_ends` is the special case `fin = fun _ => true` of `fair_run_ends_or_blocked` -/
theorem fair_run_ends_of_weak {c : Cfg} (hwf : c.wf = true) (r : InfRun c)
    (hbegun : ∃ i, (r.st i).pcB 0 ≠ .notBegun) (hb : FairBodies r) (hh : FairHandlers r) :
    ∃ i, (r.st i).pcB 0 = .over := by
  rcases fair_run_ends_or_blocked hwf (fun _ => true) r hbegun (weak_of_fair hb) hh with h | ⟨_, _, _, _, hf, _⟩
  · exact h
  · cases hf

/-! ### non-vacuity, second run: a never-ending `forever` job, cancelled when the run leaves its loop

  Scheduler `0` with job `1` (finite) and job `2` (`forever`; its body never ends by itself: `fin 2 = false`).  Both
  start, time passes, `1` ends, the main wait returns, `co_run` reacts: all finite jobs are done, it leaves the loop
  and cancels `2`; `2` acknowledges; `_tidy_tasks` returns; `co_shutdown` broadcasts; both handlers end; the bounded
  wait returns: the run is over.  Then time passes for ever. -/

def ex2Cfg : Cfg :=
  { n := 3, parent := fun _ => 0, isSched := fun j => j == 0, req := fun _ => [],
    critical := fun _ => false, forever := fun j => j == 2, window := fun _ => 0, timeout := fun _ => none,
    sdTimeout := fun _ => none, topPure := true }

def ex2Fin (j : Nat) : Bool := j == 1

def ex2Evs : List EvB :=
  [.runBegin, .grant 1, .grant 2, .tick 3, .bodyEnd 1 true, .waitReturn 0, .react 0, .cancelAck 2, .tidyReturn 0 0,
   .hEnd 1, .hEnd 2, .sdWaitReturn 0 0]

def ex2Ev (i : Nat) : EvB := if h : i < ex2Evs.length then ex2Evs[i] else .tick 1

def ex2St : Nat → StB
  | 0 => StB.init
  | i + 1 => (stepB ex2Cfg (ex2St i) (ex2Ev i)).getD (ex2St i)

example : ex2Cfg.wf = true := by decide

example : (acceptB ex2Cfg StB.init ex2Evs).map (fun st => (st.pcB 0, st.a.now)) = some (.over, 3) := by decide

def ex2FinSt (t : Nat) : StB := { ex2St 12 with a := { (ex2St 12).a with now := 3 + t } }

theorem ex2Ev_late (i : Nat) (h : 12 ≤ i) : ex2Ev i = .tick 1 := by
  unfold ex2Ev
  rw [dif_neg]
  simp [ex2Evs]; omega

theorem ex2Fin_step (t : Nat) : stepB ex2Cfg (ex2FinSt t) (.tick 1) = some (ex2FinSt (t + 1)) := rfl

theorem ex2St_late (t : Nat) : ex2St (12 + t) = ex2FinSt t := by
  induction t with
  | zero => rfl
  | succ t ih =>
    show (stepB ex2Cfg (ex2St (12 + t)) (ex2Ev (12 + t))).getD (ex2St (12 + t)) = ex2FinSt (t + 1)
    rw [ih, ex2Ev_late _ (by omega), ex2Fin_step]
    rfl

theorem ex2St_step (i : Nat) : stepB ex2Cfg (ex2St i) (ex2Ev i) = some (ex2St (i + 1)) := by
  by_cases h : i < 12
  · have hsome : (stepB ex2Cfg (ex2St i) (ex2Ev i)).isSome = true := by
      revert i; decide
    show _ = some ((stepB ex2Cfg (ex2St i) (ex2Ev i)).getD (ex2St i))
    cases hs : stepB ex2Cfg (ex2St i) (ex2Ev i) with
    | none => rw [hs] at hsome; cases hsome
    | some s => rfl
  · obtain ⟨t, rfl⟩ : ∃ t, i = 12 + t := ⟨i - 12, by omega⟩
    rw [ex2St_late, ex2Ev_late _ (by omega), show 12 + t + 1 = 12 + (t + 1) by omega, ex2St_late]
    exact ex2Fin_step t

def ex2Run : InfRun ex2Cfg := { st := ex2St, ev := ex2Ev, init := rfl, step := ex2St_step }

theorem ex2_cases {j : Nat} (hj : j < ex2Cfg.n) (hs : ex2Cfg.isSched j = false) : j = 1 ∨ j = 2 := by
  have : j = 0 ∨ j = 1 ∨ j = 2 := by have : j < 3 := hj; omega
  rcases this with rfl | h
  · cases hs
  · exact h

/-- job `1` ends by itself (index 4); job `2` is only owed an end once its cancellation is requested (index 7) -/
theorem ex2Run_weakFair : WeakFairBodies ex2Fin ex2Run := by
  intro i j hj hs hr hf
  have hlate : ∀ j, 12 ≤ i → (ex2Run.st i).a.ph j = .running → (j = 1 ∨ j = 2) → False := by
    intro j h hr hj
    obtain ⟨t, rfl⟩ : ∃ t, i = 12 + t := ⟨i - 12, by omega⟩
    have hr' : (ex2St (12 + t)).a.ph j = .running := hr
    rw [ex2St_late] at hr'
    have : ∀ j, (j = 1 ∨ j = 2) → (ex2St 12).a.ph j ≠ .running := by
      intro j hj; rcases hj with rfl | rfl <;> decide
    exact this j hj hr'
  rcases ex2_cases hj hs with rfl | rfl
  · refine ⟨4, ?_, Or.inl rfl⟩
    by_cases h : i < 12
    · have : ∀ i, i < 12 → (ex2St i).a.ph 1 = .running → i ≤ 4 := by decide
      exact this i h hr
    · exact (hlate 1 (by omega) hr (Or.inl rfl)).elim
  · refine ⟨7, ?_, Or.inr (Or.inr rfl)⟩
    by_cases h : i < 12
    · have : ∀ i, i < 12 → (ex2St i).a.ph 2 = .running → i ≤ 7 := by decide
      exact this i h hr
    · exact (hlate 2 (by omega) hr (Or.inr rfl)).elim

theorem ex2Run_fairHandlers : FairHandlers ex2Run := by
  intro i j hj hs hr
  have hlate : ∀ j, 12 ≤ i → (ex2Run.st i).hph j = .hactive → (j = 1 ∨ j = 2) → False := by
    intro j h hr hj
    obtain ⟨t, rfl⟩ : ∃ t, i = 12 + t := ⟨i - 12, by omega⟩
    have hr' : (ex2St (12 + t)).hph j = .hactive := hr
    rw [ex2St_late] at hr'
    have : ∀ j, (j = 1 ∨ j = 2) → (ex2St 12).hph j ≠ .hactive := by
      intro j hj; rcases hj with rfl | rfl <;> decide
    exact this j hj hr'
  rcases ex2_cases hj hs with rfl | rfl
  · refine ⟨9, ?_, Or.inl rfl⟩
    by_cases h : i < 12
    · have : ∀ i, i < 12 → (ex2St i).hph 1 = .hactive → i ≤ 9 := by decide
      exact this i h hr
    · exact (hlate 1 (by omega) hr (Or.inl rfl)).elim
  · refine ⟨10, ?_, Or.inl rfl⟩
    by_cases h : i < 12
    · have : ∀ i, i < 12 → (ex2St i).hph 2 = .hactive → i ≤ 10 := by decide
      exact this i h hr
    · exact (hlate 2 (by omega) hr (Or.inr rfl)).elim

/-- the run is NOT fair in the strong sense: job `2` runs un-cancelled from index 3 to index 6 and the weak
    hypothesis asks nothing then; it is cancelled at index 7 (`react 0`), and only then owed an acknowledgement -/
example : (ex2Run.st 3).a.ph 2 = .running ∧ (ex2Run.st 3).a.creq 2 = false ∧ ex2Fin 2 = false ∧
    (ex2Run.st 7).a.ph 2 = .running ∧ (ex2Run.st 7).a.creq 2 = true ∧ ex2Run.ev 7 = .cancelAck 2 := by
  refine ⟨by decide, by decide, rfl, by decide, by decide, rfl⟩

/-- the hypotheses of `fair_run_ends_or_blocked` hold of this run, with a job outside `fin` -/
example : ∃ (c : Cfg) (_ : c.wf = true) (fin : Nat → Bool) (r : InfRun c),
    (∃ j, j < c.n ∧ c.isSched j = false ∧ fin j = false) ∧
    (∃ i, (r.st i).pcB 0 ≠ .notBegun) ∧ WeakFairBodies fin r ∧ FairHandlers r :=
  ⟨ex2Cfg, by decide, ex2Fin, ex2Run, ⟨2, by decide, rfl, rfl⟩, ⟨1, by decide⟩, ex2Run_weakFair, ex2Run_fairHandlers⟩

/-- … and of the two alternatives of its conclusion it is the first that holds: the run is over at index 12 -/
example : (ex2Run.st 12).pcB 0 = .over := by decide

/-- … the second one does not: nobody is left running for ever -/
example : ¬ ∃ N j, j < ex2Cfg.n ∧ ex2Cfg.isSched j = false ∧ ex2Fin j = false ∧
    ∀ i, N ≤ i → (ex2Run.st i).a.ph j = .running ∧ (ex2Run.st i).a.creq j = false := by
  rintro ⟨N, j, hj, hs, _, hall⟩
  have h := (hall (12 + N) (by omega)).1
  have h' : (ex2St (12 + N)).a.ph j = .running := h
  rw [ex2St_late] at h'
  have : ∀ j, (j = 1 ∨ j = 2) → (ex2St 12).a.ph j ≠ .running := by
    intro j hj; rcases hj with rfl | rfl <;> decide
  exact this j (ex2_cases hj hs) h'

/-! ### the second alternative does occur: the only job never ends, the scheduler has no timeout

  `exCfg` again (scheduler `0`, job `1`), `fin = fun _ => false`: `run()` begins, the job starts, then time passes for
  ever.  The run is weakly fair (no cancellation is ever requested, no handler ever active) and never over. -/

def ex3Ev (i : Nat) : EvB := if i = 0 then .runBegin else if i = 1 then .grant 1 else .tick 1

def ex3St : Nat → StB
  | 0 => StB.init
  | i + 1 => (stepB exCfg (ex3St i) (ex3Ev i)).getD (ex3St i)

def ex3FinSt (t : Nat) : StB := { ex3St 2 with a := { (ex3St 2).a with now := t } }

theorem ex3Ev_late (i : Nat) (h : 2 ≤ i) : ex3Ev i = .tick 1 := by
  unfold ex3Ev
  rw [if_neg (by omega), if_neg (by omega)]

theorem ex3Fin_step (t : Nat) : stepB exCfg (ex3FinSt t) (.tick 1) = some (ex3FinSt (t + 1)) := rfl

theorem ex3St_late (t : Nat) : ex3St (2 + t) = ex3FinSt t := by
  induction t with
  | zero => rfl
  | succ t ih =>
    show (stepB exCfg (ex3St (2 + t)) (ex3Ev (2 + t))).getD (ex3St (2 + t)) = ex3FinSt (t + 1)
    rw [ih, ex3Ev_late _ (by omega), ex3Fin_step]
    rfl

theorem ex3St_step (i : Nat) : stepB exCfg (ex3St i) (ex3Ev i) = some (ex3St (i + 1)) := by
  by_cases h : i < 2
  · have hsome : (stepB exCfg (ex3St i) (ex3Ev i)).isSome = true := by
      revert i; decide
    show _ = some ((stepB exCfg (ex3St i) (ex3Ev i)).getD (ex3St i))
    cases hs : stepB exCfg (ex3St i) (ex3Ev i) with
    | none => rw [hs] at hsome; cases hsome
    | some s => rfl
  · obtain ⟨t, rfl⟩ : ∃ t, i = 2 + t := ⟨i - 2, by omega⟩
    rw [ex3St_late, ex3Ev_late _ (by omega), show 2 + t + 1 = 2 + (t + 1) by omega, ex3St_late]
    exact ex3Fin_step t

def ex3Run : InfRun exCfg := { st := ex3St, ev := ex3Ev, init := rfl, step := ex3St_step }

theorem ex3_state (i : Nat) : (ex3Run.st i).a.creq 1 = false ∧ (ex3Run.st i).hph 1 = .hnone ∧
    (ex3Run.st i).pcB 0 ≠ .over ∧ (2 ≤ i → (ex3Run.st i).a.ph 1 = .running) := by
  by_cases h : i < 2
  · have : ∀ i, i < 2 → (ex3St i).a.creq 1 = false ∧ (ex3St i).hph 1 = .hnone ∧ (ex3St i).pcB 0 ≠ .over := by
      decide
    obtain ⟨h1, h2, h3⟩ := this i h
    exact ⟨h1, h2, h3, fun h' => by omega⟩
  · obtain ⟨t, rfl⟩ : ∃ t, i = 2 + t := ⟨i - 2, by omega⟩
    show (ex3St (2 + t)).a.creq 1 = false ∧ (ex3St (2 + t)).hph 1 = .hnone ∧
      (ex3St (2 + t)).pcB 0 ≠ .over ∧ (2 ≤ 2 + t → (ex3St (2 + t)).a.ph 1 = .running)
    rw [ex3St_late]
    show (ex3St 2).a.creq 1 = false ∧ (ex3St 2).hph 1 = .hnone ∧
      (ex3St 2).pcB 0 ≠ .over ∧ (2 ≤ 2 + t → (ex3St 2).a.ph 1 = .running)
    exact ⟨by decide, by decide, by decide, fun _ => by decide⟩

theorem ex_cases {j : Nat} (hj : j < exCfg.n) (hs : exCfg.isSched j = false) : j = 1 := by
  have : j = 0 ∨ j = 1 := by have : j < 2 := hj; omega
  rcases this with rfl | h
  · cases hs
  · exact h

/-- weakly fair, handlers fair, begun, never over: the first alternative of `fair_run_ends_or_blocked` fails and the
    second holds (job `1`, from index 2 on) — the disjunction cannot be dropped -/
example : WeakFairBodies (fun _ => false) ex3Run ∧ FairHandlers ex3Run ∧ (ex3Run.st 1).pcB 0 ≠ .notBegun ∧
    (¬ ∃ i, (ex3Run.st i).pcB 0 = .over) ∧
    (∀ i, 2 ≤ i → (ex3Run.st i).a.ph 1 = .running ∧ (ex3Run.st i).a.creq 1 = false) := by
  refine ⟨?_, ?_, by decide, ?_, ?_⟩
  · intro i j hj hs hr hf
    have := ex_cases hj hs; subst this
    rcases hf with hf | hf
    · cases hf
    · rw [(ex3_state i).1] at hf; cases hf
  · intro i j hj hs hr
    have := ex_cases hj hs; subst this
    rw [(ex3_state i).2.1] at hr; cases hr
  · rintro ⟨i, hi⟩
    exact (ex3_state i).2.2.1 hi
  · intro i hi
    exact ⟨(ex3_state i).2.2.2 hi, (ex3_state i).1⟩

end AJ.Proofs.LiveB
