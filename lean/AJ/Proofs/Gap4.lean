/-
  Gap4 — statements the audit found missing for C18, C19, C20 (static models).
  Namespaces to open to read the statements: `AJ`, `AJ.Proofs.C16` (`TreeAt`), `AJ.Proofs.C18` (`FlatAt`),
  `AJ.Proofs.Gap4` (`openStack`, `SOp`, `applyOp`).
-/
import AJ.Spec
import AJ.Proofs.C15
import AJ.Proofs.C16
import AJ.Proofs.C18
import AJ.Proofs.C19
import AJ.Proofs.C20
namespace AJ.Proofs.Gap4
open AJ AJ.Proofs.C16 AJ.Proofs.C18

-- some hypotheses of the (fixed) statements below turn out not to be needed by the proofs
set_option linter.unusedVariables false

/-! ## 1. (C20) the listing enumerates the tree exactly once -/

/-- `a` is the root `s` or one of the jobs of its subtree -/
def In (t : T) (s a : Nat) : Prop := a = s ∨ Desc t s a

theorem In.root (t : T) (s : Nat) : In t s s := Or.inl rfl

theorem In.child {t : T} {s a k : Nat} (h : In t s a) (ha : t.isSched a = true) (hk : k ∈ t.mem a) : In t s k := by
  rcases h with rfl | h
  · exact Or.inr (Desc.child ha hk)
  · exact Or.inr (C16.desc_snoc h ha hk)

theorem desc_trans {t : T} {a b c : Nat} (h1 : Desc t a b) (h2 : Desc t b c) : Desc t a c := by
  induction h1 with
  | child hs hk => exact Desc.deeper hs hk h2
  | deeper hs hk _ ih => exact Desc.deeper hs hk (ih h2)

theorem In.desc {t : T} {s a x : Nat} (h : In t s a) (hx : Desc t a x) : In t s x := by
  rcases h with rfl | h
  · exact Or.inr hx
  · exact Or.inr (desc_trans h hx)

/-- in a tree, ids grow along the nesting -/
theorem desc_lt {t : T} {s : Nat} (htree : TreeAt t s) {a x : Nat} (ha : In t s a) (h : Desc t a x) : a < x := by
  induction h with
  | child hs hk => exact (htree.lt _ ha _ hk).1
  | deeper hs hk _ ih =>
    have h1 := (htree.lt _ ha _ hk).1
    have h2 := ih (ha.child hs hk)
    omega

/-- two schedulers of a tree that contain the same job (at any depth) are nested in one another -/
theorem desc_comparable {t : T} {s : Nat} (htree : TreeAt t s) :
    ∀ (x a b : Nat), In t s a → In t s b → Desc t a x → Desc t b x → a = b ∨ Desc t a b ∨ Desc t b a := by
  intro x
  induction x using Nat.strongRecOn with
  | _ x ih =>
    intro a b ha hb hax hbx
    obtain ⟨p, hp1, hp2, hp3⟩ := C16.desc_parent hax
    obtain ⟨q, hq1, hq2, hq3⟩ := C16.desc_parent hbx
    have hpIn : In t s p := by
      rcases hp1 with rfl | hp1
      · exact ha
      · exact ha.desc hp1
    have hqIn : In t s q := by
      rcases hq1 with rfl | hq1
      · exact hb
      · exact hb.desc hq1
    have hpq : p = q := htree.unique p q x hpIn hqIn hp3 hq3
    subst hpq
    rcases hp1 with rfl | hp1
    · rcases hq1 with rfl | hq1
      · exact Or.inl rfl
      · exact Or.inr (Or.inr hq1)
    · rcases hq1 with rfl | hq1
      · exact Or.inr (Or.inl hp1)
      · exact ih p (htree.lt p hpIn x hp3).1 a b ha hb hp1 hq1

/-- a member of `s` is not nested in another member of `s` -/
theorem sibling_not_desc {t : T} {s : Nat} (htree : TreeAt t s) (hs : t.isSched s = true) {k k' : Nat}
    (hk : k ∈ t.mem s) (hk' : k' ∈ t.mem s) : ¬ Desc t k k' := by
  intro hd
  have hkIn : In t s k := (In.root t s).child hs hk
  obtain ⟨p, hp1, hp2, hp3⟩ := C16.desc_parent hd
  have hpIn : In t s p := by
    rcases hp1 with rfl | hp1
    · exact hkIn
    · exact hkIn.desc hp1
  have hps : p = s := htree.unique p s k' hpIn (Or.inl rfl) hp3 hk'
  subst hps
  have h1 := (htree.lt p (Or.inl rfl) k hk).1
  rcases hp1 with hp1 | hp1
  · omega
  · have := desc_lt htree hkIn hp1
    omega

theorem listing_exact_aux (t : T) (fuel : Nat) : ∀ (s : Nat) (l : List Nat), t.isSched s = true → TreeAt t s →
    listing t fuel s = .ok l → l.Nodup ∧ ∀ x, x ∈ l ↔ Desc t s x := by
  induction fuel with
  | zero => intro s l _ _ h; simp [listing] at h
  | succ fuel ihf =>
    intro s l hs htree h
    rw [C15.listing_succ] at h
    cases ht : topo t s with
    | error e => rw [ht] at h; cases h
    | ok lt =>
      rw [ht] at h
      have hperm := C15.topo_perm_aux t s [] lt ht
      have hltnd := C15.topo_nodup t s [] lt ht
      have key : ∀ (js : List Nat), js.Nodup → (∀ k ∈ js, k ∈ t.mem s) → ∀ acc r,
          js.foldlM (C15.listStep t fuel) acc = .ok r →
          ∃ ext, r = acc ++ ext ∧ ext.Nodup ∧ ∀ x, x ∈ ext ↔ ∃ k ∈ js, x = k ∨ Desc t k x := by
        intro js
        induction js with
        | nil =>
          intro _ _ acc r hr
          simp only [List.foldlM_nil] at hr
          cases hr
          exact ⟨[], by simp, List.nodup_nil, by simp⟩
        | cons k js ih =>
          intro hnd hjs acc r hr
          obtain ⟨mid, hmid, hr'⟩ := C15.foldlM_cons_ok _ _ _ _ _ hr
          have hk : k ∈ t.mem s := hjs k List.mem_cons_self
          have hkIn : In t s k := (In.root t s).child hs hk
          have hnd' := List.nodup_cons.1 hnd
          obtain ⟨ext', e1, e2, e3⟩ := ih hnd'.2 (fun k' hk' => hjs k' (List.mem_cons_of_mem _ hk')) mid r hr'
          -- the block contributed by `k`
          have hblock : ∃ blk, mid = acc ++ blk ∧ blk.Nodup ∧ ∀ x, x ∈ blk ↔ (x = k ∨ Desc t k x) := by
            rcases C15.listStep_ok t fuel acc k mid hmid with ⟨hks, sub', hsub', rfl⟩ | ⟨hka, rfl⟩
            · obtain ⟨n1, n2⟩ := ihf k sub' hks (htree.sub hs hk) hsub'
              refine ⟨k :: sub', rfl, List.nodup_cons.2 ⟨?_, n1⟩, ?_⟩
              · intro hmem
                have := desc_lt htree hkIn ((n2 k).1 hmem)
                omega
              · intro x; rw [List.mem_cons, n2 x]
            · refine ⟨[k], rfl, by simp, ?_⟩
              intro x
              constructor
              · intro hx; left; simpa using hx
              · rintro (rfl | hd)
                · simp
                · have := C16.desc_sched hd
                  rw [hka] at this; cases this
          obtain ⟨blk, b1, b2, b3⟩ := hblock
          refine ⟨blk ++ ext', by rw [e1, b1, List.append_assoc], ?_, ?_⟩
          · rw [List.nodup_append]
            refine ⟨b2, e2, ?_⟩
            intro x hx y hy hxy
            subst hxy
            rw [b3] at hx
            rw [e3] at hy
            obtain ⟨k', hk'js, hk'x⟩ := hy
            have hk' : k' ∈ t.mem s := hjs k' (List.mem_cons_of_mem _ hk'js)
            have hk'In : In t s k' := (In.root t s).child hs hk'
            have hne : k ≠ k' := by rintro rfl; exact hnd'.1 hk'js
            rcases hx with rfl | hx
            · rcases hk'x with rfl | hk'x
              · exact hne rfl
              · exact sibling_not_desc htree hs hk' hk hk'x
            · rcases hk'x with rfl | hk'x
              · exact sibling_not_desc htree hs hk hk' hx
              · rcases desc_comparable htree x k k' hkIn hk'In hx hk'x with h | h | h
                · exact hne h
                · exact sibling_not_desc htree hs hk hk' h
                · exact sibling_not_desc htree hs hk' hk h
          · intro x
            rw [List.mem_append, b3, e3]
            constructor
            · rintro (hx | ⟨k', hk', hx⟩)
              · exact ⟨k, List.mem_cons_self, hx⟩
              · exact ⟨k', List.mem_cons_of_mem _ hk', hx⟩
            · rintro ⟨k', hk', hx⟩
              rcases List.mem_cons.1 hk' with rfl | hk'
              · exact Or.inl hx
              · exact Or.inr ⟨k', hk', hx⟩
      obtain ⟨ext, e1, e2, e3⟩ := key lt hltnd (fun k hk => hperm.mem_iff.1 hk) [] l h
      simp only [List.nil_append] at e1
      subst e1
      refine ⟨e2, ?_⟩
      intro x
      rw [e3]
      constructor
      · rintro ⟨k, hk, rfl | hx⟩
        · exact Desc.child hs (hperm.mem_iff.1 hk)
        · exact Desc.deeper hs (hperm.mem_iff.1 hk) hx
      · intro hd
        cases hd with
        | child _ hk => exact ⟨x, hperm.mem_iff.2 hk, Or.inl rfl⟩
        | deeper _ hk hd' => exact ⟨_, hperm.mem_iff.2 hk, Or.inr hd'⟩

/-- C20 ("exactly one" clauses, and `list()`): on a tree, the listing of scheduler `s` contains every job of the
    subtree of `s` (at any depth) exactly once, and nothing else. -/
theorem listing_exact (t : T) (fuel s : Nat) (l : List Nat) (hs : t.isSched s = true) (htree : TreeAt t s)
    (hnd : ∀ s', (s' = s ∨ Desc t s s') → (t.mem s').Nodup) (h : listing t fuel s = .ok l) :
    l.Nodup ∧ ∀ x, x ∈ l ↔ Desc t s x := by
  exact listing_exact_aux t fuel s l hs htree h

/-! ## 2. (C20) nesting of the document = nesting of the tree -/

/-- the clusters open after a prefix, innermost first -/
def openStack : List Nat → List Item → List Nat
  | st, [] => st
  | st, .openCluster j :: r => openStack (j :: st) r
  | st, .close :: r => openStack st.tail r
  | st, _ :: r => openStack st r

/-- walking the items with the stack of open clusters (`r` = the scheduler exported): every node and every cluster
    is a member of the innermost open cluster, every invisible node is that of the innermost open cluster -/
def nestOk (t : T) (r : Nat) : List Nat → List Item → Prop
  | _, [] => True
  | st, .node x :: rest => x ∈ t.mem (st.head?.getD r) ∧ nestOk t r st rest
  | st, .openCluster x :: rest => x ∈ t.mem (st.head?.getD r) ∧ nestOk t r (x :: st) rest
  | st, .close :: rest => nestOk t r st.tail rest
  | st, .holder x :: rest => st.head? = some x ∧ nestOk t r st rest
  | st, .edge _ _ _ _ :: rest => nestOk t r st rest

theorem nestOk_edges (t : T) (r : Nat) (es : List Item) (h : ∀ i ∈ es, C20.GoodEdge t i) (st : List Nat)
    (rest : List Item) (hr : nestOk t r st rest) : nestOk t r st (es ++ rest) := by
  induction es with
  | nil => exact hr
  | cons e es ih =>
    have he := h e (by simp)
    have := ih (fun i hi => h i (by simp [hi]))
    cases e with
    | edge a b c d => exact this
    | node _ => simp [C20.GoodEdge] at he
    | openCluster _ => simp [C20.GoodEdge] at he
    | close => simp [C20.GoodEdge] at he
    | holder _ => simp [C20.GoodEdge] at he

theorem nestOk_holderOf (t : T) (r : Nat) (anch : List Nat) (j : Nat) (st : List Nat) (rest : List Item)
    (hr : nestOk t r (j :: st) rest) : nestOk t r (j :: st) (holderOf t anch j ++ rest) := by
  unfold holderOf
  split
  · exact ⟨rfl, hr⟩
  · exact hr

/-- the items of scheduler `s` form a block: they are well nested below `s`, and leave the stack unchanged -/
theorem dotBodyWith_nestOk (t : T) (anch : List Nat) (F fuel : Nat) : ∀ (s : Nat) (items : List Item),
    dotBodyWith t anch F fuel s = .ok items →
    ∀ (r : Nat) (st : List Nat) (rest : List Item), st.head?.getD r = s → nestOk t r st rest →
      nestOk t r st (items ++ rest) := by
  induction fuel with
  | zero => intro s items h; simp [dotBodyWith] at h
  | succ n ih =>
    intro s items h r st rest hst
    obtain ⟨l0, hl0, hf⟩ := C20.dotBodyWith_succ t anch F n s items h
    have hsub := C15.topo_subset t s [] l0 hl0
    revert rest
    refine C20.foldlM_inv_mem _
      (fun (a : List Item) => ∀ rest, nestOk t r st rest → nestOk t r st (a ++ rest))
      l0 ?_ [] items (by intro rest hr; exact hr) hf
    intro j hj a a' hq hs rest hr
    have hjm : j ∈ t.mem (st.head?.getD r) := by rw [hst]; exact hsub j hj
    obtain ⟨es, hes, hcase⟩ := C20.dotBodyWith_step t anch F n j a a' hs
    obtain ⟨_, hg⟩ := C20.edgesOf_spec t F j es hes
    rcases hcase with ⟨hjs, sub, hsub', rfl⟩ | ⟨hjs, rfl⟩
    · have e : a ++ Item.openCluster j :: holderOf t anch j ++ sub ++ Item.close :: es ++ rest =
          a ++ (Item.openCluster j :: (holderOf t anch j ++ (sub ++ (Item.close :: (es ++ rest))))) := by simp
      rw [e]
      apply hq
      refine ⟨hjm, ?_⟩
      apply nestOk_holderOf
      apply ih j sub hsub' r (j :: st) _ rfl
      exact nestOk_edges t r es hg st rest hr
    · have e : a ++ Item.node j :: es ++ rest = a ++ (Item.node j :: (es ++ rest)) := by simp
      rw [e]
      apply hq
      exact ⟨hjm, nestOk_edges t r es hg st rest hr⟩

theorem nestOk_split (t : T) (r : Nat) : ∀ (pre : List Item) (st : List Nat) (i : Item) (post : List Item),
    nestOk t r st (pre ++ i :: post) →
      (∀ x, (i = .node x ∨ i = .openCluster x) → x ∈ t.mem ((openStack st pre).head?.getD r)) ∧
      (∀ x, i = .holder x → (openStack st pre).head? = some x) := by
  intro pre
  induction pre with
  | nil =>
    intro st i post h
    simp only [List.nil_append] at h
    constructor
    · rintro x (rfl | rfl)
      · exact h.1
      · exact h.1
    · rintro x rfl
      exact h.1
  | cons p pre ih =>
    intro st i post h
    cases p with
    | node y => exact ih st i post h.2
    | openCluster y => exact ih (y :: st) i post h.2
    | close => exact ih st.tail i post h
    | holder y => exact ih st i post h.2
    | edge a b c d => exact ih st i post h

/-- C20 (nesting of the document = nesting of the tree): in the items of `dot_format()` on `s`, every node and every
    cluster is a direct member of the innermost cluster open at that point (of `s` itself when none is open), and
    every invisible node is that of the innermost open cluster. -/
theorem dotBody_parent (t : T) (F fuel s : Nat) (items : List Item) (h : dotBody t F fuel s = .ok items) :
    ∀ pre i post, items = pre ++ i :: post →
      (∀ x, (i = .node x ∨ i = .openCluster x) → x ∈ t.mem ((openStack [] pre).head?.getD s)) ∧
      (∀ x, i = .holder x → (openStack [] pre).head? = some x) := by
  intro pre i post e
  have hW := C20.dotBody_with t F fuel s items h
  have := dotBodyWith_nestOk t _ F fuel s items hW s [] [] rfl trivial
  rw [List.append_nil, e] at this
  exact nestOk_split t s pre [] i post this

/-! ## 3. (C19) registration through the API statements -/

/-- `s.add(x)` registers the jobs `x` stands for (`Sequence._flatten`) in `s`: it is `register`, whose effect
    `C19.register_spec` describes (C19, "add() registers") -/
theorem add_mem (h : Heap) (s : Nat) (x : Arg) :
    interp h (.add s x) = (register h (some s) (flattenSeq h [x]), none) := by
  rfl

/-- `s.update(xs)` registers the jobs `xs` stand for in `s`: it is `register` (C19, "update() registers") -/
theorem update_mem (h : Heap) (s : Nat) (xs : List Arg) :
    interp h (.update s xs) = (register h (some s) (flattenSeq h xs), none) := by
  rfl

/-- what `Sequence(...)` evaluates to: a heap with the same schedulers, then the registration -/
theorem newSeq_eq (h : Heap) (q : Nat) (items : List Arg) (r : Arg) (sch : Option Nat) :
    ∃ h2 : Heap, h2.mem = h.mem ∧
      interp h (.newSeq q items r sch) = (register (h2.setSeqSched q sch) sch (flattenSeq h items), none) := by
  have hcm := C19.chain_mem ((h.setSeqJobs q (flattenSeq h items)).setSeqPending q []) none (flattenSeq h items)
  cases hjs : flattenSeq h items with
  | nil =>
    rw [hjs] at hcm
    refine ⟨(chain ((h.setSeqJobs q []).setSeqPending q []) none []).setSeqPending q
      ((chain ((h.setSeqJobs q []).setSeqPending q []) none []).seqPending q ++
        resolves (chain ((h.setSeqJobs q []).setSeqPending q []) none []) [r]), ?_, ?_⟩
    · rw [C19.setSeqPending_mem, hcm]; rfl
    · simp only [interp]; rw [hjs]
  | cons j0 rest =>
    rw [hjs] at hcm
    have hadd := ((C19.req_add_aux j0).1
      (chain ((h.setSeqJobs q (j0 :: rest)).setSeqPending q []) none (j0 :: rest)) r).1
    have hm := C19.reqArg_mem j0 false
      (chain ((h.setSeqJobs q (j0 :: rest)).setSeqPending q []) none (j0 :: rest)) r
    refine ⟨(reqArg j0 false (chain ((h.setSeqJobs q (j0 :: rest)).setSeqPending q []) none (j0 :: rest)) r).1,
      ?_, ?_⟩
    · rw [hm, hcm]; rfl
    · simp only [interp]; rw [hjs]
      simp only
      split
      · rename_i h2 e heq; rw [heq] at hadd; simp at hadd
      · rename_i h2 heq; rw [heq]

/-- `Sequence(*items, scheduler=s)` registers exactly the jobs of the sequence in `s`, once each, touches no other
    scheduler, and remembers `s` for later `append`s (C19, "scheduler= registers", through the statement itself) -/
theorem newSeq_mem (h : Heap) (q s : Nat) (items : List Arg) (r : Arg) (hnd : (h.mem s).Nodup) :
    let h' := (interp h (.newSeq q items r (some s))).1
    (∀ y, y ∈ h'.mem s ↔ (y ∈ h.mem s ∨ y ∈ flattenSeq h items)) ∧ (h'.mem s).Nodup ∧
    (∀ k, k ≠ s → h'.mem k = h.mem k) ∧ h'.seqSched q = some s := by
  intro h'
  obtain ⟨h2, hm, e⟩ := newSeq_eq h q items r (some s)
  have hm' : (h2.setSeqSched q (some s)).mem = h.mem := hm
  have hnd' : ((h2.setSeqSched q (some s)).mem s).Nodup := by rw [hm']; exact hnd
  obtain ⟨r1, r2, r3⟩ := C19.register_spec (h2.setSeqSched q (some s)) s (flattenSeq h items) hnd'
  simp only [h', e]
  rw [hm'] at r1 r3
  refine ⟨r1, r2, r3, ?_⟩
  rw [C19.register_seqSched]
  simp [Heap.setSeqSched]

/-- `q.append(*items)` registers the new jobs in the scheduler the sequence was created with (exactly them, once
    each) and touches no other scheduler (C19, "append registers", through the statement itself) -/
theorem append_mem (h : Heap) (q : Nat) (items : List Arg) (hne : items ≠ []) :
    let h' := (interp h (.append q items)).1
    (∀ s, h.seqSched q = some s → (h.mem s).Nodup →
        (∀ y, y ∈ h'.mem s ↔ (y ∈ h.mem s ∨ y ∈ flattenSeq h items)) ∧ (h'.mem s).Nodup) ∧
    (∀ k, h.seqSched q ≠ some k → h'.mem k = h.mem k) := by
  have hie : items.isEmpty = false := by cases items <;> simp_all
  intro h'
  have e : interp h (.append q items) =
      (register (givePending ((chain h (h.seqJobs q).getLast? (flattenSeq h items)).setSeqJobs q
        (h.seqJobs q ++ flattenSeq h items)) q) (h.seqSched q) (flattenSeq h items), none) := by
    simp [interp, hie]
  have hm : (givePending ((chain h (h.seqJobs q).getLast? (flattenSeq h items)).setSeqJobs q
        (h.seqJobs q ++ flattenSeq h items)) q).mem = h.mem := by
    rw [C19.givePending_mem]
    show (chain h (h.seqJobs q).getLast? (flattenSeq h items)).mem = h.mem
    exact C19.chain_mem _ _ _
  simp only [h', e]
  constructor
  · intro s hs hnd
    rw [hs]
    have hnd' : ((givePending ((chain h (h.seqJobs q).getLast? (flattenSeq h items)).setSeqJobs q
        (h.seqJobs q ++ flattenSeq h items)) q).mem s).Nodup := by rw [hm]; exact hnd
    obtain ⟨r1, r2, _⟩ := C19.register_spec _ s (flattenSeq h items) hnd'
    rw [hm] at r1
    exact ⟨r1, r2⟩
  · intro k hk
    cases hs : h.seqSched q with
    | none => simp only [register]; rw [hm]
    | some s' =>
      have hks : k ≠ s' := by rintro rfl; exact hk hs
      simp only [register, Heap.setMem, if_neg hks]
      rw [hm]

/-- `AbstractJob(required=r, scheduler=sch)`: never fails; the new job requires exactly the jobs `r` stands for
    (itself excepted), nobody else's requirements change, and the job is registered in `sch`
    (C19, the constructor through the statement itself) -/
theorem newJob_spec (h : Heap) (j : Nat) (r : Arg) (sch : Option Nat) :
    let h' := (interp h (.newJob j r sch)).1
    (interp h (.newJob j r sch)).2 = none ∧
    (∀ x, x ∈ h'.req j ↔ (x ∈ flat h r ∧ x ≠ j)) ∧ (∀ k, k ≠ j → h'.req k = h.req k) ∧
    (∀ s, sch = some s → ∀ y, y ∈ h'.mem s ↔ (y ∈ h.mem s ∨ y = j)) := by
  intro h'
  have hadd := (C19.req_add_aux j).1 (h.setReq j []) r
  have hne := C19.reqArg_req_ne j false (h.setReq j []) r
  have hm := C19.reqArg_mem j false (h.setReq j []) r
  have hfl : flat (h.setReq j []) r = flat h r := (C19.flat_congr h (h.setReq j []) rfl).1 r
  have e : interp h (.newJob j r sch) = (register (reqArg j false (h.setReq j []) r).1 sch [j], none) := by
    simp only [interp]
    split
    · rename_i h1 e heq; rw [heq] at hadd; simp at hadd
    · rename_i h1 heq; rw [heq]
  simp only [h', e]
  refine ⟨trivial, ?_, ?_, ?_⟩
  · intro x
    rw [C19.register_req, hadd.2 x, hfl]
    simp
  · intro k hk
    rw [C19.register_req, hne k hk, C19.setReq_req_ne _ _ _ _ hk]
  · intro s hs y
    subst hs
    simp only [register, Heap.setMem, if_pos, C19.mem_unionNew]
    rw [hm]
    simp [Heap.setReq]

/-- `q.requires(*args)` on a sequence that has jobs is `requires` on its first job, whose effect
    `C19.requires_add` describes (C19, "a sequence's requirements go to its first job") -/
theorem seqRequires_first (h : Heap) (q j0 : Nat) (rest : List Nat) (args : List Arg)
    (hq : h.seqJobs q = j0 :: rest) :
    interp h (.seqRequires q args) = reqArgs j0 false h args := by
  simp [interp, hq]

/-! ## 4. (C20) unique ids in the text -/

/-- reading a printed id back as a number gives the number -/
theorem padId_val (w k : Nat) : Nat.ofDigitChars 10 (padId w k).toList 0 = k := by
  have e : (padId w k).toList = List.replicate (w - (toString k).length) '0' ++ Nat.toDigits 10 k := by
    simp only [padId, String.toList_append, String.toList_ofList, Nat.toString_eq_repr, Nat.toList_repr]
  rw [e, Nat.ofDigitChars_append, Nat.ofDigitChars_replicate_zero, Nat.mul_zero, Nat.ofDigitChars_ten_toDigits]

/-- `"{:0wd}".format` is injective -/
theorem padId_inj (w a b : Nat) (h : padId w a = padId w b) : a = b := by
  have := padId_val w a
  rw [h, padId_val] at this
  exact this.symm

theorem nodup_map_inj {α β : Type} (f : α → β) : ∀ (l : List α), (l.map f).Nodup →
    ∀ x ∈ l, ∀ y ∈ l, f x = f y → x = y := by
  intro l
  induction l with
  | nil => intro _ x hx; cases hx
  | cons a l ih =>
    intro hnd x hx y hy hxy
    rw [List.map_cons, List.nodup_cons] at hnd
    rcases List.mem_cons.1 hx with hxa | hx'
    · rcases List.mem_cons.1 hy with hya | hy'
      · rw [hxa, hya]
      · exact absurd (by rw [← hxa, hxy]; exact List.mem_map_of_mem hy') hnd.1
    · rcases List.mem_cons.1 hy with hya | hy'
      · exact absurd (by rw [← hya, ← hxy]; exact List.mem_map_of_mem hx') hnd.1
      · exact ih hnd.2 x hx' y hy' hxy

/-- C20 (unique ids in the text): two different jobs of the document are printed with different ids — the numbers
    `_set_sched_ids` gives are distinct, and zero-padding to a common width keeps them distinct. -/
theorem ids_unique (c : RenderCtx) (fuel s nxt : Nat) (ids : List (Nat × Nat))
    (h : assignIds c.t fuel s 1 = .ok (nxt, ids)) (hc : ∀ p ∈ ids, c.idOf p.1 = p.2) (hnd : (ids.map (·.1)).Nodup) :
    ∀ x ∈ ids.map (·.1), ∀ y ∈ ids.map (·.1), c.rid x = c.rid y → x = y := by
  intro x hx y hy hxy
  obtain ⟨p, hp, rfl⟩ := List.mem_map.1 hx
  obtain ⟨q, hq, rfl⟩ := List.mem_map.1 hy
  have h2 : (ids.map (·.2)).Nodup := by
    rw [(C15.ids_consecutive c.t fuel s 1 nxt ids h).1]
    exact List.nodup_range'
  have e : p.2 = q.2 := by
    apply padId_inj c.w
    simpa only [RenderCtx.rid, hc p hp, hc q hq] using hxy
  rw [nodup_map_inj (·.2) ids h2 p hp q hq e]

/-! ## 5. (C20) totality from the property's premise, and physical edge endpoints -/

theorem listing_total_aux (t : T) (fuel : Nat) : ∀ (s : Nat), t.isSched s = true → s < t.n → t.n - s ≤ fuel →
    TreeAt t s →
    (∀ s', (s' = s ∨ Desc t s s') → t.isSched s' = true → (t.mem s').Nodup ∧ Closed t s' ∧ Acyclic t s') →
    ∃ l, listing t fuel s = .ok l := by
  induction fuel with
  | zero => intro s _ hlt hfuel; omega
  | succ fuel ih =>
    intro s hs hlt hfuel htree hok
    obtain ⟨hnd, hcl, hac⟩ := hok s (Or.inl rfl) hs
    obtain ⟨lt, ht⟩ := C15.topo_ok_of_acyclic t s hnd hcl hac
    rw [C15.listing_succ, ht]
    apply C20.foldlM_ok_of_steps
    intro j hj acc
    have hjm : j ∈ t.mem s := C15.topo_subset t s [] lt ht j hj
    cases hjs : t.isSched j with
    | false => exact ⟨acc ++ [j], by simp [C15.listStep, hjs]⟩
    | true =>
      have hb := htree.lt s (Or.inl rfl) j hjm
      obtain ⟨sub, hsub⟩ := ih j hjs hb.2 (by omega) (htree.sub hs hjm)
        (fun s' hs' => hok s' (C16.sub_of hs hjm hs'))
      exact ⟨acc ++ j :: sub, by simp [C15.listStep, hjs, hsub]⟩

/-- C20 (totality from the property's premise): on a tree of schedulers whose members are duplicate-free, closed and
    acyclic at every level, `list()` (hence `_set_sched_ids`, `dot_format()`) does not raise, the fuel `n` being enough. -/
theorem listing_total (t : T) (fuel s : Nat) (hs : t.isSched s = true) (hlt : s < t.n) (hfuel : t.n - s ≤ fuel) (htree : TreeAt t s)
    (hok : ∀ s', (s' = s ∨ Desc t s s') → t.isSched s' = true → (t.mem s').Nodup ∧ Closed t s' ∧ Acyclic t s') :
    ∃ l, listing t fuel s = .ok l := by
  exact listing_total_aux t fuel s hs hlt hfuel htree hok

/-- the job `_middle_exit_job` of scheduler `x` returns is `x` itself or a job of its subtree -/
theorem middleExit_desc (t : T) : ∀ (F x r : Nat), t.isSched x = true → middleExit t F x = .ok r →
    r = x ∨ Desc t x r := by
  intro F
  induction F with
  | zero => intro x r _ h; simp [middleExit] at h
  | succ F ih =>
    intro x r hx hm
    unfold middleExit at hm
    simp only at hm
    split at hm
    · injection hm with hm; exact Or.inl hm.symm
    · split at hm
      · simp at hm
      · rename_i cand hc
        have hcm : cand ∈ t.mem x := by
          have := List.mem_of_getElem? hc
          split at this
          · exact (List.mem_filter.1 this).1
          · exact (List.mem_filter.1 this).1
        split at hm
        · rename_i hcs
          rcases ih cand r hcs hm with rfl | hd
          · exact Or.inr (Desc.child hx hcm)
          · exact Or.inr (Desc.deeper hx hcm hd)
        · injection hm with hm
          subst hm
          exact Or.inr (Desc.child hx hcm)

/-- the same for `_middle_entry_job` -/
theorem middleEntry_desc (t : T) : ∀ (F x r : Nat), t.isSched x = true → middleEntry t F x = .ok r →
    r = x ∨ Desc t x r := by
  intro F
  induction F with
  | zero => intro x r _ h; simp [middleEntry] at h
  | succ F ih =>
    intro x r hx hm
    unfold middleEntry at hm
    simp only at hm
    split at hm
    · injection hm with hm; exact Or.inl hm.symm
    · split at hm
      · simp at hm
      · rename_i cand hc
        have hcm : cand ∈ t.mem x := (List.mem_filter.1 (List.mem_of_getElem? hc)).1
        split at hm
        · rename_i hcs
          rcases ih cand r hcs hm with rfl | hd
          · exact Or.inr (Desc.child hx hcm)
          · exact Or.inr (Desc.deeper hx hcm hd)
        · injection hm with hm
          subst hm
          exact Or.inr (Desc.child hx hcm)

/-- the physical end of an edge is inside the cluster the edge names -/
def EdgeIn (t : T) : Item → Prop
  | .edge src dst lh lt =>
      (∀ c, lt = some c → src = c ∨ Desc t c src) ∧ (∀ c, lh = some c → dst = c ∨ Desc t c dst)
  | _ => True

theorem edgesOf_edgeIn (t : T) (F j : Nat) (es : List Item) (h : edgesOf t F j = .ok es) :
    ∀ i ∈ es, EdgeIn t i := by
  unfold edgesOf at h
  refine C20.foldlM_inv _ (fun (acc : List Item) => ∀ i ∈ acc, EdgeIn t i) ?_ (t.req j) [] es (by simp) h
  intro r acc res hq hs
  have hnew : ∀ e, EdgeIn t e → res = acc ++ [e] → ∀ i ∈ res, EdgeIn t i := by
    intro e he hres i hi
    rw [hres] at hi
    rcases List.mem_append.1 hi with hi | hi
    · exact hq i hi
    · simp at hi; subst hi; exact he
  split at hs
  · rename_i hj
    split at hs
    · rename_i hr
      split at hs
      · simp at hs
      · rename_i src hsrc
        split at hs
        · simp at hs
        · rename_i dst hdst
          injection hs with hs
          refine hnew _ ?_ hs.symm
          refine ⟨?_, ?_⟩
          · intro c hc; injection hc with hc; subst hc
            exact middleExit_desc t F r src hr hsrc
          · intro c hc; injection hc with hc; subst hc
            exact middleEntry_desc t F j dst hj hdst
    · split at hs
      · simp at hs
      · rename_i dst hdst
        injection hs with hs
        refine hnew _ ?_ hs.symm
        refine ⟨?_, ?_⟩
        · intro c hc; cases hc
        · intro c hc; injection hc with hc; subst hc
          exact middleEntry_desc t F j dst hj hdst
  · split at hs
    · rename_i hr
      split at hs
      · simp at hs
      · rename_i src hsrc
        injection hs with hs
        refine hnew _ ?_ hs.symm
        refine ⟨?_, ?_⟩
        · intro c hc; injection hc with hc; subst hc
          exact middleExit_desc t F r src hr hsrc
        · intro c hc; cases hc
    · injection hs with hs
      refine hnew _ ?_ hs.symm
      refine ⟨?_, ?_⟩
      · intro c hc; cases hc
      · intro c hc; cases hc

theorem dotBodyWith_edgeIn (t : T) (anch : List Nat) (F fuel s : Nat) (items : List Item)
    (h : dotBodyWith t anch F fuel s = .ok items) : ∀ i ∈ items, EdgeIn t i := by
  induction fuel generalizing s items with
  | zero => simp [dotBodyWith] at h
  | succ n ih =>
    obtain ⟨l0, hl0, hf⟩ := C20.dotBodyWith_succ t anch F n s items h
    refine C20.foldlM_inv _ (fun (a : List Item) => ∀ i ∈ a, EdgeIn t i) ?_ l0 [] items (by simp) hf
    intro j a a' hq hs
    obtain ⟨es, hes, hcase⟩ := C20.dotBodyWith_step t anch F n j a a' hs
    have hg := edgesOf_edgeIn t F j es hes
    rcases hcase with ⟨hj, sub, hsub, rfl⟩ | ⟨hj, rfl⟩
    · intro i hm
      simp only [List.mem_append, List.mem_cons] at hm
      rcases hm with ((hm | hm | hm) | hm) | hm | hm
      · exact hq _ hm
      · subst hm; trivial
      · rw [((C20.mem_holderOf t anch j _).1 hm).1]; trivial
      · exact ih j sub hsub _ hm
      · subst hm; trivial
      · exact hg _ hm
    · intro i hm
      simp only [List.mem_append, List.mem_cons] at hm
      rcases hm with hm | hm | hm
      · exact hq _ hm
      · subst hm; trivial
      · exact hg _ hm

/-- an edge endpoint that is an atomic job has its node in the list -/
theorem dotBodyWith_endpoint_node (t : T) (anch : List Nat) (F : Nat) : ∀ (fuel s : Nat) (items : List Item),
    dotBodyWith t anch F fuel s = .ok items →
    ∀ src dst lh lt, Item.edge src dst lh lt ∈ items →
      (t.isSched src = false → Item.node src ∈ items) ∧
      (t.isSched dst = false → Item.node dst ∈ items) := by
  intro fuel
  induction fuel with
  | zero => intro s items h; simp [dotBodyWith] at h
  | succ n ih =>
    intro s items h
    obtain ⟨l0, hl0, hf⟩ := C20.dotBodyWith_succ t anch F n s items h
    obtain ⟨_, hk⟩ := C20.dotFold_contrib t anch F n l0 [] items hf
    refine C20.foldlM_inv_mem _
      (fun (a : List Item) => ∀ src dst lh lt, Item.edge src dst lh lt ∈ a →
        (t.isSched src = false → Item.node src ∈ items) ∧
        (t.isSched dst = false → Item.node dst ∈ items))
      l0 ?_ [] items (by simp) hf
    intro j hj a a' hq hs
    obtain ⟨es, hes, hcase⟩ := C20.dotBodyWith_step t anch F n j a a' hs
    obtain ⟨es', hes', _, hjc⟩ := hk j hj
    rw [hes] at hes'
    injection hes' with hes'
    subst hes'
    have horig := C20.edgesOf_origin t F j es hes
    have hes_ok : ∀ src dst lh lt, Item.edge src dst lh lt ∈ es →
        (t.isSched src = false → Item.node src ∈ items) ∧
        (t.isSched dst = false → Item.node dst ∈ items) := by
      intro src dst lh lt hm
      obtain ⟨src', dst', lh', lt', r, e, hr, hsrc, hdst⟩ := horig _ hm
      injection e with e1 e2 e3 e4
      subst e1; subst e2
      constructor
      · intro hss
        obtain ⟨a0, b0, hab⟩ := List.append_of_mem hj
        have hra : r ∈ l0 := by
          have := C15.topo_order_inv t s l0 hl0 a0 j b0 hab r hr
          rw [hab]; simp [this]
        obtain ⟨_, _, _, hrc⟩ := hk r hra
        rcases hsrc with ⟨h1, h2⟩ | ⟨hrs, hmid⟩
        · subst h2
          rcases hrc with ⟨hrs', _⟩ | ⟨_, hnode⟩
          · rw [hss] at hrs'; cases hrs'
          · exact hnode
        · rcases hrc with ⟨_, hopen, subr, hsubr, hin⟩ | ⟨hrs', _⟩
          · rcases C20.middleExit_in_items t anch F n F r subr src hsubr hmid with rfl | ⟨h1, _⟩ | ⟨_, h2⟩
            · rw [hss] at hrs; cases hrs
            · rw [hss] at h1; cases h1
            · exact hin _ h2
          · rw [hrs] at hrs'; cases hrs'
      · intro hds
        rcases hdst with ⟨h1, h2⟩ | ⟨hjs, hmid⟩
        · subst h2
          rcases hjc with ⟨hjs', _⟩ | ⟨_, hnode⟩
          · rw [hds] at hjs'; cases hjs'
          · exact hnode
        · rcases hjc with ⟨_, hopen, subj, hsubj, hin⟩ | ⟨hjs', _⟩
          · rcases C20.middleEntry_in_items t anch F n F j subj dst hsubj hmid with rfl | ⟨h1, _⟩ | ⟨_, h2⟩
            · rw [hds] at hjs; cases hjs
            · rw [hds] at h1; cases h1
            · exact hin _ h2
          · rw [hjs] at hjs'; cases hjs'
    rcases hcase with ⟨hjs, sub, hsub, rfl⟩ | ⟨hjs, rfl⟩
    · intro src dst lh lt hm
      simp only [List.mem_append, List.mem_cons, reduceCtorEq, false_or] at hm
      rcases hm with ((hm | hm) | hm) | hm
      · exact hq _ _ _ _ hm
      · exact absurd ((C20.mem_holderOf t anch j _).1 hm).1 (by simp)
      · rcases hjc with ⟨_, _, subj, hsubj, hin⟩ | ⟨hjs', _⟩
        · rw [hsub] at hsubj
          injection hsubj with hsubj
          subst hsubj
          obtain ⟨h1, h2⟩ := ih j sub hsub _ _ _ _ hm
          exact ⟨fun hh => hin _ (h1 hh), fun hh => hin _ (h2 hh)⟩
        · rw [hjs] at hjs'; cases hjs'
      · exact hes_ok _ _ _ _ hm
    · intro src dst lh lt hm
      simp only [List.mem_append, List.mem_cons, reduceCtorEq, false_or] at hm
      rcases hm with hm | hm
      · exact hq _ _ _ _ hm
      · exact hes_ok _ _ _ _ hm

/-- C20 (physical edge endpoints): an end of an edge that is an atomic job has its `node` item in the document, and
    when the edge names a cluster (`ltail` / `lhead`) its physical end is that scheduler itself (empty, invisible node)
    or a job of its subtree — so the arrow clipped at the cluster border does come from / go to inside it.
    (The hypothesis `hcl` is not needed: a successful export already implies it.) -/
theorem edge_physical (t : T) (F fuel s : Nat) (items : List Item) (h : dotBody t F fuel s = .ok items)
    (hcl : ∀ s', (s' = s ∨ Desc t s s') → t.isSched s' = true → Closed t s') :
    ∀ src dst lh lt, Item.edge src dst lh lt ∈ items →
      (t.isSched src = false → Item.node src ∈ items) ∧ (t.isSched dst = false → Item.node dst ∈ items) ∧
      (∀ c, lt = some c → src = c ∨ Desc t c src) ∧ (∀ c, lh = some c → dst = c ∨ Desc t c dst) := by
  intro src dst lh lt hm
  have hW := C20.dotBody_with t F fuel s items h
  obtain ⟨h1, h2⟩ := dotBodyWith_endpoint_node t _ F fuel s items hW src dst lh lt hm
  obtain ⟨h3, h4⟩ := dotBodyWith_edgeIn t _ F fuel s items hW _ hm
  exact ⟨h1, h2, h3, h4⟩

/-! ## 6. (C18) closure / acyclicity after the keep operations, and after any sequence of operations -/

/-- C18 ("preserves precedence" corollary, `keep_only`): on a flat acyclic scheduler, `keep_only(R)` leaves a
    scheduler that is closed (no requirement to a dropped job) and acyclic. -/
theorem keepOnly_closed_acyclic (t : T) (fuel s : Nat) (R : List Nat) (hflat : FlatAt t s) (hac : Acyclic t s) :
    Closed (keepOnly t (fuel + 1) s R) s ∧ Acyclic (keepOnly t (fuel + 1) s R) s := by
  have h := C18.keepOnly_spec t fuel s R hflat
  exact C18.restrict_closed_acyclic t _ s (by intro x hx; rw [h.1] at hx; exact (List.mem_filter.1 hx).1) h.2.1 hac

/-- members after `keep_only_between` are members before (when `starts` / `ends` are) -/
theorem between_sub (t : T) (fuel s : Nat) (starts ends : List Nat) (ks ke : Bool)
    (hflat : FlatAt t s) (hst : ∀ a ∈ starts, a ∈ t.mem s) (hen : ∀ a ∈ ends, a ∈ t.mem s) :
    ∀ x ∈ (keepOnlyBetween t (fuel + 1) s starts ends ks ke).mem s, x ∈ t.mem s := by
  have hat : ∀ k ∈ C18.preserved t s starts ends ks ke, t.isSched k = false :=
    fun k hk => hflat k (C18.preserved_sub t s starts ends ks ke hst hen k hk)
  intro x hx
  rw [C18.keepOnlyBetween_eq, (C18.sanitize_setMem_flat t fuel s _ hat).1] at hx
  exact C18.preserved_sub t s starts ends ks ke hst hen x hx

/-- C18 ("preserves precedence" corollary, `keep_only_between`): on a flat acyclic scheduler, with `starts` and
    `ends` among its jobs, `keep_only_between` leaves a scheduler that is closed and acyclic. -/
theorem between_closed_acyclic (t : T) (fuel s : Nat) (starts ends : List Nat) (ks ke : Bool)
    (hflat : FlatAt t s) (hst : ∀ a ∈ starts, a ∈ t.mem s) (hen : ∀ a ∈ ends, a ∈ t.mem s) (hac : Acyclic t s) :
    Closed (keepOnlyBetween t (fuel + 1) s starts ends ks ke) s ∧
    Acyclic (keepOnlyBetween t (fuel + 1) s starts ends ks ke) s := by
  exact C18.restrict_closed_acyclic t _ s (between_sub t fuel s starts ends ks ke hflat hst hen)
    (C18.between_req t fuel s starts ends ks ke hflat hst hen) hac

/-- the three surgery operations -/
inductive SOp
  | bypass (j : Nat)
  | keep (R : List Nat)
  | between (st en : List Nat) (ks ke : Bool)

/-- one operation on scheduler `s`; `keep_only_between` is only modelled for `starts` / `ends` taken among the jobs
    of `s` (the side condition of `C18.between_mem`), anything else is rejected here -/
def applyOp (t : T) (fuel s : Nat) : SOp → Except Err T
  | .bypass j => bypass t s j
  | .keep R => .ok (keepOnly t (fuel + 1) s R)
  | .between st en ks ke =>
    if st.all (· ∈ t.mem s) && en.all (· ∈ t.mem s) then .ok (keepOnlyBetween t (fuel + 1) s st en ks ke)
    else .error .valueError

theorem bypass_isSched {t t' : T} {s j : Nat} (h : bypass t s j = .ok t') : t'.isSched = t.isSched := by
  unfold bypass at h
  split at h
  · injection h with h; subst h; rfl
  · cases h

theorem keepOnly_isSched (t : T) (fuel s : Nat) (R : List Nat) : (keepOnly t fuel s R).isSched = t.isSched := by
  unfold keepOnly
  rw [(C16.sanitize_frame _ fuel s).2.1]
  rfl

theorem between_isSched (t : T) (fuel s : Nat) (st en : List Nat) (ks ke : Bool) :
    (keepOnlyBetween t fuel s st en ks ke).isSched = t.isSched := by
  rw [C18.keepOnlyBetween_eq, (C16.sanitize_frame _ fuel s).2.1]
  rfl

/-- one operation keeps the scheduler flat, closed and acyclic, and adds no job -/
theorem applyOp_step (t t' : T) (fuel s : Nat) (o : SOp) (hflat : FlatAt t s) (hcl : Closed t s) (hac : Acyclic t s)
    (h : applyOp t fuel s o = .ok t') :
    FlatAt t' s ∧ Closed t' s ∧ Acyclic t' s ∧ ∀ x ∈ t'.mem s, x ∈ t.mem s := by
  have hfl : t'.isSched = t.isSched → (∀ x ∈ t'.mem s, x ∈ t.mem s) → FlatAt t' s := by
    intro e hsub k hk
    rw [e]
    exact hflat k (hsub k hk)
  cases o with
  | bypass j =>
    have h : bypass t s j = .ok t' := h
    have hsub : ∀ x ∈ t'.mem s, x ∈ t.mem s := fun x hx => ((C18.mem_bypass_mem h x).1 hx).1
    exact ⟨hfl (bypass_isSched h) hsub, C18.bypass_closed t t' s j hcl h, C18.bypass_acyclic t t' s j hcl hac h, hsub⟩
  | keep R =>
    have h : Except.ok (keepOnly t (fuel + 1) s R) = Except.ok (ε := Err) t' := h
    injection h with h
    subst h
    have hsub : ∀ x ∈ (keepOnly t (fuel + 1) s R).mem s, x ∈ t.mem s := by
      intro x hx
      rw [(C18.keepOnly_spec t fuel s R hflat).1] at hx
      exact (List.mem_filter.1 hx).1
    obtain ⟨h1, h2⟩ := keepOnly_closed_acyclic t fuel s R hflat hac
    exact ⟨hfl (keepOnly_isSched t _ s R) hsub, h1, h2, hsub⟩
  | between st en ks ke =>
    simp only [applyOp] at h
    split at h
    · rename_i hchk
      injection h with h
      subst h
      simp only [Bool.and_eq_true, List.all_eq_true, decide_eq_true_eq] at hchk
      have hsub := between_sub t fuel s st en ks ke hflat hchk.1 hchk.2
      obtain ⟨h1, h2⟩ := between_closed_acyclic t fuel s st en ks ke hflat hchk.1 hchk.2 hac
      exact ⟨hfl (between_isSched t _ s st en ks ke) hsub, h1, h2, hsub⟩
    · cases h

theorem ops_aux (fuel s : Nat) : ∀ (ops : List SOp) (t t' : T), FlatAt t s → Closed t s → Acyclic t s →
    ops.foldlM (fun a o => applyOp a fuel s o) t = .ok t' →
    Closed t' s ∧ Acyclic t' s ∧ ∀ x ∈ t'.mem s, x ∈ t.mem s := by
  intro ops
  induction ops with
  | nil =>
    intro t t' _ hcl hac h
    simp only [List.foldlM_nil] at h
    cases h
    exact ⟨hcl, hac, fun _ hx => hx⟩
  | cons o ops ih =>
    intro t t' hflat hcl hac h
    obtain ⟨mid, hmid, hrest⟩ := C15.foldlM_cons_ok _ _ _ _ _ h
    obtain ⟨m1, m2, m3, m4⟩ := applyOp_step t mid fuel s o hflat hcl hac hmid
    obtain ⟨r1, r2, r3⟩ := ih mid t' m1 m2 m3 hrest
    exact ⟨r1, r2, fun x hx => m4 x (r3 x hx)⟩

/-- C18 ("any sequence of operations"): starting from a flat, closed, acyclic scheduler, any sequence of
    `bypass_and_remove` / `keep_only` / `keep_only_between` that does not raise (a `keep_only_between` whose `starts`
    or `ends` are not jobs of the scheduler is rejected by `applyOp`) leaves a closed, acyclic scheduler with no new
    job. -/
theorem ops_closed_acyclic (t t' : T) (fuel s : Nat) (ops : List SOp) (hflat : FlatAt t s) (hcl : Closed t s) (hac : Acyclic t s)
    (h : ops.foldlM (fun a o => applyOp a fuel s o) t = .ok t') :
    Closed t' s ∧ Acyclic t' s ∧ ∀ x ∈ t'.mem s, x ∈ t.mem s := by
  exact ops_aux fuel s ops t t' hflat hcl hac h

/-! ## non-vacuity: the hypotheses of the theorems above hold on a small nested tree -/

/-- scheduler `0` holds job `1` and the nested scheduler `2`, which holds job `3`; `2` requires `1` -/
def exT : T where
  n := 4
  isSched := fun k => k == 0 || k == 2
  mem := fun k => if k = 0 then [1, 2] else if k = 2 then [3] else []
  req := fun k => if k = 2 then [1] else []
  forever := fun _ => false
  critical := fun _ => false

theorem exT_desc {a b : Nat} (h : Desc exT a b) : (a = 0 ∧ (b = 1 ∨ b = 2 ∨ b = 3)) ∨ (a = 2 ∧ b = 3) := by
  induction h with
  | @child s k hs hk =>
    have hs' : s = 0 ∨ s = 2 := by simpa [exT] using hs
    rcases hs' with rfl | rfl
    · have : k = 1 ∨ k = 2 := by simpa [exT] using hk
      omega
    · have : k = 3 := by simpa [exT] using hk
      omega
  | @deeper s k d hs hk _ ih =>
    have hs' : s = 0 ∨ s = 2 := by simpa [exT] using hs
    rcases hs' with rfl | rfl
    · have : k = 1 ∨ k = 2 := by simpa [exT] using hk
      omega
    · have : k = 3 := by simpa [exT] using hk
      omega

theorem exT_in {s' : Nat} (h : s' = 0 ∨ Desc exT 0 s') : s' = 0 ∨ s' = 1 ∨ s' = 2 ∨ s' = 3 := by
  rcases h with h | h
  · exact Or.inl h
  · have := exT_desc h
    omega

theorem exT_tree : TreeAt exT 0 where
  lt := by
    intro s' hs' k hk
    rcases exT_in hs' with rfl | rfl | rfl | rfl <;> simp [exT] at hk ⊢ <;> omega
  atomic := by
    intro k hk
    have : k ≠ 0 ∧ k ≠ 2 := by simpa [exT] using hk
    simp [exT, this.1, this.2]
  unique := by
    intro s1 s2 k h1 h2 hk1 hk2
    rcases exT_in h1 with rfl | rfl | rfl | rfl <;> rcases exT_in h2 with rfl | rfl | rfl | rfl <;>
      simp [exT] at hk1 hk2 ⊢ <;> omega

/-- `listing_exact` / `listing_total` apply to `exT` -/
example : exT.isSched 0 = true ∧ TreeAt exT 0 ∧ listing exT 4 0 = .ok [1, 2, 3] :=
  ⟨rfl, exT_tree, rfl⟩

/-- `dotBody_parent` / `edge_physical` apply to `exT`: the export succeeds, with a cluster and an edge into it -/
example : dotBody exT 4 4 0 =
    .ok [.node 1, .openCluster 2, .node 3, .close, .edge 1 3 (some 2) none] := by
  rfl

/-- `ids_unique` applies to `exT` -/
example : assignIds exT 4 0 1 = .ok (4, [(1, 1), (2, 2), (3, 3)]) ∧
    (∀ p ∈ [(1, 1), (2, 2), (3, 3)], (id : Nat → Nat) p.1 = p.2) ∧ ([(1, 1), (2, 2), (3, 3)].map (·.1)).Nodup := by
  exact ⟨rfl, by decide, by decide⟩

/-- a flat scheduler: `0` holds `1`, `2`, `3`, with `3` requiring `2` requiring `1` -/
def exF : T where
  n := 4
  isSched := fun k => k == 0
  mem := fun k => if k = 0 then [1, 2, 3] else []
  req := fun k => if k = 3 then [2] else if k = 2 then [1] else []
  forever := fun _ => false
  critical := fun _ => false

/-- `between_closed_acyclic` / `ops_closed_acyclic` apply to `exF`: it is flat, closed, acyclic, and the three
    operations in a row succeed (leaving job `3` alone) -/
example : FlatAt exF 0 ∧ Closed exF 0 ∧ Acyclic exF 0 ∧
    ∃ t', [SOp.between [1] [3] true true, SOp.bypass 2, SOp.keep [3]].foldlM (fun a o => applyOp a 0 0 o) exF = .ok t' ∧
      t'.mem 0 = [3] ∧ t'.req 3 = [] := by
  refine ⟨?_, ?_, C15.acyclic_of_topo_ok exF 0 [1, 2, 3] rfl, _, rfl, rfl, rfl⟩
  · unfold FlatAt; decide
  · unfold Closed; decide

end AJ.Proofs.Gap4

