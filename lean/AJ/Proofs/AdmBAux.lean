/-
  C03, admissibility: facts about runs and reachable states that do not depend on the admissibility condition itself —
  one more reachable-state invariant (`Pending`), what the passing of time leaves unchanged, the clock along a run.
-/
import AJ.Proofs.LiveB
import AJ.Proofs.ExitB
namespace AJ.Proofs.AdmB
open AJ.Run AJ.Full AJ.Proofs.CoreA AJ.Proofs.CoreB AJ.Proofs.ProgB AJ.Proofs.BoundB AJ.Proofs.FinB AJ.Proofs.LiveB
set_option linter.unusedVariables false
set_option linter.unusedSimpArgs false

/-! ### one more invariant: a run in its main loop has not counted all its regular jobs -/

/-- a run in its main loop that has regular (non-`forever`) jobs has not counted them all: the reaction that counts
    the last one leaves the loop -/
def Pending (c : Cfg) (st : StB) : Prop :=
  ∀ s, st.pcB s = .loop → nbFinite c s ≠ 0 → st.nbDone s ≠ nbFinite c s

theorem pending_init (c : Cfg) : Pending c StB.init := by
  intro s h; simp [StB.init] at h

theorem beginB_nbDone_eq (c : Cfg) (st : StB) (s : Nat) (a' : StA) (s' : Nat) :
    (beginB c st s a').nbDone s' = if s' = s ∧ (c.children s).isEmpty = false then 0 else st.nbDone s' := by
  unfold beginB; split <;> simp_all [setAt]

theorem pending_step (c : Cfg) (st st' : StB) (e : EvB) (h : stepB c st e = some st') (hp : Pending c st) :
    Pending c st' := by
  intro s
  have := hp s
  cases e <;> simp only [stepB] at h <;> (repeat' split at h) <;> (try (cases h; done))
  all_goals first
    | (obtain ⟨r, a', _, ha, rfl⟩ := ProgB.finishRun_spec h
       simp only [setAt]; grind)
    | (cases h; simp only [ProgB.beginB_pcB, beginB_nbDone_eq, exitLoop, broadcast, setAt]; grind)

theorem pending_accept (c : Cfg) (evs : List EvB) (st0 st : StB) (hp : Pending c st0)
    (h : acceptB c st0 evs = some st) : Pending c st := by
  induction evs generalizing st0 with
  | nil => simp only [acceptB] at h; cases h; exact hp
  | cons e es ih =>
    simp only [acceptB] at h
    split at h
    · rename_i st1 hs
      exact ih st1 (pending_step c st0 st1 e hs hp) h
    · cases h

theorem pending_reach (c : Cfg) (evs : List EvB) (st : StB) (h : acceptB c StB.init evs = some st) : Pending c st :=
  pending_accept c evs StB.init st (pending_init c) h

theorem run_pending {c : Cfg} (r : InfRun c) (i : Nat) : Pending c (r.st i) :=
  pending_reach c _ _ (prefix_accepted r i)

/-! ### the passing of time -/

/-- the passing of time changes nothing but the clock -/
theorem tick_frame {c : Cfg} {st st' : StB} {d : Nat} (h : stepB c st (.tick d) = some st') :
    0 < d ∧ st' = { st with a := { st.a with now := st.a.now + d } } := by
  simp only [stepB] at h
  split at h
  · split at h
    · cases h
    · rename_i a' ha
      cases h
      simp only [stepA] at ha
      split at ha
      · rename_i hc
        cases ha; exact ⟨hc.1, rfl⟩
      · cases ha
  · cases h

/-- the clock never goes back -/
theorem now_step {c : Cfg} {st st' : StB} {e : EvB} (h : stepB c st e = some st') : st.a.now ≤ st'.a.now := by
  rcases stepB_refines c st st' e h with heq | ⟨ea, hea⟩
  · rw [heq]; exact Nat.le_refl _
  · exact ExitB.stepA_now c _ _ ea hea

theorem now_mono {c : Cfg} (r : InfRun c) : ∀ i j, i ≤ j → (r.st i).a.now ≤ (r.st j).a.now :=
  mono_of_succ (f := fun i => (r.st i).a.now) (fun i => now_step (r.step i))

/-- from an index on which only ticks happen, the control points and the instants at which the runs began are frozen -/
theorem frozen_pc {c : Cfg} (r : InfRun c) {N : Nat} (hN : ∀ i, N ≤ i → isTick (r.ev i) = true) :
    ∀ i, N ≤ i → (r.st i).pcB = (r.st N).pcB ∧ (r.st i).tbegin = (r.st N).tbegin := by
  intro i hi
  induction i with
  | zero =>
    have : N = 0 := by omega
    subst this; exact ⟨rfl, rfl⟩
  | succ i ih =>
    by_cases h : N = i + 1
    · subst h; exact ⟨rfl, rfl⟩
    · have hprev := ih (by omega)
      have ht := hN i (by omega)
      have hs := r.step i
      cases he : r.ev i with
      | tick d =>
        rw [he] at hs
        have hk := (tick_frame hs).2
        rw [hk]
        exact hprev
      | _ => rw [he] at ht; cases ht

/-- from an index on which only ticks happen, each step advances the clock -/
theorem now_grows {c : Cfg} (r : InfRun c) {N : Nat} (hN : ∀ i, N ≤ i → isTick (r.ev i) = true) :
    ∀ t, (r.st N).a.now + t ≤ (r.st (N + t)).a.now := by
  intro t
  induction t with
  | zero => exact Nat.le_refl _
  | succ t ih =>
    have ht := hN (N + t) (by omega)
    have hs := r.step (N + t)
    cases he : r.ev (N + t) with
    | tick d =>
      rw [he] at hs
      obtain ⟨hd, hk⟩ := tick_frame hs
      have : (r.st (N + t + 1)).a.now = (r.st (N + t)).a.now + d := by rw [hk]
      show _ ≤ (r.st (N + t + 1)).a.now
      omega
    | _ => rw [he] at ht; cases ht

/-! ### counting -/

theorem filter_length_le_of_imp (l : List Nat) (p q : Nat → Bool) (hpq : ∀ k ∈ l, p k = true → q k = true) :
    (l.filter p).length ≤ (l.filter q).length := by
  induction l with
  | nil => simp
  | cons a l ih =>
    have ih' := ih (fun k hk => hpq k (List.mem_cons_of_mem _ hk))
    have ha := hpq a (by simp)
    simp only [List.filter_cons]
    cases hp : p a <;> cases hq : q a <;> simp <;> first | omega | (rw [hp, hq] at ha; simp at ha)

end AJ.Proofs.AdmB
