/-
  C10 (d), auxiliary: in a history in which no body raises, no orchestration fails (no `orchFail` event) and the
  top-level task is not cancelled from outside (no `extCancel` event), of a
  configuration without window, timeout or forever job, nothing ever fails: no cancellation is ever requested, no task ends cancelled or with an exception, every run
  leaves its main loop for reason `success` (`Clean`, `clean_reach`).  Used by `Proofs/FlatB.lean`.
  Core Lean only.
-/
import AJ.Proofs.NestB
import AJ.Proofs.LatC
namespace AJ.Proofs.FlatB
open AJ.Run AJ.Full AJ.Proofs.CoreA AJ.Proofs.CoreB AJ.Proofs.ProgB AJ.Proofs.ExitB AJ.Proofs.BoundB
set_option linter.unusedVariables false
set_option linter.unusedSimpArgs false

/-! ### case analysis over `stepB` (same scripts as in `LatB`, `LatC`) -/

local macro "fin_case" : tactic => `(tactic|
    (obtain ⟨r, a', hv, ha, hst⟩ := ProgB.finishRun_spec ‹finishRun _ _ _ _ _ = some _›
     subst hst
     open_stepA <;> (try simp only [setAt, release] at *) <;>
       grind [CoreB.mem_activeHandlers, CoreB.mem_liveChildren, Ph.isDone, verdict, PcB.exitOf, → CoreB.verdict_none]))

local macro "a_case" : tactic => `(tactic|
    (cases ‹some _ = some _›; open_stepA <;>
       (try unfold beginRun) <;> (repeat' split) <;>
       (try simp only [ProgB.beginB_pcB, beginB_a, exitLoop, broadcast, release, startJobs, setAt] at *) <;>
       grind [CoreB.mem_children, CoreB.mem_activeHandlers, CoreB.mem_liveChildren, CoreB.mem_doneSet, Ph.isDone, PcB.exitOf]))

local macro "plain_case" : tactic => `(tactic|
    (cases ‹some _ = some _› <;> (try simp only [ProgB.beginB_pcB, beginB_a, exitLoop, broadcast, setAt] at *) <;>
       grind [CoreB.mem_activeHandlers, CoreB.mem_liveChildren, PcB.exitOf]))

local macro "step_one" : tactic => `(tactic| first | fin_case | a_case | plain_case)

/-- the task of a scheduler is `done` only once its run is over -/
theorem doneOver_step (c : Cfg) (st st' : StB) (e : EvB) (h : stepB c st e = some st')
    (hp : ∀ s, c.isSched s = true → (st.a.ph s).isDone = true → st.pcB s = .over) :
    ∀ s, c.isSched s = true → (st'.a.ph s).isDone = true → st'.pcB s = .over := by
  intro s hs
  have := hp s hs
  cases e <;> simp only [stepB] at h <;> (repeat' split at h) <;> (try (cases h; done))
  all_goals step_one

/-- a task ends cancelled only if its cancellation was requested, or (scheduler) its run was cancelled -/
theorem cancelled_back (c : Cfg) (st st' : StB) (e : EvB) (h : stepB c st e = some st') (k : Nat)
    (hd : st'.a.ph k = .cancelled) :
    st.a.ph k = .cancelled ∨ st.a.creq k = true ∨ (st.pcB k).exitOf = some .cancelled := by
  revert hd
  cases e <;> simp only [stepB] at h <;> (repeat' split at h) <;> (try (cases h; done))
  all_goals step_one

/-- a task ends with an exception only if its body raises, or (scheduler) its run did not succeed -/
theorem exc_back (c : Cfg) (st st' : StB) (e : EvB) (h : stepB c st e = some st') (k : Nat) (ex : Exc)
    (hd : st'.a.ph k = .done (.exc ex)) :
    st.a.ph k = .done (.exc ex) ∨ e = .bodyEnd k false ∨
      ((st.pcB k).exitOf ≠ none ∧ (st.pcB k).exitOf ≠ some .success) := by
  revert hd
  cases e <;> simp only [stepB] at h <;> (repeat' split at h) <;> (try (cases h; done))
  all_goals step_one

/-- a cancellation is requested only by a run that leaves its main loop, on its unfinished jobs — or from outside, on
    the top-level task -/
theorem creq_back (c : Cfg) (st st' : StB) (e : EvB) (h : stepB c st e = some st') (k : Nat)
    (hd : st'.a.creq k = true) :
    st.a.creq k = true ∨
      (st.pcB (c.parent k) = .loop ∧ st'.pcB (c.parent k) ≠ .loop ∧ (st.a.ph k).live = true ∧
        k ∈ c.children (c.parent k)) ∨ (e = .extCancel ∧ k = 0) := by
  revert hd
  cases e <;> simp only [stepB] at h <;> (repeat' split at h) <;> (try (cases h; done))
  all_goals step_one

/-- `_running` is set by the step that gives the job its slot: `grant j`, or `runBegin` for the top-level scheduler -/
theorem rflag_back (c : Cfg) (st st' : StB) (e : EvB) (h : stepB c st e = some st') (j : Nat)
    (h0 : st.a.rflag j = false) (h1 : st'.a.rflag j = true) : e = .grant j ∨ (j = 0 ∧ e = .runBegin) := by
  revert h1
  cases e <;> simp only [stepB] at h <;> (repeat' split at h) <;> (try (cases h; done))
  all_goals step_one

/-! ### nothing fails -/

/-- the configurations considered: no window, no timeout, no forever job -/
def Plain (c : Cfg) : Prop := ∀ j, j < c.n → c.window j = 0 ∧ c.timeout j = none ∧ c.forever j = false

/-- what holds in every state of a history of a plain configuration in which no body raises -/
structure Clean (c : Cfg) (st : StB) : Prop where
  /-- nobody cancels anything -/
  noCreq : ∀ k, st.a.creq k = false
  /-- no task ends with an exception, or cancelled -/
  noExc : ∀ k ex, st.a.ph k ≠ .done (.exc ex)
  noCan : ∀ k, st.a.ph k ≠ .cancelled
  /-- every run that has left its main loop did so because all its jobs were done -/
  okExit : ∀ s x, (st.pcB s).exitOf = some x → x = .success
  /-- the task of a scheduler is `done` only once its run is over … -/
  doneOver : ∀ s, c.isSched s = true → (st.a.ph s).isDone = true → st.pcB s = .over
  /-- … and then all its jobs are done -/
  overDone : ∀ s, st.pcB s = .over → ∀ k ∈ c.children s, (st.a.ph k).isDone = true

theorem clean_init (c : Cfg) : Clean c StB.init := by
  constructor <;> intros <;> simp_all [StB.init, StA.init, PcB.exitOf, Ph.isDone]

/-- in a clean state a run leaves its main loop only when all its jobs are done (unless its orchestration fails) -/
theorem clean_leave (c : Cfg) (hplain : Plain c) (st st' : StB) (e : EvB)
    (hA : InvA c st.a) (hB : InvB c st) (hC : Clean c st) (hnf : ∀ s', e ≠ .orchFail s') (h : stepB c st e = some st')
    (s : Nat) (hl : st.pcB s = .loop) (hleft : st'.pcB s ≠ .loop) :
    st'.pcB s = .tidy .success ∧ ∀ k ∈ c.children s, (st.a.ph k).isDone = true := by
  obtain ⟨x, hx, _, _, _, _, _, _, _, hr⟩ := loop_exit c st st' e s hB h hl hleft
  cases x with
  | success =>
    obtain ⟨_, D, hD, hcrit, hcnt⟩ := hr
    refine ⟨hx, ?_⟩
    intro k hk
    have hs := succ_at_exit c st s D hA hB hl hD hcrit hcnt
    exact (hs.1 k hk (hplain k (CoreB.mem_children.1 hk).1).2.2).1
  | critical =>
    obtain ⟨_, D, hD, hcrit⟩ := hr
    obtain ⟨d, _, _, ex, hex⟩ := critIn_true hcrit
    exact absurd hex (hC.noExc d ex)
  | timeout =>
    obtain ⟨dl, hdl, _⟩ := hr
    have h1 := hB.deadlineEq s hl
    rw [(hplain s (hB.pcRange s (by simp [hl])).1).2.1, hdl] at h1
    cases h1
  | cancelled =>
    have he : e = .cancelArrive s := hr
    subst he
    simp only [stepB] at h
    split at h
    · rename_i hg
      have := hC.noCreq s
      rw [hg.2.2.2.1] at this; cases this
    · cases h
  | crashed => exact absurd hr.1 (hnf s)

theorem clean_step (c : Cfg) (hwf : c.wf = true) (hplain : Plain c) (st st' : StB) (e : EvB)
    (hA : InvA c st.a) (hB : InvB c st) (hE : ExitInv c st) (hC : Clean c st)
    (hok : ∀ j, e ≠ .bodyEnd j false) (hnf : ∀ s, e ≠ .orchFail s) (hnx : e ≠ .extCancel)
    (h : stepB c st e = some st') : Clean c st' := by
  have hB' := invB_step c hwf st st' e hA hB h
  have hleave := clean_leave c hplain st st' e hA hB hC hnf h
  obtain ⟨f1, _, _, _⟩ := step_facts c st st' e h
  have hcreq : ∀ k, st'.a.creq k = false := by
    intro k
    cases hk : st'.a.creq k with
    | false => rfl
    | true =>
      exfalso
      rcases creq_back c st st' e h k hk with h1 | ⟨h1, h2, h3, h4⟩ | ⟨h1, _⟩
      · rw [hC.noCreq k] at h1; cases h1
      · have := (hleave _ h1 h2).2 k h4
        cases hph : st.a.ph k <;> simp [hph, Ph.live, Ph.isDone] at h3 this
      · exact hnx h1
  have hexit : ∀ s x, (st'.pcB s).exitOf = some x → x = .success := by
    intro s x hx
    rcases ExitB.pcB_step c st st' e s hB h with ⟨q1, _⟩ | ⟨_, q1, _⟩ | ⟨q0, ⟨y, q1⟩, _⟩ |
        ⟨y, y', q0, q1, q2, _⟩ | ⟨y, pick, r, _, _, _, _, _, q1, _⟩
    · rw [q1] at hx; exact hC.okExit s x hx
    · rw [q1] at hx; split at hx <;> simp [PcB.exitOf] at hx
    · have := (hleave s q0 (by rw [q1]; simp)).1
      rw [this] at hx; simp only [PcB.exitOf, Option.some.injEq] at hx; exact hx.symm
    · rw [q1] at hx; cases hx
      rcases q2 with rfl | rfl
      · exact hC.okExit s _ q0
      · exfalso
        have hc := hB'.cancelledArr s q1
        rcases hB'.carrivedCreq2 s hc with h1 | h1
        · rw [hcreq s] at h1; cases h1
        · rw [h1] at q1; simp [PcB.exitOf] at q1
    · rw [q1] at hx; simp [PcB.exitOf] at hx
  refine ⟨hcreq, ?_, ?_, hexit, doneOver_step c st st' e h hC.doneOver, ?_⟩
  · intro k ex hex
    rcases exc_back c st st' e h k ex hex with h1 | h1 | ⟨h1, h2⟩
    · exact hC.noExc k ex h1
    · exact hok k h1
    · cases hx : (st.pcB k).exitOf with
      | none => exact h1 hx
      | some x => rw [hx, hC.okExit k x hx] at h2; exact h2 rfl
  · intro k hk
    rcases cancelled_back c st st' e h k hk with h1 | h1 | h1
    · exact hC.noCan k h1
    · rw [hC.noCreq k] at h1; cases h1
    · cases hC.okExit k _ h1
  · intro s hov k hk
    have hks : k ≠ s := fun hh => CoreB.not_self_child (CoreB.wf_of c hwf) s (hh ▸ hk)
    rcases ExitB.pcB_step c st st' e s hB h with ⟨q1, _⟩ | ⟨_, q1, _⟩ | ⟨q0, ⟨y, q1⟩, _⟩ |
        ⟨y, y', q0, q1, q2, _⟩ | ⟨y, pick, r, q0, _, q2, _, _, q1, _⟩
    · rw [q1] at hov
      have := hC.overDone s hov k hk
      rw [f1 k (Or.inl this)]; exact this
    · rw [q1] at hov
      split at hov
      · rename_i he
        rw [List.isEmpty_iff] at he; rw [he] at hk; cases hk
      · cases hov
    · rw [q1] at hov; cases hov
    · rw [hov] at q1; simp [PcB.exitOf] at q1
    · have hy := hC.okExit s y q0
      subst hy
      have := ((hE.successMeans s q0).1 k hk (hplain k (CoreB.mem_children.1 hk).1).2.2).1
      rw [q2]; simp only [setAt, if_neg hks]; exact this

/-- `InvA`, `InvB`, `ExitInv` and `Clean` are carried along a history of a plain configuration in which no body raises,
    no orchestration fails and nobody cancels the top-level task from outside -/
theorem clean_accept (c : Cfg) (hwf : c.wf = true) (hplain : Plain c) (evs : List EvB) (st0 st : StB)
    (hA : InvA c st0.a) (hB : InvB c st0) (hE : ExitInv c st0) (hC : Clean c st0)
    (hok : ∀ j ok, EvB.bodyEnd j ok ∈ evs → ok = true) (hnf : ∀ s, EvB.orchFail s ∉ evs)
    (hnx : EvB.extCancel ∉ evs)
    (h : acceptB c st0 evs = some st) : Clean c st := by
  induction evs generalizing st0 with
  | nil => simp only [acceptB] at h; cases h; exact hC
  | cons e es ih =>
    simp only [acceptB] at h
    split at h
    · rename_i st1 hs
      have hB1 := invB_step c hwf st0 st1 e hA hB hs
      have hE1 := exitInv_step c hwf st0 st1 e hA hB hE hs
      have hC1 := clean_step c hwf hplain st0 st1 e hA hB hE hC
        (fun j he => by have := hok j false (by rw [he]; exact List.mem_cons_self); cases this)
        (fun s he => hnf s (by rw [he]; exact List.mem_cons_self))
        (fun he => hnx (by rw [he]; exact List.mem_cons_self)) hs
      have hA1 : InvA c st1.a := by
        rcases stepB_refines c st0 st1 e hs with heq | ⟨ea, hea⟩
        · rw [heq]; exact hA
        · exact invA_step c hwf st0.a st1.a ea hA hea
      exact ih st1 hA1 hB1 hE1 hC1 (fun j ok hm => hok j ok (List.mem_cons_of_mem _ hm))
        (fun s hm => hnf s (List.mem_cons_of_mem _ hm)) (fun hm => hnx (List.mem_cons_of_mem _ hm)) h
    · cases h

theorem clean_reach (c : Cfg) (hwf : c.wf = true) (hplain : Plain c) (evs : List EvB) (st : StB)
    (hok : ∀ j ok, EvB.bodyEnd j ok ∈ evs → ok = true) (hnf : ∀ s, EvB.orchFail s ∉ evs)
    (hnx : EvB.extCancel ∉ evs)
    (h : acceptB c StB.init evs = some st) : Clean c st :=
  clean_accept c hwf hplain evs StB.init st (invA_init c) (invB_init c) (exitInv_init c) (clean_init c) hok hnf hnx h

end AJ.Proofs.FlatB
