/-
  C04, last sentence: `why()` names exactly the cause of a failed run, and none after a success.  `why()` is a
  function of the two diagnosis flags (Model/Why.lean); the flags are tied to the history by `failT_iff_timesOut`,
  `failC_iff_critOut`, `diag_exclusive`, and to the verdict by `verdict_true_iff`.  No existing file modified.
-/
import AJ.Model.Why
import AJ.Proofs.Gap1
namespace AJ.Proofs.WhyB
open AJ.Run AJ.Full AJ.Proofs.CoreA AJ.Proofs.CoreB AJ.Proofs.ExitB AJ.Proofs.Gap1
set_option linter.unusedVariables false

/-- `why()` is `"FINE"` exactly when the run of `s` has left its main loop neither on expiry nor on a critical
    failure, anywhere in the history -/
theorem why_fine_iff (c : Cfg) (hwf : c.wf = true) (evs : List EvB) (st : StB)
    (h : acceptB c StB.init evs = some st) (s : Nat) :
    st.why c s = .fine ↔ ¬ timesOut c s evs ∧ ¬ critOut c s evs := by
  rw [← failT_iff_timesOut c hwf evs st h s, ← failC_iff_critOut c hwf evs st h s]
  unfold StB.why whyOf
  cases st.failT s <;> cases st.failC s <;> simp

/-- `why()` is the timeout message exactly when the run of `s` left its main loop on expiry; the duration in the
    message is the configured timeout -/
theorem why_timedOut_iff (c : Cfg) (hwf : c.wf = true) (evs : List EvB) (st : StB)
    (h : acceptB c StB.init evs = some st) (s : Nat) :
    st.why c s = .timedOut (c.timeout s) ↔ timesOut c s evs := by
  rw [← failT_iff_timesOut c hwf evs st h s]
  unfold StB.why whyOf
  cases st.failT s <;> cases st.failC s <;> simp

/-- the timeout message never carries another duration than the configured one -/
theorem why_timedOut_value (c : Cfg) (st : StB) (s : Nat) (t : Option Nat)
    (hw : st.why c s = .timedOut t) : t = c.timeout s := by
  unfold StB.why whyOf at hw
  cases hT : st.failT s <;> cases hC : st.failC s <;> simp [hT, hC] at hw <;> exact hw.symm

/-- `why()` is the critical-failure message exactly when the run of `s` left its main loop on a critical failure
    (the two exits exclude each other: `diag_exclusive`) -/
theorem why_critical_iff (c : Cfg) (hwf : c.wf = true) (evs : List EvB) (st : StB)
    (h : acceptB c StB.init evs = some st) (s : Nat) :
    st.why c s = .critical ↔ critOut c s evs := by
  have hx := diag_exclusive c hwf evs st h s
  rw [← failC_iff_critOut c hwf evs st h s]
  unfold StB.why whyOf
  cases hT : st.failT s <;> cases hC : st.failC s <;> simp [hT, hC] at hx ⊢

/-- none after a success: a run that returned `True` says `"FINE"` -/
theorem why_fine_of_true (c : Cfg) (hwf : c.wf = true) (evs : List EvB) (st : StB)
    (h : acceptB c StB.init evs = some st) (s : Nat) (hs : s < c.n) (hsch : c.isSched s = true)
    (hover : st.pcB s = .over) (hne : c.children s ≠ [])
    (ht : st.a.ph s = .done (.retBool true)) : st.why c s = .fine := by
  have hv := (verdict_true_iff c hwf evs st h s hs hsch hover hne).1 ht
  exact (why_fine_iff c hwf evs st h s).2 ⟨hv.1, hv.2.1⟩

/-- exactly that cause after a failure: a run that is over, did not return `True`, was not cancelled and did not
    raise the exception of its own orchestration does not say `"FINE"`: it names the expiry or the critical failure
    that took it out of its loop (`why_timedOut_iff`, `why_critical_iff` say which) -/
theorem why_names_cause (c : Cfg) (hwf : c.wf = true) (evs : List EvB) (st : StB)
    (h : acceptB c StB.init evs = some st) (s : Nat) (hs : s < c.n) (hsch : c.isSched s = true)
    (hover : st.pcB s = .over) (hne : c.children s ≠ [])
    (hnt : st.a.ph s ≠ .done (.retBool true)) (hnc : st.a.ph s ≠ .cancelled)
    (hno : st.a.ph s ≠ .done (.exc (.orch s))) :
    (st.why c s = .timedOut (c.timeout s) ∧ timesOut c s evs) ∨ (st.why c s = .critical ∧ critOut c s evs) := by
  have hv := verdict_true_iff c hwf evs st h s hs hsch hover hne
  by_cases h1 : timesOut c s evs
  · exact Or.inl ⟨(why_timedOut_iff c hwf evs st h s).2 h1, h1⟩
  · by_cases h2 : critOut c s evs
    · exact Or.inr ⟨(why_critical_iff c hwf evs st h s).2 h2, h2⟩
    · exact absurd (hv.2 ⟨h1, h2, hnc, hno⟩) hnt

/-- the message never changes once the run is over (`diag_stable` for both flags) — stated on the flags' history
    characterisation: a longer history keeps a cause that was named -/
theorem why_cause_kept (c : Cfg) (hwf : c.wf = true) (evs more : List EvB) (st st' : StB)
    (h : acceptB c StB.init evs = some st) (h' : acceptB c StB.init (evs ++ more) = some st') (s : Nat)
    (hw : st.why c s ≠ .fine) : st'.why c s ≠ .fine := by
  intro hf
  have h2 := (why_fine_iff c hwf (evs ++ more) st' h' s).1 hf
  apply hw
  refine (why_fine_iff c hwf evs st h s).2 ⟨fun ⟨pre, st1, hp, ha, hx⟩ => h2.1 ⟨pre, st1, ?_, ha, hx⟩,
    fun ⟨pre, st1, hp, ha, hx⟩ => h2.2 ⟨pre, st1, ?_, ha, hx⟩⟩
  · exact hp.trans (List.prefix_append _ _)
  · exact hp.trans (List.prefix_append _ _)

/-- the timeout message always carries a number, and that much time has passed since the run began (`"TIMED OUT after
    Nones"` is never said; `ExitInv.failTMeans`) -/
theorem why_timedOut_means (c : Cfg) (hwf : c.wf = true) (evs : List EvB) (st : StB)
    (h : acceptB c StB.init evs = some st) (s : Nat) (t : Option Nat) (hw : st.why c s = .timedOut t) :
    ∃ T, t = some T ∧ c.timeout s = some T ∧ st.tbegin s + T ≤ st.a.now := by
  have hE := exitInv_reach c hwf evs st h
  have ht := why_timedOut_value c st s t hw
  have hf : st.failT s = true := by
    unfold StB.why whyOf at hw
    cases hT : st.failT s <;> cases hC : st.failC s <;> simp [hT, hC] at hw ⊢
  obtain ⟨T, h1, h2⟩ := hE.failTMeans s hf
  exact ⟨T, by rw [ht, h1], h1, h2⟩

/-- the critical-failure message is only given when a critical job of the scheduler has raised (`ExitInv.failCMeans`) -/
theorem why_critical_means (c : Cfg) (hwf : c.wf = true) (evs : List EvB) (st : StB)
    (h : acceptB c StB.init evs = some st) (s : Nat) (hw : st.why c s = .critical) :
    ∃ k ∈ c.children s, c.critical k = true ∧ ∃ ex, st.a.ph k = .done (.exc ex) := by
  have hE := exitInv_reach c hwf evs st h
  have hf : st.failC s = true := by
    unfold StB.why whyOf at hw
    cases hT : st.failT s <;> cases hC : st.failC s <;> simp [hT, hC] at hw ⊢
  exact hE.failCMeans s hf

/-- a scheduler whose run has not begun, or is still in its main loop, says `"FINE"` (`InvB.diagClear`) -/
theorem why_fine_in_loop (c : Cfg) (hwf : c.wf = true) (evs : List EvB) (st : StB)
    (h : acceptB c StB.init evs = some st) (s : Nat) (hp : st.pcB s = .notBegun ∨ st.pcB s = .loop) :
    st.why c s = .fine := by
  have hB := invB_reach c hwf evs st h
  have hne : st.pcB s ≠ .over := by rcases hp with hp | hp <;> rw [hp] <;> simp
  have hd := hB.diagClear s hne
  have hx : (st.pcB s).exitOf = none := by rcases hp with hp | hp <;> rw [hp] <;> rfl
  unfold StB.why whyOf
  cases hT : st.failT s <;> cases hC : st.failC s <;> simp
  all_goals first
    | (have := hd.2 hT; rw [hx] at this; simp at this)
    | (have := hd.1 hC; rw [hx] at this; simp at this)

/-! ### non-vacuity: the expiry of `tmoCfg` (ExitB) says "TIMED OUT after 3s" -/
example : (acceptB tmoCfg StB.init tmoEvs).map (fun st => st.why tmoCfg 0) = some (.timedOut (some 3)) := by decide
example : (acceptB tmoCfg StB.init [.runBegin, .grant 1]).map (fun st => st.why tmoCfg 0) = some .fine := by decide

end AJ.Proofs.WhyB
