/-
  Layer B: a run can always still finish (C03) — from every reachable state in which the top-level run has begun,
  some continuation of the history brings it to its end.  ("AG EF over": the run is never wedged, whatever happened
  before — windows, failures, cancellations, expiries; with the fairness assumption that the environment does
  deliver the ends of bodies and handlers, this is termination.)

  Proof: induction on the variant `mu` of `BoundB` (every event other than `tick` makes it decrease).  While the
  top-level run is not over some event other than `tick` is enabled: when something urgent is pending this is
  `urgent_enabled`; when the state is quiet the descent of `ProgB.inflight_below`, replayed here with a sharper
  conclusion (`busy_below`), finds an atomic job whose body is executing or whose shutdown handler is pending, and
  the environment may end it (`bodyEnd`/`cancelAck`, `hEnd`/`hCancelAck`).  No `tick` is needed.
-/
import AJ.Proofs.ProgB
import AJ.Proofs.BoundB
namespace AJ.Proofs.FinB
open AJ.Run AJ.Full AJ.Proofs.CoreA AJ.Proofs.CoreB AJ.Proofs.ProgB AJ.Proofs.BoundB
set_option linter.unusedVariables false
set_option linter.unusedSimpArgs false

/-! ### histories -/

theorem acceptB_append (c : Cfg) (st0 : StB) (e1 e2 : List EvB) :
    acceptB c st0 (e1 ++ e2) = (acceptB c st0 e1).bind (fun st => acceptB c st e2) := by
  induction e1 generalizing st0 with
  | nil => simp [acceptB]
  | cons e es ih =>
    simp only [List.cons_append, acceptB]
    cases stepB c st0 e with
    | none => rfl
    | some st1 => exact ih st1

theorem acceptB_snoc {c : Cfg} {st0 st st' : StB} {evs : List EvB} {e : EvB}
    (h : acceptB c st0 evs = some st) (hs : stepB c st e = some st') :
    acceptB c st0 (evs ++ [e]) = some st' := by
  rw [acceptB_append, h]
  simp [acceptB, hs]

/-! ### once begun, never `notBegun` again -/

theorem pcA_begun_stepA (c : Cfg) (a a' : StA) (e : EvA) (h : stepA c a e = some a') (s : Nat)
    (hp : a.pc s ≠ .notBegun) : a'.pc s ≠ .notBegun := by
  cases e <;> simp only [stepA] at h <;> (repeat' split at h) <;> cases h <;>
    (try unfold beginRun) <;> (repeat' split) <;> simp only [release, startJobs, setAt] <;>
    grind

theorem begun_step (c : Cfg) (hwf : c.wf = true) (st st' : StB) (e : EvB) (hA : InvA c st.a) (hB : InvB c st)
    (h : stepB c st e = some st') (s : Nat) (hb : st.pcB s ≠ .notBegun) : st'.pcB s ≠ .notBegun := by
  have hB' := invB_step c hwf st st' e hA hB h
  have h1 : st.a.pc s ≠ .notBegun := fun hh => hb ((hB.pcNotBegun s).2 hh)
  intro hh
  have h2 := (hB'.pcNotBegun s).1 hh
  rcases stepB_refines c st st' e h with heq | ⟨ea, hea⟩
  · rw [heq] at h2; exact h1 h2
  · exact pcA_begun_stepA c _ _ ea hea s h1 h2

/-! ### in a quiet state with an unfinished run an atomic job or handler is at work -/

/-- an atomic job whose body is executing, or whose shutdown handler is pending: something the environment ends -/
def Busy (c : Cfg) (st : StB) : Prop :=
  (∃ j, j < c.n ∧ c.isSched j = false ∧ st.a.ph j = .running) ∨
  (∃ j, j < c.n ∧ c.isSched j = false ∧ st.hph j = .hactive)

/-- the descent of `ProgB.inflight_below`: it only ever ends on an atomic job -/
theorem busy_below {c : Cfg} (w : CoreA.WF c) {st : StB} (hA : InvA c st.a) (hB : InvB c st) (hP : InvP c st)
    (hQ : ∀ j, j < c.n → QuietAt c st j) :
    ∀ m s, c.n - s ≤ m → s < c.n → c.isSched s = true → (st.a.ph s = .running ∨ relayActive st s = true) →
      Busy c st := by
  intro m
  induction m with
  | zero => intro s h1 h2; omega
  | succ m ih =>
    intro s hm hsn hss hcase
    have hq := hQ s hsn
    have hchildRun : ∀ k ∈ c.children s, st.a.ph k = .running → Busy c st := by
      intro k hk hr
      obtain ⟨hkn, hk0, hkp⟩ := CoreA.mem_children.1 hk
      have hlt := w.parentLt k (by omega) hkn
      cases hks : c.isSched k
      · exact Or.inl ⟨k, hkn, hks, hr⟩
      · exact ih k (by omega) hkn hks (Or.inl hr)
    have hchildH : ∀ k ∈ c.children s, st.hph k = .hactive → Busy c st := by
      intro k hk hh
      obtain ⟨hkn, hk0, hkp⟩ := CoreA.mem_children.1 hk
      have hlt := w.parentLt k (by omega) hkn
      cases hks : c.isSched k
      · exact Or.inr ⟨k, hkn, hks, hh⟩
      · have hr : relayActive st k = true := by
          cases hr : relayActive st k
          · exact absurd ⟨hks, hh, hr⟩ (hQ k hkn).q5
          · rfl
        exact ih k (by omega) hkn hks (Or.inr hr)
    have hbcast : ((st.bc s).isWait = true ∨ (st.bc s).isTidy = true) → Busy c st := by
      intro hbc
      cases hact : activeHandlers c st s with
      | nil => exact absurd ⟨hss, hbc, hact⟩ hq.q7
      | cons k l =>
        have hk : k ∈ activeHandlers c st s := by simp [hact]
        obtain ⟨hkc, hkh⟩ := mem_activeHandlers.1 hk
        exact hchildH k hkc hkh
    rcases hcase with hrun | hrel
    · obtain ⟨hnb, hno⟩ := hP.runPc s hss hrun
      cases hp : st.pcB s with
      | notBegun => exact absurd hp hnb
      | over => exact absurd hp hno
      | loop =>
        obtain ⟨k, hk, hr⟩ := loop_has_running w hA hB hP hQ hsn hss hp
        exact hchildRun k hk hr
      | tidy x =>
        cases hlc : liveChildren c st.a s with
        | nil => exact absurd ⟨hss, by simp [hp, PcB.isTidy], hlc⟩ hq.q4
        | cons k l =>
          have hk : k ∈ liveChildren c st.a s := by simp [hlc]
          obtain ⟨hkc, hkl⟩ := mem_liveChildren.1 hk
          obtain ⟨hkn, hk0, hkp⟩ := CoreA.mem_children.1 hkc
          have hcr := hB.exitCancelled s (by simp [hp, PcB.exiting]) k hkc hkl
          have hr : st.a.ph k = .running := by
            rcases ph_cases (st.a.ph k) with h | h | h | h | h
            · simp [h, Ph.live] at hkl
            · exact absurd ⟨by omega, h, Or.inl hcr⟩ (hQ k hkn).q1
            · exact h
            · cases hph : st.a.ph k <;> simp [hph, Ph.live, Ph.isDone] at hkl h
            · simp [h, Ph.live] at hkl
          exact hchildRun k hkc hr
      | shut x =>
        have := (hB.bcInlineWait s).2 ⟨x, hp⟩
        exact hbcast (Or.inl (by simp [this, Bc.isWait]))
      | shutTidy x =>
        have := (hB.bcInlineTidy s).2 ⟨x, hp⟩
        exact hbcast (Or.inr (by simp [this, Bc.isTidy]))
    · simp only [relayActive, Bool.or_eq_true, beq_iff_eq] at hrel
      rcases hrel with h | h
      · exact hbcast (Or.inl (by simp [h, Bc.isWait]))
      · exact hbcast (Or.inr (by simp [h, Bc.isTidy]))

/-! ### what the environment may do about it -/

/-- the body of a running atomic job may end, or acknowledge its cancellation -/
theorem en_body {c : Cfg} (w : CoreA.WF c) {st : StB} {j : Nat} (hjn : j < c.n) (hjs : c.isSched j = false)
    (hr : st.a.ph j = .running) : ∃ e st', internalEv e ∧ stepB c st e = some st' := by
  have hj0 : 0 < j := by
    apply Nat.pos_of_ne_zero
    intro h; subst h; rw [w.sched0] at hjs; cases hjs
  cases hc : st.a.creq j with
  | false =>
    have : ∃ a', stepA c st.a (.bodyEnd j true) = some a' := by
      simp only [stepA]
      rw [if_pos ⟨hj0, hjn, hjs, hr, hc⟩]
      exact ⟨_, rfl⟩
    obtain ⟨a', ha⟩ := this
    have : ∃ st', stepB c st (.bodyEnd j true) = some st' := by
      simp only [stepB, ha]; exact ⟨_, rfl⟩
    obtain ⟨st', hs⟩ := this
    exact ⟨.bodyEnd j true, st', trivial, hs⟩
  | true =>
    have : ∃ a', stepA c st.a (.cancelAck j) = some a' := by
      simp only [stepA]
      rw [if_pos ⟨hj0, hjn, hc, Or.inr ⟨hr, hjs⟩⟩]
      exact ⟨_, rfl⟩
    obtain ⟨a', ha⟩ := this
    have : ∃ st', stepB c st (.cancelAck j) = some st' := by
      simp only [stepB, ha]; exact ⟨_, rfl⟩
    obtain ⟨st', hs⟩ := this
    exact ⟨.cancelAck j, st', trivial, hs⟩

/-- the shutdown handler of an atomic job may end, or acknowledge its cancellation -/
theorem en_handler {c : Cfg} (w : CoreA.WF c) {st : StB} {j : Nat} (hjn : j < c.n) (hjs : c.isSched j = false)
    (hh : st.hph j = .hactive) : ∃ e st', internalEv e ∧ stepB c st e = some st' := by
  have hj0 : 0 < j := by
    apply Nat.pos_of_ne_zero
    intro h; subst h; rw [w.sched0] at hjs; cases hjs
  cases hc : st.hcreq j with
  | false =>
    have : ∃ st', stepB c st (.hEnd j) = some st' := by
      simp only [stepB]
      rw [if_pos ⟨hj0, hjn, hjs, hh, hc⟩]
      exact ⟨_, rfl⟩
    obtain ⟨st', hs⟩ := this
    exact ⟨.hEnd j, st', trivial, hs⟩
  | true =>
    have : ∃ st', stepB c st (.hCancelAck j) = some st' := by
      simp only [stepB]
      rw [if_pos ⟨hj0, hjn, hjs, hh, hc⟩]
      exact ⟨_, rfl⟩
    obtain ⟨st', hs⟩ := this
    exact ⟨.hCancelAck j, st', trivial, hs⟩

/-- while the top-level run is unfinished, some event of the run itself — neither the passing of time, nor a
    cancellation from outside — is enabled -/
theorem work_enabled_internal (c : Cfg) (hwf : c.wf = true) (evs : List EvB) (st : StB)
    (h : acceptB c StB.init evs = some st) (hb : st.pcB 0 ≠ .notBegun) (ho : st.pcB 0 ≠ .over) :
    ∃ e st', internalEv e ∧ stepB c st e = some st' := by
  cases hq : quietB c st with
  | false => exact urgent_enabled_internal c hwf evs st h hq
  | true =>
    have hA := invA_of_reachB c hwf evs st h
    have hB := invB_reach c hwf evs st h
    have hP := invP_reach c hwf evs st h
    have hQ := (quietB_iff c st).1 hq
    have w := CoreA.wf_of hwf
    have hbusy := busy_below w hA hB hP hQ c.n 0 (by omega) w.npos w.sched0 (Or.inl (hB.runPh 0 hb ho))
    rcases hbusy with ⟨j, hjn, hjs, hr⟩ | ⟨j, hjn, hjs, hh⟩
    · exact en_body w hjn hjs hr
    · exact en_handler w hjn hjs hh

/-- while the top-level run is unfinished, some event other than the passing of time is enabled -/
theorem work_enabled (c : Cfg) (hwf : c.wf = true) (evs : List EvB) (st : StB)
    (h : acceptB c StB.init evs = some st) (hb : st.pcB 0 ≠ .notBegun) (ho : st.pcB 0 ≠ .over) :
    ∃ e st', (∀ d, e ≠ .tick d) ∧ stepB c st e = some st' := by
  obtain ⟨e, st', hi, hs⟩ := work_enabled_internal c hwf evs st h hb ho
  exact ⟨e, st', hi.not_tick, hs⟩

theorem isTick_false {e : EvB} (h : ∀ d, e ≠ .tick d) : isTick e = false := by
  cases e <;> first | rfl | exact absurd rfl (h _)

/-! ### the theorem -/

theorem finish_of_mu (c : Cfg) (hwf : c.wf = true) :
    ∀ n (evs : List EvB) (st : StB), acceptB c StB.init evs = some st → st.pcB 0 ≠ .notBegun → mu c st ≤ n →
      ∃ evs' st', acceptB c st evs' = some st' ∧ st'.pcB 0 = .over ∧ ∀ e ∈ evs', internalEv e := by
  intro n
  induction n with
  | zero =>
    intro evs st h hb hm
    by_cases ho : st.pcB 0 = .over
    · exact ⟨[], st, rfl, ho, fun _ h => by cases h⟩
    · exfalso
      obtain ⟨e, st1, hi, hs⟩ := work_enabled_internal c hwf evs st h hb ho
      have hnt := hi.not_tick
      have hA := invA_of_reachB c hwf evs st h
      have hB := invB_reach c hwf evs st h
      have := mu_step c hwf st st1 e hA hB hs
      rw [isTick_false hnt] at this
      simp at this
      omega
  | succ n ih =>
    intro evs st h hb hm
    by_cases ho : st.pcB 0 = .over
    · exact ⟨[], st, rfl, ho, fun _ h => by cases h⟩
    · obtain ⟨e, st1, hi, hs⟩ := work_enabled_internal c hwf evs st h hb ho
      have hnt := hi.not_tick
      have hA := invA_of_reachB c hwf evs st h
      have hB := invB_reach c hwf evs st h
      have hmu := mu_step c hwf st st1 e hA hB hs
      rw [isTick_false hnt] at hmu
      simp at hmu
      have hb1 := begun_step c hwf st st1 e hA hB hs 0 hb
      obtain ⟨evs', st', hacc, hov, hint⟩ := ih (evs ++ [e]) st1 (acceptB_snoc h hs) hb1 (by omega)
      refine ⟨e :: evs', st', ?_, hov, ?_⟩
      · simp only [acceptB, hs]
        exact hacc
      · intro e' he'
        rcases List.mem_cons.1 he' with rfl | h'
        · exact hi
        · exact hint e' h'

/-- C03: from every reachable state in which `run()` has begun there is a finite continuation — made of events the
    model accepts: reactions of the schedulers, ends of job bodies and shutdown handlers, acknowledgements of
    cancellations, the passing of time up to the next deadline — after which the top-level run is over -/
theorem can_always_finish (c : Cfg) (hwf : c.wf = true) (evs : List EvB) (st : StB)
    (h : acceptB c StB.init evs = some st) (hb : st.pcB 0 ≠ .notBegun) :
    ∃ evs' st', acceptB c st evs' = some st' ∧ st'.pcB 0 = .over := by
  obtain ⟨evs', st', h1, h2, _⟩ := finish_of_mu c hwf (mu c st) evs st h hb (Nat.le_refl _)
  exact ⟨evs', st', h1, h2⟩

/-- … and the run needs no help from outside for that: the continuation can be chosen without any `extCancel` (and, as
    before, without any `tick`): whether or not the top-level task was cancelled from outside earlier on, the run can
    finish by itself -/
theorem can_always_finish_unaided (c : Cfg) (hwf : c.wf = true) (evs : List EvB) (st : StB)
    (h : acceptB c StB.init evs = some st) (hb : st.pcB 0 ≠ .notBegun) :
    ∃ evs' st', acceptB c st evs' = some st' ∧ st'.pcB 0 = .over ∧
      EvB.extCancel ∉ evs' ∧ ∀ d, EvB.tick d ∉ evs' := by
  obtain ⟨evs', st', h1, h2, h3⟩ := finish_of_mu c hwf (mu c st) evs st h hb (Nat.le_refl _)
  exact ⟨evs', st', h1, h2, fun hm => (h3 _ hm).not_ext rfl, fun d hm => (h3 _ hm).not_tick d rfl⟩

end AJ.Proofs.FinB

