/-
  C15 — cycle detection is exact; topological order is a valid linear extension.
  Proofs about `topo`, `checkCyclesPure`, `checkCyclesNested`, `assignIds`, `listing`.
-/
import AJ.Spec
import AJ.Proofs.C15Aux
namespace AJ.Proofs.C15
open AJ

-- some hypotheses of the (fixed) statements below turn out not to be needed by the proofs
set_option linter.unusedVariables false

/-- every job exactly once -/
theorem topo_perm (t : T) (s : Nat) (l : List Nat) (hnd : (t.mem s).Nodup)
    (h : topo t s = .ok l) : l.Perm (t.mem s) := by
  exact topo_perm_aux t s [] l h

/-- each job after all of its requirements -/
theorem topo_order (t : T) (s : Nat) (l : List Nat) (h : topo t s = .ok l) :
    ∀ a x b, l = a ++ x :: b → ∀ y ∈ t.req x, y ∈ a := by
  exact topo_order_inv t s l h

/-- the fuel is never the reason the loop stops -/
theorem topo_never_fuel (t : T) (s : Nat) (ext : List Nat) (hnd : (t.mem s).Nodup) :
    topo t s ext ≠ .error .fuel := by
  exact topoLoop_never_fuel t s ext _ [] (by omega) (by simp)

/-- exactness: an order is produced iff the (closed) requirement graph is acyclic -/
theorem topo_iff (t : T) (s : Nat) (hnd : (t.mem s).Nodup) (hcl : Closed t s) :
    (∃ l, topo t s = .ok l) ↔ Acyclic t s := by
  constructor
  · rintro ⟨l, h⟩; exact acyclic_of_topo_ok t s l h
  · exact topo_ok_of_acyclic t s hnd hcl

/-- on a cyclic graph it raises (the `Exception` of purescheduler.py:362), it does not loop or drop jobs -/
theorem topo_raises (t : T) (s : Nat) (hnd : (t.mem s).Nodup) (hcl : Closed t s)
    (hcyc : ¬ Acyclic t s) : topo t s = .error .cycle := by
  cases h : topo t s with
  | ok l => exact absurd (acyclic_of_topo_ok t s l h) hcyc
  | error e =>
    rcases topoLoop_error t s [] _ [] e h with rfl | rfl
    · rfl
    · exact absurd h (topoLoop_never_fuel t s [] _ [] (by omega) (by simp))

theorem check_pure_iff (t : T) (s : Nat) (hnd : (t.mem s).Nodup) (hcl : Closed t s) :
    checkCyclesPure t s = true ↔ Acyclic t s := by
  unfold checkCyclesPure
  constructor
  · intro h
    cases h' : topo t s with
    | ok l => exact acyclic_of_topo_ok t s l h'
    | error e => rw [h'] at h; cases h
  · intro hac
    obtain ⟨l, hl⟩ := topo_ok_of_acyclic t s hnd hcl hac
    rw [hl]

/-- `Scheduler.check_cycles`: true iff the scheduler and every nested scheduler at any depth is acyclic.
    Hypotheses: every scheduler of the subtree has duplicate-free members, is closed, and its members have
    larger ids than itself, below `t.n` (what `T.wf` gives); the fuel covers the depth. -/
theorem check_nested_iff (t : T) (fuel s : Nat)
    (hwf : ∀ s', (s' = s ∨ Desc t s s') → t.isSched s' = true →
        (t.mem s').Nodup ∧ Closed t s' ∧ ∀ k ∈ t.mem s', s' < k ∧ k < t.n)
    (hs : s < t.n) (hfuel : t.n - s ≤ fuel) (hsched : t.isSched s = true) :
    checkCyclesNested t fuel s = true ↔
      (Acyclic t s ∧ ∀ s', Desc t s s' → t.isSched s' = true → Acyclic t s') := by
  induction fuel generalizing s with
  | zero => omega
  | succ fuel ih =>
    obtain ⟨hnd, hcl, hlt⟩ := hwf s (Or.inl rfl) hsched
    simp only [checkCyclesNested]
    cases h : topo t s with
    | error e =>
      simp only [Bool.false_eq_true, false_iff]
      intro ⟨hac, _⟩
      obtain ⟨l, hl⟩ := topo_ok_of_acyclic t s hnd hcl hac
      rw [hl] at h; cases h
    | ok l =>
      have hac := acyclic_of_topo_ok t s l h
      have hperm := topo_perm_aux t s [] l h
      simp only [List.all_eq_true, Bool.or_eq_true, Bool.not_eq_eq_eq_not, Bool.not_true]
      have key : ∀ j ∈ t.mem s, t.isSched j = true →
          (checkCyclesNested t fuel j = true ↔
            (Acyclic t j ∧ ∀ s', Desc t j s' → t.isSched s' = true → Acyclic t s')) := by
        intro j hj hjs
        have hj' := hlt j hj
        apply ih j
        · intro s' hs'
          apply hwf s'
          rcases hs' with rfl | hd
          · exact Or.inr (Desc.child hsched hj)
          · exact Or.inr (Desc.deeper hsched hj hd)
        · exact hj'.2
        · omega
        · exact hjs
      constructor
      · intro hall
        refine ⟨hac, ?_⟩
        intro s' hd hs'
        cases hd with
        | child _ hk =>
          rcases hall s' (hperm.mem_iff.mpr hk) with hns | hc
          · rw [hs'] at hns; cases hns
          · exact ((key s' hk hs').mp hc).1
        | @deeper _ k _ _ hk hd' =>
          have hks := desc_sched t hd'
          rcases hall k (hperm.mem_iff.mpr hk) with hns | hc
          · rw [hks] at hns; cases hns
          · exact ((key k hk hks).mp hc).2 s' hd' hs'
      · intro ⟨_, hall⟩ j hj
        have hjm := hperm.mem_iff.mp hj
        cases hjs : t.isSched j with
        | false => exact Or.inl rfl
        | true =>
          right
          refine (key j hjm hjs).mpr ⟨hall j (Desc.child hsched hjm) hjs, ?_⟩
          intro s' hd hs'
          exact hall s' (Desc.deeper hsched hjm hd) hs'

/-- ids given by `_set_sched_ids` are consecutive from `start`, in the order of `listing` -/
theorem ids_consecutive (t : T) (fuel s start nxt : Nat) (l : List (Nat × Nat))
    (h : assignIds t fuel s start = .ok (nxt, l)) :
    l.map (·.2) = List.range' start l.length ∧ nxt = start + l.length ∧
    listing t fuel s = .ok (l.map (·.1)) := by
  exact ids_consecutive_aux t fuel s start nxt l h

/-- within one scheduler a requirement is listed (hence numbered) before its dependant:
    `listing` of `s` restricted to the direct members of `s` is `topo t s` -/
theorem listing_members (t : T) (fuel s : Nat) (l lt : List Nat)
    (hnd : (t.mem s).Nodup)
    (hwf : ∀ s', (s' = s ∨ Desc t s s') → t.isSched s' = true →
        (t.mem s').Nodup ∧ ∀ k ∈ t.mem s', s' < k ∧ k < t.n)
    (hdisj : ∀ k ∈ t.mem s, ∀ d, Desc t k d → d ∉ t.mem s)
    (h : listing t (fuel + 1) s = .ok l) (ht : topo t s = .ok lt) :
    l.filter (· ∈ t.mem s) = lt := by
  exact listing_members_aux t fuel s l lt hdisj h ht


end AJ.Proofs.C15
