/-
  C10 (d), "every job runs at the same times as in the flattened graph" — the arithmetic part.

  A run in which nothing fails, with no window, no timeout and no forever job, and shutdown handlers that take no time,
  obeys *start-time equations* (`Timing.Sat`, proved of every such accepted history in `Proofs/FlatB.lean`):
    begin j  = max (begin (parent j)) (max over r ∈ req j of end r)
    end j    = begin j + dur j                              (atomic job)
    end s    = max (begin s) (max over the jobs k of s of end k)   (scheduler)
  This file shows, with no reference to histories, that these equations *are* the equations of the flattened graph:
  every atomic job begins at `max over r ∈ flatReq j of (begin r + dur r)` where `flatReq` is the requirement relation of
  the flattened graph (the entry jobs of a nested scheduler inherit its requirements, whoever required it requires its exit
  jobs — what `harness/dyn_gen.flatten_variant` builds), that the equations have one solution only, and hence that a
  nested tree and any flat graph whose requirements are those of `flatReq` (up to a renaming of the jobs) give the same
  times to the same jobs.
  Core Lean only.
-/
import AJ.Model.Flat
import AJ.Proofs.CoreA
namespace AJ.Proofs.FlatEq
open AJ.Run AJ.Flat
open AJ.Proofs.CoreA (WF wf_of mem_children)
set_option linter.unusedVariables false

/-! `sup`, `Timing` and the start-time equations `Timing.Sat` are defined in `Model/Flat.lean`. -/

/-! ### `sup` -/

private theorem foldl_max_le_iff (l : List Nat) (a b : Nat) :
    l.foldl max a ≤ b ↔ a ≤ b ∧ ∀ x ∈ l, x ≤ b := by
  induction l generalizing a with
  | nil => simp
  | cons y l ih =>
    simp only [List.foldl_cons, ih, List.mem_cons, Nat.max_le]
    constructor
    · rintro ⟨⟨h1, h2⟩, h3⟩
      refine ⟨h1, fun x hx => ?_⟩
      rcases hx with rfl | hx
      · exact h2
      · exact h3 x hx
    · rintro ⟨h1, h2⟩
      exact ⟨⟨h1, h2 y (Or.inl rfl)⟩, fun x hx => h2 x (Or.inr hx)⟩

/-- `sup l` is the least upper bound of `l` -/
theorem sup_le_iff {l : List Nat} {b : Nat} : sup l ≤ b ↔ ∀ x ∈ l, x ≤ b := by
  simp [sup, foldl_max_le_iff]

theorem le_sup_of_mem {l : List Nat} {x : Nat} (h : x ∈ l) : x ≤ sup l :=
  sup_le_iff.1 (Nat.le_refl _) x h

@[simp] theorem sup_nil : sup [] = 0 := rfl

theorem sup_map_le_iff {α : Type} {l : List α} {f : α → Nat} {b : Nat} :
    sup (l.map f) ≤ b ↔ ∀ x ∈ l, f x ≤ b := by
  rw [sup_le_iff]
  constructor
  · intro h x hx; exact h _ (List.mem_map.2 ⟨x, hx, rfl⟩)
  · intro h y hy
    obtain ⟨x, hx, rfl⟩ := List.mem_map.1 hy
    exact h x hx

theorem le_sup_map_of_mem {α : Type} {l : List α} {f : α → Nat} {x : α} (h : x ∈ l) : f x ≤ sup (l.map f) :=
  sup_map_le_iff.1 (Nat.le_refl _) x h

theorem sup_map_flatMap_le_iff {α β : Type} {l : List α} {g : α → List β} {f : β → Nat} {b : Nat} :
    sup ((l.flatMap g).map f) ≤ b ↔ ∀ r ∈ l, sup ((g r).map f) ≤ b := by
  simp only [sup_map_le_iff, List.mem_flatMap]
  constructor
  · intro h r hr x hx; exact h x ⟨r, hr, hx⟩
  · rintro h x ⟨r, hr, hx⟩; exact h r hr x hx

/-- two numbers with the same upper bounds are equal -/
theorem eq_of_forall_ge_iff {x y : Nat} (h : ∀ b, x ≤ b ↔ y ≤ b) : x = y := by
  have h1 := (h x).1 (Nat.le_refl _)
  have h2 := (h y).2 (Nat.le_refl _)
  omega

/-- `sup` only depends on the set of elements -/
theorem sup_congr {l l' : List Nat} (h : ∀ x, x ∈ l ↔ x ∈ l') : sup l = sup l' := by
  apply eq_of_forall_ge_iff
  intro b
  simp only [sup_le_iff, h]

theorem sup_singleton (a : Nat) : sup [a] = a := by
  simp [sup]

/-! ### consequences of the equations -/

section
variable {c : Cfg} {dur : Nat → Nat} {t : Timing}

theorem mem_lastJobs {s k : Nat} :
    k ∈ lastJobs c s ↔ k ∈ c.children s ∧ ∀ k' ∈ c.children s, k ∉ c.req k' := by
  simp [lastJobs, List.mem_filter]

theorem B_parent_le (hs : t.Sat c dur) {j : Nat} (h0 : 0 < j) (hn : j < c.n) : t.B (c.parent j) ≤ t.B j := by
  rw [hs.begin_ j h0 hn]; exact Nat.le_max_left _ _

theorem E_req_le_B (hs : t.Sat c dur) {j r : Nat} (h0 : 0 < j) (hn : j < c.n) (hr : r ∈ c.req j) :
    t.E r ≤ t.B j := by
  rw [hs.begin_ j h0 hn]
  exact Nat.le_trans (le_sup_map_of_mem hr) (Nat.le_max_right _ _)

theorem B_le_E (w : WF c) (hs : t.Sat c dur) {j : Nat} (hn : j < c.n) : t.B j ≤ t.E j := by
  cases hsc : c.isSched j with
  | true => rw [hs.endSched j hn hsc]; exact Nat.le_max_left _ _
  | false =>
    have h0 : 0 < j := by
      rcases Nat.eq_zero_or_pos j with h | h
      · subst h; rw [w.sched0] at hsc; cases hsc
      · exact h
    rw [hs.endJob j h0 hn hsc]; omega

theorem B0_le (w : WF c) (hs : t.Sat c dur) : ∀ j, j < c.n → t.B 0 ≤ t.B j := by
  intro j
  induction j using Nat.strongRecOn with
  | _ j ih =>
    intro hn
    rcases Nat.eq_zero_or_pos j with h | h
    · subst h; exact Nat.le_refl _
    · have hp := w.parentLt j h hn
      exact Nat.le_trans (ih _ hp (by omega)) (B_parent_le hs h hn)

theorem E_child_le (hs : t.Sat c dur) {s k : Nat} (hsn : s < c.n) (hsc : c.isSched s = true)
    (hk : k ∈ c.children s) : t.E k ≤ t.E s := by
  rw [hs.endSched s hsn hsc]
  exact Nat.le_trans (le_sup_map_of_mem hk) (Nat.le_max_right _ _)

/-- every job of `s` ends no later than some job of `s` that no sibling requires -/
theorem child_le_last (w : WF c) (hs : t.Sat c dur) (s : Nat) :
    ∀ m k, c.n - k ≤ m → k ∈ c.children s → ∃ k' ∈ lastJobs c s, t.E k ≤ t.E k' := by
  intro m
  induction m with
  | zero =>
    intro k hm hk
    have := (mem_children.1 hk).1
    omega
  | succ m ih =>
    intro k hm hk
    by_cases hl : k ∈ lastJobs c s
    · exact ⟨k, hl, Nat.le_refl _⟩
    · rw [mem_lastJobs] at hl
      have : ∃ k' ∈ c.children s, k ∈ c.req k' := by
        apply Classical.byContradiction
        intro hc
        exact hl ⟨hk, fun k' hk' hm => hc ⟨k', hk', hm⟩⟩
      obtain ⟨k', hk', hreq⟩ := this
      obtain ⟨hn', h0', hp'⟩ := mem_children.1 hk'
      have h0'' : 0 < k' := by omega
      have hlt := w.reqLt k' h0'' hn' k hreq
      obtain ⟨k'', hk'', hle⟩ := ih k' (by omega) hk'
      refine ⟨k'', hk'', ?_⟩
      have h1 := E_req_le_B hs h0'' hn' hreq
      have h2 := B_le_E w hs hn'
      omega

/-- a scheduler that owns a job ends when the last of its unrequired jobs ends -/
theorem E_sched_eq (w : WF c) (hs : t.Sat c dur) {s : Nat} (hsn : s < c.n) (hsc : c.isSched s = true)
    (hne : c.children s ≠ []) : t.E s = sup ((lastJobs c s).map t.E) := by
  apply eq_of_forall_ge_iff
  intro b
  rw [hs.endSched s hsn hsc, Nat.max_le, sup_map_le_iff, sup_map_le_iff]
  constructor
  · rintro ⟨_, h⟩ k hk
    exact h k (mem_lastJobs.1 hk).1
  · intro h
    have hch : ∀ k ∈ c.children s, t.E k ≤ b := by
      intro k hk
      obtain ⟨k', hk', hle⟩ := child_le_last w hs s (c.n - k) k (Nat.le_refl _) hk
      exact Nat.le_trans hle (h k' hk')
    refine ⟨?_, hch⟩
    obtain ⟨k, hk⟩ := List.exists_mem_of_ne_nil _ hne
    obtain ⟨hn, h0, hp⟩ := mem_children.1 hk
    have h0' : 0 < k := by omega
    have h1 := B_parent_le hs h0' hn
    have h2 := B_le_E w hs hn
    have h3 := hch k hk
    rw [hp] at h1
    omega

theorem nonempty_of_noEmptyNested (hne : noEmptyNested c = true) {s : Nat} (h0 : 0 < s) (hn : s < c.n)
    (hsc : c.isSched s = true) : c.children s ≠ [] := by
  simp only [noEmptyNested, List.all_eq_true, List.mem_range, Bool.or_eq_true, beq_iff_eq,
    Bool.not_eq_true', List.isEmpty_eq_false_iff] at hne
  rcases hne s hn with (h | h) | h
  · omega
  · rw [hsc] at h; cases h
  · exact h

/-- the exit jobs are atomic jobs -/
theorem exitsOf_atomic (w : WF c) : ∀ fuel r, 0 < r → r < c.n →
    ∀ x ∈ exitsOf c fuel r, 0 < x ∧ x < c.n ∧ c.isSched x = false := by
  intro fuel
  induction fuel with
  | zero => intro r _ _ x hx; simp [exitsOf] at hx
  | succ fuel ih =>
    intro r h0 hn x hx
    rw [exitsOf] at hx
    split at hx
    · obtain ⟨k, hk, hxk⟩ := List.mem_flatMap.1 hx
      obtain ⟨hkn, hk0, _⟩ := mem_children.1 (mem_lastJobs.1 hk).1
      exact ih k (by omega) hkn x hxk
    · rename_i hsc
      simp only [List.mem_singleton] at hx
      subst hx
      exact ⟨h0, hn, by simpa using hsc⟩

/-- a job other than the top scheduler ends when the last of its exit jobs ends -/
theorem E_eq_exits (w : WF c) (hne : noEmptyNested c = true) (hs : t.Sat c dur) :
    ∀ fuel r, c.n - r ≤ fuel → 0 < r → r < c.n → t.E r = sup ((exitsOf c fuel r).map t.E) := by
  intro fuel
  induction fuel with
  | zero => intro r hf _ hn; omega
  | succ fuel ih =>
    intro r hf h0 hn
    rw [exitsOf]
    split
    · rename_i hsc
      rw [E_sched_eq w hs hn hsc (nonempty_of_noEmptyNested hne h0 hn hsc)]
      apply eq_of_forall_ge_iff
      intro b
      rw [sup_map_flatMap_le_iff, sup_map_le_iff]
      constructor
      · intro h k hk
        obtain ⟨hkn, hk0, hkp⟩ := mem_children.1 (mem_lastJobs.1 hk).1
        have hk0' : 0 < k := by omega
        have := w.parentLt k hk0' hkn
        rw [← ih k (by omega) hk0' hkn]
        exact h k hk
      · intro h k hk
        obtain ⟨hkn, hk0, hkp⟩ := mem_children.1 (mem_lastJobs.1 hk).1
        have hk0' : 0 < k := by omega
        have := w.parentLt k hk0' hkn
        rw [ih k (by omega) hk0' hkn]
        exact h k hk
    · simp [sup_singleton]

/-- the flattened requirements are atomic jobs -/
theorem flatReq_atomic (w : WF c) : ∀ fuel j, j < c.n →
    ∀ x ∈ flatReq c fuel j, 0 < x ∧ x < c.n ∧ c.isSched x = false := by
  intro fuel
  induction fuel with
  | zero => intro j _ x hx; simp [flatReq] at hx
  | succ fuel ih =>
    intro j hn x hx
    rw [flatReq] at hx
    split at hx
    · simp at hx
    · rename_i hj0
      have hj0' : 0 < j := by omega
      split at hx
      · exact ih _ (w.parentLtN hj0' hn) x hx
      · obtain ⟨r, hr, hxr⟩ := List.mem_flatMap.1 hx
        have := w.reqLt j hj0' hn r hr
        exact exitsOf_atomic w c.n r (w.reqPos j hj0' hn r hr) (by omega) x hxr

/-- the begin instants obey the equations of the flattened graph -/
theorem B_eq_flat (w : WF c) (hne : noEmptyNested c = true) (hs : t.Sat c dur) :
    ∀ fuel j, j ≤ fuel → j < c.n →
      t.B j = max (t.B 0) (sup ((flatReq c fuel j).map fun r => t.B r + dur r)) := by
  intro fuel
  induction fuel with
  | zero =>
    intro j hf _
    have : j = 0 := by omega
    subst this
    simp [flatReq]
  | succ fuel ih =>
    intro j hf hn
    rw [flatReq]
    split
    · rename_i hj0; subst hj0; simp
    · rename_i hj0
      have hj0' : 0 < j := by omega
      have hpl := w.parentLt j hj0' hn
      split
      · rename_i hemp
        rw [← ih _ (by omega) (by omega), hs.begin_ j hj0' hn]
        have : c.req j = [] := by simpa using hemp
        rw [this]; simp
      · rename_i hnemp
        have hreq : c.req j ≠ [] := by simpa using hnemp
        rw [hs.begin_ j hj0' hn]
        -- every requirement ends when its exit jobs end
        have hE : ∀ r ∈ c.req j, t.E r = sup ((exitsOf c c.n r).map fun x => t.B x + dur x) := by
          intro r hr
          have hr0 := w.reqPos j hj0' hn r hr
          have hrl := w.reqLt j hj0' hn r hr
          rw [E_eq_exits w hne hs c.n r (by omega) hr0 (by omega)]
          congr 1
          apply List.map_congr_left
          intro x hx
          obtain ⟨hx0, hxn, hxa⟩ := exitsOf_atomic w c.n r hr0 (by omega) x hx
          exact hs.endJob x hx0 hxn hxa
        have hS : sup ((c.req j).map t.E) =
            sup (((c.req j).flatMap (exitsOf c c.n)).map fun x => t.B x + dur x) := by
          apply eq_of_forall_ge_iff
          intro b
          rw [sup_map_flatMap_le_iff, sup_map_le_iff]
          constructor
          · intro h r hr; rw [← hE r hr]; exact h r hr
          · intro h r hr; rw [hE r hr]; exact h r hr
        rw [← hS]
        -- the scheduler had begun before any requirement ended
        obtain ⟨r, hr⟩ := List.exists_mem_of_ne_nil _ hreq
        have hr0 := w.reqPos j hj0' hn r hr
        have hrl := w.reqLt j hj0' hn r hr
        have hrp := w.reqParent j hj0' hn r hr
        have h1 := B_parent_le hs hr0 (by omega : r < c.n)
        have h2 := B_le_E w hs (by omega : r < c.n)
        have h3 : t.E r ≤ sup ((c.req j).map t.E) := le_sup_map_of_mem hr
        have h4 := B0_le w hs (c.parent j) (by omega)
        rw [hrp] at h1
        omega

end

/-- **the equations of the flattened graph**: an atomic job begins when the run begins or when the last of its
    flattened requirements ends, whichever comes last -/
theorem flat_equations {c : Cfg} {dur : Nat → Nat} {t : Timing}
    (hwf : c.wf = true) (hne : noEmptyNested c = true) (hs : t.Sat c dur)
    {j : Nat} (hj0 : 0 < j) (hjn : j < c.n) (hat : c.isSched j = false) :
    t.B j = max (t.B 0) (sup ((flatReq c c.n j).map fun r => t.B r + dur r)) ∧
    ∀ r ∈ flatReq c c.n j, 0 < r ∧ r < c.n ∧ c.isSched r = false := by
  exact ⟨B_eq_flat (wf_of hwf) hne hs c.n j (by omega) hjn, flatReq_atomic (wf_of hwf) c.n j hjn⟩

/-! ### the equations have one solution -/

/-- two solutions that agree on the begin of scheduler `s` agree on its end and on all its jobs
    (induction on `c.n - s`: the jobs of `s` have larger ids; inside, induction on the id of the job) -/
private theorem sat_unique_sched {c : Cfg} {dur : Nat → Nat} {t t' : Timing} (w : WF c)
    (hs : t.Sat c dur) (hs' : t'.Sat c dur) :
    ∀ m s, c.n - s ≤ m → s < c.n → c.isSched s = true → t.B s = t'.B s →
      t.E s = t'.E s ∧ ∀ k ∈ c.children s, t.B k = t'.B k ∧ t.E k = t'.E k := by
  intro m
  induction m with
  | zero => intro s hm hn; omega
  | succ m ih =>
    intro s hm hsn hsc hB
    have hch : ∀ k, k ∈ c.children s → t.B k = t'.B k ∧ t.E k = t'.E k := by
      intro k
      induction k using Nat.strongRecOn with
      | _ k ihk =>
        intro hk
        obtain ⟨hkn, hk0, hkp⟩ := mem_children.1 hk
        have hk0' : 0 < k := by omega
        have hBk : t.B k = t'.B k := by
          rw [hs.begin_ k hk0' hkn, hs'.begin_ k hk0' hkn, hkp, hB]
          congr 2
          apply List.map_congr_left
          intro r hr
          exact (ihk r (w.reqLt k hk0' hkn r hr) (w.req_child hk hr)).2
        refine ⟨hBk, ?_⟩
        cases hksc : c.isSched k with
        | false => rw [hs.endJob k hk0' hkn hksc, hs'.endJob k hk0' hkn hksc, hBk]
        | true =>
          have := w.parentLt k hk0' hkn
          exact (ih k (by omega) hkn hksc hBk).1
    refine ⟨?_, hch⟩
    rw [hs.endSched s hsn hsc, hs'.endSched s hsn hsc, hB]
    congr 2
    apply List.map_congr_left
    intro k hk
    exact (hch k hk).2

/-- **uniqueness**: the instant at which the run begins determines all the others -/
theorem sat_unique {c : Cfg} {dur : Nat → Nat} {t t' : Timing}
    (hwf : c.wf = true) (hs : t.Sat c dur) (hs' : t'.Sat c dur) (h0 : t.B 0 = t'.B 0) :
    ∀ j, j < c.n → t.B j = t'.B j ∧ t.E j = t'.E j := by
  have w := wf_of hwf
  intro j
  induction j using Nat.strongRecOn with
  | _ j ih =>
    intro hn
    rcases Nat.eq_zero_or_pos j with h | h
    · subst h
      exact ⟨h0, (sat_unique_sched w hs hs' c.n 0 (by omega) hn w.sched0 h0).1⟩
    · have hp := w.parentLt j h hn
      have hpn : c.parent j < c.n := by omega
      have hB := (ih _ hp hpn).1
      exact (sat_unique_sched w hs hs' c.n _ (by omega) hpn (w.parentSched j h hn) hB).2 j
        (mem_children.2 ⟨hn, by omega, rfl⟩)

/-! ### a nested tree and a flat twin give the same times -/

/-- **same times in the flattened graph**: `c'` is flat, `ρ` names in `c'` the atomic jobs of `c`, with the same
    durations, and the requirements of `ρ j` in `c'` are the images of the flattened requirements of `j`;
    then solutions of the two systems that begin together give the same times to `j` and `ρ j`.
    `ρ` need not be injective nor onto. -/
theorem twin_times {c c' : Cfg} {dur dur' : Nat → Nat} {t t' : Timing} {ρ : Nat → Nat}
    (hwf : c.wf = true) (hne : noEmptyNested c = true)
    (hwf' : c'.wf = true)
    (hflat : ∀ j, 0 < j → j < c'.n → c'.parent j = 0 ∧ c'.isSched j = false)
    (hρ : ∀ j, 0 < j → j < c.n → c.isSched j = false →
      0 < ρ j ∧ ρ j < c'.n ∧ dur' (ρ j) = dur j ∧
      ∀ x, x ∈ c'.req (ρ j) ↔ ∃ r ∈ flatReq c c.n j, x = ρ r)
    (hs : t.Sat c dur) (hs' : t'.Sat c' dur') (h0 : t.B 0 = t'.B 0) :
    ∀ j, 0 < j → j < c.n → c.isSched j = false → t'.B (ρ j) = t.B j ∧ t'.E (ρ j) = t.E j := by
  have w' := wf_of hwf'
  have key : ∀ m j, ρ j = m → 0 < j → j < c.n → c.isSched j = false →
      t'.B (ρ j) = t.B j ∧ t'.E (ρ j) = t.E j := by
    intro m
    induction m using Nat.strongRecOn with
    | _ m ih =>
      intro j hm hj0 hjn hat
      obtain ⟨hρ0, hρn, hdur, hreq⟩ := hρ j hj0 hjn hat
      obtain ⟨hfe, hfa⟩ := flat_equations hwf hne hs hj0 hjn hat
      obtain ⟨hpar, hat'⟩ := hflat (ρ j) hρ0 hρn
      have hB : t'.B (ρ j) = t.B j := by
        rw [hs'.begin_ (ρ j) hρ0 hρn, hpar, hfe, h0]
        congr 1
        apply eq_of_forall_ge_iff
        intro b
        rw [sup_map_le_iff, sup_map_le_iff]
        have himg : ∀ r ∈ flatReq c c.n j, t'.E (ρ r) = t.B r + dur r := by
          intro r hr
          obtain ⟨hr0, hrn, hra⟩ := hfa r hr
          have hmem : ρ r ∈ c'.req (ρ j) := (hreq _).2 ⟨r, hr, rfl⟩
          have hlt := w'.reqLt (ρ j) hρ0 hρn _ hmem
          rw [(ih (ρ r) (by omega) r rfl hr0 hrn hra).2, hs.endJob r hr0 hrn hra]
        constructor
        · intro h r hr
          rw [← himg r hr]
          exact h _ ((hreq _).2 ⟨r, hr, rfl⟩)
        · intro h x hx
          obtain ⟨r, hr, rfl⟩ := (hreq x).1 hx
          rw [himg r hr]
          exact h r hr
      refine ⟨hB, ?_⟩
      rw [hs'.endJob (ρ j) hρ0 hρn hat', hs.endJob j hj0 hjn hat, hB, hdur]
  intro j
  exact key (ρ j) j rfl

/-! ### the hypotheses can be met: a tree of depth 2 and its flat twin

  top `0` ⊇ { `1`, scheduler `2` (requires `1`) ⊇ { `3`, `4` (requires `3`), scheduler `5` ⊇ { `6` } }, `7` (requires `2`) } -/
namespace Example

def base : Cfg :=
  { n := 0, parent := fun _ => 0, isSched := fun j => j == 0, req := fun _ => [], critical := fun _ => false,
    forever := fun _ => false, window := fun _ => 0, timeout := fun _ => none, sdTimeout := fun _ => none,
    topPure := true }

def c : Cfg :=
  { base with
    n := 8
    parent := fun j => match j with | 3 => 2 | 4 => 2 | 5 => 2 | 6 => 5 | _ => 0
    isSched := fun j => match j with | 0 => true | 2 => true | 5 => true | _ => false
    req := fun j => match j with | 2 => [1] | 4 => [3] | 7 => [2] | _ => [] }

def dur : Nat → Nat := fun j => match j with | 1 => 2 | 3 => 3 | 4 => 1 | 6 => 5 | 7 => 4 | _ => 0

def t : Timing :=
  { B := fun j => match j with | 0 => 1 | 1 => 1 | 2 => 3 | 3 => 3 | 4 => 6 | 5 => 3 | 6 => 3 | 7 => 8 | _ => 0
    E := fun j => match j with | 0 => 12 | 1 => 3 | 2 => 8 | 3 => 6 | 4 => 7 | 5 => 8 | 6 => 8 | 7 => 12 | _ => 0 }

example : c.wf = true := by decide
example : noEmptyNested c = true := by decide

theorem t_sat : t.Sat c dur := by
  refine ⟨?_, ?_, ?_⟩
  · have : ∀ j, j < 8 → 0 < j → t.B j = max (t.B (c.parent j)) (sup ((c.req j).map t.E)) := by decide
    exact fun j h0 hn => this j hn h0
  · have : ∀ j, j < 8 → 0 < j → c.isSched j = false → t.E j = t.B j + dur j := by decide
    exact fun j h0 hn => this j hn h0
  · have : ∀ s, s < 8 → c.isSched s = true → t.E s = max (t.B s) (sup ((c.children s).map t.E)) := by decide
    exact this

example : flatReq c c.n 1 = [] := by decide
example : flatReq c c.n 3 = [1] := by decide
example : flatReq c c.n 4 = [3] := by decide
example : flatReq c c.n 6 = [1] := by decide
example : flatReq c c.n 7 = [4, 6] := by decide

/-- the flat twin: `1 ↦ 1`, `3 ↦ 2`, `4 ↦ 3`, `6 ↦ 4`, `7 ↦ 5` -/
def ρ : Nat → Nat := fun j => match j with | 1 => 1 | 3 => 2 | 4 => 3 | 6 => 4 | 7 => 5 | _ => 0

def c' : Cfg :=
  { base with
    n := 6
    req := fun j => match j with | 2 => [1] | 3 => [2] | 4 => [1] | 5 => [3, 4] | _ => [] }

def dur' : Nat → Nat := fun j => match j with | 1 => 2 | 2 => 3 | 3 => 1 | 4 => 5 | 5 => 4 | _ => 0

def t' : Timing :=
  { B := fun j => match j with | 0 => 1 | 1 => 1 | 2 => 3 | 3 => 6 | 4 => 3 | 5 => 8 | _ => 0
    E := fun j => match j with | 0 => 12 | 1 => 3 | 2 => 6 | 3 => 7 | 4 => 8 | 5 => 12 | _ => 0 }

theorem t'_sat : t'.Sat c' dur' := by
  refine ⟨?_, ?_, ?_⟩
  · have : ∀ j, j < 6 → 0 < j → t'.B j = max (t'.B (c'.parent j)) (sup ((c'.req j).map t'.E)) := by decide
    exact fun j h0 hn => this j hn h0
  · have : ∀ j, j < 6 → 0 < j → c'.isSched j = false → t'.E j = t'.B j + dur' j := by decide
    exact fun j h0 hn => this j hn h0
  · have : ∀ s, s < 6 → c'.isSched s = true → t'.E s = max (t'.B s) (sup ((c'.children s).map t'.E)) := by decide
    exact this

theorem c'_flat : ∀ j, 0 < j → j < c'.n → c'.parent j = 0 ∧ c'.isSched j = false := by
  have : ∀ j, j < 6 → 0 < j → c'.parent j = 0 ∧ c'.isSched j = false := by decide
  exact fun j h0 hn => this j hn h0

theorem ρ_ok : ∀ j, 0 < j → j < c.n → c.isSched j = false →
    0 < ρ j ∧ ρ j < c'.n ∧ dur' (ρ j) = dur j ∧ ∀ x, x ∈ c'.req (ρ j) ↔ ∃ r ∈ flatReq c c.n j, x = ρ r := by
  intro j h0 hn hat
  have hn' : j < 8 := hn
  have hcases : j = 1 ∨ j = 2 ∨ j = 3 ∨ j = 4 ∨ j = 5 ∨ j = 6 ∨ j = 7 := by omega
  rcases hcases with h | h | h | h | h | h | h <;> subst h
  · refine ⟨by decide, by decide, by decide, fun x => ?_⟩
    rw [show flatReq c c.n 1 = [] by decide]; simp [ρ, c']
  · exact absurd hat (by decide)
  · refine ⟨by decide, by decide, by decide, fun x => ?_⟩
    rw [show flatReq c c.n 3 = [1] by decide]; simp [ρ, c']
  · refine ⟨by decide, by decide, by decide, fun x => ?_⟩
    rw [show flatReq c c.n 4 = [3] by decide]; simp [ρ, c']
  · exact absurd hat (by decide)
  · refine ⟨by decide, by decide, by decide, fun x => ?_⟩
    rw [show flatReq c c.n 6 = [1] by decide]; simp [ρ, c']
  · refine ⟨by decide, by decide, by decide, fun x => ?_⟩
    rw [show flatReq c c.n 7 = [4, 6] by decide]; simp [ρ, c']

/-- `twin_times` applies: the five jobs run at the same instants in the tree and in its flat twin -/
example : ∀ j, 0 < j → j < c.n → c.isSched j = false → t'.B (ρ j) = t.B j ∧ t'.E (ρ j) = t.E j :=
  twin_times (by decide) (by decide) (by decide) c'_flat ρ_ok t_sat t'_sat rfl

/-- and `flat_equations` on job `7`: it begins when `4` and `6`, the exit jobs of scheduler `2`, have ended -/
example : t.B 7 = max (t.B 0) (sup ([4, 6].map fun r => t.B r + dur r)) :=
  (flat_equations (c := c) (by decide) (by decide) t_sat (by decide) (by decide) (by decide)).1

/-- `sat_unique`: any solution that begins at instant 1 is `t` -/
example (u : Timing) (hu : u.Sat c dur) (h : u.B 0 = 1) : u.B 7 = 8 ∧ u.E 0 = 12 :=
  ⟨(sat_unique (c := c) (by decide) hu t_sat h 7 (by decide)).1,
   (sat_unique (c := c) (by decide) hu t_sat h 0 (by decide)).2⟩

end Example

end AJ.Proofs.FlatEq
