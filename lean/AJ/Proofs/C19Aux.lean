import AJ.Spec
namespace AJ.Proofs.C19
open AJ

/-! ### heap plumbing -/

theorem Heap.setReq_self (h : Heap) (j : Nat) : h.setReq j (h.req j) = h := by
  cases h with
  | mk req sj ss m sp =>
    simp only [Heap.setReq]
    congr 1
    funext k
    split <;> simp_all

theorem Heap.setReq_setReq (h : Heap) (j : Nat) (a b : List Nat) :
    (h.setReq j a).setReq j b = h.setReq j b := by
  simp only [Heap.setReq]
  congr 1
  funext k
  split <;> rfl

@[simp] theorem setReq_req_self (h : Heap) (j : Nat) (l : List Nat) : (h.setReq j l).req j = l := by
  simp [Heap.setReq]

theorem setReq_req_ne (h : Heap) (j k : Nat) (l : List Nat) (hk : k ≠ j) :
    (h.setReq j l).req k = h.req k := by
  simp [Heap.setReq, hk]

@[simp] theorem setSeqPending_req (h : Heap) (q : Nat) (l : List Nat) :
    (h.setSeqPending q l).req = h.req := rfl
@[simp] theorem setSeqPending_seqJobs (h : Heap) (q : Nat) (l : List Nat) :
    (h.setSeqPending q l).seqJobs = h.seqJobs := rfl
@[simp] theorem setSeqPending_mem (h : Heap) (q : Nat) (l : List Nat) :
    (h.setSeqPending q l).mem = h.mem := rfl
@[simp] theorem setSeqPending_seqSched (h : Heap) (q : Nat) (l : List Nat) :
    (h.setSeqPending q l).seqSched = h.seqSched := rfl
@[simp] theorem setSeqPending_self (h : Heap) (q : Nat) (l : List Nat) :
    (h.setSeqPending q l).seqPending q = l := by
  simp [Heap.setSeqPending]
theorem setSeqPending_ne (h : Heap) (q k : Nat) (l : List Nat) (hk : k ≠ q) :
    (h.setSeqPending q l).seqPending k = h.seqPending k := by
  simp [Heap.setSeqPending, hk]
@[simp] theorem setSeqJobs_seqPending (h : Heap) (q : Nat) (l : List Nat) :
    (h.setSeqJobs q l).seqPending = h.seqPending := rfl
@[simp] theorem setSeqSched_seqPending (h : Heap) (q : Nat) (s : Option Nat) :
    (h.setSeqSched q s).seqPending = h.seqPending := rfl
@[simp] theorem setReq_seqPending (h : Heap) (j : Nat) (l : List Nat) :
    (h.setReq j l).seqPending = h.seqPending := rfl
@[simp] theorem setMem_seqPending (h : Heap) (s : Nat) (l : List Nat) :
    (h.setMem s l).seqPending = h.seqPending := rfl

/-! ### `addNew` / `unionNew` -/

theorem mem_addNew (l : List Nat) (x y : Nat) : y ∈ addNew l x ↔ y ∈ l ∨ y = x := by
  unfold addNew
  split
  · constructor
    · exact Or.inl
    · rintro (h | rfl) <;> assumption
  · simp

theorem nodup_addNew (l : List Nat) (x : Nat) (hl : l.Nodup) : (addNew l x).Nodup := by
  unfold addNew
  split
  · exact hl
  · rw [List.nodup_append]
    refine ⟨hl, by simp, ?_⟩
    intro a ha b hb
    simp at hb
    subst hb
    intro hab; subst hab; contradiction

theorem mem_unionNew (xs : List Nat) : ∀ (l : List Nat) (y : Nat), y ∈ unionNew l xs ↔ y ∈ l ∨ y ∈ xs := by
  induction xs with
  | nil => intro l y; simp [unionNew]
  | cons x xs ih =>
    intro l y
    have := ih (addNew l x) y
    simp only [unionNew, List.foldl_cons] at this ⊢
    rw [this, mem_addNew]
    simp [or_assoc]

theorem nodup_unionNew (xs : List Nat) : ∀ (l : List Nat), l.Nodup → (unionNew l xs).Nodup := by
  induction xs with
  | nil => intro l hl; simpa [unionNew] using hl
  | cons x xs ih =>
    intro l hl
    have := ih (addNew l x) (nodup_addNew l x hl)
    simpa only [unionNew, List.foldl_cons] using this

/-! ### one `reqOne` step -/

theorem reqOne_seqJobs (j : Nat) (rm : Bool) (h : Heap) (r : Nat) :
    (reqOne j rm h r).1.seqJobs = h.seqJobs := by
  unfold reqOne; split <;> split <;> rfl

theorem reqOne_mem (j : Nat) (rm : Bool) (h : Heap) (r : Nat) :
    (reqOne j rm h r).1.mem = h.mem := by
  unfold reqOne; split <;> split <;> rfl

theorem reqOne_seqSched (j : Nat) (rm : Bool) (h : Heap) (r : Nat) :
    (reqOne j rm h r).1.seqSched = h.seqSched := by
  unfold reqOne; split <;> split <;> rfl

theorem reqOne_seqPending (j : Nat) (rm : Bool) (h : Heap) (r : Nat) :
    (reqOne j rm h r).1.seqPending = h.seqPending := by
  unfold reqOne; split <;> split <;> rfl

theorem reqOne_req_ne (j : Nat) (rm : Bool) (h : Heap) (r k : Nat) (hk : k ≠ j) :
    (reqOne j rm h r).1.req k = h.req k := by
  unfold reqOne; split <;> split <;> simp [Heap.setReq, hk]

theorem reqOne_false_snd (j : Nat) (h : Heap) (r : Nat) : (reqOne j false h r).2 = none := by
  unfold reqOne; simp only [Bool.false_eq_true, if_false]; split <;> rfl

theorem reqOne_false_req (j : Nat) (h : Heap) (r x : Nat) :
    x ∈ (reqOne j false h r).1.req j ↔ x ∈ h.req j ∨ (x = r ∧ x ≠ j) := by
  unfold reqOne; simp only [Bool.false_eq_true, if_false]
  split
  · subst r; simp
  · rename_i hr
    simp only [setReq_req_self, mem_addNew]
    constructor
    · rintro (h | rfl)
      · exact Or.inl h
      · exact Or.inr ⟨rfl, hr⟩
    · rintro (h | ⟨rfl, _⟩)
      · exact Or.inl h
      · exact Or.inr rfl

theorem reqOne_false_nodup (j : Nat) (h : Heap) (r : Nat) (hnd : (h.req j).Nodup) :
    ((reqOne j false h r).1.req j).Nodup := by
  unfold reqOne; simp only [Bool.false_eq_true, if_false]
  split
  · exact hnd
  · simpa using nodup_addNew _ _ hnd

theorem reqOne_noself (j : Nat) (rm : Bool) (h : Heap) (r : Nat) (hinv : ∀ k, k ∉ h.req k) :
    ∀ k, k ∉ (reqOne j rm h r).1.req k := by
  intro k
  by_cases hk : k = j
  · subst hk
    cases rm with
    | false =>
      rw [reqOne_false_req]
      rintro (h | ⟨_, h⟩)
      · exact hinv _ h
      · exact h rfl
    | true =>
      unfold reqOne; simp only [if_true]
      split
      · simp only [setReq_req_self]
        intro hm
        exact hinv _ (List.mem_of_mem_erase hm)
      · exact hinv _
  · rw [reqOne_req_ne _ _ _ _ _ hk]; exact hinv k

/-! ### lifting an invariant of `reqOne` through `reqArg` / `reqArgs` -/

theorem req_lift (j : Nat) (rm : Bool) (P : Heap → Prop)
    (step : ∀ h r, P h → P (reqOne j rm h r).1) :
    (∀ (h : Heap) (a : Arg), P h → P (reqArg j rm h a).1) ∧
    (∀ (h : Heap) (as : List Arg), P h → P (reqArgs j rm h as).1) := by
  apply reqArg.mutual_induct j rm (fun h a => P h → P (reqArg j rm h a).1)
    (fun h as => P h → P (reqArgs j rm h as).1)
  · intro h hp; simpa [reqArg] using hp
  · intro h r hp; simpa [reqArg] using step h r hp
  · intro h q hq hp; simp only [reqArg, hq]; exact hp
  · intro h q r hq hp; simp only [reqArg, hq]; exact step h r hp
  · intro h xs ih hp; simp only [reqArg]; exact ih hp
  · intro h hp; simpa [reqArgs] using hp
  · intro h a as h' e heq ih hp
    simp only [reqArgs, heq]
    have := ih hp; rw [heq] at this; exact this
  · intro h a as h' heq ih1 ih2 hp
    simp only [reqArgs, heq]
    have := ih1 hp; rw [heq] at this; exact ih2 this

theorem reqArgs_seqJobs (j rm h as) : (reqArgs j rm h as).1.seqJobs = h.seqJobs :=
  (req_lift j rm (fun h' => h'.seqJobs = h.seqJobs)
    (fun h' r hp => by rw [reqOne_seqJobs]; exact hp)).2 h as rfl
theorem reqArg_seqJobs (j rm h a) : (reqArg j rm h a).1.seqJobs = h.seqJobs :=
  (req_lift j rm (fun h' => h'.seqJobs = h.seqJobs)
    (fun h' r hp => by rw [reqOne_seqJobs]; exact hp)).1 h a rfl
theorem reqArgs_mem (j rm h as) : (reqArgs j rm h as).1.mem = h.mem :=
  (req_lift j rm (fun h' => h'.mem = h.mem)
    (fun h' r hp => by rw [reqOne_mem]; exact hp)).2 h as rfl
theorem reqArg_mem (j rm h a) : (reqArg j rm h a).1.mem = h.mem :=
  (req_lift j rm (fun h' => h'.mem = h.mem)
    (fun h' r hp => by rw [reqOne_mem]; exact hp)).1 h a rfl
theorem reqArgs_seqSched (j rm h as) : (reqArgs j rm h as).1.seqSched = h.seqSched :=
  (req_lift j rm (fun h' => h'.seqSched = h.seqSched)
    (fun h' r hp => by rw [reqOne_seqSched]; exact hp)).2 h as rfl
theorem reqArg_seqSched (j rm h a) : (reqArg j rm h a).1.seqSched = h.seqSched :=
  (req_lift j rm (fun h' => h'.seqSched = h.seqSched)
    (fun h' r hp => by rw [reqOne_seqSched]; exact hp)).1 h a rfl
theorem reqArgs_seqPending (j rm h as) : (reqArgs j rm h as).1.seqPending = h.seqPending :=
  (req_lift j rm (fun h' => h'.seqPending = h.seqPending)
    (fun h' r hp => by rw [reqOne_seqPending]; exact hp)).2 h as rfl
theorem reqArg_seqPending (j rm h a) : (reqArg j rm h a).1.seqPending = h.seqPending :=
  (req_lift j rm (fun h' => h'.seqPending = h.seqPending)
    (fun h' r hp => by rw [reqOne_seqPending]; exact hp)).1 h a rfl
theorem reqArgs_req_ne (j rm h as k) (hk : k ≠ j) : (reqArgs j rm h as).1.req k = h.req k :=
  (req_lift j rm (fun h' => h'.req k = h.req k)
    (fun h' r hp => by rw [reqOne_req_ne _ _ _ _ _ hk]; exact hp)).2 h as rfl
theorem reqArg_req_ne (j rm h a k) (hk : k ≠ j) : (reqArg j rm h a).1.req k = h.req k :=
  (req_lift j rm (fun h' => h'.req k = h.req k)
    (fun h' r hp => by rw [reqOne_req_ne _ _ _ _ _ hk]; exact hp)).1 h a rfl
theorem reqArgs_noself (j rm h as) (hinv : ∀ k, k ∉ h.req k) : ∀ k, k ∉ (reqArgs j rm h as).1.req k :=
  (req_lift j rm (fun h' => ∀ k, k ∉ h'.req k) (fun h' r hp => reqOne_noself j rm h' r hp)).2 h as hinv
theorem reqArg_noself (j rm h a) (hinv : ∀ k, k ∉ h.req k) : ∀ k, k ∉ (reqArg j rm h a).1.req k :=
  (req_lift j rm (fun h' => ∀ k, k ∉ h'.req k) (fun h' r hp => reqOne_noself j rm h' r hp)).1 h a hinv
theorem reqArgs_nodup (j h as) (hnd : (h.req j).Nodup) : ((reqArgs j false h as).1.req j).Nodup :=
  (req_lift j false (fun h' => (h'.req j).Nodup) (fun h' r hp => reqOne_false_nodup j h' r hp)).2 h as hnd

/-- `flat`/`flats` only read `seqJobs` -/
theorem flat_congr (h h' : Heap) (hs : h'.seqJobs = h.seqJobs) :
    (∀ a, flat h' a = flat h a) ∧ (∀ as, flats h' as = flats h as) := by
  apply flat.mutual_induct (fun a => flat h' a = flat h a) (fun as => flats h' as = flats h as)
  · simp [flat]
  · intro r; simp [flat]
  · intro q; simp [flat, hs]
  · intro xs ih; simpa [flat] using ih
  · simp [flats]
  · intro a as ih1 ih2; simp [flats, ih1, ih2]

/-- `Sequence._resolve` computes what the documentation says an argument stands for -/
theorem resolve_eq_flat (h : Heap) :
    (∀ a, resolve h a = flat h a) ∧ (∀ as, resolves h as = flats h as) := by
  apply flat.mutual_induct (fun a => resolve h a = flat h a) (fun as => resolves h as = flats h as)
  · simp [resolve, flat]
  · intro r; simp [resolve, flat]
  · intro q
    simp only [resolve, flat]
    cases (h.seqJobs q).getLast? <;> rfl
  · intro xs ih; simpa [resolve, flat] using ih
  · simp [resolves, flats]
  · intro a as ih1 ih2; simp [resolves, flats, ih1, ih2]

/-- a list of jobs stands for itself -/
theorem flats_map_job (h : Heap) (l : List Nat) : flats h (l.map Arg.job) = l := by
  induction l with
  | nil => simp [flats]
  | cons x xs ih => simp [flats, flat, ih]

/-- the additive case, both levels at once -/
theorem req_add_aux (j : Nat) :
    (∀ (h : Heap) (a : Arg), (reqArg j false h a).2 = none ∧
      ∀ x, x ∈ (reqArg j false h a).1.req j ↔ (x ∈ h.req j ∨ (x ∈ flat h a ∧ x ≠ j))) ∧
    (∀ (h : Heap) (as : List Arg), (reqArgs j false h as).2 = none ∧
      ∀ x, x ∈ (reqArgs j false h as).1.req j ↔ (x ∈ h.req j ∨ (x ∈ flats h as ∧ x ≠ j))) := by
  apply reqArg.mutual_induct j false
    (fun h a => (reqArg j false h a).2 = none ∧
      ∀ x, x ∈ (reqArg j false h a).1.req j ↔ (x ∈ h.req j ∨ (x ∈ flat h a ∧ x ≠ j)))
    (fun h as => (reqArgs j false h as).2 = none ∧
      ∀ x, x ∈ (reqArgs j false h as).1.req j ↔ (x ∈ h.req j ∨ (x ∈ flats h as ∧ x ≠ j)))
  · intro h; simp [reqArg, flat]
  · intro h r
    simp only [reqArg, flat, List.mem_singleton]
    exact ⟨reqOne_false_snd j h r, reqOne_false_req j h r⟩
  · intro h q hq; simp [reqArg, flat, hq]
  · intro h q r hq
    simp only [reqArg, flat, hq, Option.toList_some, List.mem_singleton]
    exact ⟨reqOne_false_snd j h r, reqOne_false_req j h r⟩
  · intro h xs ih; simpa only [reqArg, flat] using ih
  · intro h; simp [reqArgs, flats]
  · intro h a as h' e heq ih
    rw [heq] at ih; simp at ih
  · intro h a as h' heq ih1 ih2
    have hsj : h'.seqJobs = h.seqJobs := by
      have := reqArg_seqJobs j false h a; rw [heq] at this; exact this
    rw [heq] at ih1
    simp only [reqArgs, heq, flats]
    refine ⟨ih2.1, ?_⟩
    intro x
    rw [ih2.2 x, ih1.2 x, (flat_congr h h' hsj).2 as, List.mem_append]
    constructor
    · rintro ((h1 | ⟨h1, h2⟩) | ⟨h1, h2⟩)
      · exact Or.inl h1
      · exact Or.inr ⟨Or.inl h1, h2⟩
      · exact Or.inr ⟨Or.inr h1, h2⟩
    · rintro (h1 | ⟨h1 | h1, h2⟩)
      · exact Or.inl (Or.inl h1)
      · exact Or.inl (Or.inr ⟨h1, h2⟩)
      · exact Or.inr ⟨h1, h2⟩


theorem removeAll_append (xs ys : List Nat) : ∀ l : List Nat,
    removeAll l (xs ++ ys) = (removeAll l xs).bind (fun l' => removeAll l' ys) := by
  induction xs with
  | nil => intro l; simp [removeAll]
  | cons x xs ih =>
    intro l
    simp only [List.cons_append, removeAll]
    split
    · exact ih _
    · rfl

theorem removeAll_single (l : List Nat) (r : Nat) :
    removeAll l [r] = if r ∈ l then some (l.erase r) else none := by
  simp [removeAll]

theorem reqOne_true_aux (j : Nat) (h : Heap) (r : Nat) :
    (∀ l, removeAll (h.req j) [r] = some l → reqOne j true h r = (h.setReq j l, none)) ∧
    (removeAll (h.req j) [r] = none → (reqOne j true h r).2 = some Err.keyError) := by
  rw [removeAll_single]
  unfold reqOne
  simp only [if_true]
  split
  · refine ⟨?_, by simp⟩
    intro l hl; simp at hl; subst hl; rfl
  · simp

theorem req_remove_aux (j : Nat) :
    (∀ (h : Heap) (a : Arg),
      (∀ l, removeAll (h.req j) (flat h a) = some l → reqArg j true h a = (h.setReq j l, none)) ∧
      (removeAll (h.req j) (flat h a) = none → (reqArg j true h a).2 = some Err.keyError)) ∧
    (∀ (h : Heap) (as : List Arg),
      (∀ l, removeAll (h.req j) (flats h as) = some l → reqArgs j true h as = (h.setReq j l, none)) ∧
      (removeAll (h.req j) (flats h as) = none → (reqArgs j true h as).2 = some Err.keyError)) := by
  apply reqArg.mutual_induct j true
    (fun h a =>
      (∀ l, removeAll (h.req j) (flat h a) = some l → reqArg j true h a = (h.setReq j l, none)) ∧
      (removeAll (h.req j) (flat h a) = none → (reqArg j true h a).2 = some Err.keyError))
    (fun h as =>
      (∀ l, removeAll (h.req j) (flats h as) = some l → reqArgs j true h as = (h.setReq j l, none)) ∧
      (removeAll (h.req j) (flats h as) = none → (reqArgs j true h as).2 = some Err.keyError))
  · intro h
    simp only [reqArg, flat, removeAll]
    refine ⟨?_, by simp⟩
    intro l hl; simp at hl; subst hl; rw [Heap.setReq_self]
  · intro h r
    simp only [reqArg, flat]
    exact reqOne_true_aux j h r
  · intro h q hq
    simp only [reqArg, flat, hq, Option.toList_none, removeAll]
    refine ⟨?_, by simp⟩
    intro l hl; simp at hl; subst hl; rw [Heap.setReq_self]
  · intro h q r hq
    simp only [reqArg, flat, hq, Option.toList_some]
    exact reqOne_true_aux j h r
  · intro h xs ih; simpa only [reqArg, flat] using ih
  · intro h
    simp only [reqArgs, flats, removeAll]
    refine ⟨?_, by simp⟩
    intro l hl; simp at hl; subst hl; rw [Heap.setReq_self]
  · intro h a as h' e heq ih
    simp only [reqArgs, heq, flats, removeAll_append]
    cases hra : removeAll (h.req j) (flat h a) with
    | some l1 => have := ih.1 l1 hra; rw [heq] at this; simp at this
    | none =>
      have := ih.2 hra; rw [heq] at this
      simpa using this
  · intro h a as h' heq ih1 ih2
    simp only [reqArgs, heq, flats, removeAll_append]
    cases hra : removeAll (h.req j) (flat h a) with
    | none => have := ih1.2 hra; rw [heq] at this; simp at this
    | some l1 =>
      have h1 := ih1.1 l1 hra
      rw [heq] at h1
      have hh : h' = h.setReq j l1 := by simpa using h1
      subst hh
      have hsj : (h.setReq j l1).seqJobs = h.seqJobs := rfl
      rw [(flat_congr h _ hsj).2 as, setReq_req_self] at ih2
      simp only [Option.bind_some]
      refine ⟨?_, ih2.2⟩
      intro l hl
      rw [ih2.1 l hl, Heap.setReq_setReq]

theorem chain_lift (P : Heap → Prop) (step : ∀ h j r, P h → P (reqOne j false h r).1) :
    ∀ (l : List Nat) (h : Heap) (prev : Option Nat), P h → P (chain h prev l) := by
  intro l
  induction l with
  | nil => intro h prev hp; cases prev <;> simpa [chain] using hp
  | cons j js ih =>
    intro h prev hp
    cases prev with
    | none => simp only [chain]; exact ih h _ hp
    | some p => simp only [chain]; exact ih _ _ (step h j p hp)

theorem reqOne_false_mono (j : Nat) (h : Heap) (r x y : Nat) (hy : y ∈ h.req x) :
    y ∈ (reqOne j false h r).1.req x := by
  by_cases hx : x = j
  · subst hx; rw [reqOne_false_req]; exact Or.inl hy
  · rw [reqOne_req_ne _ _ _ _ _ hx]; exact hy

theorem chain_seqJobs (h prev l) : (chain h prev l).seqJobs = h.seqJobs :=
  chain_lift (fun h' => h'.seqJobs = h.seqJobs)
    (fun h' j r hp => by rw [reqOne_seqJobs]; exact hp) l h prev rfl

theorem chain_mem (h prev l) : (chain h prev l).mem = h.mem :=
  chain_lift (fun h' => h'.mem = h.mem)
    (fun h' j r hp => by rw [reqOne_mem]; exact hp) l h prev rfl

theorem chain_seqSched (h prev l) : (chain h prev l).seqSched = h.seqSched :=
  chain_lift (fun h' => h'.seqSched = h.seqSched)
    (fun h' j r hp => by rw [reqOne_seqSched]; exact hp) l h prev rfl

theorem chain_seqPending (h prev l) : (chain h prev l).seqPending = h.seqPending :=
  chain_lift (fun h' => h'.seqPending = h.seqPending)
    (fun h' j r hp => by rw [reqOne_seqPending]; exact hp) l h prev rfl

theorem chain_mono (h prev l x y) (hy : y ∈ h.req x) : y ∈ (chain h prev l).req x :=
  chain_lift (fun h' => y ∈ h'.req x) (fun h' j r hp => reqOne_false_mono j h' r x y hp) l h prev hy

theorem chain_noself (h prev l) (hinv : ∀ k, k ∉ h.req k) : ∀ k, k ∉ (chain h prev l).req k :=
  chain_lift (fun h' => ∀ k, k ∉ h'.req k) (fun h' j r hp => reqOne_noself j false h' r hp) l h prev hinv

theorem reqArgs_false_mono (j h as x y) (hy : y ∈ h.req x) : y ∈ (reqArgs j false h as).1.req x :=
  (req_lift j false (fun h' => y ∈ h'.req x) (fun h' r hp => reqOne_false_mono j h' r x y hp)).2 h as hy

theorem reqArg_false_mono (j h a x y) (hy : y ∈ h.req x) : y ∈ (reqArg j false h a).1.req x :=
  (req_lift j false (fun h' => y ∈ h'.req x) (fun h' r hp => reqOne_false_mono j h' r x y hp)).1 h a hy

@[simp] theorem register_req (h s js) : (register h s js).req = h.req := by
  cases s <;> rfl

@[simp] theorem register_seqJobs (h s js) : (register h s js).seqJobs = h.seqJobs := by
  cases s <;> rfl

/-! ### `givePending` -/

theorem givePending_seqJobs (h : Heap) (q : Nat) : (givePending h q).seqJobs = h.seqJobs := by
  unfold givePending
  split
  · rfl
  · split
    · rfl
    · rw [setSeqPending_seqJobs, reqArg_seqJobs]

theorem givePending_mem (h : Heap) (q : Nat) : (givePending h q).mem = h.mem := by
  unfold givePending
  split
  · rfl
  · split
    · rfl
    · rw [setSeqPending_mem, reqArg_mem]

theorem givePending_seqSched (h : Heap) (q : Nat) : (givePending h q).seqSched = h.seqSched := by
  unfold givePending
  split
  · rfl
  · split
    · rfl
    · rw [setSeqPending_seqSched, reqArg_seqSched]

/-- exactly: the first job of `q` (if any) receives the pending requirements other than itself -/
theorem givePending_req (h : Heap) (q x y : Nat) :
    y ∈ (givePending h q).req x ↔
      (y ∈ h.req x ∨ ((h.seqJobs q).head? = some x ∧ y ∈ h.seqPending q ∧ y ≠ x)) := by
  unfold givePending
  split
  · rename_i hj; simp [hj]
  · rename_i j0 t hj
    split
    · rename_i hp
      have hp' : h.seqPending q = [] := by simpa using hp
      simp [hp']
    · rw [setSeqPending_req]
      by_cases hx : x = j0
      · subst hx
        have := ((req_add_aux x).1 h (.coll ((h.seqPending q).map .job))).2 y
        rw [this]
        simp only [flat, flats_map_job, hj, List.head?_cons, true_and]
      · rw [reqArg_req_ne _ _ _ _ _ hx]
        have : ¬ (some j0 = some x) := by
          intro e; exact hx (Option.some.inj e).symm
        simp [hj, this]

theorem givePending_noself (h : Heap) (q : Nat) (hinv : ∀ k, k ∉ h.req k) :
    ∀ k, k ∉ (givePending h q).req k := by
  intro k hk
  rcases (givePending_req h q k k).1 hk with h1 | ⟨_, _, h1⟩
  · exact hinv k h1
  · exact h1 rfl

theorem givePending_pending_cons (h : Heap) (q : Nat) (hj : h.seqJobs q ≠ []) :
    (givePending h q).seqPending q = [] := by
  unfold givePending
  split
  · rename_i e; exact absurd e hj
  · split
    · rename_i hp; simpa using hp
    · simp

theorem givePending_pending_nil (h : Heap) (q : Nat) (hj : h.seqJobs q = []) :
    givePending h q = h := by
  unfold givePending
  simp [hj]

theorem givePending_pending_ne (h : Heap) (q k : Nat) (hk : k ≠ q) :
    (givePending h q).seqPending k = h.seqPending k := by
  unfold givePending
  split
  · rfl
  · split
    · rfl
    · rw [setSeqPending_ne _ _ _ _ hk, reqArg_seqPending]

@[simp] theorem register_seqPending (h s js) : (register h s js).seqPending = h.seqPending := by
  cases s <;> rfl

@[simp] theorem register_seqSched (h s js) : (register h s js).seqSched = h.seqSched := by
  cases s <;> rfl

end AJ.Proofs.C19
