/-
  Helper lemmas for C15: invariants of `sweep` / `topoLoop`.
-/
import AJ.Spec
import Batteries.Data.List.Perm
namespace AJ.Proofs.C15
open AJ

/-- one step of `sweep` -/
def step (t : T) (ext : List Nat) (acc : List Nat) (j : Nat) : List Nat :=
  if j ∈ acc then acc else if canMark t ext acc j then acc ++ [j] else acc

theorem sweep_nil (t : T) (ext acc : List Nat) : sweep t ext [] acc = acc := rfl

theorem sweep_cons (t : T) (ext : List Nat) (j : Nat) (todo acc : List Nat) :
    sweep t ext (j :: todo) acc = sweep t ext todo (step t ext acc j) := rfl

theorem step_length_le (t : T) (ext acc : List Nat) (j : Nat) :
    acc.length ≤ (step t ext acc j).length := by
  unfold step
  split
  · exact Nat.le_refl _
  · split
    · simp
    · exact Nat.le_refl _

theorem sweep_length_le (t : T) (ext todo : List Nat) :
    ∀ acc, acc.length ≤ (sweep t ext todo acc).length := by
  induction todo with
  | nil => intro acc; exact Nat.le_refl _
  | cons j todo ih =>
    intro acc
    rw [sweep_cons]
    exact Nat.le_trans (step_length_le t ext acc j) (ih _)

/-- generic invariant of a sweep -/
theorem sweep_inv (t : T) (ext : List Nat) (P : List Nat → Prop) (todo : List Nat)
    (hstep : ∀ acc j, j ∈ todo → P acc → j ∉ acc → canMark t ext acc j = true → P (acc ++ [j])) :
    ∀ acc, P acc → P (sweep t ext todo acc) := by
  induction todo with
  | nil => intro acc h; exact h
  | cons j todo ih =>
    intro acc h
    rw [sweep_cons]
    apply ih (fun acc j hj => hstep acc j (List.mem_cons_of_mem _ hj))
    unfold step
    split
    · exact h
    · split
      · rename_i h1 h2
        exact hstep acc j List.mem_cons_self h h1 h2
      · exact h

/-- a sweep that does not change the length marks nothing: every job of `todo` is marked already or
    cannot be marked -/
theorem sweep_fix (t : T) (ext todo : List Nat) :
    ∀ acc, (sweep t ext todo acc).length = acc.length →
      ∀ j ∈ todo, j ∈ acc ∨ canMark t ext acc j = false := by
  induction todo with
  | nil => intro acc _ j hj; cases hj
  | cons j todo ih =>
    intro acc hlen
    rw [sweep_cons] at hlen
    have h1 := step_length_le t ext acc j
    have h2 := sweep_length_le t ext todo (step t ext acc j)
    have h3 : (step t ext acc j).length = acc.length := by omega
    have hstep : step t ext acc j = acc ∧ (j ∈ acc ∨ canMark t ext acc j = false) := by
      unfold step at h3 ⊢
      split
      · rename_i hj; exact ⟨rfl, Or.inl hj⟩
      · rename_i hj
        split
        · rename_i hc
          rw [if_neg hj, if_pos hc] at h3
          simp at h3
        · rename_i hc
          exact ⟨rfl, Or.inr (by simpa using hc)⟩
    rw [hstep.1] at hlen
    intro k hk
    rcases List.mem_cons.mp hk with rfl | hk
    · exact hstep.2
    · exact ih acc hlen k hk

/-- generic invariant of the loop -/
theorem topoLoop_inv (t : T) (s : Nat) (ext : List Nat) (P : List Nat → Prop)
    (hstep : ∀ acc j, j ∈ t.mem s → P acc → j ∉ acc → canMark t ext acc j = true → P (acc ++ [j])) :
    ∀ fuel marked l, P marked → topoLoop t s ext fuel marked = .ok l → P l := by
  intro fuel
  induction fuel with
  | zero => intro marked l _ h; simp [topoLoop] at h
  | succ fuel ih =>
    intro marked l hP h
    have hP' := sweep_inv t ext P (t.mem s) hstep marked hP
    simp only [topoLoop] at h
    split at h
    · cases h; exact hP'
    · split at h
      · cases h
      · exact ih _ _ hP' h

theorem topoLoop_ok_length (t : T) (s : Nat) (ext : List Nat) :
    ∀ fuel marked l, topoLoop t s ext fuel marked = .ok l → (t.mem s).length ≤ l.length := by
  intro fuel
  induction fuel with
  | zero => intro marked l h; simp [topoLoop] at h
  | succ fuel ih =>
    intro marked l h
    simp only [topoLoop] at h
    split at h
    · cases h; assumption
    · split at h
      · cases h
      · exact ih _ _ h

theorem topoLoop_error (t : T) (s : Nat) (ext : List Nat) :
    ∀ fuel marked e, topoLoop t s ext fuel marked = .error e → e = .cycle ∨ e = .fuel := by
  intro fuel
  induction fuel with
  | zero => intro marked e h; simp [topoLoop] at h; exact Or.inr h.symm
  | succ fuel ih =>
    intro marked e h
    simp only [topoLoop] at h
    split at h
    · cases h
    · split at h
      · cases h; exact Or.inl rfl
      · exact ih _ _ h

theorem topoLoop_never_fuel (t : T) (s : Nat) (ext : List Nat) :
    ∀ fuel marked, 1 ≤ fuel → (t.mem s).length + 1 ≤ fuel + marked.length →
      topoLoop t s ext fuel marked ≠ .error .fuel := by
  intro fuel
  induction fuel with
  | zero => intro marked h; omega
  | succ fuel ih =>
    intro marked _ hlen h
    simp only [topoLoop] at h
    have hmono := sweep_length_le t ext (t.mem s) marked
    split at h
    · cases h
    · split at h
      · cases h
      · exact ih _ (by omega) (by omega) h

/-! ### the three invariants of `topo` -/

theorem canMark_nil_iff (t : T) (acc : List Nat) (j : Nat) :
    canMark t [] acc j = true ↔ ∀ r ∈ t.req j, r ∈ acc := by
  simp [canMark]

theorem topo_subset (t : T) (s : Nat) (ext l : List Nat) (h : topo t s ext = .ok l) :
    ∀ x ∈ l, x ∈ t.mem s := by
  refine topoLoop_inv t s ext (fun acc => ∀ x ∈ acc, x ∈ t.mem s) ?_ _ [] l ?_ h
  · intro acc j hj hP _ _ x hx
    rcases List.mem_append.mp hx with hx | hx
    · exact hP x hx
    · simp at hx; subst hx; exact hj
  · intro x hx; cases hx

theorem topo_nodup (t : T) (s : Nat) (ext l : List Nat) (h : topo t s ext = .ok l) : l.Nodup := by
  refine topoLoop_inv t s ext (fun acc => acc.Nodup) ?_ _ [] l ?_ h
  · intro acc j _ hP hj _
    rw [List.nodup_append]
    refine ⟨hP, by simp, ?_⟩
    intro a ha b hb
    simp at hb; subst hb
    intro hab; subst hab; exact hj ha
  · exact List.nodup_nil

theorem topo_order_inv (t : T) (s : Nat) (l : List Nat) (h : topo t s = .ok l) :
    ∀ a x b, l = a ++ x :: b → ∀ y ∈ t.req x, y ∈ a := by
  refine topoLoop_inv t s [] (fun acc => ∀ a x b, acc = a ++ x :: b → ∀ y ∈ t.req x, y ∈ a)
    ?_ _ [] l ?_ h
  · intro acc j _ hP _ hc a x b hab y hy
    rw [canMark_nil_iff] at hc
    rcases List.eq_nil_or_concat b with rfl | ⟨b', c, rfl⟩
    · have := List.append_inj' hab (by simp)
      obtain ⟨h1, h2⟩ := this
      simp at h2; subst h1; subst h2
      exact hc y hy
    · have hab' : acc ++ [j] = (a ++ x :: b') ++ [c] := by simpa using hab
      obtain ⟨h1, _⟩ := List.append_inj' hab' (by simp)
      exact hP a x b' h1 y hy
  · intro a x b hab
    simp at hab

theorem topo_length (t : T) (s : Nat) (ext l : List Nat) (h : topo t s ext = .ok l) :
    (t.mem s).length ≤ l.length :=
  topoLoop_ok_length t s ext _ [] l h

theorem topo_perm_aux (t : T) (s : Nat) (ext l : List Nat) (h : topo t s ext = .ok l) :
    l.Perm (t.mem s) :=
  (List.subperm_of_subset (topo_nodup t s ext l h) (topo_subset t s ext l h)).perm_of_length_le
    (topo_length t s ext l h)

/-! ### reachability -/

theorem reach_trans (t : T) (s : Nat) {x y z : Nat} (h1 : Reach t s x y) (h2 : Reach t s y z) :
    Reach t s x z := by
  induction h2 with
  | single e => exact Reach.tail h1 e
  | tail _ e ih => exact Reach.tail ih e

theorem reach_src_mem (t : T) (s : Nat) {x y : Nat} (h : Reach t s x y) : x ∈ t.mem s := by
  induction h with
  | single e => exact e.2.1
  | tail _ _ ih => exact ih

/-- in a list with the order property, anything reachable from `x` stands before every occurrence of `x` -/
theorem reach_before (t : T) (s : Nat) (l : List Nat)
    (hord : ∀ a x b, l = a ++ x :: b → ∀ y ∈ t.req x, y ∈ a) {x z : Nat} (h : Reach t s x z) :
    ∀ a b, l = a ++ x :: b → z ∈ a := by
  induction h with
  | single e => intro a b hab; exact hord a _ b hab _ e.1
  | @tail y z _ e ih =>
    intro a b hab
    have hy := ih a b hab
    obtain ⟨a1, a2, rfl⟩ := List.append_of_mem hy
    have := hord a1 y (a2 ++ x :: b) (by simpa using hab) z e.1
    exact List.mem_append_left _ this

theorem acyclic_of_topo_ok (t : T) (s : Nat) (l : List Nat) (h : topo t s = .ok l) : Acyclic t s := by
  intro x hx
  have hxm : x ∈ l := (topo_perm_aux t s [] l h).mem_iff.mpr (reach_src_mem t s hx)
  obtain ⟨a, b, hab, hxa⟩ := List.eq_append_cons_of_mem hxm
  exact hxa (reach_before t s l (topo_order_inv t s l h) hx a b hab)

/-! ### acyclic ⇒ no `cycle` error -/

theorem exists_minimal (R : Nat → Nat → Prop) (htrans : ∀ x y z, R x y → R y z → R x z)
    (hirr : ∀ x, ¬ R x x) : ∀ U : List Nat, U ≠ [] → ∃ m ∈ U, ∀ y ∈ U, ¬ R m y := by
  intro U
  induction U with
  | nil => intro h; exact absurd rfl h
  | cons x U ih =>
    intro _
    by_cases hU : U = []
    · subst hU
      exact ⟨x, List.mem_cons_self, fun y hy => by simp at hy; subst hy; exact hirr _⟩
    · obtain ⟨m, hm, hmin⟩ := ih hU
      by_cases hmx : R m x
      · refine ⟨x, List.mem_cons_self, ?_⟩
        intro y hy
        rcases List.mem_cons.mp hy with rfl | hy
        · exact hirr _
        · intro hxy; exact hmin y hy (htrans _ _ _ hmx hxy)
      · refine ⟨m, List.mem_cons_of_mem _ hm, ?_⟩
        intro y hy
        rcases List.mem_cons.mp hy with rfl | hy
        · exact hmx
        · exact hmin y hy

theorem topoLoop_not_cycle (t : T) (s : Nat) (hnd : (t.mem s).Nodup) (hcl : Closed t s)
    (hac : Acyclic t s) :
    ∀ fuel marked, topoLoop t s [] fuel marked ≠ .error .cycle := by
  intro fuel
  induction fuel with
  | zero => intro marked h; simp [topoLoop] at h
  | succ fuel ih =>
    intro marked h
    simp only [topoLoop] at h
    split at h
    · cases h
    · rename_i hlt
      split at h
      · rename_i heq
        -- the sweep marked nothing
        have hfix := sweep_fix t [] (t.mem s) marked heq
        rw [heq] at hlt
        -- the unmarked members
        have hU : (t.mem s).filter (fun j => decide (j ∉ marked)) ≠ [] := by
          intro hnil
          have hsub : t.mem s ⊆ marked := by
            intro j hj
            apply Classical.byContradiction
            intro hjm
            have : j ∈ (t.mem s).filter (fun j => decide (j ∉ marked)) := by
              simp [List.mem_filter, hj, hjm]
            rw [hnil] at this; cases this
          exact hlt ((List.subperm_of_subset hnd hsub).length_le)
        obtain ⟨m, hm, hmin⟩ := exists_minimal (Reach t s) (fun _ _ _ => reach_trans t s) hac _ hU
        simp only [List.mem_filter, decide_eq_true_eq] at hm hmin
        rcases hfix m hm.1 with hmm | hcm
        · exact hm.2 hmm
        · have : ¬ ∀ r ∈ t.req m, r ∈ marked := by
            rw [← canMark_nil_iff, hcm]; simp
          apply this
          intro r hr
          apply Classical.byContradiction
          intro hrm
          have hrmem := hcl m hm.1 r hr
          exact hmin r ⟨hrmem, hrm⟩ (Reach.single ⟨hr, hm.1, hrmem⟩)
      · exact ih _ h

theorem topo_ok_of_acyclic (t : T) (s : Nat) (hnd : (t.mem s).Nodup) (hcl : Closed t s)
    (hac : Acyclic t s) : ∃ l, topo t s = .ok l := by
  cases h : topo t s with
  | ok l => exact ⟨l, rfl⟩
  | error e =>
    exfalso
    rcases topoLoop_error t s [] _ [] e h with rfl | rfl
    · exact topoLoop_not_cycle t s hnd hcl hac _ [] h
    · exact topoLoop_never_fuel t s [] _ [] (by omega) (by simp) h

/-! ### nesting -/

theorem desc_sched (t : T) {s d : Nat} (h : Desc t s d) : t.isSched s = true := by
  cases h with
  | child hs _ => exact hs
  | deeper hs _ _ => exact hs

/-! ### `assignIds` and `listing` -/

def idStep (t : T) (fuel : Nat) (acc : Nat × List (Nat × Nat)) (j : Nat) :
    Except Err (Nat × List (Nat × Nat)) :=
  if t.isSched j then
    match assignIds t fuel j (acc.1 + 1) with
    | .error e => .error e
    | .ok (nxt, sub) => .ok (nxt, acc.2 ++ (j, acc.1) :: sub)
  else .ok (acc.1 + 1, acc.2 ++ [(j, acc.1)])

def listStep (t : T) (fuel : Nat) (acc : List Nat) (j : Nat) : Except Err (List Nat) :=
  if t.isSched j then
    match listing t fuel j with
    | .error e => .error e
    | .ok sub => .ok (acc ++ j :: sub)
  else .ok (acc ++ [j])

theorem assignIds_succ (t : T) (fuel s start : Nat) :
    assignIds t (fuel + 1) s start =
      match topo t s with
      | .error e => .error e
      | .ok l => l.foldlM (idStep t fuel) (start, []) := rfl

theorem listing_succ (t : T) (fuel s : Nat) :
    listing t (fuel + 1) s =
      match topo t s with
      | .error e => .error e
      | .ok l => l.foldlM (listStep t fuel) [] := rfl


theorem bind_ok {α β : Type} (x : α) (f : α → Except Err β) :
    ((Except.ok x : Except Err α) >>= f) = f x := rfl

theorem bind_error {α β : Type} (e : Err) (f : α → Except Err β) :
    ((Except.error e : Except Err α) >>= f) = .error e := rfl

theorem ids_fold (t : T) (fuel : Nat)
    (ihf : ∀ s start nxt (l : List (Nat × Nat)), assignIds t fuel s start = .ok (nxt, l) →
      l.map (·.2) = List.range' start l.length ∧ nxt = start + l.length ∧
      listing t fuel s = .ok (l.map (·.1))) :
    ∀ (js : List Nat) (a : Nat) (accl : List (Nat × Nat)) (nxt : Nat) (l : List (Nat × Nat)),
      js.foldlM (idStep t fuel) (a, accl) = .ok (nxt, l) →
      ∃ l', l = accl ++ l' ∧ l'.map (·.2) = List.range' a l'.length ∧ nxt = a + l'.length ∧
        ∀ accL, js.foldlM (listStep t fuel) accL = .ok (accL ++ l'.map (·.1)) := by
  intro js
  induction js with
  | nil =>
    intro a accl nxt l h
    simp only [List.foldlM_nil] at h
    cases h
    exact ⟨[], by simp, by simp, by simp, fun accL => by simp [List.foldlM_nil]; rfl⟩
  | cons j js ih =>
    intro a accl nxt l h
    rw [List.foldlM_cons] at h
    by_cases hj : t.isSched j = true
    · cases hsub : assignIds t fuel j (a + 1) with
      | error e =>
        have : idStep t fuel (a, accl) j = .error e := by simp [idStep, hj, hsub]
        rw [this, bind_error] at h; cases h
      | ok r =>
        obtain ⟨n1, sub⟩ := r
        have : idStep t fuel (a, accl) j = .ok (n1, accl ++ (j, a) :: sub) := by
          simp [idStep, hj, hsub]
        rw [this, bind_ok] at h
        obtain ⟨h1, h2, h3⟩ := ihf j (a + 1) n1 sub hsub
        obtain ⟨l'', e1, e2, e3, e4⟩ := ih n1 _ nxt l h
        refine ⟨(j, a) :: sub ++ l'', by simp [e1], ?_, ?_, ?_⟩
        · simp only [List.map_cons, List.map_append, List.cons_append, List.length_cons,
            List.length_append]
          rw [h1, e2, h2, List.range'_succ,
            ← List.range'_append_1]
        · simp only [List.cons_append, List.length_cons, List.length_append]; omega
        · intro accL
          rw [List.foldlM_cons]
          have : listStep t fuel accL j = .ok (accL ++ j :: sub.map (·.1)) := by
            simp [listStep, hj, h3]
          rw [this, bind_ok, e4]
          simp
    · have : idStep t fuel (a, accl) j = .ok (a + 1, accl ++ [(j, a)]) := by
        simp [idStep, hj]
      rw [this, bind_ok] at h
      obtain ⟨l'', e1, e2, e3, e4⟩ := ih (a + 1) _ nxt l h
      refine ⟨(j, a) :: l'', by simp [e1], ?_, ?_, ?_⟩
      · simp only [List.map_cons, List.length_cons]
        rw [e2, List.range'_succ]
      · simp only [List.length_cons]; omega
      · intro accL
        rw [List.foldlM_cons]
        have : listStep t fuel accL j = .ok (accL ++ [j]) := by
          simp [listStep, hj]
        rw [this, bind_ok, e4]
        simp

theorem ids_consecutive_aux (t : T) (fuel : Nat) : ∀ (s start nxt : Nat) (l : List (Nat × Nat)),
    assignIds t fuel s start = .ok (nxt, l) →
    l.map (·.2) = List.range' start l.length ∧ nxt = start + l.length ∧
    listing t fuel s = .ok (l.map (·.1)) := by
  induction fuel with
  | zero => intro s start nxt l h; simp [assignIds] at h
  | succ fuel ihf =>
    intro s start nxt l h
    rw [assignIds_succ] at h
    rw [listing_succ]
    cases ht : topo t s with
    | error e => rw [ht] at h; cases h
    | ok lt =>
      rw [ht] at h
      obtain ⟨l', e1, e2, e3, e4⟩ := ids_fold t fuel ihf lt start [] nxt l h
      simp only [List.nil_append] at e1
      subst e1
      exact ⟨e2, e3, by simpa using e4 []⟩

/-! ### listing -/

theorem foldlM_cons_ok {α β : Type} (f : β → α → Except Err β) (b : β) (a : α) (l : List α) (r : β)
    (h : (a :: l).foldlM f b = .ok r) : ∃ mid, f b a = .ok mid ∧ l.foldlM f mid = .ok r := by
  rw [List.foldlM_cons] at h
  cases hf : f b a with
  | error e => rw [hf, bind_error] at h; cases h
  | ok mid => rw [hf, bind_ok] at h; exact ⟨mid, rfl, h⟩

theorem listStep_ok (t : T) (fuel : Nat) (acc : List Nat) (j : Nat) (mid : List Nat)
    (h : listStep t fuel acc j = .ok mid) :
    (t.isSched j = true ∧ ∃ sub, listing t fuel j = .ok sub ∧ mid = acc ++ j :: sub) ∨
    (t.isSched j = false ∧ mid = acc ++ [j]) := by
  unfold listStep at h
  split at h
  · rename_i hj
    left
    refine ⟨hj, ?_⟩
    split at h
    · cases h
    · rename_i sub hsub
      cases h
      exact ⟨sub, hsub, rfl⟩
  · rename_i hj
    right
    cases h
    exact ⟨by simpa using hj, rfl⟩

theorem listing_desc (t : T) (fuel : Nat) : ∀ (j : Nat) (sub : List Nat), t.isSched j = true →
    listing t fuel j = .ok sub → ∀ d ∈ sub, Desc t j d := by
  induction fuel with
  | zero => intro j sub _ h; simp [listing] at h
  | succ fuel ihf =>
    intro j sub hj h
    rw [listing_succ] at h
    cases ht : topo t j with
    | error e => rw [ht] at h; cases h
    | ok lt =>
      rw [ht] at h
      have hsub := topo_subset t j [] lt ht
      have key : ∀ (js : List Nat), (∀ k ∈ js, k ∈ t.mem j) → ∀ acc r, (∀ d ∈ acc, Desc t j d) →
          js.foldlM (listStep t fuel) acc = .ok r → ∀ d ∈ r, Desc t j d := by
        intro js
        induction js with
        | nil =>
          intro _ acc r hacc hr
          simp only [List.foldlM_nil] at hr
          cases hr; exact hacc
        | cons k js ih =>
          intro hjs acc r hacc hr
          obtain ⟨mid, hmid, hr'⟩ := foldlM_cons_ok _ _ _ _ _ hr
          have hk : k ∈ t.mem j := hjs k List.mem_cons_self
          apply ih (fun k' hk' => hjs k' (List.mem_cons_of_mem _ hk')) mid r _ hr'
          rcases listStep_ok t fuel acc k mid hmid with ⟨hks, sub', hsub', rfl⟩ | ⟨_, rfl⟩
          · intro d hd
            rcases List.mem_append.mp hd with hd | hd
            · exact hacc d hd
            · rcases List.mem_cons.mp hd with rfl | hd
              · exact Desc.child hj hk
              · exact Desc.deeper hj hk (ihf k sub' hks hsub' d hd)
          · intro d hd
            rcases List.mem_append.mp hd with hd | hd
            · exact hacc d hd
            · simp at hd; subst hd; exact Desc.child hj hk
      exact key lt hsub [] sub (fun d hd => by cases hd) h

theorem listing_members_aux (t : T) (fuel s : Nat) (l lt : List Nat)
    (hdisj : ∀ k ∈ t.mem s, ∀ d, Desc t k d → d ∉ t.mem s)
    (h : listing t (fuel + 1) s = .ok l) (ht : topo t s = .ok lt) :
    l.filter (· ∈ t.mem s) = lt := by
  rw [listing_succ, ht] at h
  have hsub := topo_subset t s [] lt ht
  have key : ∀ (js : List Nat), (∀ k ∈ js, k ∈ t.mem s) → ∀ acc r,
      js.foldlM (listStep t fuel) acc = .ok r →
      r.filter (· ∈ t.mem s) = acc.filter (· ∈ t.mem s) ++ js := by
    intro js
    induction js with
    | nil =>
      intro _ acc r hr
      simp only [List.foldlM_nil] at hr
      cases hr; simp
    | cons k js ih =>
      intro hjs acc r hr
      obtain ⟨mid, hmid, hr'⟩ := foldlM_cons_ok _ _ _ _ _ hr
      have hk : k ∈ t.mem s := hjs k List.mem_cons_self
      rw [ih (fun k' hk' => hjs k' (List.mem_cons_of_mem _ hk')) mid r hr']
      rcases listStep_ok t fuel acc k mid hmid with ⟨hks, sub', hsub', rfl⟩ | ⟨_, rfl⟩
      · have hnil : sub'.filter (· ∈ t.mem s) = [] := by
          rw [List.filter_eq_nil_iff]
          intro d hd
          simpa using hdisj k hk d (listing_desc t fuel k sub' hks hsub' d hd)
        simp [hk, hnil]
      · simp [hk]
  simpa using key lt hsub [] l h

end AJ.Proofs.C15
