/-
  Gap-closing statements for C11–C15 (audit 3).  Delivered theorems (explicit binders, docstrings):
    item 1 (C13)  sdvalue_true_means, sdvalue_false_means (corrected; counter-examples sdvalue_false_cex_relay,
                  sdvalue_false_cex_cancelled)
    item 2 (C11, C13)  over_stays_quiet, shut_down_stays_quiet, shut_down_stays_quiet_later, shut_down_freezes,
                  over_freezes
    item 3 (C14)  result_own_iff_lax, exception_own_iff_lax, no_result_unless_done_lax, sched_result_iff_lax
    item 4 (C14)  cancelled_final, cancelled_final_lax, cancelled_stays, never_done_after_cancel,
                  never_done_after_cancel_strict
    item 5 (C15/C20)  listing_exact, ids_respect_req, ids_cover
    item 6 (C13)  broadcast_guarded, broadcast_guarded_later
  To read the statements: `open AJ AJ.Run AJ.Full AJ.Proofs.ShutB` (`DescOf` is in `ShutB`; `TreeAt` is written
  `AJ.Proofs.C16.TreeAt` in full, because `AJ.Proofs.C16` also declares a `stepA` and a `stepB`).
-/
import AJ.Proofs.ShutB
import AJ.Proofs.LaxA
import AJ.Proofs.ResA
import AJ.Proofs.HistA
import AJ.Proofs.C15
import AJ.Proofs.C16
namespace AJ.Proofs.Gap3
open AJ.Run AJ.Full AJ.Proofs.CoreA AJ.Proofs.CoreB AJ.Proofs.ShutB
set_option linter.unusedVariables false
set_option linter.unusedSimpArgs false

/-! ## Item 4 (C14), step form (used by nothing else here; the history forms are further down) -/

/-- C14 ("a cancelled job is never reported done"), step form: no event of layer A changes the phase of a job whose
    task finished cancelled. -/
theorem cancelled_final (c : Cfg) (st st' : StA) (e : EvA) (h : stepA c st e = some st') (j : Nat)
    (hc : st.ph j = .cancelled) : st'.ph j = .cancelled := by
  cases e <;> simp only [stepA] at h <;> (repeat' split at h) <;> cases h <;>
    (try unfold beginRun) <;> (repeat' split) <;> simp only [release, startJobs, setAt] <;> grind

/-! ## Item 1 (C13): what the value of `co_shutdown()` means -/

/-- auxiliary invariant on the handlers of a broadcast in progress -/
structure SdAux (c : Cfg) (st : StB) : Prop where
  carr : ∀ k, st.hcarrived k = true → st.hph k ≠ .hnone
  carrBc : ∀ s, st.hcarrived s = true → st.bc s = .btidy .relay ∨ st.bc s = .bover
  wait : ∀ s w, st.bc s = .bwait w → ∀ k ∈ c.children s,
    st.hcreq k = false ∧ st.hcarrived k = false ∧ (st.hph k = .hactive ∨ st.hph k = .hdone)
  valDid : ∀ s b, st.sdValue s = some b → st.didSd s = true ∧ st.bc s = .bover
  valTrue : ∀ s, st.sdValue s = some true → ∀ k ∈ c.children s, st.hph k = .hdone ∧ st.hcreq k = false

theorem sdAux_init (c : Cfg) : SdAux c StB.init := by
  constructor <;> intros <;> simp_all [StB.init]

theorem beginB_hcarrived (c : Cfg) (st : StB) (s : Nat) (a' : StA) :
    (beginB c st s a').hcarrived = st.hcarrived ∧ (beginB c st s a').carrived = st.carrived := by
  unfold beginB; split <;> exact ⟨rfl, rfl⟩

macro "sd_norm" : tactic =>
  `(tactic| simp only [broadcast, setAt, CoreB.mem_children, relayActive, Bool.or_eq_true, decide_eq_true_eq,
           mem_activeHandlers, beq_iff_eq, hcancelPending, Bool.and_eq_false_iff, Bool.not_eq_false', Bool.and_eq_true,
           Bool.not_eq_true'] at *)

macro "sd_facts" : tactic =>
  `(tactic| (have a1 := (‹SdAux _ _›).carr; have a2 := (‹SdAux _ _›).carrBc; have a3 := (‹SdAux _ _›).wait
             have a4 := (‹SdAux _ _›).valDid; have a5 := (‹SdAux _ _›).valTrue
             have b1 := (‹InvB _ _›).bcNone; have b2 := (‹InvB _ _›).bcInlineWait; have b3 := (‹InvB _ _›).bcInlineTidy
             have b4 := (‹InvB _ _›).bcRelay; have b5 := (‹InvB _ _›).hcallsDid; have b6 := (‹InvB _ _›).hphNone
             have b7 := (‹InvB _ _›).hcallsLe; have b9 := (‹InvB _ _›).hcallsRange
             have w1 := (‹CoreB.WF _›).parLt))

macro "sd_close" : tactic =>
  `(tactic| (constructor <;> intros <;> sd_norm <;> grind [Bc.isWait, Bc.isTidy]))
theorem sdAux_cancelArrive (c : Cfg) (w : CoreB.WF c) (st st' : StB) (s : Nat) (hA : InvA c st.a) (hB : InvB c st)
    (hS : SdAux c st) (h : stepB c st (.cancelArrive s) = some st') : SdAux c st' := by
  simp only [stepB] at h
  repeat' split at h
  all_goals first
    | (cases h; done)
    | (cases h; exact ⟨hS.1, hS.2, hS.3, hS.4, hS.5⟩)
    | skip
  cases h
  sd_facts
  clear hS hB hA
  sd_close

theorem sdAux_tidyReturn (c : Cfg) (w : CoreB.WF c) (st st' : StB) (s p : Nat) (hA : InvA c st.a) (hB : InvB c st)
    (hS : SdAux c st) (h : stepB c st (.tidyReturn s p) = some st') : SdAux c st' := by
  simp only [stepB] at h
  repeat' split at h
  all_goals first
    | (cases h; done)
    | skip
  · obtain ⟨r, a', _, rfl⟩ := finishRun_spec h
    sd_facts
    clear hS hB hA h
    sd_close
  · cases h
    sd_facts
    clear hS hB hA
    sd_close

theorem sdAux_hStep (c : Cfg) (w : CoreB.WF c) (st st' : StB) (s : Nat) (hA : InvA c st.a) (hB : InvB c st)
    (hS : SdAux c st) (h : stepB c st (.hStep s) = some st') : SdAux c st' := by
  simp only [stepB] at h
  repeat' split at h
  all_goals first
    | (cases h; done)
    | skip
  · cases h
    sd_facts
    clear hS hB hA
    sd_close
  · cases h
    sd_facts
    clear hS hB hA
    sd_close

theorem sdAux_hEnd (c : Cfg) (w : CoreB.WF c) (st st' : StB) (s : Nat) (hA : InvA c st.a) (hB : InvB c st)
    (hS : SdAux c st) (h : stepB c st (.hEnd s) = some st') : SdAux c st' := by
  simp only [stepB] at h
  repeat' split at h
  all_goals first
    | (cases h; done)
    | skip
  · cases h
    sd_facts
    clear hS hB hA
    sd_close

theorem sdAux_hCancelAck (c : Cfg) (w : CoreB.WF c) (st st' : StB) (s : Nat) (hA : InvA c st.a) (hB : InvB c st)
    (hS : SdAux c st) (h : stepB c st (.hCancelAck s) = some st') : SdAux c st' := by
  simp only [stepB] at h
  repeat' split at h
  all_goals first
    | (cases h; done)
    | skip
  · cases h
    sd_facts
    clear hS hB hA
    sd_close

theorem sdAux_hCancelArrive (c : Cfg) (w : CoreB.WF c) (st st' : StB) (s : Nat) (hA : InvA c st.a) (hB : InvB c st)
    (hS : SdAux c st) (h : stepB c st (.hCancelArrive s) = some st') : SdAux c st' := by
  simp only [stepB] at h
  repeat' split at h
  all_goals first
    | (cases h; done)
    | skip
  · cases h
    sd_facts
    clear hS hB hA
    sd_close
  · cases h
    sd_facts
    clear hS hB hA
    sd_close

theorem sdAux_sdWaitReturn (c : Cfg) (w : CoreB.WF c) (st st' : StB) (s p : Nat) (hA : InvA c st.a) (hB : InvB c st)
    (hS : SdAux c st) (h : stepB c st (.sdWaitReturn s p) = some st') : SdAux c st' := by
  simp only [stepB] at h
  split at h
  · rename_i hg
    have hact := activeHandlers_nil hg.1
    repeat' split at h
    all_goals first
      | (cases h; done)
      | skip
    · obtain ⟨r, a', _, rfl⟩ := finishRun_spec h
      sd_facts
      clear hS hB hA h
      sd_close
    · cases h
      sd_facts
      clear hS hB hA
      sd_close
  · cases h

theorem sdAux_sdTimeoutFire (c : Cfg) (w : CoreB.WF c) (st st' : StB) (s : Nat) (hA : InvA c st.a) (hB : InvB c st)
    (hS : SdAux c st) (h : stepB c st (.sdTimeoutFire s) = some st') : SdAux c st' := by
  simp only [stepB] at h
  repeat' split at h
  all_goals first
    | (cases h; done)
    | skip
  all_goals
    cases h
    sd_facts
    clear hS hB hA
    sd_close

theorem sdAux_sdTidyReturn (c : Cfg) (w : CoreB.WF c) (st st' : StB) (s p : Nat) (hA : InvA c st.a) (hB : InvB c st)
    (hS : SdAux c st) (h : stepB c st (.sdTidyReturn s p) = some st') : SdAux c st' := by
  simp only [stepB] at h
  repeat' split at h
  all_goals first
    | (cases h; done)
    | skip
  · obtain ⟨r, a', _, rfl⟩ := finishRun_spec h
    sd_facts
    clear hS hB hA h
    sd_close
  · cases h
    sd_facts
    clear hS hB hA
    sd_close
  · cases h
    sd_facts
    clear hS hB hA
    sd_close

theorem sdAux_step (c : Cfg) (w : CoreB.WF c) (st st' : StB) (e : EvB) (hA : InvA c st.a) (hB : InvB c st)
    (hS : SdAux c st) (h : stepB c st e = some st') : SdAux c st' := by
  cases e with
  | cancelArrive s => exact sdAux_cancelArrive c w st st' s hA hB hS h
  | tidyReturn s p => exact sdAux_tidyReturn c w st st' s p hA hB hS h
  | hStep s => exact sdAux_hStep c w st st' s hA hB hS h
  | hEnd s => exact sdAux_hEnd c w st st' s hA hB hS h
  | hCancelAck s => exact sdAux_hCancelAck c w st st' s hA hB hS h
  | hCancelArrive s => exact sdAux_hCancelArrive c w st st' s hA hB hS h
  | sdWaitReturn s p => exact sdAux_sdWaitReturn c w st st' s p hA hB hS h
  | sdTimeoutFire s => exact sdAux_sdTimeoutFire c w st st' s hA hB hS h
  | sdTidyReturn s p => exact sdAux_sdTidyReturn c w st st' s p hA hB hS h
  | runBegin =>
    simp only [stepB] at h
    split at h
    · cases h
    · rename_i a' ha
      cases h
      obtain ⟨e1, e2, e3, e4, e5, e6, e7⟩ := beginB_spec c st 0 a'
      obtain ⟨e8, e9⟩ := beginB_hcarrived c st 0 a'
      obtain ⟨a1, a2, a3, a4, a5⟩ := hS
      constructor <;> simp only [e2, e3, e4, e5, e6, e8] <;> assumption
  | grant j =>
    simp only [stepB] at h
    split at h
    · cases h
    · rename_i a' ha
      obtain ⟨e1, e2, e3, e4, e5, e6, e7⟩ := beginB_spec c st j a'
      obtain ⟨e8, e9⟩ := beginB_hcarrived c st j a'
      obtain ⟨a1, a2, a3, a4, a5⟩ := hS
      split at h <;> cases h
      · constructor <;> simp only [e2, e3, e4, e5, e6, e8] <;> assumption
      · exact ⟨a1, a2, a3, a4, a5⟩
  | _ =>
    simp only [stepB] at h
    repeat' split at h
    all_goals first
      | (cases h; done)
      | (cases h; exact ⟨hS.1, hS.2, hS.3, hS.4, hS.5⟩)

/-- the auxiliary invariants hold along any accepted history (from a state where the three hold) -/
theorem sdAux_accept (c : Cfg) (hwf : c.wf = true) (evs : List EvB) (st0 st : StB)
    (hA : InvA c st0.a) (hB : InvB c st0) (hS : SdAux c st0) (h : acceptB c st0 evs = some st) :
    InvA c st.a ∧ InvB c st ∧ SdAux c st := by
  induction evs generalizing st0 with
  | nil => simp only [acceptB] at h; cases h; exact ⟨hA, hB, hS⟩
  | cons e es ih =>
    simp only [acceptB] at h
    split at h
    · rename_i st1 hs
      have hB1 := invB_step c hwf st0 st1 e hA hB hs
      have hS1 := sdAux_step c (wf_of c hwf) st0 st1 e hA hB hS hs
      have hA1 : InvA c st1.a := by
        rcases stepB_refines c st0 st1 e hs with heq | ⟨ea, hea⟩
        · rw [heq]; exact hA
        · exact invA_step c hwf st0.a st1.a ea hA hea
      exact ih st1 hA1 hB1 hS1 h
    · cases h

theorem sdAux_reach (c : Cfg) (hwf : c.wf = true) (evs : List EvB) (st : StB)
    (h : acceptB c StB.init evs = some st) : SdAux c st :=
  (sdAux_accept c hwf evs StB.init st (invA_init c) (invB_init c) (sdAux_init c) h).2.2

/-- C13 ("`co_shutdown()` returns `True` iff every handler completed"), the `True` half as a statement about states:
    in every reachable state in which the last `co_shutdown()` of scheduler `s` returned `True`, the shutdown handler
    of every job of `s` has ended normally (`hdone`, not cancelled) and no `cancel()` was ever called on it. -/
theorem sdvalue_true_means (c : Cfg) (hwf : c.wf = true) (evs : List EvB) (st : StB)
    (h : acceptB c StB.init evs = some st) (s : Nat) (hv : st.sdValue s = some true) :
    ∀ k ∈ c.children s, st.hph k = .hdone ∧ st.hcreq k = false := by
  exact (sdAux_reach c hwf evs st h).valTrue s hv

/-- some handler launched by the broadcast of `s` ended cancelled, or has been asked to -/
def Canc (c : Cfg) (st : StB) (s : Nat) : Prop :=
  ∃ k ∈ c.children s, st.hph k = .hcancelled ∨ st.hcreq k = true

theorem canc_step (c : Cfg) (w : CoreB.WF c) (st st' : StB) (e : EvB) (hB : InvB c st)
    (hS : SdAux c st) (h : stepB c st e = some st') (s : Nat) (hd : st.didSd s = true) (hc : Canc c st s) :
    Canc c st' s := by
  obtain ⟨k, hk, hkc⟩ := hc
  refine ⟨k, hk, ?_⟩
  have a2 := hS.carrBc k
  have b4 := hB.bcRelay k
  have w1 := w.parLt k
  cases e <;> simp only [stepB] at h
  all_goals (repeat' split at h)
  all_goals first
    | (cases h; done)
    | (cases h; exact hkc)
    | (cases h; simp only [(beginB_spec _ _ _ _).2.2.2.1, (beginB_spec _ _ _ _).2.2.2.2.1]; exact hkc)
    | (obtain ⟨r, a', _, rfl⟩ := finishRun_spec h; exact hkc)
    | (cases h; simp only [exitLoop]; exact hkc)
    | skip
  all_goals (first | cases h | obtain ⟨r, a', _, rfl⟩ := finishRun_spec h)
  all_goals (sd_norm; grind [Bc.isWait, Bc.isTidy])

/-- delivered cancellations are never forgotten -/
theorem carrived_mono (c : Cfg) (st st' : StB) (e : EvB) (h : stepB c st e = some st') (s : Nat) :
    (st.carrived s = true → st'.carrived s = true) ∧ (st.hcarrived s = true → st'.hcarrived s = true) := by
  cases e <;> simp only [stepB] at h
  all_goals (repeat' split at h)
  all_goals first
    | (cases h; done)
    | (cases h; exact ⟨id, id⟩)
    | (cases h; simp only [(beginB_hcarrived _ _ _ _).1, (beginB_hcarrived _ _ _ _).2]; exact ⟨id, id⟩)
    | (obtain ⟨r, a', _, rfl⟩ := finishRun_spec h; exact ⟨id, id⟩)
    | (cases h; simp only [exitLoop, broadcast, setAt]; grind)

/-- why a `co_shutdown()` of `s` went, or is going, through its clean-up `_tidy_tasks(pending)` -/
def FalseCause (c : Cfg) (st : StB) (s : Nat) : Prop :=
  Canc c st s ∨ st.carrived s = true ∨ st.hcarrived s = true

theorem tidy_new (c : Cfg) (st st' : StB) (e : EvB) (h : stepB c st e = some st') (s : Nat)
    (hn : (st'.bc s).isTidy = true ∨ st'.sdValue s = some false) :
    ((st.bc s).isTidy = true ∨ st.sdValue s = some false) ∨ FalseCause c st' s := by
  cases e with
  | sdTimeoutFire s0 =>
    simp only [stepB] at h
    split at h
    · rename_i hg
      obtain ⟨k, hk⟩ := List.exists_mem_of_ne_nil _ hg.2.1
      cases h
      simp only [FalseCause, Canc] at *
      sd_norm
      by_cases hs : s = s0
      · subst hs
        exact Or.inr (Or.inl ⟨k, hk.1, Or.inr (Or.inr hk)⟩)
      · simp only [hs, if_false] at hn
        exact Or.inl hn
    · cases h
  | _ =>
    simp only [stepB] at h
    all_goals (repeat' split at h)
    all_goals first
      | (cases h; done)
      | (cases h; exact Or.inl hn)
      | (cases h; simp only [(beginB_spec _ _ _ _).2.2.1, (beginB_spec _ _ _ _).2.2.2.2.2.1] at hn; exact Or.inl hn)
      | (cases h; simp only [exitLoop] at hn; exact Or.inl hn)
      | skip
    all_goals (first | cases h | obtain ⟨r, a', _, rfl⟩ := finishRun_spec h)
    all_goals (try clear h); (try simp only [FalseCause, Canc] at *); sd_norm; grind [Bc.isTidy, Bc.isWait]

theorem cause_step (c : Cfg) (w : CoreB.WF c) (st st' : StB) (e : EvB) (hB : InvB c st)
    (hS : SdAux c st) (h : stepB c st e = some st') (s : Nat) (hd : st.didSd s = true) (hc : FalseCause c st s) :
    FalseCause c st' s := by
  rcases hc with hc | hc | hc
  · exact Or.inl (canc_step c w st st' e hB hS h s hd hc)
  · exact Or.inr (Or.inl ((carrived_mono c st st' e h s).1 hc))
  · exact Or.inr (Or.inr ((carrived_mono c st st' e h s).2 hc))

/-- invariant: a broadcast in its clean-up phase, or one that returned `False`, has a cause -/
def SdFalse (c : Cfg) (st : StB) : Prop :=
  ∀ s, ((st.bc s).isTidy = true ∨ st.sdValue s = some false) → FalseCause c st s

theorem sdFalse_step (c : Cfg) (w : CoreB.WF c) (st st' : StB) (e : EvB) (hB : InvB c st)
    (hS : SdAux c st) (hF : SdFalse c st) (h : stepB c st e = some st') : SdFalse c st' := by
  intro s hn
  rcases tidy_new c st st' e h s hn with ho | hnew
  · have hd : st.didSd s = true := by
      rcases ho with ho | ho
      · cases hd : st.didSd s
        · have := (hB.bcNone s).2 hd
          rw [this] at ho; simp [Bc.isTidy] at ho
        · rfl
      · exact (hS.valDid s false ho).1
    exact cause_step c w st st' e hB hS h s hd (hF s ho)
  · exact hnew

theorem sdFalse_init (c : Cfg) : SdFalse c StB.init := by
  intro s hn
  simp [StB.init, Bc.isTidy] at hn

theorem sdFalse_accept (c : Cfg) (hwf : c.wf = true) (evs : List EvB) (st0 st : StB)
    (hA : InvA c st0.a) (hB : InvB c st0) (hS : SdAux c st0) (hF : SdFalse c st0) (h : acceptB c st0 evs = some st) :
    SdFalse c st := by
  induction evs generalizing st0 with
  | nil => simp only [acceptB] at h; cases h; exact hF
  | cons e es ih =>
    simp only [acceptB] at h
    split at h
    · rename_i st1 hs
      have hB1 := invB_step c hwf st0 st1 e hA hB hs
      have hS1 := sdAux_step c (wf_of c hwf) st0 st1 e hA hB hS hs
      have hF1 := sdFalse_step c (wf_of c hwf) st0 st1 e hB hS hF hs
      have hA1 : InvA c st1.a := by
        rcases stepB_refines c st0 st1 e hs with heq | ⟨ea, hea⟩
        · rw [heq]; exact hA
        · exact invA_step c hwf st0.a st1.a ea hA hea
      exact ih st1 hA1 hB1 hS1 hF1 h
    · cases h

theorem sdFalse_reach (c : Cfg) (hwf : c.wf = true) (evs : List EvB) (st : StB)
    (h : acceptB c StB.init evs = some st) : SdFalse c st :=
  sdFalse_accept c hwf evs StB.init st (invA_init c) (invB_init c) (sdAux_init c) (sdFalse_init c) h

/-- C13 ("`co_shutdown()` returns `False` iff some handler had to be cancelled"), the `False` half, corrected.
    In every reachable state in which the last `co_shutdown()` of scheduler `s` is recorded as `False`:
    * either the handler of some job `k` of `s` ended cancelled, or — the one other way a `cancel()` on a handler
      can end in the model — `k` is a nested scheduler that had already shut down, whose relay returned at its first
      step (`hdone`) with the request still standing (`hcreq k`);
    * or that call of `co_shutdown()` did not time out but was itself interrupted by a `CancelledError`: one was
      delivered into `co_run()` of `s` (`carrived s`, inline call) or into the relayed call (`hcarrived s`) — in the
      code such a call raises instead of returning; the model records `some false` for it.
    The statement suggested by the audit (`∃ k ∈ c.children s, st.hph k = .hcancelled`) is false in both cases:
    see `sdvalue_false_cex_relay` and `sdvalue_false_cex_cancelled`. -/
theorem sdvalue_false_means (c : Cfg) (hwf : c.wf = true) (evs : List EvB) (st : StB)
    (h : acceptB c StB.init evs = some st) (s : Nat) (hv : st.sdValue s = some false) :
    (∃ k ∈ c.children s, st.hph k = .hcancelled ∨
        (c.isSched k = true ∧ st.didSd k = true ∧ st.hph k = .hdone ∧ st.hcreq k = true)) ∨
      st.carrived s = true ∨ st.hcarrived s = true := by
  have hB := invB_reach c hwf evs st h
  rcases sdFalse_reach c hwf evs st h s (Or.inr hv) with ⟨k, hk, hc⟩ | hc
  · refine Or.inl ⟨k, hk, ?_⟩
    rcases hc with hc | hc
    · exact Or.inl hc
    · rcases hB.hcreqActive k hc with ha | ⟨h1, h2, h3⟩
      · have hbo := ((sdAux_reach c hwf evs st h).valDid s false hv).2
        obtain ⟨hkn, hk0, hkp⟩ := CoreB.mem_children.1 hk
        have := hB.hactiveBc k (by omega) hkn ha
        rw [hkp, hbo] at this
        simp [Bc.isWait, Bc.isTidy] at this
      · exact Or.inr ⟨h1, h3, h2, hc⟩
  · exact Or.inr hc

/-! ### counter-examples to the simpler statement `sdValue s = some false → ∃ k ∈ children s, hph k = hcancelled`,
    and non-vacuity -/

/-- first way: the top-level broadcast (with `shutdown_timeout = 0`) expires at once and cancels the relay of the
    nested scheduler `1` before its first step; `1` had already shut down, so that first step returns at once:
    `co_shutdown()` of `0` reports `False`, no handler ended cancelled, the request on the relay of `1` still stands
    (configuration and history of `CoreB.hcreqCex`, plus the return of the clean-up) -/
theorem sdvalue_false_cex_relay :
    hcreqCex.wf = true ∧
    (acceptB hcreqCex StB.init (hcreqCexEvs ++ [.sdTidyReturn 0 0])).map
      (fun st => (st.sdValue 0, (hcreqCex.children 0).map st.hph, st.hcreq 1, st.didSd 1, st.carrived 0, st.hcarrived 0)) =
    some (some false, [.hdone], true, true, false, false) := by
  decide

/-- a nested scheduler `1` (job `2`) and a critical atomic job `3` under the top-level scheduler -/
def cancCfg : Cfg :=
  { n := 4, parent := fun j => if j = 2 then 1 else 0, isSched := fun j => j = 0 || j = 1, req := fun _ => [],
    critical := fun j => j = 3, forever := fun _ => false, window := fun _ => 0, timeout := fun _ => none,
    sdTimeout := fun _ => none, topPure := true }

/-- `1` ends, shuts down inline, its only handler ends; before the bounded wait of that `co_shutdown()` returns, job
    `3` fails, the top-level scheduler cancels `1`, and the `CancelledError` is delivered into that wait -/
def cancEvs : List EvB :=
  [.runBegin, .grant 1, .grant 3, .grant 2, .bodyEnd 2 true, .waitReturn 1, .react 1, .tidyReturn 1 0, .hEnd 2,
   .bodyEnd 3 false, .waitReturn 0, .react 0, .cancelArrive 1, .sdTidyReturn 1 0]

/-- second way: the call of `co_shutdown()` is itself interrupted by a `CancelledError` (in the code it raises; the
    model records `some false`): no handler was cancelled nor asked to -/
theorem sdvalue_false_cex_cancelled :
    cancCfg.wf = true ∧
    (acceptB cancCfg StB.init cancEvs).map
      (fun st => (st.sdValue 1, (cancCfg.children 1).map st.hph, st.hcreq 2, st.carrived 1, st.a.ph 1)) =
    some (some false, [.hdone], false, true, .cancelled) := by
  decide

/-- non-vacuity of `sdvalue_true_means`: a reachable state with `sdValue 1 = some true` -/
example : (acceptB hcreqCex StB.init (hcreqCexEvs.take 9)).map (fun st => st.sdValue 1) = some (some true) := by
  decide

/-! ## Item 2 (C11, C13): "stays quiet" as single history statements -/

theorem acceptB_append (c : Cfg) (st0 : StB) (e1 e2 : List EvB) :
    acceptB c st0 (e1 ++ e2) = (acceptB c st0 e1).bind (fun st => acceptB c st e2) := by
  induction e1 generalizing st0 with
  | nil => rfl
  | cons e es ih =>
    simp only [List.cons_append, acceptB]
    split
    · exact ih _
    · rfl

/-- `_did_shutdown` is never reset -/
theorem didSd_mono (c : Cfg) (st st' : StB) (e : EvB) (h : stepB c st e = some st') (s : Nat)
    (hd : st.didSd s = true) : st'.didSd s = true := by
  cases e <;> simp only [stepB] at h
  all_goals (repeat' split at h)
  all_goals first
    | (cases h; done)
    | (cases h; exact hd)
    | (cases h; simp only [(beginB_spec _ _ _ _).2.1]; exact hd)
    | (obtain ⟨r, a', _, rfl⟩ := finishRun_spec h; exact hd)
    | (cases h; simp only [exitLoop, broadcast, setAt]; split <;> simp_all)

theorem didSd_accept (c : Cfg) (more : List EvB) (st st' : StB) (h : acceptB c st more = some st') (s : Nat)
    (hd : st.didSd s = true) : st'.didSd s = true := by
  induction more generalizing st with
  | nil => simp only [acceptB] at h; cases h; exact hd
  | cons e es ih =>
    simp only [acceptB] at h
    split at h
    · rename_i st1 hs
      exact ih st1 h (didSd_mono c st st1 e hs s hd)
    · cases h

theorem over_accept (c : Cfg) (hwf : c.wf = true) (more : List EvB) (st st' : StB) (hA : InvA c st.a) (hB : InvB c st)
    (h : acceptB c st more = some st') (s : Nat) (hover : st.pcB s = .over) : st'.pcB s = .over := by
  induction more generalizing st with
  | nil => simp only [acceptB] at h; cases h; exact hover
  | cons e es ih =>
    simp only [acceptB] at h
    split at h
    · rename_i st1 hs
      have hB1 := invB_step c hwf st st1 e hA hB hs
      have hA1 : InvA c st1.a := by
        rcases stepB_refines c st st1 e hs with heq | ⟨ea, hea⟩
        · rw [heq]; exact hA
        · exact invA_step c hwf st.a st1.a ea hA hea
      exact ih st1 hA1 hB1 h (over_is_final c st st1 e s hA hB hs hover)
    · cases h

/-- C11 ("… nor will execute later"), as one statement about histories: once the run of scheduler `s` is over, then
    after ANY continuation of the history the run of `s` is still over and no job of its subtree, at any depth, is
    executing or waiting for a slot, nor is any shutdown handler of the subtree pending. -/
theorem over_stays_quiet (c : Cfg) (hwf : c.wf = true) (evs more : List EvB) (st st' : StB) (s : Nat)
    (h : acceptB c StB.init evs = some st) (hover : st.pcB s = .over) (h' : acceptB c st more = some st') :
    st'.pcB s = .over ∧ ∀ d, DescOf c s d → (st'.a.ph d).live = false ∧ st'.hph d ≠ .hactive := by
  have hA := invA_of_reachB c hwf evs st h
  have hB := invB_reach c hwf evs st h
  have ho := over_accept c hwf more st st' hA hB h' s hover
  have hr : acceptB c StB.init (evs ++ more) = some st' := by
    rw [acceptB_append, h]; exact h'
  refine ⟨ho, ?_⟩
  intro d hd
  have := over_subtree_quiet c hwf (evs ++ more) st' hr s ho d hd
  exact ⟨this.1, this.2.1⟩

/-- C13 ("no job starts after the shutdown broadcast"), state form: in every reachable state in which scheduler `s`
    has broadcast its shutdown (`_did_shutdown`), none of its jobs is executing or waiting for a slot. -/
theorem shut_down_stays_quiet (c : Cfg) (hwf : c.wf = true) (evs : List EvB) (st : StB) (s : Nat)
    (h : acceptB c StB.init evs = some st) (hd : st.didSd s = true) :
    ∀ k ∈ c.children s, (st.a.ph k).live = false := by
  exact (invB_reach c hwf evs st h).sdQuiet s hd

/-- C13 ("no job starts after the shutdown broadcast"), history form: once scheduler `s` has broadcast its shutdown,
    then after ANY continuation of the history it still has (`_did_shutdown` is never reset) and none of its jobs is
    executing or waiting for a slot — in particular none was started in between. -/
theorem shut_down_stays_quiet_later (c : Cfg) (hwf : c.wf = true) (evs more : List EvB) (st st' : StB) (s : Nat)
    (h : acceptB c StB.init evs = some st) (hd : st.didSd s = true) (h' : acceptB c st more = some st') :
    st'.didSd s = true ∧ ∀ k ∈ c.children s, (st'.a.ph k).live = false := by
  have hd' := didSd_accept c more st st' h' s hd
  have hr : acceptB c StB.init (evs ++ more) = some st' := by
    rw [acceptB_append, h]; exact h'
  exact ⟨hd', shut_down_stays_quiet c hwf (evs ++ more) st' s hr hd'⟩


/-- a job other than the top-level scheduler that is not live before and after a step was not touched by it: same
    phase, same number of entries into its body -/
theorem stepA_frozen (c : Cfg) (st st' : StA) (e : EvA) (h : stepA c st e = some st') (k : Nat) (hk : k ≠ 0)
    (h1 : (st.ph k).live = false) (h2 : (st'.ph k).live = false) :
    st'.ph k = st.ph k ∧ st'.entries k = st.entries k := by
  revert h2
  cases e <;> simp only [stepA] at h <;> (repeat' split at h) <;> cases h <;>
    (try unfold beginRun) <;> (repeat' split) <;> simp only [release, startJobs, setAt] <;> grind [Ph.live]

theorem stepB_frozen (c : Cfg) (st st' : StB) (e : EvB) (h : stepB c st e = some st') (k : Nat) (hk : k ≠ 0)
    (h1 : (st.a.ph k).live = false) (h2 : (st'.a.ph k).live = false) :
    st'.a.ph k = st.a.ph k ∧ st'.a.entries k = st.a.entries k := by
  rcases stepB_refines c st st' e h with heq | ⟨ea, hea⟩
  · rw [heq]; exact ⟨rfl, rfl⟩
  · exact stepA_frozen c st.a st'.a ea hea k hk h1 h2

/-- a job that is not live in any state of a stable class `Q` of states is frozen along any history from a `Q`-state -/
theorem frozen_accept (c : Cfg) (k : Nat) (hk : k ≠ 0) (Q : StB → Prop)
    (hstep : ∀ st st' e, Q st → stepB c st e = some st' → Q st')
    (hquiet : ∀ st, Q st → (st.a.ph k).live = false)
    (more : List EvB) (st st' : StB) (hq : Q st) (h : acceptB c st more = some st') :
    st'.a.ph k = st.a.ph k ∧ st'.a.entries k = st.a.entries k := by
  induction more generalizing st with
  | nil => simp only [acceptB] at h; cases h; exact ⟨rfl, rfl⟩
  | cons e es ih =>
    simp only [acceptB] at h
    split at h
    · rename_i st1 hs
      have hq1 := hstep st st1 e hq hs
      have h1 := stepB_frozen c st st1 e hs k hk (hquiet st hq) (hquiet st1 hq1)
      have h2 := ih st1 hq1 h
      exact ⟨h2.1.trans h1.1, h2.2.trans h1.2⟩
    · cases h

theorem acceptB_snoc (c : Cfg) (evs : List EvB) (st st' : StB) (e : EvB)
    (h : acceptB c StB.init evs = some st) (hs : stepB c st e = some st') :
    acceptB c StB.init (evs ++ [e]) = some st' := by
  rw [acceptB_append, h]; simp [acceptB, hs]

/-- C13 ("no job starts after the shutdown broadcast"), strongest form: once scheduler `s` has broadcast its
    shutdown, whatever happens next leaves each of its jobs exactly as it was — same phase (idle, finished or
    cancelled) and same number of entries into its body: none starts, none runs again. -/
theorem shut_down_freezes (c : Cfg) (hwf : c.wf = true) (evs more : List EvB) (st st' : StB) (s : Nat)
    (h : acceptB c StB.init evs = some st) (hd : st.didSd s = true) (h' : acceptB c st more = some st') :
    ∀ k ∈ c.children s, st'.a.ph k = st.a.ph k ∧ st'.a.entries k = st.a.entries k := by
  intro k hk
  refine frozen_accept c k (CoreB.mem_children.1 hk).2.1
    (fun x => (∃ ev, acceptB c StB.init ev = some x) ∧ x.didSd s = true) ?_ ?_ more st st' ⟨⟨evs, h⟩, hd⟩ h'
  · rintro x x' e ⟨⟨ev, hx⟩, hdx⟩ hs
    exact ⟨⟨ev ++ [e], acceptB_snoc c ev x x' e hx hs⟩, didSd_mono c x x' e hs s hdx⟩
  · rintro x ⟨⟨ev, hx⟩, hdx⟩
    exact shut_down_stays_quiet c hwf ev x s hx hdx k hk

theorem descOf_ne_zero {c : Cfg} {s d : Nat} (h : DescOf c s d) : d ≠ 0 := by
  induction h with
  | child hk => exact (CoreB.mem_children.1 hk).2.1
  | deeper _ _ ih => exact ih

/-- C11 ("nothing it started is still running, nor will execute later"), strongest form: once the run of scheduler
    `s` is over, whatever happens next leaves every job of its subtree, at any depth, exactly as it was — same phase,
    same number of entries into its body. -/
theorem over_freezes (c : Cfg) (hwf : c.wf = true) (evs more : List EvB) (st st' : StB) (s : Nat)
    (h : acceptB c StB.init evs = some st) (hover : st.pcB s = .over) (h' : acceptB c st more = some st') :
    ∀ d, DescOf c s d → st'.a.ph d = st.a.ph d ∧ st'.a.entries d = st.a.entries d := by
  intro d hdd
  refine frozen_accept c d (descOf_ne_zero hdd)
    (fun x => (∃ ev, acceptB c StB.init ev = some x) ∧ x.pcB s = .over) ?_ ?_ more st st' ⟨⟨evs, h⟩, hover⟩ h'
  · rintro x x' e ⟨⟨ev, hx⟩, hox⟩ hs
    exact ⟨⟨ev ++ [e], acceptB_snoc c ev x x' e hx hs⟩,
      over_is_final c x x' e s (invA_of_reachB c hwf ev x hx) (invB_reach c hwf ev x hx) hs hox⟩
  · rintro x ⟨⟨ev, hx⟩, hox⟩
    exact (over_subtree_quiet c hwf ev x hx s hox d hdd).1

/-- non-vacuity of the four theorems above: in `CoreB.hcreqCex` the nested run `1` is over (and has shut down) after
    9 events, and the history goes on for 5 more events -/
example : (acceptB hcreqCex StB.init (hcreqCexEvs.take 9)).map (fun st => (st.pcB 1, st.didSd 1)) = some (.over, true) ∧
    ((acceptB hcreqCex StB.init (hcreqCexEvs.take 9)).bind
      (fun st => acceptB hcreqCex st (hcreqCexEvs.drop 9))).isSome = true := by
  decide

/-! ## Item 3 (C14): the result theorems of `ResA` for the lax model `acceptAL` (no urgency guard on `tick`;
    used on `c.noWindow` by the C14 tie) -/

open AJ.Proofs.HistA AJ.Proofs.ResA AJ.Proofs.LaxA

/-- `ResA.step_done` for a lax step -/
theorem step_done_lax (c : Cfg) (st st' : StA) (e : EvA) (h : stepAL c st e = some st') (j : Nat) (r : Res) :
    st'.ph j = .done r ↔ (st.ph j = .done r ∨ produces c j e = some r) := by
  rcases stepAL_cases h with ⟨d, rfl, rfl⟩ | ⟨_, h'⟩
  · simp [produces]
  · exact step_done c st st' e h' j r

/-- `ResA.accept_static` for lax histories -/
theorem accept_static_lax (c : Cfg) (evs : List EvA) : ∀ (st st' : StA), acceptAL c st evs = some st' →
    (∀ j ok, EvA.bodyEnd j ok ∈ evs → c.isSched j = false) ∧
    (∀ s r, EvA.finish s r ∈ evs → c.isSched s = true) := by
  induction evs with
  | nil => intro st st' _; simp
  | cons e es ih =>
    intro st st' h
    simp only [acceptAL] at h
    cases h1 : stepAL c st e with
    | none => simp [h1] at h
    | some st1 =>
      rw [h1] at h
      have ⟨ih1, ih2⟩ := ih st1 st' h
      refine ⟨fun j ok hm => ?_, fun s r hm => ?_⟩
      · rcases List.mem_cons.1 hm with rfl | hm
        · simp only [stepAL, stepA] at h1
          split at h1
          · next hg => exact hg.2.2.1
          · cases h1
        · exact ih1 j ok hm
      · rcases List.mem_cons.1 hm with rfl | hm
        · simp only [stepAL, stepA] at h1
          split at h1
          · next hg => exact hg.2.1
          · cases h1
        · exact ih2 s r hm

/-- `ResA.done_accept` for lax histories -/
theorem done_accept_lax (c : Cfg) (evs : List EvA) :
    ∀ (pre : List EvA) (st0 st : StA),
      (∀ j r, st0.ph j = .done r ↔ ∃ e ∈ pre, produces c j e = some r) →
      acceptAL c st0 evs = some st →
      ∀ j r, st.ph j = .done r ↔ ∃ e ∈ pre ++ evs, produces c j e = some r := by
  induction evs with
  | nil =>
    intro pre st0 st g h
    simp only [acceptAL, Option.some.injEq] at h
    subst h; simpa using g
  | cons e es ih =>
    intro pre st0 st g h
    simp only [acceptAL] at h
    cases h1 : stepAL c st0 e with
    | none => simp [h1] at h
    | some st1 =>
      rw [h1] at h
      have := ih (pre ++ [e]) st1 st (fun j r => by
        rw [step_done_lax c st0 st1 e h1 j r, g j r]
        simp only [List.mem_append, List.mem_singleton]
        constructor
        · rintro (⟨e', he', hp⟩ | hp)
          · exact ⟨e', Or.inl he', hp⟩
          · exact ⟨e, Or.inr rfl, hp⟩
        · rintro ⟨e', he' | rfl, hp⟩
          · exact Or.inl ⟨e', he', hp⟩
          · exact Or.inr hp) h
      simpa [List.append_assoc] using this

theorem done_reach_lax (c : Cfg) (evs : List EvA) (st : StA) (h : acceptAL c StA.init evs = some st) (j : Nat)
    (r : Res) : st.ph j = .done r ↔ ∃ e ∈ evs, produces c j e = some r := by
  simpa using done_accept_lax c evs [] StA.init st (by simp [StA.init]) h j r

/-- C14 (`result()` is the object the body returned), without the timing assumption: along any history of the LAX
    layer-A model, the task of an atomic job holds its own return object iff its body returned. -/
theorem result_own_iff_lax (c : Cfg) (evs : List EvA) (st : StA) (h : acceptAL c StA.init evs = some st) (j : Nat)
    (hatom : c.isSched j = false) :
    st.ph j = .done .retOwn ↔ EvA.bodyEnd j true ∈ evs := by
  have hst := (accept_static_lax c evs _ _ h).2
  rw [done_reach_lax c evs st h]
  constructor
  · rintro ⟨e, he, hp⟩
    cases e with
    | bodyEnd k ok =>
      simp only [produces] at hp
      split at hp
      · next hk => subst hk; cases ok <;> simp at hp; exact he
      · cases hp
    | finish k r =>
      cases r with
      | none => simp [produces] at hp
      | some r =>
        simp only [produces] at hp
        split at hp
        · next hk => subst hk; rw [hst _ _ he] at hatom; cases hatom
        · cases hp
    | grant k => simp only [produces] at hp; split at hp <;> cases hp
    | runBegin => simp only [produces] at hp; split at hp <;> cases hp
    | _ => simp [produces] at hp
  · intro he
    exact ⟨_, he, by simp [produces]⟩

/-- C14 (`raised_exception()` is the exception object the body raised), without the timing assumption: along any
    history of the LAX layer-A model, the task of `j` holds the exception raised by the body of `j`, and `j` is an
    atomic job, iff its body raised. -/
theorem exception_own_iff_lax (c : Cfg) (evs : List EvA) (st : StA) (h : acceptAL c StA.init evs = some st) (j : Nat) :
    st.ph j = .done (.exc (.byJob j)) ∧ c.isSched j = false ↔ EvA.bodyEnd j false ∈ evs := by
  have ⟨hst1, hst2⟩ := accept_static_lax c evs _ _ h
  rw [done_reach_lax c evs st h]
  constructor
  · rintro ⟨⟨e, he, hp⟩, hatom⟩
    cases e with
    | bodyEnd k ok =>
      simp only [produces] at hp
      split at hp
      · next hk => subst hk; cases ok <;> simp at hp; exact he
      · cases hp
    | finish k r =>
      cases r with
      | none => simp [produces] at hp
      | some r =>
        simp only [produces] at hp
        split at hp
        · next hk => subst hk; rw [hst2 _ _ he] at hatom; cases hatom
        · cases hp
    | grant k => simp only [produces] at hp; split at hp <;> cases hp
    | runBegin => simp only [produces] at hp; split at hp <;> cases hp
    | _ => simp [produces] at hp
  · intro he
    exact ⟨⟨_, he, by simp [produces]⟩, hst1 _ _ he⟩

/-- C14 (a job that is not done carries neither result nor exception), without the timing assumption: along any
    history of the LAX layer-A model, if no event of the history finished the body of `j`, its phase is not `.done _`. -/
theorem no_result_unless_done_lax (c : Cfg) (evs : List EvA) (st : StA) (h : acceptAL c StA.init evs = some st) (j : Nat)
    (hnf : finishedIn c evs j = false) : ∀ r, st.ph j ≠ .done r := by
  intro r hr
  have hd := (ghostL_reach c evs st h).done j
  rw [hnf] at hd
  simp [isDone, hr, Ph.isDone] at hd

/-- C14 (the value a nested scheduler's task holds is the one its run ended with), without the timing assumption:
    along any history of the LAX layer-A model, for a non-empty scheduler `s`, `ph s = .done r` iff the history
    contains `finish s (some r)`. -/
theorem sched_result_iff_lax (c : Cfg) (evs : List EvA) (st : StA) (h : acceptAL c StA.init evs = some st) (s : Nat)
    (r : Res) (hs : c.isSched s = true) (hne : c.children s ≠ []) :
    st.ph s = .done r ↔ EvA.finish s (some r) ∈ evs := by
  have hst := (accept_static_lax c evs _ _ h).1
  have hne' : (c.children s).isEmpty = false := by simpa using hne
  rw [done_reach_lax c evs st h]
  constructor
  · rintro ⟨e, he, hp⟩
    cases e with
    | bodyEnd k ok =>
      simp only [produces] at hp
      split at hp
      · next hk => subst hk; rw [hst _ _ he] at hs; cases hs
      · cases hp
    | finish k r' =>
      cases r' with
      | none => simp [produces] at hp
      | some r' =>
        simp only [produces] at hp
        split at hp
        · next hk => subst hk; cases hp; exact he
        · cases hp
    | grant k =>
      simp only [produces] at hp
      split at hp
      · next hk => rw [hne'] at hk; exact absurd hk.2.2 (by simp)
      · cases hp
    | runBegin =>
      simp only [produces] at hp
      split at hp
      · next hk => obtain ⟨rfl, hk⟩ := hk; rw [hne'] at hk; cases hk
      · cases hp
    | _ => simp [produces] at hp
  · intro he
    exact ⟨_, he, by simp [produces]⟩


/-! ## Item 4 (C14): a cancelled job is never reported done -/

/-- `cancelled_final` for a lax step -/
theorem cancelled_final_lax (c : Cfg) (st st' : StA) (e : EvA) (h : stepAL c st e = some st') (j : Nat)
    (hc : st.ph j = .cancelled) : st'.ph j = .cancelled := by
  rcases stepAL_cases h with ⟨d, rfl, rfl⟩ | ⟨_, h'⟩
  · exact hc
  · exact cancelled_final c st st' e h' j hc

/-- C14: along any continuation of a (lax) history, the task of a job that finished cancelled stays cancelled -/
theorem cancelled_stays (c : Cfg) (more : List EvA) (st st' : StA) (j : Nat) (hc : st.ph j = .cancelled)
    (h' : acceptAL c st more = some st') : st'.ph j = .cancelled := by
  induction more generalizing st with
  | nil => simp only [acceptAL] at h'; cases h'; exact hc
  | cons e es ih =>
    simp only [acceptAL] at h'
    cases h1 : stepAL c st e with
    | none => simp [h1] at h'
    | some st1 =>
      rw [h1] at h'
      exact ih st1 (cancelled_final_lax c st st1 e h1 j hc) h'

/-- C14 ("a cancelled job is never reported done"), history form, without the timing assumption: once the task of
    `j` has finished cancelled, `is_done()` is false of `j` after any continuation of the history. -/
theorem never_done_after_cancel (c : Cfg) (evs more : List EvA) (st st' : StA) (j : Nat)
    (h : acceptAL c StA.init evs = some st) (hc : st.ph j = .cancelled)
    (h' : acceptAL c st more = some st') : isDone st' j = false := by
  simp [isDone, cancelled_stays c more st st' j hc h', Ph.isDone]

/-- the same for the strict model `acceptA` -/
theorem never_done_after_cancel_strict (c : Cfg) (evs more : List EvA) (st st' : StA) (j : Nat)
    (h : acceptA c StA.init evs = some st) (hc : st.ph j = .cancelled)
    (h' : acceptA c st more = some st') : isDone st' j = false := by
  exact never_done_after_cancel c evs more st st' j (acceptA_sub_acceptAL c evs _ _ h) hc
    (acceptA_sub_acceptAL c more _ _ h')

/-- one atomic job under the top-level scheduler -/
def oneJobCfg : Cfg :=
  { n := 2, parent := fun _ => 0, isSched := fun j => j = 0, req := fun _ => [],
    critical := fun _ => false, forever := fun _ => false, window := fun _ => 0, timeout := fun _ => none,
    sdTimeout := fun _ => none, topPure := true }

/-- non-vacuity: a job whose task finishes cancelled (the run is left while the job executes), and the history
    goes on -/
example : (acceptAL oneJobCfg StA.init [.runBegin, .grant 1, .tick 1, .leave 0 [1], .cancelAck 1]).map
      (fun st => st.ph 1) = some .cancelled ∧
    (acceptAL oneJobCfg StA.init [.runBegin, .grant 1, .tick 1, .leave 0 [1], .cancelAck 1, .tick 1,
      .finish 0 (some (.retBool false))]).isSome = true := by
  decide

/-! ## Item 6 (C13): a scheduler that has shut down broadcasts nothing more -/

/-- C13 ("a later `shutdown()` sends nothing more"), function level: `broadcast c st s _` is applied by `stepB` only
    under the guard `st.didSd s = false` (its two call sites: `tidyReturn s _`, `hStep s`), so no event increases the
    number of `co_shutdown()` calls received by a job of a scheduler that has already shut down.  This is
    `ShutB.shutdown_idempotent` without its hypotheses `hwf`, `hA`, `hB`, which the proof does not use. -/
theorem broadcast_guarded (c : Cfg) (st st' : StB) (e : EvB) (s : Nat) (h : stepB c st e = some st')
    (hd : st.didSd s = true) : ∀ k ∈ c.children s, st'.hcalls k = st.hcalls k := by
  intro k hk
  rcases hcalls_step h with heq | ⟨s', hd', heq, _⟩
  · rw [heq]
  · rw [heq]
    simp only
    split
    · rename_i hk'
      have h1 := (CoreB.mem_children.1 hk).2.2
      have h2 := (CoreB.mem_children.1 hk').2.2
      rw [h1] at h2; subst h2
      rw [hd] at hd'; cases hd'
    · rfl

/-- … and along any continuation of a history: once `s` has shut down, the number of `co_shutdown()` calls received
    by each of its jobs never changes again -/
theorem broadcast_guarded_later (c : Cfg) (more : List EvB) (st st' : StB) (s : Nat) (hd : st.didSd s = true)
    (h' : acceptB c st more = some st') : ∀ k ∈ c.children s, st'.hcalls k = st.hcalls k := by
  induction more generalizing st with
  | nil => simp only [acceptB] at h'; cases h'; intros; rfl
  | cons e es ih =>
    simp only [acceptB] at h'
    split at h'
    · rename_i st1 hs
      intro k hk
      rw [ih st1 (didSd_mono c st st1 e hs s hd) h' k hk, broadcast_guarded c st st1 e s hs hd k hk]
    · cases h'


open AJ AJ.Proofs.C15
open AJ.Proofs.C16 (TreeAt desc_parent sub_of)

/-! ## Item 5 (C15/C20): the listing covers the subtree exactly once; numbering respects requirements -/

/-- in a tree, a scheduler has a smaller id than every job of its subtree -/
theorem desc_lt {t : T} {s d : Nat} (htree : TreeAt t s) (h : Desc t s d) : s < d := by
  induction h with
  | child hs hk => exact (htree.lt _ (Or.inl rfl) _ hk).1
  | deeper hs hk _ ih =>
    have := (htree.lt _ (Or.inl rfl) _ hk).1
    have := ih (htree.sub hs hk)
    omega

/-- `x` is `k` or a job of the subtree of `k` -/
def InSub (t : T) (k x : Nat) : Prop := x = k ∨ Desc t k x

/-- in a tree, a job of the subtree of `s` is in the subtree of exactly one member of `s` -/
theorem insub_unique {t : T} {s : Nat} (hs : t.isSched s = true) (htree : TreeAt t s) :
    ∀ x k1 k2, k1 ∈ t.mem s → k2 ∈ t.mem s → InSub t k1 x → InSub t k2 x → k1 = k2 := by
  -- a member of `s` is not strictly below another member of `s`
  have hno : ∀ k1 k2, k1 ∈ t.mem s → k2 ∈ t.mem s → ¬ Desc t k2 k1 := by
    intro k1 k2 h1 h2 hd
    obtain ⟨p, hp, hps, hxp⟩ := desc_parent hd
    have := htree.unique s p k1 (Or.inl rfl) (sub_of hs h2 hp) h1 hxp
    subst this
    have hlt := (htree.lt _ (Or.inl rfl) _ h2).1
    rcases hp with hp | hp
    · omega
    · have := desc_lt (htree.sub hs h2) hp; omega
  intro x
  induction x using Nat.strongRecOn with
  | ind x ih =>
    intro k1 k2 h1 h2 hx1 hx2
    rcases hx1 with rfl | hx1 <;> rcases hx2 with hx2 | hx2
    · exact hx2
    · exact absurd hx2 (hno _ _ h1 h2)
    · subst hx2; exact absurd hx1 (hno _ _ h2 h1)
    · obtain ⟨p1, hp1, hps1, hxp1⟩ := desc_parent hx1
      obtain ⟨p2, hp2, hps2, hxp2⟩ := desc_parent hx2
      have := htree.unique p1 p2 x (sub_of hs h1 hp1) (sub_of hs h2 hp2) hxp1 hxp2
      subst this
      have hlt := (htree.lt p1 (sub_of hs h1 hp1) x hxp1).1
      exact ih p1 hlt k1 k2 h1 h2 hp1 hp2

/-- a successful step of the listing loop appends the job and the listing of its subtree -/
theorem listStep_shape (t : T) (fuel : Nat) (acc : List Nat) (k : Nat) (mid : List Nat)
    (h : listStep t fuel acc k = .ok mid) :
    ∃ sub, mid = acc ++ k :: sub ∧
      ((t.isSched k = true ∧ listing t fuel k = .ok sub) ∨ (t.isSched k = false ∧ sub = [])) := by
  rcases listStep_ok t fuel acc k mid h with ⟨hks, sub, hsub, rfl⟩ | ⟨hk, rfl⟩
  · exact ⟨sub, rfl, Or.inl ⟨hks, hsub⟩⟩
  · exact ⟨[], rfl, Or.inr ⟨hk, rfl⟩⟩

theorem listing_exact_aux (t : T) (fuel : Nat) : ∀ (s : Nat) (l : List Nat), t.isSched s = true → TreeAt t s →
    listing t fuel s = .ok l → l.Nodup ∧ ∀ x, x ∈ l ↔ Desc t s x := by
  induction fuel with
  | zero => intro s l _ _ h; simp [listing] at h
  | succ fuel ihf =>
    intro s l hs htree h
    rw [listing_succ] at h
    cases ht : topo t s with
    | error e => rw [ht] at h; cases h
    | ok lt =>
      rw [ht] at h
      have hperm := topo_perm_aux t s [] lt ht
      have hltnd := topo_nodup t s [] lt ht
      have key : ∀ (js : List Nat), (∀ k ∈ js, k ∈ t.mem s) → js.Nodup → ∀ acc r, acc.Nodup →
          (∀ x ∈ acc, ∀ k ∈ js, ¬ InSub t k x) →
          js.foldlM (listStep t fuel) acc = .ok r →
          r.Nodup ∧ ∀ x, x ∈ r ↔ (x ∈ acc ∨ ∃ k ∈ js, InSub t k x) := by
        intro js
        induction js with
        | nil =>
          intro _ _ acc r hacc _ hr
          simp only [List.foldlM_nil] at hr
          cases hr
          exact ⟨hacc, fun x => by simp⟩
        | cons k js ih =>
          intro hjs hnd acc r hacc hdis hr
          obtain ⟨mid, hmid, hr'⟩ := foldlM_cons_ok _ _ _ _ _ hr
          have hk : k ∈ t.mem s := hjs k List.mem_cons_self
          obtain ⟨hkjs, hnd'⟩ := List.nodup_cons.1 hnd
          obtain ⟨sub, rfl, hsub⟩ := listStep_shape t fuel acc k mid hmid
          -- the listing of the subtree of `k`
          have hsubP : sub.Nodup ∧ ∀ x, x ∈ sub ↔ Desc t k x := by
            rcases hsub with ⟨hks, hl⟩ | ⟨hks, rfl⟩
            · exact ihf k sub hks (htree.sub hs hk) hl
            · refine ⟨List.nodup_nil, fun x => ⟨fun h => (by cases h), fun h => ?_⟩⟩
              have := C16.desc_sched h
              rw [hks] at this; cases this
          have hksub : ∀ x, x ∈ k :: sub ↔ InSub t k x := by
            intro x
            rw [List.mem_cons, hsubP.2 x]; rfl
          have hknd : (k :: sub).Nodup := by
            rw [List.nodup_cons]
            refine ⟨fun hin => ?_, hsubP.1⟩
            have := desc_lt (htree.sub hs hk) ((hsubP.2 k).1 hin)
            omega
          have hmidnd : (acc ++ k :: sub).Nodup := by
            rw [List.nodup_append]
            refine ⟨hacc, hknd, ?_⟩
            intro a ha b hb hab
            subst hab
            exact hdis a ha k List.mem_cons_self ((hksub a).1 hb)
          have hmiddis : ∀ x ∈ acc ++ k :: sub, ∀ k' ∈ js, ¬ InSub t k' x := by
            intro x hx k' hk' hin
            rcases List.mem_append.1 hx with hx | hx
            · exact hdis x hx k' (List.mem_cons_of_mem _ hk') hin
            · have := insub_unique hs htree x k k' hk (hjs k' (List.mem_cons_of_mem _ hk'))
                ((hksub x).1 hx) hin
              subst this
              exact hkjs hk'
          obtain ⟨hrnd, hrmem⟩ := ih (fun k' hk' => hjs k' (List.mem_cons_of_mem _ hk')) hnd'
            (acc ++ k :: sub) r hmidnd hmiddis hr'
          refine ⟨hrnd, fun x => ?_⟩
          rw [hrmem x, List.mem_append, hksub x]
          constructor
          · rintro ((hx | hx) | ⟨k', hk', hx⟩)
            · exact Or.inl hx
            · exact Or.inr ⟨k, List.mem_cons_self, hx⟩
            · exact Or.inr ⟨k', List.mem_cons_of_mem _ hk', hx⟩
          · rintro (hx | ⟨k', hk', hx⟩)
            · exact Or.inl (Or.inl hx)
            · rcases List.mem_cons.1 hk' with rfl | hk'
              · exact Or.inl (Or.inr hx)
              · exact Or.inr ⟨k', hk', hx⟩
      obtain ⟨hnd, hmem⟩ := key lt (fun k hk => hperm.mem_iff.1 hk) hltnd [] l List.nodup_nil
        (fun x hx => by cases hx) h
      refine ⟨hnd, fun x => ?_⟩
      rw [hmem x]
      constructor
      · rintro (hx | ⟨k, hk, hx⟩)
        · cases hx
        · have hk' := hperm.mem_iff.1 hk
          rcases hx with rfl | hx
          · exact Desc.child hs hk'
          · exact Desc.deeper hs hk' hx
      · intro hx
        right
        cases hx with
        | child _ hk => exact ⟨x, hperm.mem_iff.2 hk, Or.inl rfl⟩
        | deeper _ hk hd => exact ⟨_, hperm.mem_iff.2 hk, Or.inr hd⟩

/-- C15/C20 (`list()` / `_set_sched_ids`): in a tree, the listing of scheduler `s` is duplicate-free and contains
    exactly the jobs of the subtree of `s`, at any depth — each job of the tree is listed (and numbered) exactly
    once.  (`hnd` is not needed: a successful `topo` already implies that the member lists are duplicate-free.) -/
theorem listing_exact (t : T) (fuel s : Nat) (l : List Nat) (hs : t.isSched s = true) (htree : AJ.Proofs.C16.TreeAt t s)
    (hnd : ∀ s', (s' = s ∨ Desc t s s') → (t.mem s').Nodup) (h : listing t fuel s = .ok l) :
    l.Nodup ∧ ∀ x, x ∈ l ↔ Desc t s x := by
  exact listing_exact_aux t fuel s l hs htree h


/-- the loop of `listing` only appends, and lists the subtree of each nested scheduler it meets -/
theorem listing_fold_sub (t : T) (fuel : Nat) : ∀ (js : List Nat) (acc r : List Nat),
    js.foldlM (listStep t fuel) acc = .ok r →
    acc.Sublist r ∧ ∀ k ∈ js, t.isSched k = true → ∃ sub, listing t fuel k = .ok sub ∧ sub.Sublist r := by
  intro js
  induction js with
  | nil =>
    intro acc r hr
    simp only [List.foldlM_nil] at hr
    cases hr
    exact ⟨List.Sublist.refl _, fun k hk => by cases hk⟩
  | cons k js ih =>
    intro acc r hr
    obtain ⟨mid, hmid, hr'⟩ := foldlM_cons_ok _ _ _ _ _ hr
    obtain ⟨sub, rfl, hsub⟩ := listStep_shape t fuel acc k mid hmid
    obtain ⟨h1, h2⟩ := ih _ r hr'
    refine ⟨(List.sublist_append_left _ _).trans h1, ?_⟩
    intro k' hk' hks
    rcases List.mem_cons.1 hk' with rfl | hk'
    · rcases hsub with ⟨_, hl⟩ | ⟨hn, _⟩
      · exact ⟨sub, hl, ((List.sublist_cons_self _ _).trans (List.sublist_append_right _ _)).trans h1⟩
      · rw [hn] at hks; cases hks
    · exact h2 k' hk' hks

/-- within any scheduler of the subtree of `s`, a requirement is listed before its dependant -/
theorem listing_order_aux (t : T) (fuel : Nat) : ∀ (s : Nat) (l : List Nat), t.isSched s = true → TreeAt t s →
    listing t fuel s = .ok l →
    ∀ p x y, (p = s ∨ Desc t s p) → x ∈ t.mem p → y ∈ t.mem p → y ∈ t.req x → [y, x].Sublist l := by
  induction fuel with
  | zero => intro s l _ _ h; simp [listing] at h
  | succ fuel ihf =>
    intro s l hs htree h p x y hp hx hy hreq
    have h0 := h
    rw [listing_succ] at h
    cases ht : topo t s with
    | error e => rw [ht] at h; cases h
    | ok lt =>
      rw [ht] at h
      have hperm := topo_perm_aux t s [] lt ht
      -- the nested scheduler `k`, member of `s`, whose subtree contains `p` (or is `p`)
      have nested : ∀ k, k ∈ t.mem s → (p = k ∨ Desc t k p) → [y, x].Sublist l := by
        intro k hk hpk
        have hks : t.isSched k = true := by
          rcases hpk with rfl | hpk
          · cases hsk : t.isSched p with
            | true => rfl
            | false => rw [htree.atomic p hsk] at hx; cases hx
          · exact C16.desc_sched hpk
        obtain ⟨_, h2⟩ := listing_fold_sub t fuel lt [] l h
        obtain ⟨sub, hsub, hsl⟩ := h2 k (hperm.mem_iff.2 hk) hks
        exact (ihf k sub hks (htree.sub hs hk) hsub p x y hpk hx hy hreq).trans hsl
      rcases hp with rfl | hp
      · -- both are direct members of `p`: the order of `topo`
        have hdisj : ∀ k ∈ t.mem p, ∀ d, Desc t k d → d ∉ t.mem p := by
          intro k hk d hd hdm
          obtain ⟨q, hq, hqs, hdq⟩ := desc_parent hd
          have := htree.unique p q d (Or.inl rfl) (sub_of hs hk hq) hdm hdq
          subst this
          have hlt := (htree.lt _ (Or.inl rfl) _ hk).1
          rcases hq with hq | hq
          · omega
          · have := desc_lt (htree.sub hs hk) hq; omega
        have hfil := listing_members_aux t fuel p l lt hdisj h0 ht
        have hxl : x ∈ lt := hperm.mem_iff.2 hx
        obtain ⟨a, b, hab⟩ := List.append_of_mem hxl
        have hya := topo_order_inv t p lt ht a x b hab y hreq
        have h1 : [y, x].Sublist lt := by
          rw [hab]
          have : [y].Sublist a := List.singleton_sublist.2 hya
          exact this.append (List.Sublist.cons_cons x (List.nil_sublist b))
        rw [← hfil] at h1
        exact h1.trans List.filter_sublist
      · cases hp with
        | child _ hk => exact nested p hk (Or.inl rfl)
        | deeper _ hk hd => exact nested _ hk (Or.inr hd)

/-- numbers that increase along the list: an earlier key has a smaller number -/
theorem ids_sublist_lt : ∀ (l : List (Nat × Nat)) (x y ix iy : Nat), (l.map (·.1)).Nodup →
    (l.map (·.2)).Pairwise (· < ·) → [y, x].Sublist (l.map (·.1)) → (x, ix) ∈ l → (y, iy) ∈ l → iy < ix := by
  intro l
  induction l with
  | nil => intro x y ix iy _ _ _ hx; cases hx
  | cons ab l ih =>
    intro x y ix iy hnd hpw hsl hx hy
    obtain ⟨a, b⟩ := ab
    simp only [List.map_cons, List.nodup_cons, List.pairwise_cons] at hnd hpw
    have key : ∀ z iz, (z, iz) ∈ l → z ∈ l.map (·.1) := fun z iz h => List.mem_map.2 ⟨(z, iz), h, rfl⟩
    simp only [List.map_cons] at hsl
    cases hsl with
    | cons _ hs' =>
      have hxk : x ∈ l.map (·.1) := hs'.subset (by simp)
      have hyk : y ∈ l.map (·.1) := hs'.subset (by simp)
      have hx' : (x, ix) ∈ l := by
        rcases List.mem_cons.1 hx with h | h
        · cases h; exact absurd hxk hnd.1
        · exact h
      have hy' : (y, iy) ∈ l := by
        rcases List.mem_cons.1 hy with h | h
        · cases h; exact absurd hyk hnd.1
        · exact h
      exact ih x y ix iy hnd.2 hpw.2 hs' hx' hy'
    | cons_cons _ hs' =>
      have hxk : x ∈ l.map (·.1) := hs'.subset (by simp)
      have hx' : (x, ix) ∈ l := by
        rcases List.mem_cons.1 hx with h | h
        · cases h; exact absurd hxk hnd.1
        · exact h
      have hiy : iy = b := by
        rcases List.mem_cons.1 hy with h | h
        · cases h; rfl
        · exact absurd (key _ _ h) hnd.1
      subst hiy
      exact hpw.1 ix (List.mem_map.2 ⟨(x, ix), hx', rfl⟩)

/-- C15/C20 (`_set_sched_ids`: "a job is numbered after the jobs it requires"): in a tree, if `x` and `y` are jobs
    of the same scheduler `p` of the subtree of `s` (`p = s` or nested at any depth) and `x` requires `y`, then the
    number given to `y` is smaller than the number given to `x`. -/
theorem ids_respect_req (t : T) (fuel s start nxt : Nat) (l : List (Nat × Nat))
    (h : assignIds t fuel s start = .ok (nxt, l)) (hs : t.isSched s = true) (htree : AJ.Proofs.C16.TreeAt t s) :
    ∀ x y ix iy, (x, ix) ∈ l → (y, iy) ∈ l → y ∈ t.req x →
      (∃ p, (p = s ∨ Desc t s p) ∧ x ∈ t.mem p ∧ y ∈ t.mem p) → iy < ix := by
  intro x y ix iy hx hy hreq ⟨p, hp, hxp, hyp⟩
  obtain ⟨h1, h2, h3⟩ := ids_consecutive t fuel s start nxt l h
  have hnd := (listing_exact_aux t fuel s _ hs htree h3).1
  have hord := listing_order_aux t fuel s _ hs htree h3 p x y hp hxp hyp hreq
  have hpw : (l.map (·.2)).Pairwise (· < ·) := by
    rw [h1]; exact List.pairwise_lt_range'
  exact ids_sublist_lt l x y ix iy hnd hpw hord hx hy

/-- every job of the subtree receives exactly one number: the numbered jobs are the jobs of the subtree, each once -/
theorem ids_cover (t : T) (fuel s start nxt : Nat) (l : List (Nat × Nat))
    (h : assignIds t fuel s start = .ok (nxt, l)) (hs : t.isSched s = true) (htree : AJ.Proofs.C16.TreeAt t s) :
    (l.map (·.1)).Nodup ∧ ∀ x, x ∈ l.map (·.1) ↔ Desc t s x := by
  obtain ⟨_, _, h3⟩ := ids_consecutive t fuel s start nxt l h
  exact listing_exact_aux t fuel s _ hs htree h3


/-! ### non-vacuity of item 5: a two-level tree -/

/-- scheduler `0` = {`1`, `2`}, nested scheduler `1` = {`3`, `4`}; `1` requires `2`, `3` requires `4` -/
def exT : T :=
  { n := 5, isSched := fun j => j = 0 || j = 1,
    mem := fun j => if j = 0 then [1, 2] else if j = 1 then [3, 4] else [],
    req := fun j => if j = 1 then [2] else if j = 3 then [4] else [],
    forever := fun _ => false, critical := fun _ => false }

theorem exT_tree : TreeAt exT 0 := by
  have hm : ∀ s k, k ∈ exT.mem s → (s = 0 ∧ (k = 1 ∨ k = 2)) ∨ (s = 1 ∧ (k = 3 ∨ k = 4)) := by
    intro s k hk
    simp only [exT] at hk
    split at hk
    · simp at hk; omega
    · split at hk
      · simp at hk; omega
      · cases hk
  refine ⟨?_, ?_, ?_⟩
  · intro s' _ k hk
    have := hm s' k hk
    simp only [exT]; omega
  · intro k hk
    simp only [exT] at hk ⊢
    have h0 : k ≠ 0 := by rintro rfl; simp at hk
    have h1 : k ≠ 1 := by rintro rfl; simp at hk
    simp [h0, h1]
  · intro s1 s2 k _ _ h1 h2
    have := hm s1 k h1
    have := hm s2 k h2
    omega

/-- the numbering of `exT` from 1: `2 ↦ 1`, `1 ↦ 2`, `4 ↦ 3`, `3 ↦ 4` — requirements first, inside each scheduler -/
example : exT.wf = true ∧ (assignIds exT 3 0 1).toOption = some (5, [(2, 1), (1, 2), (4, 3), (3, 4)]) ∧
    (listing exT 3 0).toOption = some [2, 1, 4, 3] := by
  decide

end AJ.Proofs.Gap3
