/-
  C03: admissibility as a static condition on the tree excludes the blocked case of `fair_run_ends_or_blocked`:
  an admissible tree, run by a fair environment while time goes on, always finishes.
-/
import AJ.Proofs.LiveB
import AJ.Proofs.AdmBAux
namespace AJ.Proofs.AdmB
open AJ.Run AJ.Full AJ.Proofs.CoreA AJ.Proofs.CoreB AJ.Proofs.ProgB AJ.Proofs.BoundB AJ.Proofs.FinB AJ.Proofs.LiveB
set_option linter.unusedVariables false
set_option linter.unusedSimpArgs false

/-- a child that may never end if left alone: a `forever` job whose body does not end by itself (`fin j = false`), or a
    `forever` nested scheduler (conservatively) -/
def mayNeverEnd (c : Cfg) (fin : Nat → Bool) (k : Nat) : Bool :=
  c.forever k && (c.isSched k || !fin k)

/-- `k` requires `r`, directly or through other jobs (the transitive closure of `r ∈ c.req k`) -/
inductive Requires (c : Cfg) : Nat → Nat → Prop
  | direct {k r : Nat} : r ∈ c.req k → Requires c k r
  | step {k m r : Nat} : Requires c k m → r ∈ c.req m → Requires c k r

/-- the hypotheses of C03's first sentence, as a static condition on the configuration and on the set `fin` of atomic
    jobs whose body ends by itself -/
structure Admissible (c : Cfg) (fin : Nat → Bool) : Prop where
  /-- an atomic job that never ends by itself is a `forever` job -/
  neverForever : ∀ j, j < c.n → c.isSched j = false → fin j = false → c.forever j = true
  /-- a scheduler without timeout that has jobs has a job that is not `forever` (it is waited for) -/
  hasRegular : ∀ s, s < c.n → c.isSched s = true → c.timeout s = none → c.children s ≠ [] →
    ∃ k, k ∈ c.children s ∧ c.forever k = false
  /-- a job that is waited for never requires, directly or through other jobs, a job that may never end
      (AMENDED: as first stated — direct requirements only — the theorem is false, see `AdmissibleDirect` and
      `direct_not_enough` below: a `forever` job that ends by itself but requires a never-ending job never starts, and
      whoever requires it never starts either) -/
  reqEnds : ∀ s k r, s < c.n → c.isSched s = true → k ∈ c.children s → c.forever k = false → Requires c k r →
    mayNeverEnd c fin r = false
  /-- never-ending jobs cannot fill a window -/
  windowRoom : ∀ s, s < c.n → c.isSched s = true → c.window s ≠ 0 →
    ((c.children s).filter fun k => mayNeverEnd c fin k).length < c.window s

/-- time goes on -/
def TimeDiverges {c : Cfg} (r : InfRun c) : Prop := ∀ T, ∃ i, T ≤ (r.st i).a.now

/-! ### requirements -/

theorem Requires.head {c : Cfg} {k m r : Nat} (hm : m ∈ c.req k) (h : Requires c m r) : Requires c k r := by
  induction h with
  | direct hr => exact .step (.direct hm) hr
  | step _ hr ih => exact .step ih hr

/-- the condition as first stated (direct requirements) follows from the amended one -/
theorem Admissible.reqEnds_direct {c : Cfg} {fin : Nat → Bool} (hadm : Admissible c fin) :
    ∀ s k r, s < c.n → c.isSched s = true → k ∈ c.children s → c.forever k = false → r ∈ c.req k →
      mayNeverEnd c fin r = false :=
  fun s k r hsn hss hk hf hr => hadm.reqEnds s k r hsn hss hk hf (.direct hr)

/-! ### a quiet run of an admissible tree waiting in its main loop, without timeout, waits for something that ends -/

/-- in a quiet state, a run of an admissible tree that is waiting in its main loop and has no timeout has a job
    whose body is executing and which is a nested scheduler or ends by itself -/
theorem loop_has_ending {c : Cfg} (w : CoreA.WF c) {fin : Nat → Bool} (hadm : Admissible c fin) {st : StB}
    (hA : InvA c st.a) (hB : InvB c st) (hP : InvP c st) (hG : Pending c st)
    (hQ : ∀ j, j < c.n → QuietAt c st j) {s : Nat} (hsn : s < c.n) (hss : c.isSched s = true)
    (hl : st.pcB s = .loop) (hto : c.timeout s = none) :
    ∃ k ∈ c.children s, st.a.ph k = .running ∧ (c.isSched k = true ∨ fin k = true) := by
  apply Classical.byContradiction
  intro hno
  -- otherwise every job of `s` whose body is executing may never end
  have hbad : ∀ k ∈ c.children s, st.a.ph k = .running → mayNeverEnd c fin k = true := by
    intro k hk hr
    obtain ⟨hkn, hk0, hkp⟩ := CoreA.mem_children.1 hk
    cases hks : c.isSched k
    · cases hf : fin k
      · have := hadm.neverForever k hkn hks hf
        simp [mayNeverEnd, this, hks, hf]
      · exact absurd ⟨k, hk, hr, Or.inr hf⟩ hno
    · exact absurd ⟨k, hk, hr, Or.inl hks⟩ hno
  have hq := hQ s hsn
  have hrx : st.a.rx s = none := by
    cases hr : st.a.rx s
    · rfl
    · exact absurd ⟨hss, hl, Or.inr (by simp [hr])⟩ hq.q3
  have hD : doneSet c st.a s = [] := by
    cases hd : doneSet c st.a s
    · rfl
    · exact absurd ⟨hss, hl, Or.inl (by simp [hd])⟩ hq.q3
  have hpc := (hB.pcLoop s).1 hl
  -- no job is waiting for a slot: never-ending jobs cannot fill the window
  have hnq : ∀ k ∈ c.children s, st.a.ph k ≠ .queued := by
    intro k hk hkq
    obtain ⟨hkn, hk0, hkp⟩ := CoreA.mem_children.1 hk
    have hqk := (hQ k hkn).q1
    have hqc := hA.qcountEq s hsn hss
    have hle : runningCount c st.a s ≤ ((c.children s).filter fun k => mayNeverEnd c fin k).length := by
      unfold runningCount
      exact filter_length_le_of_imp _ _ _ (fun k hk h => hbad k hk (by simpa using h))
    apply hqk
    refine ⟨by omega, hkq, Or.inr ?_⟩
    rw [hkp]
    simp only [slotFree, Bool.or_eq_true, beq_iff_eq, decide_eq_true_eq]
    by_cases hw : c.window s = 0
    · exact Or.inl hw
    · right
      have := hadm.windowRoom s hsn hss hw
      omega
  -- a finished job has been reported
  have hdd : ∀ k ∈ c.children s, (st.a.ph k).isDone = true → st.a.deliv k = true := by
    intro k hk hd
    cases hdl : st.a.deliv k
    · have : k ∈ doneSet c st.a s := CoreA.mem_doneSet.2 ⟨hk, Or.inl hd, hdl⟩
      rw [hD] at this; cases this
    · rfl
  have hnc : ∀ k ∈ c.children s, st.a.ph k ≠ .cancelled := fun k hk => (hB.loopClean s hl k hk).2
  -- a job that may end and only requires, directly or not, jobs that may end, is finished and reported
  have hW : ∀ m k, k ≤ m → k ∈ c.children s → mayNeverEnd c fin k = false →
      (∀ r, Requires c k r → mayNeverEnd c fin r = false) → (st.a.ph k).isDone = true ∧ st.a.deliv k = true := by
    intro m
    induction m with
    | zero =>
      intro k hk hkc
      exact absurd (by omega) (CoreA.mem_children.1 hkc).2.1
    | succ m ih =>
      intro k hk hkc hk1 hk2
      obtain ⟨hkn, hk0, hkp⟩ := CoreA.mem_children.1 hkc
      rcases ph_cases (st.a.ph k) with h | h | h | h | h
      · obtain ⟨r, hr, hnot⟩ := hA.eager s hpc k hkc h
        have hrc := w.req_child hkc hr
        have hrl := w.reqLt k (by omega) hkn r hr
        have hrd := ih r (by omega) hrc (hk2 r (.direct hr)) (fun r' hr' => hk2 r' (Requires.head hr hr'))
        exact absurd ⟨hrd.1, hrd.2, by simp [hrx]⟩ hnot
      · exact absurd h (hnq k hkc)
      · have := hbad k hkc h
        rw [hk1] at this; cases this
      · exact ⟨h, hdd k hkc h⟩
      · exact absurd h (hnc k hkc)
  -- hence every regular job is reported
  have hall : ∀ k ∈ c.children s, c.forever k = false → st.a.deliv k = true := by
    intro k hk hf
    exact (hW k k (Nat.le_refl _) hk (by simp [mayNeverEnd, hf])
      (fun r hr => hadm.reqEnds s k r hsn hss hk hf hr)).2
  -- there is one, and the count has not reached their number
  obtain ⟨k1, hk1, _⟩ := loop_has_running w hA hB hP hQ hsn hss hl
  obtain ⟨k0, hk0, hf0⟩ := hadm.hasRegular s hsn hss hto (by intro h; rw [h] at hk1; cases hk1)
  have hnf : nbFinite c s ≠ 0 := by
    unfold nbFinite
    intro h
    have : k0 ∈ (c.children s).filter fun k => !c.forever k := List.mem_filter.2 ⟨hk0, by simp [hf0]⟩
    rw [List.length_eq_zero_iff.1 h] at this
    cases this
  apply hG s hl hnf
  rw [hB.count s hl]
  unfold nbFinite
  congr 1
  apply List.filter_congr
  intro k hk
  cases hf : c.forever k
  · simp [rxD, hrx, hall k hk hf]
  · simp

/-! ### the descent -/

/-- something the environment owes an end to — the body of an atomic job that ends by itself or whose cancellation was
    requested, a shutdown handler — or a run waiting in its main loop with a timeout -/
def Owed (c : Cfg) (fin : Nat → Bool) (st : StB) : Prop :=
  (∃ j, j < c.n ∧ c.isSched j = false ∧ st.a.ph j = .running ∧ (fin j = true ∨ st.a.creq j = true)) ∨
  (∃ j, j < c.n ∧ c.isSched j = false ∧ st.hph j = .hactive) ∨
  (∃ s T, s < c.n ∧ st.pcB s = .loop ∧ c.timeout s = some T)

/-- the descent of `FinB.busy_below` for an admissible tree: it never ends on a never-ending body left alone -/
theorem owed_below {c : Cfg} (w : CoreA.WF c) {fin : Nat → Bool} (hadm : Admissible c fin) {st : StB}
    (hA : InvA c st.a) (hB : InvB c st) (hP : InvP c st) (hG : Pending c st)
    (hQ : ∀ j, j < c.n → QuietAt c st j) :
    ∀ m s, c.n - s ≤ m → s < c.n → c.isSched s = true → (st.a.ph s = .running ∨ relayActive st s = true) →
      Owed c fin st := by
  intro m
  induction m with
  | zero => intro s h1 h2; omega
  | succ m ih =>
    intro s hm hsn hss hcase
    have hq := hQ s hsn
    have hchildRun : ∀ k ∈ c.children s, st.a.ph k = .running →
        (c.isSched k = true ∨ fin k = true ∨ st.a.creq k = true) → Owed c fin st := by
      intro k hk hr hgood
      obtain ⟨hkn, hk0, hkp⟩ := CoreA.mem_children.1 hk
      have hlt := w.parentLt k (by omega) hkn
      cases hks : c.isSched k
      · rcases hgood with h | h
        · rw [hks] at h; cases h
        · exact Or.inl ⟨k, hkn, hks, hr, h⟩
      · exact ih k (by omega) hkn hks (Or.inl hr)
    have hchildH : ∀ k ∈ c.children s, st.hph k = .hactive → Owed c fin st := by
      intro k hk hh
      obtain ⟨hkn, hk0, hkp⟩ := CoreA.mem_children.1 hk
      have hlt := w.parentLt k (by omega) hkn
      cases hks : c.isSched k
      · exact Or.inr (Or.inl ⟨k, hkn, hks, hh⟩)
      · have hr : relayActive st k = true := by
          cases hr : relayActive st k
          · exact absurd ⟨hks, hh, hr⟩ (hQ k hkn).q5
          · rfl
        exact ih k (by omega) hkn hks (Or.inr hr)
    have hbcast : ((st.bc s).isWait = true ∨ (st.bc s).isTidy = true) → Owed c fin st := by
      intro hbc
      cases hact : activeHandlers c st s with
      | nil => exact absurd ⟨hss, hbc, hact⟩ hq.q7
      | cons k l =>
        have hk : k ∈ activeHandlers c st s := by simp [hact]
        obtain ⟨hkc, hkh⟩ := mem_activeHandlers.1 hk
        exact hchildH k hkc hkh
    rcases hcase with hrun | hrel
    · obtain ⟨hnb, hno⟩ := hP.runPc s hss hrun
      cases hp : st.pcB s with
      | notBegun => exact absurd hp hnb
      | over => exact absurd hp hno
      | loop =>
        cases hto : c.timeout s with
        | some T => exact Or.inr (Or.inr ⟨s, T, hsn, hp, hto⟩)
        | none =>
          obtain ⟨k, hk, hr, hgood⟩ := loop_has_ending w hadm hA hB hP hG hQ hsn hss hp hto
          rcases hgood with h | h
          · exact hchildRun k hk hr (Or.inl h)
          · exact hchildRun k hk hr (Or.inr (Or.inl h))
      | tidy x =>
        cases hlc : liveChildren c st.a s with
        | nil => exact absurd ⟨hss, by simp [hp, PcB.isTidy], hlc⟩ hq.q4
        | cons k l =>
          have hk : k ∈ liveChildren c st.a s := by simp [hlc]
          obtain ⟨hkc, hkl⟩ := mem_liveChildren.1 hk
          obtain ⟨hkn, hk0, hkp⟩ := CoreA.mem_children.1 hkc
          have hcr := hB.exitCancelled s (by simp [hp, PcB.exiting]) k hkc hkl
          have hr : st.a.ph k = .running := by
            rcases ph_cases (st.a.ph k) with h | h | h | h | h
            · simp [h, Ph.live] at hkl
            · exact absurd ⟨by omega, h, Or.inl hcr⟩ (hQ k hkn).q1
            · exact h
            · cases hph : st.a.ph k <;> simp [hph, Ph.live, Ph.isDone] at hkl h
            · simp [h, Ph.live] at hkl
          exact hchildRun k hkc hr (Or.inr (Or.inr hcr))
      | shut x =>
        have := (hB.bcInlineWait s).2 ⟨x, hp⟩
        exact hbcast (Or.inl (by simp [this, Bc.isWait]))
      | shutTidy x =>
        have := (hB.bcInlineTidy s).2 ⟨x, hp⟩
        exact hbcast (Or.inr (by simp [this, Bc.isTidy]))
    · simp only [relayActive, Bool.or_eq_true, beq_iff_eq] at hrel
      rcases hrel with h | h
      · exact hbcast (Or.inl (by simp [h, Bc.isWait]))
      · exact hbcast (Or.inr (by simp [h, Bc.isTidy]))

/-! ### the theorem -/

/-- C03: an admissible tree, run by a (weakly) fair environment while time goes on, finishes: the top-level run ends.
    (The run `r` may contain the cancellation of the top-level task from outside, `extCancel` — at most once,
    `LiveB.extCancel_once` —: it then ends because it was cancelled, `ph 0 = .cancelled`, which is still
    `pcB 0 = .over`; no hypothesis asks for that event, and none forbids it.) -/
theorem admissible_run_ends {c : Cfg} (hwf : c.wf = true) (fin : Nat → Bool) (hadm : Admissible c fin) (r : InfRun c)
    (hbegun : ∃ i, (r.st i).pcB 0 ≠ .notBegun) (hb : WeakFairBodies fin r) (hh : FairHandlers r)
    (ht : TimeDiverges r) :
    ∃ i, (r.st i).pcB 0 = .over := by
  obtain ⟨N, hN⟩ := eventually_only_ticks hwf r
  obtain ⟨i0, hi0⟩ := hbegun
  have hNM : N ≤ max N i0 := Nat.le_max_left _ _
  have hbeg := begun_later hwf r hi0 (max N i0) (Nat.le_max_right _ _)
  generalize max N i0 = M at hNM hbeg
  apply Classical.byContradiction
  intro hnever
  have ho : (r.st M).pcB 0 ≠ .over := fun h => hnever ⟨M, h⟩
  have hM : ∀ i, M ≤ i → isTick (r.ev i) = true := fun i hi => hN i (by omega)
  have hq := quiet_of_tick r (hN M hNM)
  have hA := run_invA hwf r M
  have hB := run_invB hwf r M
  have hP := run_invP hwf r M
  have hG := run_pending r M
  have hQ := (ProgB.quietB_iff c (r.st M)).1 hq
  have w := CoreA.wf_of hwf
  have howed := owed_below w hadm hA hB hP hG hQ c.n 0 (by omega) w.npos w.sched0 (Or.inl (hB.runPh 0 hbeg ho))
  rcases howed with ⟨j, hjn, hjs, hr, hf⟩ | ⟨j, hjn, hjs, hr⟩ | ⟨s, T, hsn, hl, hT⟩
  · -- a body that is owed an end: only time passes
    obtain ⟨k, hk, he⟩ := hb M j hjn hjs hr hf
    have htk := hM k hk
    rcases he with he | he | he <;> rw [he] at htk <;> cases htk
  · -- a handler
    obtain ⟨k, hk, he⟩ := hh M j hjn hjs hr
    have htk := hM k hk
    rcases he with he | he <;> rw [he] at htk <;> cases htk
  · -- a run waiting in its main loop with a timeout: time cannot pass its deadline
    obtain ⟨i, hi⟩ := ht ((r.st M).tbegin s + T + 1)
    have hfr := frozen_pc r hM (max i M) (Nat.le_max_right _ _)
    have hl' : (r.st (max i M)).pcB s = .loop := by rw [hfr.1]; exact hl
    have h1 := (ExitB.timeout_bounds c hwf _ _ (prefix_accepted r (max i M)) s T hl' hT).2
    rw [hfr.2] at h1
    have h2 := now_mono r i (max i M) (Nat.le_max_left _ _)
    omega

/-- in this model the passing of time is by positive amounts and only finitely many other events ever occur: time
    goes on in every infinite run -/
theorem time_diverges {c : Cfg} (hwf : c.wf = true) (r : InfRun c) : TimeDiverges r := by
  obtain ⟨N, hN⟩ := eventually_only_ticks hwf r
  intro T
  have := now_grows r hN T
  exact ⟨N + T, by omega⟩

/-- … so that hypothesis of `admissible_run_ends` comes for free -/
theorem admissible_run_ends' {c : Cfg} (hwf : c.wf = true) (fin : Nat → Bool) (hadm : Admissible c fin) (r : InfRun c)
    (hbegun : ∃ i, (r.st i).pcB 0 ≠ .notBegun) (hb : WeakFairBodies fin r) (hh : FairHandlers r) :
    ∃ i, (r.st i).pcB 0 = .over :=
  admissible_run_ends hwf fin hadm r hbegun hb hh (time_diverges hwf r)

/-! ### non-vacuity: the second run of `LiveB` (job `1` ends by itself, job `2` is `forever` and never ends by itself) -/

theorem ex2_no_req {k r : Nat} (h : Requires ex2Cfg k r) : False := by
  cases h with
  | direct hr => simp [ex2Cfg] at hr
  | step _ hr => simp [ex2Cfg] at hr

theorem ex2_admissible : Admissible ex2Cfg ex2Fin := by
  refine ⟨?_, ?_, ?_, ?_⟩
  · intro j hj hs hf
    rcases ex2_cases hj hs with rfl | rfl
    · cases hf
    · rfl
  · intro s hs hss _ _
    have : s = 0 := by simpa [ex2Cfg] using hss
    subst this
    exact ⟨1, by decide, rfl⟩
  · intro s k r _ _ _ _ h
    exact (ex2_no_req h).elim
  · intro s _ _ h
    exact absurd rfl h

theorem ex2_timeDiverges : TimeDiverges ex2Run := time_diverges (by decide) ex2Run

/-- the theorem applies to this run (and what it says is what one sees: `(ex2Run.st 12).pcB 0 = .over`) -/
example : ∃ i, (ex2Run.st i).pcB 0 = .over :=
  admissible_run_ends (by decide) ex2Fin ex2_admissible ex2Run ⟨1, by decide⟩ ex2Run_weakFair ex2Run_fairHandlers
    ex2_timeDiverges

/-- the hypotheses of `admissible_run_ends` are satisfiable together, with a job that never ends by itself -/
example : ∃ (c : Cfg) (_ : c.wf = true) (fin : Nat → Bool) (_ : Admissible c fin) (r : InfRun c),
    (∃ j, j < c.n ∧ c.isSched j = false ∧ fin j = false) ∧
    (∃ i, (r.st i).pcB 0 ≠ .notBegun) ∧ WeakFairBodies fin r ∧ FairHandlers r ∧ TimeDiverges r :=
  ⟨ex2Cfg, by decide, ex2Fin, ex2_admissible, ex2Run, ⟨2, by decide, rfl, rfl⟩, ⟨1, by decide⟩, ex2Run_weakFair,
    ex2Run_fairHandlers, ex2_timeDiverges⟩

/-- the tree of `ex3Run` (its only job never ends by itself and is not `forever`) is not admissible -/
example : ¬ Admissible exCfg (fun _ => false) := by
  intro h
  have := h.neverForever 1 (by decide) rfl rfl
  cases this

/-! ### why `reqEnds` speaks of indirect requirements

  `Admissible` as first stated: `reqEnds` about direct requirements only.  Scheduler `0` with jobs `1` (`forever`, never
  ends by itself), `2` (`forever`, ends by itself, requires `1`), `3` (regular, requires `2`); no window, no timeout.
  The condition holds: the only regular job, `3`, requires `2`, which ends by itself.  But `2` waits for `1`, which
  never ends: `run()` begins, `1` starts, then time passes for ever — `2` and `3` never start, the run never ends,
  although the environment is fair and time goes on. -/

structure AdmissibleDirect (c : Cfg) (fin : Nat → Bool) : Prop where
  neverForever : ∀ j, j < c.n → c.isSched j = false → fin j = false → c.forever j = true
  hasRegular : ∀ s, s < c.n → c.isSched s = true → c.timeout s = none → c.children s ≠ [] →
    ∃ k, k ∈ c.children s ∧ c.forever k = false
  reqEnds : ∀ s k r, s < c.n → c.isSched s = true → k ∈ c.children s → c.forever k = false → r ∈ c.req k →
    mayNeverEnd c fin r = false
  windowRoom : ∀ s, s < c.n → c.isSched s = true → c.window s ≠ 0 →
    ((c.children s).filter fun k => mayNeverEnd c fin k).length < c.window s

def cexCfg : Cfg :=
  { n := 4, parent := fun _ => 0, isSched := fun j => j == 0,
    req := fun j => if j = 2 then [1] else if j = 3 then [2] else [],
    critical := fun _ => false, forever := fun j => j == 1 || j == 2, window := fun _ => 0, timeout := fun _ => none,
    sdTimeout := fun _ => none, topPure := true }

def cexFin (j : Nat) : Bool := j != 1

def cexEv (i : Nat) : EvB := if i = 0 then .runBegin else if i = 1 then .grant 1 else .tick 1

def cexSt : Nat → StB
  | 0 => StB.init
  | i + 1 => (stepB cexCfg (cexSt i) (cexEv i)).getD (cexSt i)

def cexFinSt (t : Nat) : StB := { cexSt 2 with a := { (cexSt 2).a with now := t } }

theorem cexEv_late (i : Nat) (h : 2 ≤ i) : cexEv i = .tick 1 := by
  unfold cexEv
  rw [if_neg (by omega), if_neg (by omega)]

theorem cexFin_step (t : Nat) : stepB cexCfg (cexFinSt t) (.tick 1) = some (cexFinSt (t + 1)) := rfl

theorem cexSt_late (t : Nat) : cexSt (2 + t) = cexFinSt t := by
  induction t with
  | zero => rfl
  | succ t ih =>
    show (stepB cexCfg (cexSt (2 + t)) (cexEv (2 + t))).getD (cexSt (2 + t)) = cexFinSt (t + 1)
    rw [ih, cexEv_late _ (by omega), cexFin_step]
    rfl

theorem cexSt_step (i : Nat) : stepB cexCfg (cexSt i) (cexEv i) = some (cexSt (i + 1)) := by
  by_cases h : i < 2
  · have hsome : (stepB cexCfg (cexSt i) (cexEv i)).isSome = true := by
      revert i; decide
    show _ = some ((stepB cexCfg (cexSt i) (cexEv i)).getD (cexSt i))
    cases hs : stepB cexCfg (cexSt i) (cexEv i) with
    | none => rw [hs] at hsome; cases hsome
    | some s => rfl
  · obtain ⟨t, rfl⟩ : ∃ t, i = 2 + t := ⟨i - 2, by omega⟩
    rw [cexSt_late, cexEv_late _ (by omega), show 2 + t + 1 = 2 + (t + 1) by omega, cexSt_late]
    exact cexFin_step t

def cexRun : InfRun cexCfg := { st := cexSt, ev := cexEv, init := rfl, step := cexSt_step }

theorem cex_cases {j : Nat} (hj : j < cexCfg.n) (hs : cexCfg.isSched j = false) : j = 1 ∨ j = 2 ∨ j = 3 := by
  have : j = 0 ∨ j = 1 ∨ j = 2 ∨ j = 3 := by have : j < 4 := hj; omega
  rcases this with rfl | h
  · cases hs
  · exact h

/-- at every index: no cancellation of `1` is requested, `2` and `3` are not executing, no handler is active, the
    top-level run is not over -/
theorem cex_state (i : Nat) : (cexRun.st i).a.creq 1 = false ∧
    (cexRun.st i).a.ph 2 ≠ .running ∧ (cexRun.st i).a.ph 3 ≠ .running ∧
    (∀ j, (j = 1 ∨ j = 2 ∨ j = 3) → (cexRun.st i).hph j = .hnone) ∧ (cexRun.st i).pcB 0 ≠ .over := by
  have key : ∀ i, i ≤ 2 → (cexSt i).a.creq 1 = false ∧ (cexSt i).a.ph 2 ≠ .running ∧ (cexSt i).a.ph 3 ≠ .running ∧
      ((cexSt i).hph 1 = .hnone ∧ (cexSt i).hph 2 = .hnone ∧ (cexSt i).hph 3 = .hnone) ∧ (cexSt i).pcB 0 ≠ .over := by
    decide
  have conv : ∀ st : StB, (st.hph 1 = .hnone ∧ st.hph 2 = .hnone ∧ st.hph 3 = .hnone) →
      ∀ j, (j = 1 ∨ j = 2 ∨ j = 3) → st.hph j = .hnone := by
    intro st h j hj
    rcases hj with rfl | rfl | rfl
    · exact h.1
    · exact h.2.1
    · exact h.2.2
  by_cases h : i ≤ 2
  · obtain ⟨h1, h2, h3, h4, h5⟩ := key i h
    exact ⟨h1, h2, h3, conv _ h4, h5⟩
  · obtain ⟨t, rfl⟩ : ∃ t, i = 2 + t := ⟨i - 2, by omega⟩
    obtain ⟨h1, h2, h3, h4, h5⟩ := key 2 (Nat.le_refl _)
    show (cexSt (2 + t)).a.creq 1 = false ∧ (cexSt (2 + t)).a.ph 2 ≠ .running ∧ (cexSt (2 + t)).a.ph 3 ≠ .running ∧
      (∀ j, (j = 1 ∨ j = 2 ∨ j = 3) → (cexSt (2 + t)).hph j = .hnone) ∧ (cexSt (2 + t)).pcB 0 ≠ .over
    rw [cexSt_late]
    exact ⟨h1, h2, h3, conv _ h4, h5⟩

theorem cex_admissibleDirect : AdmissibleDirect cexCfg cexFin := by
  refine ⟨?_, ?_, ?_, ?_⟩
  · intro j hj hs hf
    rcases cex_cases hj hs with rfl | rfl | rfl
    · rfl
    · cases hf
    · cases hf
  · intro s hs hss _ _
    have : s = 0 := by simpa [cexCfg] using hss
    subst this
    exact ⟨3, by decide, rfl⟩
  · intro s k r hs hss hk hf hr
    have hs0 : s = 0 := by simpa [cexCfg] using hss
    subst hs0
    obtain ⟨hkn, hk0, _⟩ := CoreA.mem_children.1 hk
    have hk3 : k = 3 := by
      rcases cex_cases hkn (by simpa [cexCfg] using hk0) with rfl | rfl | rfl
      · cases hf
      · cases hf
      · rfl
    subst hk3
    have : r = 2 := by simpa [cexCfg] using hr
    subst this
    rfl
  · intro s _ _ h
    exact absurd rfl h

/-- the statement with direct requirements only is false: all its hypotheses hold of `cexRun`, which never ends -/
theorem direct_not_enough : cexCfg.wf = true ∧ AdmissibleDirect cexCfg cexFin ∧
    (cexRun.st 1).pcB 0 ≠ .notBegun ∧ WeakFairBodies cexFin cexRun ∧ FairHandlers cexRun ∧ TimeDiverges cexRun ∧
    ¬ ∃ i, (cexRun.st i).pcB 0 = .over := by
  refine ⟨by decide, cex_admissibleDirect, by decide, ?_, ?_, time_diverges (by decide) cexRun, ?_⟩
  · intro i j hj hs hr hf
    obtain ⟨h1, h2, h3, _, _⟩ := cex_state i
    rcases cex_cases hj hs with rfl | rfl | rfl
    · rcases hf with hf | hf
      · cases hf
      · rw [h1] at hf; cases hf
    · exact absurd hr h2
    · exact absurd hr h3
  · intro i j hj hs hr
    rw [(cex_state i).2.2.2.1 j (cex_cases hj hs)] at hr
    cases hr
  · rintro ⟨i, hi⟩
    exact (cex_state i).2.2.2.2 hi

/-- … and the amended condition rejects that tree: the regular job `3` requires `1` through `2` -/
example : ¬ Admissible cexCfg cexFin := by
  intro h
  have h1 : Requires cexCfg 3 1 := .step (m := 2) (.direct (by decide)) (by decide)
  have := h.reqEnds 0 3 1 (by decide) rfl (by decide) rfl h1
  cases this

end AJ.Proofs.AdmB
