/-
  C05 / C08 / C09 "at that same instant", layer B, history form: the step by which a run LEAVES ITS MAIN LOOP — and
  calls `cancel()` on every job still queued or running (`ExitB.exit_cancels_all`) — is separated by no `tick` from
  its cause:
  * critical / success (`react s`): every job of the reacted `done` set — among them the critical job that raised,
    resp. the jobs that complete the count of regular jobs — ended (body, or nested run) with no `tick` since;
  * timeout (`timeoutFire s`, or a `react s` that notices the expiry): the clock reads exactly `begin + T`, an
    instant not reached before the last `tick` — and in the second case the jobs of the reacted `done` set ended
    with no `tick` since;
  * cancelled (`cancelArrive s`): the cancellation of the task of `s` was requested — by the enclosing scheduler, or
    for `s = 0` from outside (`extCancel`) — with no `tick` since.

  Proof scheme (`last_cause`): a state predicate that holds initially and in every quiet state (the clock advances
  only there) and is preserved by every event that is not a cause, fails only with no `tick` since the last cause.
-/
import AJ.Proofs.LatB
import AJ.Proofs.ExitB
namespace AJ.Proofs.LatC
open AJ.Run AJ.Full AJ.Proofs.CoreA AJ.Proofs.CoreB AJ.Proofs.ProgB AJ.Proofs.FinB AJ.Proofs.BoundB AJ.Proofs.LatB
set_option linter.unusedVariables false
set_option linter.unusedSimpArgs false

/-- the event, occurring in state `st`, is the end of the body of job `k` (it returned or raised), or the end of the
    run of nested scheduler `k`: `grant k` for an empty scheduler, `tidyReturn k` when `k` has already shut down, the
    return of its inline shutdown (`sdWaitReturn k` / `sdTidyReturn k`) -/
def jobEnds (c : Cfg) (st : StB) (k : Nat) : EvB → Bool
  | .runBegin => k == 0 && (c.children 0).isEmpty
  | .bodyEnd j _ => j == k
  | .grant j => j == k && c.isSched k && (c.children k).isEmpty
  | .tidyReturn j _ => j == k && st.didSd k
  | .sdWaitReturn j _ => j == k && st.bc k == .bwait .inline
  | .sdTidyReturn j _ => j == k && st.bc k == .btidy .inline
  | _ => false

/-- the step requests the cancellation of the task of `s` -/
def cancelsTask (c : Cfg) (s : Nat) (st : StB) (e : EvB) : Bool :=
  !st.a.creq s && (match stepB c st e with | some st' => st'.a.creq s | none => false)

/-! ### case analysis over `stepB` -/

@[simp] theorem beginB_carrived (c : Cfg) (st : StB) (s : Nat) (a' : StA) :
    (beginB c st s a').carrived = st.carrived := by
  unfold beginB; split <;> rfl

local macro "fin_case" : tactic => `(tactic|
    (obtain ⟨r, a', _, ha, hst⟩ := ProgB.finishRun_spec ‹finishRun _ _ _ _ _ = some _›
     subst hst
     open_stepA <;> (try simp only [setAt, release] at *) <;>
       grind [CoreB.mem_activeHandlers, CoreB.mem_liveChildren, Ph.isDone]))

local macro "a_case" : tactic => `(tactic|
    (cases ‹some _ = some _›; open_stepA <;>
       (try unfold beginRun) <;> (repeat' split) <;>
       (try simp only [ProgB.beginB_pcB, beginB_a, beginB_hph, beginB_carrived, exitLoop, broadcast, release, startJobs, setAt] at *) <;>
       grind [CoreB.mem_children, CoreB.mem_activeHandlers, CoreB.mem_liveChildren, CoreB.mem_doneSet, Ph.isDone]))

local macro "plain_case" : tactic => `(tactic|
    (cases ‹some _ = some _› <;> (try simp only [ProgB.beginB_pcB, beginB_a, beginB_hph, beginB_carrived, exitLoop, broadcast, setAt] at *) <;>
       grind [CoreB.mem_activeHandlers, CoreB.mem_liveChildren, → isWait_who]))

local macro "step_one" : tactic => `(tactic| first | fin_case | a_case | plain_case)

/-- a job becomes `done` only by an event that ends it -/
theorem done_back (c : Cfg) (st st' : StB) (e : EvB) (h : stepB c st e = some st') (k : Nat)
    (hw : jobEnds c st k e = false) (hd : (st'.a.ph k).isDone = true) : (st.a.ph k).isDone = true := by
  revert hd
  cases e <;> simp only [jobEnds] at hw <;> simp only [stepB] at h <;> (repeat' split at h) <;> (try (cases h; done))
  all_goals step_one

/-- a job enters the `done` set being reacted to only if it had not been handed over yet -/
theorem rx_back (c : Cfg) (st st' : StB) (e : EvB) (h : stepB c st e = some st') (s k : Nat)
    (hk : k ∈ rxD st' s) : k ∈ rxD st s ∨ st.a.deliv k = false := by
  unfold rxD at *
  revert hk
  cases e <;> simp only [stepB] at h <;> (repeat' split at h) <;> (try (cases h; done))
  all_goals step_one

/-- only `tick` changes the clock -/
theorem now_step (c : Cfg) (st st' : StB) (e : EvB) (h : stepB c st e = some st') (ht : isTick e = false) :
    st'.a.now = st.a.now := by
  cases e <;> simp only [isTick] at ht <;> simp only [stepB] at h <;> (repeat' split at h) <;> (try (cases h; done))
  all_goals step_one

theorem carrived_back (c : Cfg) (st st' : StB) (e : EvB) (h : stepB c st e = some st') (s : Nat)
    (hc : st'.carrived s = false) : st.carrived s = false := by
  revert hc
  cases e <;> simp only [stepB] at h <;> (repeat' split at h) <;> (try (cases h; done))
  all_goals step_one

/-- a task begins to run only when no cancellation is pending on it -/
theorem running_back (c : Cfg) (st st' : StB) (e : EvB) (h : stepB c st e = some st') (s : Nat)
    (hr : st'.a.ph s = .running) : st.a.ph s = .running ∨ (st.a.ph s = .idle ∨ st.a.creq s = false) := by
  revert hr
  cases e <;> simp only [stepB] at h <;> (repeat' split at h) <;> (try (cases h; done))
  all_goals step_one

/-! ### generic: no tick since the last cause -/

/-- an event satisfying `C` (evaluated in the state in which it occurs) occurred in the history, and no `tick`
    occurred after it -/
def CausedAt (c : Cfg) (evs : List EvB) (C : StB → EvB → Bool) : Prop :=
  ∃ a e0 b sta, evs = a ++ e0 :: b ∧ acceptB c StB.init a = some sta ∧ C sta e0 = true ∧ ∀ x ∈ b, isTick x = false

def NoCause (c : Cfg) (C : StB → EvB → Bool) : StB → List EvB → Prop
  | _, [] => True
  | st, e :: es => C st e = false ∧ ∀ st', stepB c st e = some st' → NoCause c C st' es

theorem noCause_append (c : Cfg) (C : StB → EvB → Bool) (b1 r : List EvB) :
    ∀ st st1 : StB, acceptB c st b1 = some st1 → NoCause c C st (b1 ++ r) → NoCause c C st1 r := by
  induction b1 with
  | nil => intro st st1 h hN; simp only [acceptB, Option.some.injEq] at h; subst h; simpa using hN
  | cons e es ih =>
    intro st st1 h hN
    simp only [acceptB] at h
    split at h
    · rename_i st2 hs
      exact ih st2 st1 h (hN.2 st2 hs)
    · cases h

theorem split_cause (c : Cfg) (C : StB → EvB → Bool) (evs : List EvB) :
    ∀ st st' : StB, acceptB c st evs = some st' →
      NoCause c C st evs ∨
      ∃ a e0 b sta stb, evs = a ++ e0 :: b ∧ acceptB c st a = some sta ∧ C sta e0 = true ∧
        stepB c sta e0 = some stb ∧ acceptB c stb b = some st' ∧ NoCause c C stb b := by
  induction evs with
  | nil => intro st st' _; exact Or.inl trivial
  | cons e es ih =>
    intro st st' h
    simp only [acceptB] at h
    split at h
    · rename_i st1 hs
      rcases ih st1 st' h with hN | ⟨a, e0, b, sta, stb, rfl, ha, hw, hst, hb, hN⟩
      · cases hw : C st e with
        | false =>
          refine Or.inl ⟨hw, fun st2 hs2 => ?_⟩
          rw [hs] at hs2; cases hs2; exact hN
        | true => exact Or.inr ⟨[], e, es, st, st1, rfl, rfl, hw, hs, h, hN⟩
      · refine Or.inr ⟨e :: a, e0, b, sta, stb, rfl, ?_, hw, hst, hb, hN⟩
        simp only [acceptB, hs]; exact ha
    · cases h

theorem run_keeps (c : Cfg) (C : StB → EvB → Bool) (P : StB → Prop)
    (hstep : ∀ pre st st' e, acceptB c StB.init pre = some st → stepB c st e = some st' → C st e = false →
      P st → P st') (r : List EvB) :
    ∀ pre st st', acceptB c StB.init pre = some st → acceptB c st r = some st' → NoCause c C st r → P st → P st' := by
  induction r with
  | nil => intro pre st st' _ h _ hP; simp only [acceptB, Option.some.injEq] at h; subst h; exact hP
  | cons e es ih =>
    intro pre st st' hpre h hN hP
    simp only [acceptB] at h
    split at h
    · rename_i st1 hs
      exact ih (pre ++ [e]) st1 st' (acceptB_snoc hpre hs) h (hN.2 st1 hs) (hstep pre st st1 e hpre hs hN.1 hP)
    · cases h

/-- if `P` holds initially and in every quiet state, and is preserved by every event that is not a cause, then a
    state in which `P` fails is reached with no `tick` since the last cause -/
theorem last_cause (c : Cfg) (C : StB → EvB → Bool) (P : StB → Prop) (hinit : P StB.init)
    (hquiet : ∀ pre st, acceptB c StB.init pre = some st → quietB c st = true → P st)
    (hstep : ∀ pre st st' e, acceptB c StB.init pre = some st → stepB c st e = some st' → C st e = false →
      P st → P st')
    (evs : List EvB) (st0 : StB) (h0 : acceptB c StB.init evs = some st0) (hnot : ¬ P st0) :
    CausedAt c evs C := by
  rcases split_cause c C evs StB.init st0 h0 with hN | ⟨a, e0, b, sta, stb, rfl, ha, hw0, hst, hb0, hN⟩
  · exact absurd (run_keeps c C P hstep evs [] StB.init st0 rfl h0 hN hinit) hnot
  · refine ⟨a, e0, b, sta, rfl, ha, hw0, fun x hx => ?_⟩
    cases hxt : isTick x with
    | false => rfl
    | true =>
      exfalso
      obtain ⟨d, rfl⟩ : ∃ d, x = .tick d := by
        cases x <;> simp [isTick] at hxt
        exact ⟨_, rfl⟩
      obtain ⟨b1, b2, rfl⟩ := List.append_of_mem hx
      rw [acceptB_append] at hb0
      cases hb1 : acceptB c stb b1 with
      | none => simp [hb1] at hb0
      | some st1 =>
        rw [hb1] at hb0
        simp only [Option.bind_some] at hb0
        have hreach : acceptB c StB.init (a ++ e0 :: b1) = some st1 := by
          rw [acceptB_append, ha]
          simp only [Option.bind_some, acceptB, hst]
          exact hb1
        have hq : quietB c st1 = true := by
          simp only [acceptB] at hb0
          split at hb0
          · rename_i st2 hs2
            simp only [stepB] at hs2
            split at hs2
            · next hg => exact hg.1
            · cases hs2
          · cases hb0
        exact hnot (run_keeps c C P hstep (.tick d :: b2) _ st1 st0 hreach hb0
          (noCause_append c C b1 _ stb st1 hb1 hN) (hquiet _ st1 hreach hq))

/-! ### reactions: every job of the reacted `done` set ended at this very instant -/

/-- C05 / C09 "at that same instant": when a run in its main loop has a reaction pending, every job `k` of the `done`
    set it reacts to is a job of it, has finished, and its end (the end of its body, or of its nested run) is
    separated by no `tick` from the present state — hence from the reaction itself -/
theorem reacted_no_latency (c : Cfg) (hwf : c.wf = true) (evs : List EvB) (s : Nat) (st0 : StB)
    (h0 : acceptB c StB.init evs = some st0) (hl : st0.pcB s = .loop) (D : List Nat) (hD : st0.a.rx s = some D)
    (k : Nat) (hk : k ∈ D) :
    k ∈ c.children s ∧ (st0.a.ph k).isDone = true ∧ CausedAt c evs (fun st e => jobEnds c st k e) := by
  have hA0 := invA_of_reachB c hwf evs st0 h0
  have hB0 := invB_reach c hwf evs st0 h0
  have hkc : k ∈ c.children s := by
    obtain ⟨q, hq⟩ := hB0.rxSub s D hD
    rw [hq] at hk
    exact (List.mem_filter.1 hk).1
  obtain ⟨hkn, hk0, hkp⟩ := CoreB.mem_children.1 hkc
  have hdl : st0.a.deliv k = true := (hA0.rxLoop s D hD).2 k hk
  have hdone : (st0.a.ph k).isDone = true := by
    rcases hA0.delivFin k hdl with h | h
    · exact h
    · exact absurd h (hB0.loopClean s hl k hkc).2
  refine ⟨hkc, hdone, ?_⟩
  let P : StB → Prop := fun st =>
    (st.pcB s ≠ .loop ∧ st.pcB s ≠ .notBegun) ∨
    ((st.a.ph k).isDone = true → st.a.deliv k = true ∧ k ∉ rxD st s)
  apply last_cause c (fun st e => jobEnds c st k e) P
  · exact Or.inr (by simp [StB.init, StA.init, Ph.isDone])
  · intro pre st hpre hq
    have hA := invA_of_reachB c hwf pre st hpre
    have hB := invB_reach c hwf pre st hpre
    cases hpc : st.pcB s with
    | loop =>
      obtain ⟨hrx, hds⟩ := (stuck_of_quiet hB hq s).loop hpc
      refine Or.inr fun hd => ⟨?_, by simp [rxD, hrx]⟩
      cases hdv : st.a.deliv k with
      | true => rfl
      | false =>
        have : k ∈ doneSet c st.a s := CoreB.mem_doneSet.2 ⟨hkc, Or.inl hd, hdv⟩
        rw [hds] at this; cases this
    | notBegun =>
      refine Or.inr fun hd => ?_
      have hi := hA.childIdle k (Nat.pos_of_ne_zero hk0) hkn (by rw [hkp]; exact (hB.pcNotBegun s).1 hpc)
      simp [hi, Ph.isDone] at hd
    | tidy x => exact Or.inl (by simp [hpc])
    | shut x => exact Or.inl (by simp [hpc])
    | shutTidy x => exact Or.inl (by simp [hpc])
    | over => exact Or.inl (by simp [hpc])
  · intro pre st st' e hpre hstep hC hP
    have hA := invA_of_reachB c hwf pre st hpre
    have hB := invB_reach c hwf pre st hpre
    rcases hP with ⟨h1, h2⟩ | hr
    · exact Or.inl (ExitB.loop_left_for_good c st st' e s hA hB hstep h1 h2)
    · refine Or.inr fun hd' => ?_
      obtain ⟨h1, h2⟩ := hr (done_back c st st' e hstep k hC hd')
      refine ⟨(ExitB.step_facts c st st' e hstep).2.1 k h1, fun hk' => ?_⟩
      rcases rx_back c st st' e hstep s k hk' with h3 | h3
      · exact h2 h3
      · rw [h1] at h3; cases h3
  · exact h0
  · intro hP
    rcases hP with ⟨h1, _⟩ | hr
    · exact h1 hl
    · exact (hr hdone).2 (by simp [rxD, hD, hk])

/-! ### the `done` set of a pending reaction is never empty -/

theorem rxNe_stepA (c : Cfg) (a a' : StA) (e : EvA) (h : stepA c a e = some a')
    (hp : ∀ s D, a.rx s = some D → D ≠ []) : ∀ s D, a'.rx s = some D → D ≠ [] := by
  cases e <;> simp only [stepA] at h <;> (repeat' split at h) <;> cases h <;>
    (try unfold beginRun) <;> (repeat' split) <;> simp only [release, startJobs, setAt] <;> grind

theorem rxNe_acceptA (c : Cfg) (evs : List EvA) :
    ∀ a a' : StA, acceptA c a evs = some a' → (∀ s D, a.rx s = some D → D ≠ []) → ∀ s D, a'.rx s = some D → D ≠ [] := by
  induction evs with
  | nil => intro a a' h hp; simp only [acceptA, Option.some.injEq] at h; subst h; exact hp
  | cons e es ih =>
    intro a a' h hp
    simp only [acceptA] at h
    split at h
    · rename_i a1 hs
      exact ih a1 a' h (rxNe_stepA c a a1 e hs hp)
    · cases h

theorem rx_nonempty (c : Cfg) (evs : List EvB) (st : StB) (h : acceptB c StB.init evs = some st) (s : Nat)
    (D : List Nat) (hD : st.a.rx s = some D) : D ≠ [] := by
  obtain ⟨evsA, hA⟩ := acceptB_refines c evs _ _ h
  exact rxNe_acceptA c evsA _ _ hA (by simp [StB.init, StA.init]) s D hD

/-! ### cancellation: delivered at the instant it was requested -/

/-- the `CancelledError` is delivered into the run of `s` with no `tick` since the step that requested the
    cancellation of its task (the step in which the enclosing scheduler left its own main loop; for the top-level
    scheduler `s = 0`: the `extCancel` of the outside world — `cancelsTask c 0 st .extCancel = true`) -/
theorem cancel_no_latency (c : Cfg) (hwf : c.wf = true) (evs : List EvB) (s : Nat) (st0 st : StB)
    (h0 : acceptB c StB.init evs = some st0) (h1 : stepB c st0 (.cancelArrive s) = some st) :
    CausedAt c evs (cancelsTask c s) := by
  have hg : s < c.n ∧ c.isSched s = true ∧ st0.a.ph s = .running ∧ st0.a.creq s = true ∧ st0.carrived s = false := by
    simp only [stepB] at h1
    split at h1
    · next hg => exact hg
    · cases h1
  obtain ⟨hsn, hsch, hrun, hcr, hca⟩ := hg
  let P : StB → Prop := fun st => ¬ (st.a.ph s = .running ∧ st.a.creq s = true ∧ st.carrived s = false)
  apply last_cause c (cancelsTask c s) P
  · intro h; simp [StB.init, StA.init] at h
  · intro pre st hpre hq
    exact fun h => ((quietB_iff c st).1 hq s hsn).q2 ⟨hsch, h⟩
  · intro pre st st' e hpre hstep hC hP h
    have hA := invA_of_reachB c hwf pre st hpre
    obtain ⟨hr', hc', ha'⟩ := h
    have hcs : st.a.creq s = true := by
      simp only [cancelsTask, hstep, hc', Bool.and_true, Bool.not_eq_false'] at hC
      exact hC
    rcases running_back c st st' e hstep s hr' with hr | hi | hcf
    · exact hP ⟨hr, hcs, carrived_back c st st' e hstep s ha'⟩
    · rw [hA.creqOff hi] at hcs; cases hcs
    · rw [hcf] at hcs; cases hcs
  · exact h0
  · exact fun hP => hP ⟨hrun, hcr, hca⟩

/-! ### expiry: the timeout fires at the very instant it is due -/

theorem now_const (c : Cfg) (b : List EvB) :
    ∀ st st' : StB, acceptB c st b = some st' → (∀ x ∈ b, isTick x = false) → st'.a.now = st.a.now := by
  induction b with
  | nil => intro st st' h _; simp only [acceptB, Option.some.injEq] at h; subst h; rfl
  | cons e es ih =>
    intro st st' h hb
    simp only [acceptB] at h
    split at h
    · rename_i st1 hs
      rw [ih st1 st' h (fun x hx => hb x (List.mem_cons_of_mem _ hx)),
        now_step c st st1 e hs (hb e (List.mem_cons_self ..))]
    · cases h

/-- a run in its main loop whose deadline is reached: the clock reads exactly `begin + T` (not later), and before
    the last `tick` of the history that instant had not been reached -/
theorem expiry_at_deadline (c : Cfg) (hwf : c.wf = true) (evs : List EvB) (s : Nat) (st0 : StB)
    (h0 : acceptB c StB.init evs = some st0) (hl : st0.pcB s = .loop)
    (hex : expired (st0.deadline s) st0.a.now = true) :
    ∃ T, c.timeout s = some T ∧ st0.a.now = st0.tbegin s + T ∧
      ∀ a d b sta, evs = a ++ .tick d :: b → acceptB c StB.init a = some sta → (∀ x ∈ b, isTick x = false) →
        sta.a.now < st0.tbegin s + T ∧ sta.a.now + d = st0.tbegin s + T := by
  have hB := invB_reach c hwf evs st0 h0
  have hde := hB.deadlineEq s hl
  cases hT : c.timeout s with
  | none => rw [hT] at hde; simp [hde, expired] at hex
  | some T =>
    rw [hT] at hde
    simp only [Option.map_some] at hde
    have hle : st0.tbegin s + T ≤ st0.a.now := by simpa [hde, expired] using hex
    have hge := (hB.deadlineGe s _ hl hde).1
    have hnow : st0.a.now = st0.tbegin s + T := by omega
    refine ⟨T, rfl, hnow, ?_⟩
    intro a d b sta hsp ha hb
    subst hsp
    rw [acceptB_append, ha] at h0
    simp only [Option.bind_some, acceptB] at h0
    split at h0
    · rename_i stb hs
      have hc := now_const c b stb st0 h0 hb
      have hd : 0 < d ∧ stb.a.now = sta.a.now + d := by
        simp only [stepB] at hs
        split at hs
        · split at hs
          · cases hs
          · rename_i a' ha'
            cases hs
            simp only [stepA] at ha'
            split at ha'
            · next hg => cases ha'; exact ⟨hg.1, rfl⟩
            · cases ha'
        · cases hs
      omega
    · cases h0

/-- C08 "at that same instant": `timeoutFire s` occurs exactly at the instant `begin + T` (not later), and before
    the last `tick` of the history that instant had not been reached: the expiry is noticed at the first instant
    at which it is due -/
theorem fire_at_deadline (c : Cfg) (hwf : c.wf = true) (evs : List EvB) (s : Nat) (st0 st : StB)
    (h0 : acceptB c StB.init evs = some st0) (h1 : stepB c st0 (.timeoutFire s) = some st) :
    ∃ T, c.timeout s = some T ∧ st0.a.now = st0.tbegin s + T ∧
      ∀ a d b sta, evs = a ++ .tick d :: b → acceptB c StB.init a = some sta → (∀ x ∈ b, isTick x = false) →
        sta.a.now < st0.tbegin s + T ∧ sta.a.now + d = st0.tbegin s + T := by
  have hg : st0.pcB s = .loop ∧ expired (st0.deadline s) st0.a.now = true := by
    simp only [stepB] at h1
    split at h1
    · next hg => exact ⟨hg.1, hg.2.2.2.2⟩
    · cases h1
  exact expiry_at_deadline c hwf evs s st0 h0 hg.1 hg.2

/-- C08 "at that same instant": so does the reaction that takes the timeout exit — it occurs exactly at the instant
    `begin + T` (a completion reported in the very instant of the deadline), not later -/
theorem react_timeout_at_deadline (c : Cfg) (hwf : c.wf = true) (evs : List EvB) (s : Nat) (st0 st : StB)
    (h0 : acceptB c StB.init evs = some st0) (h1 : stepB c st0 (.react s) = some st)
    (hx : st.pcB s = .tidy .timeout) :
    ∃ T, c.timeout s = some T ∧ st0.a.now = st0.tbegin s + T ∧
      ∀ a d b sta, evs = a ++ .tick d :: b → acceptB c StB.init a = some sta → (∀ x ∈ b, isTick x = false) →
        sta.a.now < st0.tbegin s + T ∧ sta.a.now + d = st0.tbegin s + T := by
  have hB := invB_reach c hwf evs st0 h0
  have hl : st0.pcB s = .loop := by
    simp only [stepB] at h1
    split at h1
    · assumption
    · cases h1
  obtain ⟨dl, hdl, hle, _⟩ := ExitB.exit_reason c st0 st (.react s) s .timeout hB h1 hl hx
  exact expiry_at_deadline c hwf evs s st0 h0 hl (by simp [expired, hdl, hle])

/-! ### the theorems: a run leaves its main loop at the very instant of the cause -/

/-- what caused the run of `s` to leave its main loop by event `e` in state `st0` (reached by `evs`), for each exit
    reason, and that no time passed since:
    * critical: `e` is the reaction to a `done` set containing a critical job that raised, and every job of that set
      (in particular that one) ended — its body, or its nested run — with no `tick` since;
    * success: `e` is the reaction that brings the count of reported regular jobs to their number, and every job of
      the (non-empty) reacted set ended with no `tick` since;
    * timeout: the clock reads `begin + T` exactly, an instant not yet reached before the last `tick`, and `e` is
      the expiry event — or the reaction to a (non-empty) `done` set, without critical failure and that does not
      complete the regular jobs, every job of which ended with no `tick` since (completions reported in the very
      instant of the deadline);
    * cancelled: `e` is the delivery of the cancellation, requested with no `tick` since;
    * crashed: `e` is the failure of the orchestration, in place of the reaction to a (non-empty) `done` set every job
      of which ended with no `tick` since -/
def ExitCause (c : Cfg) (evs : List EvB) (e : EvB) (s : Nat) (st0 : StB) : Exit → Prop
  | .critical => e = .react s ∧ ∃ D, st0.a.rx s = some D ∧
      (∃ k ∈ D, c.critical k = true ∧ ∃ ex, st0.a.ph k = .done (.exc ex)) ∧
      ∀ k ∈ D, k ∈ c.children s ∧ (st0.a.ph k).isDone = true ∧ CausedAt c evs (fun st e => jobEnds c st k e)
  | .success => e = .react s ∧ ∃ D, st0.a.rx s = some D ∧ D ≠ [] ∧ critIn c st0.a D = false ∧
      st0.nbDone s + (D.filter fun d => !c.forever d).length = nbFinite c s ∧
      ∀ k ∈ D, k ∈ c.children s ∧ (st0.a.ph k).isDone = true ∧ CausedAt c evs (fun st e => jobEnds c st k e)
  | .timeout =>
      (∃ T, c.timeout s = some T ∧ st0.a.now = st0.tbegin s + T ∧
        ∀ a d b sta, evs = a ++ .tick d :: b → acceptB c StB.init a = some sta → (∀ x ∈ b, isTick x = false) →
          sta.a.now < st0.tbegin s + T ∧ sta.a.now + d = st0.tbegin s + T) ∧
      (e = .timeoutFire s ∨
       (e = .react s ∧ ∃ D, st0.a.rx s = some D ∧ D ≠ [] ∧ critIn c st0.a D = false ∧
          st0.nbDone s + (D.filter fun d => !c.forever d).length ≠ nbFinite c s ∧
          ∀ k ∈ D, k ∈ c.children s ∧ (st0.a.ph k).isDone = true ∧ CausedAt c evs (fun st e => jobEnds c st k e)))
  | .cancelled => e = .cancelArrive s ∧ CausedAt c evs (cancelsTask c s)
  | .crashed => e = .orchFail s ∧ ∃ D, st0.a.rx s = some D ∧ D ≠ [] ∧
      ∀ k ∈ D, k ∈ c.children s ∧ (st0.a.ph k).isDone = true ∧ CausedAt c evs (fun st e => jobEnds c st k e)

/-- C05 / C08 / C09 "at that same instant" (1): in every accepted history, the step by which a run leaves its main
    loop (for reason `x`) happens with no passing of time since its cause -/
theorem exit_no_latency (c : Cfg) (hwf : c.wf = true) (evs : List EvB) (e : EvB) (s : Nat) (st0 st : StB) (x : Exit)
    (h0 : acceptB c StB.init evs = some st0) (h1 : stepB c st0 e = some st)
    (hloop : st0.pcB s = .loop) (hx : st.pcB s = .tidy x) : ExitCause c evs e s st0 x := by
  have hB := invB_reach c hwf evs st0 h0
  have hr := ExitB.exit_reason c st0 st e s x hB h1 hloop hx
  cases x with
  | critical =>
    obtain ⟨he, D, hD, hcrit⟩ := hr
    refine ⟨he, D, hD, ?_, fun k hk => reacted_no_latency c hwf evs s st0 h0 hloop D hD k hk⟩
    simp only [critIn, List.any_eq_true, Bool.and_eq_true] at hcrit
    obtain ⟨k, hk, hc, hp⟩ := hcrit
    refine ⟨k, hk, hc, ?_⟩
    split at hp
    · rename_i ex hph; exact ⟨ex, hph⟩
    · cases hp
  | success =>
    obtain ⟨he, D, hD, hcrit, hcnt⟩ := hr
    exact ⟨he, D, hD, rx_nonempty c evs st0 h0 s D hD, hcrit, hcnt,
      fun k hk => reacted_no_latency c hwf evs s st0 h0 hloop D hD k hk⟩
  | timeout =>
    obtain ⟨dl, hdl, hle, hr⟩ := hr
    refine ⟨expiry_at_deadline c hwf evs s st0 h0 hloop (by simp [expired, hdl, hle]), ?_⟩
    rcases hr with ⟨he, _⟩ | ⟨he, D, hD, hcrit, hcnt⟩
    · exact Or.inl he
    · exact Or.inr ⟨he, D, hD, rx_nonempty c evs st0 h0 s D hD, hcrit, hcnt,
        fun k hk => reacted_no_latency c hwf evs s st0 h0 hloop D hD k hk⟩
  | cancelled =>
    subst hr
    exact ⟨rfl, cancel_no_latency c hwf evs s st0 st h0 h1⟩
  | crashed =>
    obtain ⟨he, D, hD⟩ := hr
    exact ⟨he, D, hD, rx_nonempty c evs st0 h0 s D hD,
      fun k hk => reacted_no_latency c hwf evs s st0 h0 hloop D hD k hk⟩

/-- C05 / C08 / C09 "at that same instant" (2): the step by which a run leaves its main loop — separated by no `tick`
    from its cause — calls `cancel()` on every job of the run that is still queued or running, and starts nothing:
    every unfinished job is cancelled at the very instant of the cause -/
theorem exit_cancels_at_once (c : Cfg) (hwf : c.wf = true) (evs : List EvB) (e : EvB) (s : Nat) (st0 st : StB)
    (h0 : acceptB c StB.init evs = some st0) (h1 : stepB c st0 e = some st)
    (hloop : st0.pcB s = .loop) (hleft : st.pcB s ≠ .loop) :
    ∃ x, st.pcB s = .tidy x ∧ ExitCause c evs e s st0 x ∧
      (∀ k ∈ c.children s, (st0.a.ph k).live = true → st.a.creq k = true) ∧
      (∀ k, st.a.ph k = st0.a.ph k) := by
  have hB := invB_reach c hwf evs st0 h0
  obtain ⟨⟨x, hx⟩, hc, hp⟩ := ExitB.exit_cancels_all c st0 st e s hB h1 hloop hleft
  exact ⟨x, hx, exit_no_latency c hwf evs e s st0 st x h0 h1 hloop hx, hc, hp⟩

/-! ### non-vacuity

  A top-level scheduler with two atomic jobs `1` and `2`, both started at once; three time units pass. -/

def exCfg (crit1 forever2 : Bool) (tmo : Option Nat) : Cfg :=
  { n := 3, parent := fun _ => 0, isSched := fun j => j == 0, req := fun _ => [],
    critical := fun j => crit1 && j == 1, forever := fun j => forever2 && j == 2, window := fun _ => 0,
    timeout := fun j => if j = 0 then tmo else none, sdTimeout := fun _ => none, topPure := true }

/-- what the examples check on a history `evs ++ [e]`: it is accepted, scheduler `0` is in its loop before `e` and
    tidying for reason `x` after it, job `2` is running and not being cancelled before `e`, being cancelled after it -/
def exCheck (c : Cfg) (evs : List EvB) (e : EvB) (x : Exit) : Bool :=
  match acceptB c StB.init evs with
  | none => false
  | some st0 =>
    match stepB c st0 e with
    | none => false
    | some st =>
      decide (st0.pcB 0 = .loop) && decide (st.pcB 0 = .tidy x) && decide (st0.a.ph 2 = .running) &&
      !st0.a.creq 2 && st.a.creq 2

theorem exApply (c : Cfg) (hwf : c.wf = true) (evs : List EvB) (e : EvB) (x : Exit) (h : exCheck c evs e x = true) :
    ∃ st0 st, acceptB c StB.init evs = some st0 ∧ stepB c st0 e = some st ∧ st.pcB 0 = .tidy x ∧
      ExitCause c evs e 0 st0 x ∧ st0.a.creq 2 = false ∧ st.a.creq 2 = true := by
  unfold exCheck at h
  split at h
  · cases h
  · rename_i st0 h0
    split at h
    · cases h
    · rename_i st h1
      simp only [Bool.and_eq_true, decide_eq_true_eq, Bool.not_eq_true'] at h
      obtain ⟨⟨⟨⟨hl, hx⟩, _⟩, hc0⟩, hc⟩ := h
      obtain ⟨x', hx', hcause, _, _⟩ := exit_cancels_at_once c hwf evs e 0 st0 st h0 h1 hl (by simp [hx])
      rw [hx] at hx'; cases hx'
      exact ⟨st0, st, h0, h1, hx, hcause, hc0, hc⟩

/-- critical case: job `1` is critical and raises while job `2` runs; the reaction that aborts the run and cancels
    job `2` comes with no `tick` after `bodyEnd 1 false` -/
def exCritEvs : List EvB := [.runBegin, .grant 1, .grant 2, .tick 3, .bodyEnd 1 false, .waitReturn 0]

example : ∃ st0 st, acceptB (exCfg true false none) StB.init exCritEvs = some st0 ∧
    stepB (exCfg true false none) st0 (.react 0) = some st ∧ st.pcB 0 = .tidy .critical ∧
    ExitCause (exCfg true false none) exCritEvs (.react 0) 0 st0 .critical ∧
    st0.a.creq 2 = false ∧ st.a.creq 2 = true :=
  exApply _ (by decide) _ _ _ (by decide)

/-- the split: the cause is the end of job `1`, the tick lies before it -/
example : exCritEvs = [.runBegin, .grant 1, .grant 2, .tick 3] ++ .bodyEnd 1 false :: [.waitReturn 0] ∧
    (acceptB (exCfg true false none) StB.init [.runBegin, .grant 1, .grant 2, .tick 3]).map
      (fun sta => jobEnds (exCfg true false none) sta 1 (.bodyEnd 1 false)) = some true ∧
    isTick (.waitReturn 0) = false ∧
    (acceptB (exCfg true false none) StB.init exCritEvs).map (fun st => (st.a.rx 0, st.a.ph 1)) =
      some (some [1], .done (.exc (.byJob 1))) := by
  refine ⟨rfl, ?_, ?_, ?_⟩ <;> decide

/-- time cannot pass between the end of the critical job and the cancellation of its sibling -/
example : (acceptB (exCfg true false none) StB.init [.runBegin, .grant 1, .grant 2, .tick 3, .bodyEnd 1 false, .tick 1]).isNone = true ∧
    (acceptB (exCfg true false none) StB.init (exCritEvs ++ [.tick 1])).isNone = true := by
  constructor <;> decide

/-- success case with a forever job: job `2` is a forever job; when job `1` (the last regular job) returns, the
    reaction that ends the run and cancels job `2` comes with no `tick` after `bodyEnd 1 true` -/
def exSuccEvs : List EvB := [.runBegin, .grant 1, .grant 2, .tick 3, .bodyEnd 1 true, .waitReturn 0]

example : ∃ st0 st, acceptB (exCfg false true none) StB.init exSuccEvs = some st0 ∧
    stepB (exCfg false true none) st0 (.react 0) = some st ∧ st.pcB 0 = .tidy .success ∧
    ExitCause (exCfg false true none) exSuccEvs (.react 0) 0 st0 .success ∧
    st0.a.creq 2 = false ∧ st.a.creq 2 = true :=
  exApply _ (by decide) _ _ _ (by decide)

example : exSuccEvs = [.runBegin, .grant 1, .grant 2, .tick 3] ++ .bodyEnd 1 true :: [.waitReturn 0] ∧
    (acceptB (exCfg false true none) StB.init [.runBegin, .grant 1, .grant 2, .tick 3]).map
      (fun sta => jobEnds (exCfg false true none) sta 1 (.bodyEnd 1 true)) = some true ∧
    (acceptB (exCfg false true none) StB.init (exSuccEvs ++ [.tick 1])).isNone = true := by
  refine ⟨rfl, ?_, ?_⟩ <;> decide

/-- timeout case: `timeout = 3`; the expiry fires at instant 3 = begin + 3, reached by the last tick -/
def exTmoEvs : List EvB := [.runBegin, .grant 1, .grant 2, .tick 3]

example : ∃ st0 st, acceptB (exCfg false false (some 3)) StB.init exTmoEvs = some st0 ∧
    stepB (exCfg false false (some 3)) st0 (.timeoutFire 0) = some st ∧ st.pcB 0 = .tidy .timeout ∧
    ExitCause (exCfg false false (some 3)) exTmoEvs (.timeoutFire 0) 0 st0 .timeout ∧
    st0.a.creq 2 = false ∧ st.a.creq 2 = true :=
  exApply _ (by decide) _ _ _ (by decide)

/-- timeout noticed in a reaction: `timeout = 3` and job `1` returns at instant 3 = begin + 3; the reaction to its
    completion takes the timeout exit and cancels job `2`, with no `tick` after `bodyEnd 1 true` -/
def exTmoReactEvs : List EvB := [.runBegin, .grant 1, .grant 2, .tick 3, .bodyEnd 1 true, .waitReturn 0]

example : ∃ st0 st, acceptB (exCfg false false (some 3)) StB.init exTmoReactEvs = some st0 ∧
    stepB (exCfg false false (some 3)) st0 (.react 0) = some st ∧ st.pcB 0 = .tidy .timeout ∧
    ExitCause (exCfg false false (some 3)) exTmoReactEvs (.react 0) 0 st0 .timeout ∧
    st0.a.creq 2 = false ∧ st.a.creq 2 = true :=
  exApply _ (by decide) _ _ _ (by decide)

/-- … while the same reaction one instant earlier goes on (nothing is cancelled) -/
example : (acceptB (exCfg false false (some 3)) StB.init
      [.runBegin, .grant 1, .grant 2, .tick 2, .bodyEnd 1 true, .waitReturn 0, .react 0]).map
      (fun st => (st.pcB 0, st.failT 0, st.a.creq 2)) = some (.loop, false, false) ∧
    (acceptB (exCfg false false (some 3)) StB.init (exTmoReactEvs ++ [.react 0])).map
      (fun st => (st.pcB 0, st.failT 0, st.a.creq 2)) = some (.tidy .timeout, true, true) := by
  constructor <;> decide

/-- … not before (the clock cannot go beyond the deadline either) -/
example : (acceptB (exCfg false false (some 3)) StB.init [.runBegin, .grant 1, .grant 2, .tick 2, .timeoutFire 0]).isNone = true ∧
    (acceptB (exCfg false false (some 3)) StB.init [.runBegin, .grant 1, .grant 2, .tick 4]).isNone = true ∧
    (acceptB (exCfg false false (some 3)) StB.init (exTmoEvs ++ [.tick 1])).isNone = true := by
  refine ⟨?_, ?_, ?_⟩ <;> decide

/-- cancelled case, at the top: somebody outside cancels the task of `0` at instant 3 (`extCancel`); the delivery that
    takes the run out of its loop and cancels job `2` comes with no `tick` after that request -/
def exCanEvs : List EvB := [.runBegin, .grant 1, .grant 2, .tick 3, .extCancel]

example : ∃ st0 st, acceptB (exCfg false false none) StB.init exCanEvs = some st0 ∧
    stepB (exCfg false false none) st0 (.cancelArrive 0) = some st ∧ st.pcB 0 = .tidy .cancelled ∧
    ExitCause (exCfg false false none) exCanEvs (.cancelArrive 0) 0 st0 .cancelled ∧
    st0.a.creq 2 = false ∧ st.a.creq 2 = true :=
  exApply _ (by decide) _ _ _ (by decide)

/-- the split: the cause is the `extCancel`, the tick lies before it; time cannot pass before the delivery -/
example : exCanEvs = [.runBegin, .grant 1, .grant 2, .tick 3] ++ .extCancel :: [] ∧
    (acceptB (exCfg false false none) StB.init [.runBegin, .grant 1, .grant 2, .tick 3]).map
      (fun sta => cancelsTask (exCfg false false none) 0 sta .extCancel) = some true ∧
    (acceptB (exCfg false false none) StB.init (exCanEvs ++ [.tick 1])).isNone = true := by
  refine ⟨rfl, ?_, ?_⟩ <;> decide

end AJ.Proofs.LatC
