/-
  The layer-A theorems of C01, C02, C07, C14 hold without the timing assumption (and, except C07, without the window
  discipline): they are re-proved here for the lax model `stepAL` / `acceptAL` of AJ/Model/Lax.lean.
-/
import AJ.Model.Lax
import AJ.Proofs.HistA
import AJ.Proofs.ResA
import AJ.Proofs.CoreA
namespace AJ.Proofs.LaxA
open AJ.Run AJ.Proofs.CoreA

/-! ### one lax step is a strict step or a bare clock advance -/

theorem stepAL_cases {c : Cfg} {st st' : StA} {e : EvA} (h : stepAL c st e = some st') :
    (∃ d, e = .tick d ∧ st' = { st with now := st.now + d }) ∨ ((∀ d, e ≠ .tick d) ∧ stepA c st e = some st') := by
  cases e with
  | tick d =>
    left
    simp only [stepAL] at h
    split at h
    · cases h; exact ⟨d, rfl, rfl⟩
    · cases h
  | _ => right; exact ⟨(by intro d hd; cases hd), h⟩

/-- the strict model is included in the lax one -/
theorem stepA_sub_stepAL (c : Cfg) (st st' : StA) (e : EvA) (h : stepA c st e = some st') :
    stepAL c st e = some st' := by
  cases e with
  | tick d =>
    simp only [stepA] at h
    split at h
    · next hg => cases h; simp [stepAL, hg.1]
    · cases h
  | _ => exact h

theorem acceptA_sub_acceptAL (c : Cfg) (evs : List EvA) (st0 st : StA) (h : acceptA c st0 evs = some st) :
    acceptAL c st0 evs = some st := by
  induction evs generalizing st0 with
  | nil => simpa [acceptA, acceptAL] using h
  | cons e es ih =>
    simp only [acceptA] at h
    cases h1 : stepA c st0 e with
    | none => simp [h1] at h
    | some st1 =>
      rw [h1] at h
      simp only [acceptAL, stepA_sub_stepAL c st0 st1 e h1]
      exact ih st1 h

/-! ### removing the windows -/

theorem slotFree_noWindow (c : Cfg) (st : StA) (p : Nat) : slotFree c.noWindow st p = true := by
  simp [slotFree, Cfg.noWindow]

theorem beginRun_noWindow (c : Cfg) (st : StA) (s : Nat) : beginRun c.noWindow st s = beginRun c st s := rfl

theorem stepAL_noWindow (c : Cfg) (st st' : StA) (e : EvA) (h : stepAL c st e = some st') :
    stepAL c.noWindow st e = some st' := by
  cases e with
  | grant j =>
    simp only [stepAL, stepA] at h ⊢
    split at h
    · next hg =>
      have hg' : 0 < j ∧ j < c.noWindow.n ∧ st.ph j = .queued ∧ st.creq j = false ∧
          slotFree c.noWindow st (c.noWindow.parent j) = true :=
        ⟨hg.1, hg.2.1, hg.2.2.1, hg.2.2.2.1, slotFree_noWindow c st _⟩
      rw [if_pos hg']
      exact h
    · cases h
  | _ => exact h

/-- removing the windows only enlarges the set of accepted histories -/
theorem acceptAL_noWindow (c : Cfg) (evs : List EvA) (st0 st : StA) (h : acceptAL c st0 evs = some st) :
    acceptAL c.noWindow st0 evs = some st := by
  induction evs generalizing st0 with
  | nil => simpa [acceptAL] using h
  | cons e es ih =>
    simp only [acceptAL] at h
    cases h1 : stepAL c st0 e with
    | none => simp [h1] at h
    | some st1 =>
      rw [h1] at h
      simp only [acceptAL, stepAL_noWindow c st0 st1 e h1]
      exact ih st1 h

/-! ### `acceptAL` and list append -/

theorem acceptAL_append (c : Cfg) (st : StA) (e1 e2 : List EvA) :
    acceptAL c st (e1 ++ e2) = (acceptAL c st e1).bind fun st1 => acceptAL c st1 e2 := by
  induction e1 generalizing st with
  | nil => simp [acceptAL]
  | cons e es ih =>
    simp only [List.cons_append, acceptAL]
    cases stepAL c st e with
    | none => simp
    | some st' => simp [ih]

theorem acceptAL_snoc (c : Cfg) (st : StA) (evs : List EvA) (e : EvA) :
    acceptAL c st (evs ++ [e]) = (acceptAL c st evs).bind fun st1 => stepAL c st1 e := by
  rw [acceptAL_append]
  congr 1
  funext st1
  simp only [acceptAL]
  cases stepAL c st1 e <;> rfl

theorem acceptAL_snoc_some {c : Cfg} {st st' : StA} {evs : List EvA} {e : EvA}
    (h : acceptAL c st (evs ++ [e]) = some st') :
    ∃ st0, acceptAL c st evs = some st0 ∧ stepAL c st0 e = some st' := by
  rw [acceptAL_snoc] at h
  cases h0 : acceptAL c st evs with
  | none => simp [h0] at h
  | some st0 => exact ⟨st0, rfl, by simpa [h0] using h⟩

/-! ### the per-step facts of `HistAStep`, for the lax step -/

open AJ.Proofs.HistA

theorem stepL_isDone (c : Cfg) (st st' : StA) (e : EvA) (h : stepAL c st e = some st') (j : Nat) :
    isDone st' j = (isDone st j || finishes c j e) := by
  rcases stepAL_cases h with ⟨d, rfl, rfl⟩ | ⟨_, h'⟩
  · simp [isDone, finishes]
  · exact step_isDone c st st' e h' j

theorem stepL_rflag (c : Cfg) (st st' : StA) (e : EvA) (h : stepAL c st e = some st') (j : Nat) :
    st'.rflag j = (st.rflag j || begins j e) := by
  rcases stepAL_cases h with ⟨d, rfl, rfl⟩ | ⟨_, h'⟩
  · simp [begins]
  · exact step_rflag c st st' e h' j

theorem stepL_pc (c : Cfg) (st st' : StA) (e : EvA) (h : stepAL c st e = some st') (s : Nat)
    (hs : st'.pc s ≠ .notBegun) : st.pc s ≠ .notBegun ∨ begins s e = true := by
  rcases stepAL_cases h with ⟨d, rfl, rfl⟩ | ⟨_, h'⟩
  · exact Or.inl hs
  · exact step_pc c st st' e h' s hs

theorem stepL_begins_early (c : Cfg) (st st' : StA) (e : EvA) (h : stepAL c st e = some st') (j : Nat)
    (hb : begins j e = true) : early (st.ph j) = true := by
  rcases stepAL_cases h with ⟨d, rfl, rfl⟩ | ⟨_, h'⟩
  · simp [begins] at hb
  · exact step_begins_early c st st' e h' j hb

theorem stepL_early (c : Cfg) (st st' : StA) (e : EvA) (h : stepAL c st e = some st') (j : Nat)
    (he : early (st'.ph j) = true) : early (st.ph j) = true ∧ begins j e = false := by
  rcases stepAL_cases h with ⟨d, rfl, rfl⟩ | ⟨_, h'⟩
  · exact ⟨he, by simp [begins]⟩
  · exact step_early c st st' e h' j he

theorem stepL_pc_mono (c : Cfg) (st st' : StA) (e : EvA) (h : stepAL c st e = some st') (s : Nat)
    (hs : st.pc s ≠ .notBegun) : st'.pc s ≠ .notBegun := by
  rcases stepAL_cases h with ⟨d, rfl, rfl⟩ | ⟨_, h'⟩
  · exact hs
  · exact step_pc_mono c st st' e h' s hs

theorem stepL_leave_idle (c : Cfg) (st st' : StA) (e : EvA) (h : stepAL c st e = some st') (k : Nat)
    (hk : k ≠ 0) (hi : st.ph k = .idle) (hn : st'.ph k ≠ .idle) :
    st'.pc (c.parent k) ≠ .notBegun ∧ ∀ r ∈ c.req k, isDone st' r = true := by
  rcases stepAL_cases h with ⟨d, rfl, rfl⟩ | ⟨_, h'⟩
  · exact absurd hi hn
  · exact step_leave_idle c st st' e h' k hk hi hn

/-! ### the ghost invariant along lax histories -/

theorem ghostL_step (c : Cfg) (evs : List EvA) (st st' : StA) (e : EvA)
    (g : Ghost c evs st) (h : stepAL c st e = some st') : Ghost c (evs ++ [e]) st' where
  done := by
    intro j
    rw [finishedIn_snoc, stepL_isDone c st st' e h j, g.done j]
  run := by
    intro j
    rw [begunIn_snoc, stepL_rflag c st st' e h j, g.run j]
  pc := by
    intro s hs
    rw [begunIn_snoc]
    rcases stepL_pc c st st' e h s hs with h1 | h1
    · simp [g.pc s h1]
    · simp [h1]
  once := by
    intro j
    rw [beginCount_snoc]
    have ⟨h1, h2⟩ := g.once j
    by_cases hb : begins j e = true
    · have he := stepL_begins_early c st st' e h j hb
      have h0 : beginCount evs j = 0 := by
        by_cases h01 : beginCount evs j = 1
        · rw [h2 h01] at he; cases he
        · omega
      simp only [hb, if_true, h0]
      refine ⟨by omega, fun _ => ?_⟩
      cases he' : early (st'.ph j) with
      | false => rfl
      | true => have := (stepL_early c st st' e h j he').2; rw [hb] at this; cases this
    · simp only [hb]
      refine ⟨by simpa using h1, fun h01 => ?_⟩
      have hst := h2 (by simpa using h01)
      cases he' : early (st'.ph j) with
      | false => rfl
      | true => have := (stepL_early c st st' e h j he').1; rw [hst] at this; cases this
  started := by
    intro k hk hn
    by_cases hi : st.ph k = .idle
    · exact stepL_leave_idle c st st' e h k hk hi hn
    · have ⟨h1, h2⟩ := g.started k hk hi
      refine ⟨stepL_pc_mono c st st' e h _ h1, fun r hr => ?_⟩
      rw [stepL_isDone c st st' e h r, h2 r hr]; rfl

theorem ghostL_accept (c : Cfg) (evs : List EvA) :
    ∀ (pre : List EvA) (st0 st : StA), Ghost c pre st0 → acceptAL c st0 evs = some st →
      Ghost c (pre ++ evs) st := by
  induction evs with
  | nil =>
    intro pre st0 st g h
    simp only [acceptAL, Option.some.injEq] at h
    subst h; simpa using g
  | cons e es ih =>
    intro pre st0 st g h
    simp only [acceptAL] at h
    cases h1 : stepAL c st0 e with
    | none => simp [h1] at h
    | some st1 =>
      rw [h1] at h
      have := ih (pre ++ [e]) st1 st (ghostL_step c pre st0 st1 e g h1) h
      simpa [List.append_assoc] using this

theorem ghostL_reach (c : Cfg) (evs : List EvA) (st : StA) (h : acceptAL c StA.init evs = some st) :
    Ghost c evs st := by
  simpa using ghostL_accept c evs [] StA.init st (ghost_init c) h

theorem grantL_guard {c : Cfg} {st st' : StA} {j : Nat} (h : stepAL c st (.grant j) = some st') :
    0 < j ∧ j < c.n ∧ st.ph j = .queued :=
  grant_guard (c := c) (st := st) (st' := st') h

/-! ### the invariant of `CoreA` along lax histories -/

theorem invAL_step (c : Cfg) (hwf : c.wf = true) (st st' : StA) (e : EvA)
    (hinv : InvA c st) (h : stepAL c st e = some st') : InvA c st' := by
  rcases stepAL_cases h with ⟨d, rfl, rfl⟩ | ⟨_, h'⟩
  · exact inv_tick hinv _
  · exact invA_step c hwf st st' e hinv h'

theorem invAL_reach_from (c : Cfg) (hwf : c.wf = true) (evs : List EvA) :
    ∀ (st0 st : StA), InvA c st0 → acceptAL c st0 evs = some st → InvA c st := by
  induction evs with
  | nil => intro st0 st h0 h; simp only [acceptAL] at h; cases h; exact h0
  | cons e es ih =>
    intro st0 st h0 h
    simp only [acceptAL] at h
    split at h
    · rename_i st1 hs
      exact ih st1 st (invAL_step c hwf st0 st1 e h0 hs) h
    · cases h

theorem invAL_reach (c : Cfg) (hwf : c.wf = true) (evs : List EvA) (st : StA)
    (h : acceptAL c StA.init evs = some st) : InvA c st :=
  invAL_reach_from c hwf evs StA.init st (invA_init c) h

/-! ### the theorems -/

/-- C01 without timing assumption -/
theorem requirements_first (c : Cfg) (evs : List EvA) (j : Nat) (st : StA)
    (h : acceptAL c StA.init (evs ++ [.grant j]) = some st) :
    ∀ r ∈ c.req j, finishedIn c evs r = true := by
  obtain ⟨st0, h0, hstep⟩ := acceptAL_snoc_some h
  have ⟨hj, _, hq⟩ := grantL_guard hstep
  have g := ghostL_reach c evs st0 h0
  intro r hr
  rw [← g.done r]
  exact (g.started j (by omega) (by simp [hq])).2 r hr

theorem parent_first (c : Cfg) (evs : List EvA) (j : Nat) (st : StA)
    (h : acceptAL c StA.init (evs ++ [.grant j]) = some st) :
    begunIn evs (c.parent j) = true := by
  obtain ⟨st0, h0, hstep⟩ := acceptAL_snoc_some h
  have ⟨hj, _, hq⟩ := grantL_guard hstep
  have g := ghostL_reach c evs st0 h0
  exact g.pc _ (g.started j (by omega) (by simp [hq])).1

/-- C02 without timing assumption -/
theorem at_most_once (c : Cfg) (evs : List EvA) (st : StA)
    (h : acceptAL c StA.init evs = some st) (j : Nat) : beginCount evs j ≤ 1 :=
  ((ghostL_reach c evs st h).once j).1

/-- C14 without timing assumption -/
theorem done_iff_finished (c : Cfg) (evs : List EvA) (st : StA)
    (h : acceptAL c StA.init evs = some st) (j : Nat) :
    isDone st j = true ↔ finishedIn c evs j = true := by
  rw [(ghostL_reach c evs st h).done j]

theorem running_iff_begun (c : Cfg) (evs : List EvA) (st : StA)
    (h : acceptAL c StA.init evs = some st) (j : Nat) :
    isRunning st j = true ↔ begunIn evs j = true := by
  unfold isRunning
  rw [(ghostL_reach c evs st h).run j]

theorem predicates_chain (c : Cfg) (hwf : c.wf = true) (evs : List EvA) (st : StA)
    (h : acceptAL c StA.init evs = some st) (j : Nat) :
    (isDone st j = true → isRunning st j = true) ∧
    (isRunning st j = true → isScheduled st j = true) ∧
    (isIdle st j = !isScheduled st j) ∧
    (st.ph j = .queued → isScheduled st j = true ∧ isRunning st j = false) ∧
    ((st.ph j = .cancelled ∨ st.ph j = .idle) → isDone st j = false) := by
  have hinv := invAL_reach c hwf evs st h
  have hoff := hinv.rflagOff j
  have hon := hinv.rflagOn j
  simp only [isDone, isRunning, isScheduled, isIdle]
  refine ⟨fun hd => hon (Or.inr hd), ?_, ?_, ?_, ?_⟩
  · intro hr
    by_cases hi : st.ph j = .idle
    · rw [hoff (Or.inl hi)] at hr; cases hr
    · simpa using hi
  · simp only [bne, Bool.not_not]
  · intro hq
    exact ⟨by simp [hq], hoff (Or.inr hq)⟩
  · rintro (hc | hc) <;> simp [hc, Ph.isDone]

/-- C07 without timing assumption (the window discipline is of course needed) -/
theorem window_respected (c : Cfg) (hwf : c.wf = true) (evs : List EvA) (st : StA)
    (h : acceptAL c StA.init evs = some st) (s : Nat) (hs : s < c.n) (hsch : c.isSched s = true)
    (hw : c.window s ≠ 0) : runningCount c st s ≤ c.window s := by
  have hinv := invAL_reach c hwf evs st h
  rw [← hinv.qcountEq s hs hsch]
  exact hinv.qcountLe s hs hsch hw

end AJ.Proofs.LaxA
