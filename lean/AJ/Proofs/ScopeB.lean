/-
  Scope of a scheduler's window and timeout (C07, C10): the window of scheduler `s` is read only when a job *of s*
  asks for a slot (and by the urgency guard of the clock), its timeout only to arm its own deadline.
-/
import AJ.Proofs.CoreB
namespace AJ.Proofs.ScopeB
open AJ.Run AJ.Full

/-- the same configuration with another window for scheduler `s` -/
def setWindow (c : Cfg) (s w : Nat) : Cfg := { c with window := fun k => if k = s then w else c.window k }

/-- the same configuration with another timeout for scheduler `s` -/
def setTimeout (c : Cfg) (s : Nat) (T : Option Nat) : Cfg := { c with timeout := fun k => if k = s then T else c.timeout k }

/-! ### helper functions of the model that never look at the window -/

theorem sw_n (c : Cfg) (s w : Nat) : (setWindow c s w).n = c.n := rfl
theorem sw_parent (c : Cfg) (s w : Nat) : (setWindow c s w).parent = c.parent := rfl
theorem sw_isSched (c : Cfg) (s w : Nat) : (setWindow c s w).isSched = c.isSched := rfl
theorem sw_children (c : Cfg) (s w k : Nat) : (setWindow c s w).children k = c.children k := rfl
theorem sw_window_ne (c : Cfg) (s w p : Nat) (h : p ≠ s) : (setWindow c s w).window p = c.window p := by
  simp [setWindow, h]
theorem sw_window_eq (c : Cfg) (s w : Nat) : (setWindow c s w).window s = w := by
  simp [setWindow]
theorem beginRun_sw (c : Cfg) (s w : Nat) (st : StA) (k : Nat) : beginRun (setWindow c s w) st k = beginRun c st k := rfl
theorem release_sw (c : Cfg) (s w : Nat) (st : StA) (k : Nat) : release (setWindow c s w) st k = release c st k := rfl
theorem doneSet_sw (c : Cfg) (s w : Nat) (st : StA) (k : Nat) : doneSet (setWindow c s w) st k = doneSet c st k := rfl
theorem entrySet_sw (c : Cfg) (s w k : Nat) : entrySet (setWindow c s w) k = entrySet c k := rfl
theorem startCands_sw (c : Cfg) (s w : Nat) (st : StA) (k : Nat) (D : List Nat) :
    startCands (setWindow c s w) st k D = startCands c st k D := rfl

/-- the slots of another scheduler than `s` are counted against that scheduler's own window -/
theorem slotFree_sw_ne (c : Cfg) (s w : Nat) (st : StA) (p : Nat) (h : p ≠ s) :
    slotFree (setWindow c s w) st p = slotFree c st p := by
  simp only [slotFree, sw_window_ne c s w p h]

/-- the slots of `s` are counted against the new window -/
theorem slotFree_sw_eq (c : Cfg) (s w : Nat) (st : StA) :
    slotFree (setWindow c s w) st s = (w == 0 || decide (st.qcount s < w)) := by
  simp only [slotFree, sw_window_eq]

/-- a slot request reads the window only through the answer "is a slot free?" -/
theorem grant_congr (c c' : Cfg) (st : StA) (j : Nat)
    (hn : c'.n = c.n) (hp : c'.parent = c.parent) (hs : c'.isSched = c.isSched)
    (hb : ∀ a k, beginRun c' a k = beginRun c a k) (hr : ∀ a k, release c' a k = release c a k)
    (hc : ∀ k, c'.children k = c.children k)
    (h : slotFree c' st (c.parent j) = slotFree c st (c.parent j)) :
    stepA c' st (.grant j) = stepA c st (.grant j) := by
  simp only [stepA, hn, hp, hs, hb, hr, hc, h]

theorem grant_sw (c : Cfg) (s w : Nat) (st : StA) (j : Nat)
    (h : slotFree (setWindow c s w) st (c.parent j) = slotFree c st (c.parent j)) :
    stepA (setWindow c s w) st (.grant j) = stepA c st (.grant j) :=
  grant_congr c (setWindow c s w) st j rfl rfl rfl (fun _ _ => rfl) (fun _ _ => rfl) (fun _ => rfl) h

/-- a slot request is accepted only when a slot is free -/
theorem grant_needs_slot (c : Cfg) (st st' : StA) (j : Nat) (h : stepA c st (.grant j) = some st') :
    slotFree c st (c.parent j) = true := by
  simp only [stepA] at h
  split at h
  · rename_i hc; exact hc.2.2.2.2
  · cases h

/-- C07 / C10 (layer A): apart from the passing of time, the only step that reads the window of `s` is a job of `s`
    itself obtaining a slot: every other step is the same whatever that window is -/
theorem window_scoped_A (c : Cfg) (s w : Nat) (st : StA) (e : EvA)
    (hg : ∀ j, e = .grant j → c.parent j ≠ s) (ht : ∀ d, e ≠ .tick d) :
    stepA (setWindow c s w) st e = stepA c st e := by
  cases e
  case grant j => exact grant_sw c s w st j (slotFree_sw_ne c s w st _ (hg j rfl))
  case tick d => exact absurd rfl (ht d)
  all_goals rfl

/-! ### layer B -/

theorem beginB_sw (c : Cfg) (s w : Nat) (st : StB) (k : Nat) (a' : StA) :
    beginB (setWindow c s w) st k a' = beginB c st k a' := rfl

/-- C07 / C10 (layer B): the same for the full model -/
theorem window_scoped_B (c : Cfg) (s w : Nat) (st : StB) (e : EvB)
    (hg : ∀ j, e = .grant j → c.parent j ≠ s) (ht : ∀ d, e ≠ .tick d) :
    stepB (setWindow c s w) st e = stepB c st e := by
  cases e
  case grant j =>
    have hA := window_scoped_A c s w st.a (.grant j) (fun j' hj' => by cases hj'; exact hg j rfl) (fun d hd => by cases hd)
    simp only [stepB, hA, sw_isSched, beginB_sw]
    rfl
  case tick d => exact absurd rfl (ht d)
  all_goals rfl

/-- C07: widening the window of `s` never disables a slot request: a job that obtains a slot under window `w` of its
    scheduler obtains it under any larger window, and under no window at all (0) -/
theorem window_monotone (c : Cfg) (s w w' : Nat) (st st' : StA) (j : Nat)
    (h : stepA (setWindow c s w) st (.grant j) = some st') (hw : w' = 0 ∨ (w ≠ 0 ∧ w ≤ w')) :
    stepA (setWindow c s w') st (.grant j) = some st' := by
  by_cases hp : c.parent j = s
  · have hfree := grant_needs_slot _ _ _ _ h
    have hfree' : slotFree (setWindow c s w') st (c.parent j) = true := by
      rw [show (setWindow c s w).parent j = c.parent j from rfl, hp, slotFree_sw_eq] at hfree
      rw [hp, slotFree_sw_eq]
      cases hw with
      | inl h0 => simp [h0]
      | inr hww =>
        have : st.qcount s < w := by simpa [hww.1] using hfree
        have : st.qcount s < w' := Nat.lt_of_lt_of_le this hww.2
        simp [this]
    rw [show (setWindow c s w).parent j = c.parent j from rfl] at hfree
    have e1 : stepA (setWindow c s w') st (.grant j) = stepA (setWindow c s w) st (.grant j) :=
      grant_congr (setWindow c s w) (setWindow c s w') st j rfl rfl rfl (fun _ _ => rfl) (fun _ _ => rfl) (fun _ => rfl)
        (by rw [show (setWindow c s w).parent j = c.parent j from rfl, hfree, hfree'])
    rw [e1]; exact h
  · rw [grant_sw c s w st j (slotFree_sw_ne c s w st _ hp)] at h
    rw [grant_sw c s w' st j (slotFree_sw_ne c s w' st _ hp)]
    exact h

/-! ### the timeout -/

theorem stepA_st (c : Cfg) (s : Nat) (T : Option Nat) (a : StA) (e : EvA) : stepA (setTimeout c s T) a e = stepA c a e := by
  cases e <;> rfl

theorem st_timeout_ne (c : Cfg) (s : Nat) (T : Option Nat) (k : Nat) (h : k ≠ s) : (setTimeout c s T).timeout k = c.timeout k := by
  simp [setTimeout, h]

theorem st_children (c : Cfg) (s : Nat) (T : Option Nat) (k : Nat) : (setTimeout c s T).children k = c.children k := rfl
theorem st_isSched (c : Cfg) (s : Nat) (T : Option Nat) : (setTimeout c s T).isSched = c.isSched := rfl

/-- beginning the run of another scheduler than `s` arms that scheduler's own timeout -/
theorem beginB_st_ne (c : Cfg) (s : Nat) (T : Option Nat) (st : StB) (k : Nat) (a' : StA) (h : k ≠ s) :
    beginB (setTimeout c s T) st k a' = beginB c st k a' := by
  simp only [beginB, st_children, st_timeout_ne c s T k h]

/-- C10 (layer B): the timeout of `s` is read only when the run of `s` begins (to arm its own deadline): every step
    that does not begin the run of `s` is the same whatever that timeout is.  (`runBegin` begins the run of the
    top-level scheduler 0, `grant s` that of a nested scheduler `s`.) -/
theorem timeout_scoped_B (c : Cfg) (s : Nat) (T : Option Nat) (st : StB) (e : EvB)
    (hb : e ≠ .grant s) (hr : e = .runBegin → s ≠ 0) :
    stepB (setTimeout c s T) st e = stepB c st e := by
  cases e
  case runBegin =>
    simp only [stepB, stepA_st, beginB_st_ne c s T st 0 _ (fun h0 => hr rfl h0.symm)]
  case grant j =>
    have hj : j ≠ s := fun hjs => hb (by rw [hjs])
    simp only [stepB, stepA_st, st_isSched, beginB_st_ne c s T st j _ hj]
  all_goals rfl

/-! ### the excluded events do read the field (the hypotheses of the theorems above cannot be dropped) -/

/-- two atomic jobs 1, 2 under the top-level scheduler 0 -/
def cfgEx : Cfg :=
  { n := 3, parent := fun _ => 0, isSched := fun k => k == 0, req := fun _ => [], critical := fun _ => false,
    forever := fun _ => false, window := fun _ => 0, timeout := fun _ => none, sdTimeout := fun _ => none, topPure := true }

/-- job 1 running (one slot of scheduler 0 taken), job 2 queued -/
def stEx : StA :=
  { StA.init with ph := fun k => if k = 2 then .queued else .running, pc := setAt StA.init.pc 0 .loop,
                  qcount := fun _ => 1 }

/-- `grant` of a job of `s` reads the window of `s`: refused under window 1, accepted without window -/
example : (stepA (setWindow cfgEx 0 1) stEx (.grant 2)).isSome = false ∧ (stepA cfgEx stEx (.grant 2)).isSome = true := by
  decide

/-- `tick` reads the window of `s` (urgency guard): time may pass under window 1, not without window -/
example : (stepA (setWindow cfgEx 0 1) stEx (.tick 1)).isSome = true ∧ (stepA cfgEx stEx (.tick 1)).isSome = false := by
  decide

/-- `window_monotone` needs `w ≠ 0`: a request accepted without window is refused under window 1 -/
example : (stepA (setWindow cfgEx 0 0) stEx (.grant 2)).isSome = true ∧
    (stepA (setWindow cfgEx 0 1) stEx (.grant 2)).isSome = false := by
  decide

/-- `runBegin` reads the timeout of scheduler 0: the armed deadline differs -/
example : (stepB (setTimeout cfgEx 0 (some 5)) StB.init .runBegin).map (·.deadline 0) = some (some 5) ∧
    (stepB cfgEx StB.init .runBegin).map (·.deadline 0) = some none := by
  decide

end AJ.Proofs.ScopeB
