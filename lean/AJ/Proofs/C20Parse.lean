/-
  C20: the tokens of `dot_format()`'s output parse, by the DOT grammar of `Model/DotParse.lean`, into exactly the
  intended statements: one node statement per atomic job (plus one invisible node per empty nested scheduler, inside
  its cluster), one subgraph per nested scheduler (well nested), one edge
  statement per requirement, nothing else.  Together with `render_lexes` (C20Lex) this makes the output a
  syntactically valid DOT document whose parse is `docStmts`.
-/
import AJ.Model.DotParse
import AJ.Proofs.C20
import AJ.Proofs.C20Lex
import AJ.Proofs.C20ParseAux
namespace AJ.Proofs.C20Parse
open AJ AJ.Proofs.C20 AJ.Proofs.C20Lex AJ.Proofs.C20ParseAux

def attrsOf (as : List (String × String)) : DAttrs := as.map fun kv => (kv.1.toList, kv.2.toList)

/-- the statements one item is meant to be -/
def stmtsOf (c : RenderCtx) : Item → List DStmt
  | .node j => [.node (c.rid j).toList (attrsOf (styleAttrs c j))]
  | .openCluster s =>
    [.openSub (some (clusterName c s).toList), .assign "compound".toList "true".toList,
     .attr "graph".toList (attrsOf (styleAttrs c s))]
  | .close => [.closeSub]
  | .edge a b hd tl =>
    [.edge (c.rid a).toList (c.rid b).toList
      ((match hd with | some h => [("lhead".toList, (clusterName c h).toList)] | none => []) ++
       (match tl with | some t => [("ltail".toList, (clusterName c t).toList)] | none => []))]
  | .holder s => [.node (c.rid s).toList (attrsOf holderAttrs)]

/-- the statements of the whole document -/
def docStmts (c : RenderCtx) (items : List Item) : List DStmt :=
  [.assign "compound".toList "true".toList, .attr "graph".toList []] ++ items.flatMap (stmtsOf c)

/-! ### the statement list -/

theorem idOf_true : idOf? (Tok.id "true".toList) = some "true".toList := by decide
theorem idOf_lhead : idOf? (Tok.id "lhead".toList) = some "lhead".toList := by decide
theorem idOf_ltail : idOf? (Tok.id "ltail".toList) = some "ltail".toList := by decide
theorem idOf_asynciojobs : idOf? (Tok.id "asynciojobs".toList) = some "asynciojobs".toList := by decide
theorem compound_notKeyword : isKeyword "compound".toList = false := by decide

/-- what follows an item is the beginning of a statement or the closing brace of the graph -/
theorem startOk_items (c : RenderCtx) (items : List Item) :
    startOk (items.flatMap (itemToks c) ++ [Tok.rbrace]) = true := by
  cases items with
  | nil => rfl
  | cons it items =>
    match it with
    | .node _ => rfl
    | .openCluster _ => rfl
    | .close => rfl
    | .edge _ _ none none => rfl
    | .edge _ _ none (some _) => rfl
    | .edge _ _ (some _) none => rfl
    | .edge _ _ (some _) (some _) => rfl
    | .holder _ => rfl

/-- the tokens of a list of items that closes the `d` open clusters, followed by the closing brace of the graph,
    parse (at depth `d`) into the statements of the items; one unit of fuel per token is enough -/
theorem parseStmts_items (c : RenderCtx) : ∀ (items : List Item) (d f : Nat), depthOk d items = true →
    (items.flatMap (itemToks c)).length + 1 ≤ f →
    parseStmts f d (items.flatMap (itemToks c) ++ [Tok.rbrace]) = some (items.flatMap (stmtsOf c), [])
  | [], d, f, hd, _ => by
    have : d = 0 := by simpa [depthOk] using hd
    subst this
    exact parseStmts.eq_1 f []
  | it :: items, d, f, hd, hf => by
    have hs := startOk_items c items
    have ih := parseStmts_items c items
    generalize htoks : items.flatMap (itemToks c) ++ [Tok.rbrace] = toks at hs ih
    have hlen : toks.length = (items.flatMap (itemToks c)).length + 1 := by rw [← htoks]; simp
    match it with
    | .node j =>
      have hd' : depthOk d items = true := by cases d <;> simpa [depthOk] using hd
      have e : (Item.node j :: items).flatMap (itemToks c) ++ [Tok.rbrace] =
          Tok.id (c.rid j).toList :: Tok.lbrack :: (attrToks (styleAttrs c j) ++ Tok.rbrack :: toks) := by
        simp [List.flatMap_cons, itemToks, ← htoks]
      have hf' : (attrToks (styleAttrs c j)).length + toks.length + 3 ≤ f := by
        simp only [List.flatMap_cons, itemToks, List.length_append, List.length_cons, List.length_nil] at hf
        omega
      obtain ⟨f', rfl⟩ : ∃ f', f = f' + 1 := ⟨f - 1, by omega⟩
      rw [e]
      exact parseStmts_idStmt (rid_notKeyword c j)
        (parseIdStmt_node (parseAttrList_style c j (by omega) (fun f'' => parseAttrList_of_startOk f'' hs)))
        (by rw [skipSemi_of_startOk hs]; exact ih d f' hd' (by omega))
    | .openCluster s =>
      have hd' : depthOk (d + 1) items = true := by simpa [depthOk] using hd
      have e : (Item.openCluster s :: items).flatMap (itemToks c) ++ [Tok.rbrace] =
          Tok.id "subgraph".toList :: clusterTok c s :: Tok.lbrace :: Tok.id "compound".toList :: Tok.eq ::
            Tok.id "true".toList :: Tok.semi :: Tok.id "graph".toList :: Tok.lbrack ::
              (attrToks (styleAttrs c s) ++ Tok.rbrack :: Tok.semi :: toks) := by
        simp [List.flatMap_cons, itemToks, ← htoks]
      have hf' : (attrToks (styleAttrs c s)).length + toks.length + 11 ≤ f := by
        simp only [List.flatMap_cons, itemToks, List.length_append, List.length_cons, List.length_nil] at hf
        omega
      obtain ⟨f', rfl⟩ : ∃ f', f = f' + 1 + 1 + 1 := ⟨f - 3, by omega⟩
      rw [e]
      exact parseStmts_sub (idOf_cluster c s)
        (parseStmts_idStmt compound_notKeyword (parseIdStmt_assign idOf_true)
          (parseStmts_graph (parseAttrList_style c s (by omega) (fun f'' => parseAttrList_semi f'' toks))
            (ih (d + 1) f' hd' (by omega))))
    | .close =>
      obtain ⟨d', rfl⟩ : ∃ d', d = d' + 1 := by
        cases d with
        | zero => simp [depthOk] at hd
        | succ d' => exact ⟨d', rfl⟩
      have hd' : depthOk d' items = true := by simpa [depthOk] using hd
      have e : (Item.close :: items).flatMap (itemToks c) ++ [Tok.rbrace] = Tok.rbrace :: toks := by
        simp [List.flatMap_cons, itemToks, ← htoks]
      have hf' : toks.length + 1 ≤ f := by
        simp only [List.flatMap_cons, itemToks, List.length_append, List.length_cons, List.length_nil] at hf
        omega
      obtain ⟨f', rfl⟩ : ∃ f', f = f' + 1 := ⟨f - 1, by omega⟩
      rw [e]
      exact parseStmts_close (by rw [skipSemi_of_startOk hs]; exact ih d' f' hd' (by omega))
    | .edge a b none none =>
      have hd' : depthOk d items = true := by cases d <;> simpa [depthOk] using hd
      have e : (Item.edge a b none none :: items).flatMap (itemToks c) ++ [Tok.rbrace] =
          Tok.id (c.rid a).toList :: Tok.arrow :: Tok.id (c.rid b).toList :: Tok.semi :: toks := by
        simp [List.flatMap_cons, itemToks, ← htoks]
      have hf' : toks.length + 4 ≤ f := by
        simp only [List.flatMap_cons, itemToks, List.length_append, List.length_cons, List.length_nil] at hf
        omega
      obtain ⟨f', rfl⟩ : ∃ f', f = f' + 1 := ⟨f - 1, by omega⟩
      rw [e]
      exact parseStmts_idStmt (rid_notKeyword c a)
        (parseIdStmt_edge (idOf_rid c b) (parseAttrList_semi f' toks))
        (ih d f' hd' (by omega))
    | .edge a b none (some tl) =>
      have hd' : depthOk d items = true := by cases d <;> simpa [depthOk] using hd
      have e : (Item.edge a b none (some tl) :: items).flatMap (itemToks c) ++ [Tok.rbrace] =
          Tok.id (c.rid a).toList :: Tok.arrow :: Tok.id (c.rid b).toList :: Tok.lbrack :: Tok.id "ltail".toList ::
            Tok.eq :: clusterTok c tl :: Tok.rbrack :: Tok.semi :: toks := by
        simp [List.flatMap_cons, itemToks, ← htoks]
      have hf' : toks.length + 9 ≤ f := by
        simp only [List.flatMap_cons, itemToks, List.length_append, List.length_cons, List.length_nil] at hf
        omega
      obtain ⟨f', rfl⟩ : ∃ f', f = f' + 1 + 1 + 1 := ⟨f - 3, by omega⟩
      rw [e]
      exact parseStmts_idStmt (rid_notKeyword c a)
        (parseIdStmt_edge (idOf_rid c b)
          (parseAttrList_one (parseAList_cons idOf_ltail (idOf_cluster c tl) (parseAList_nil f' _))
            (parseAttrList_semi _ toks)))
        (ih d _ hd' (by omega))
    | .edge a b (some hh) none =>
      have hd' : depthOk d items = true := by cases d <;> simpa [depthOk] using hd
      have e : (Item.edge a b (some hh) none :: items).flatMap (itemToks c) ++ [Tok.rbrace] =
          Tok.id (c.rid a).toList :: Tok.arrow :: Tok.id (c.rid b).toList :: Tok.lbrack :: Tok.id "lhead".toList ::
            Tok.eq :: clusterTok c hh :: Tok.rbrack :: Tok.semi :: toks := by
        simp [List.flatMap_cons, itemToks, ← htoks]
      have hf' : toks.length + 9 ≤ f := by
        simp only [List.flatMap_cons, itemToks, List.length_append, List.length_cons, List.length_nil] at hf
        omega
      obtain ⟨f', rfl⟩ : ∃ f', f = f' + 1 + 1 + 1 := ⟨f - 3, by omega⟩
      rw [e]
      exact parseStmts_idStmt (rid_notKeyword c a)
        (parseIdStmt_edge (idOf_rid c b)
          (parseAttrList_one (parseAList_cons idOf_lhead (idOf_cluster c hh) (parseAList_nil f' _))
            (parseAttrList_semi _ toks)))
        (ih d _ hd' (by omega))
    | .edge a b (some hh) (some tl) =>
      have hd' : depthOk d items = true := by cases d <;> simpa [depthOk] using hd
      have e : (Item.edge a b (some hh) (some tl) :: items).flatMap (itemToks c) ++ [Tok.rbrace] =
          Tok.id (c.rid a).toList :: Tok.arrow :: Tok.id (c.rid b).toList :: Tok.lbrack :: Tok.id "lhead".toList ::
            Tok.eq :: clusterTok c hh :: Tok.id "ltail".toList :: Tok.eq :: clusterTok c tl :: Tok.rbrack ::
              Tok.semi :: toks := by
        simp [List.flatMap_cons, itemToks, ← htoks]
      have hf' : toks.length + 12 ≤ f := by
        simp only [List.flatMap_cons, itemToks, List.length_append, List.length_cons, List.length_nil] at hf
        omega
      obtain ⟨f', rfl⟩ : ∃ f', f = f' + 1 + 1 + 1 + 1 := ⟨f - 4, by omega⟩
      rw [e]
      exact parseStmts_idStmt (rid_notKeyword c a)
        (parseIdStmt_edge (idOf_rid c b)
          (parseAttrList_one
            (parseAList_cons idOf_lhead (idOf_cluster c hh)
              (parseAList_cons idOf_ltail (idOf_cluster c tl) (parseAList_nil f' _)))
            (parseAttrList_semi _ toks)))
        (ih d _ hd' (by omega))
    | .holder j =>
      have hd' : depthOk d items = true := by cases d <;> simpa [depthOk] using hd
      have e : (Item.holder j :: items).flatMap (itemToks c) ++ [Tok.rbrace] =
          Tok.id (c.rid j).toList :: Tok.lbrack :: (attrToks holderAttrs ++ Tok.rbrack :: toks) := by
        simp [List.flatMap_cons, itemToks, ← htoks]
      have hf' : (attrToks holderAttrs).length + toks.length + 3 ≤ f := by
        simp only [List.flatMap_cons, itemToks, List.length_append, List.length_cons, List.length_nil] at hf
        omega
      obtain ⟨f', rfl⟩ : ∃ f', f = f' + 1 := ⟨f - 1, by omega⟩
      rw [e]
      exact parseStmts_idStmt (rid_notKeyword c j)
        (parseIdStmt_node (parseAttrList_attrs holderAttrs holderAttrs_notKeyword (by omega)
          (fun f'' => parseAttrList_of_startOk f'' hs)))
        (by rw [skipSemi_of_startOk hs]; exact ih d f' hd' (by omega))

/-- `digraph NAME { stmt_list }` -/
theorem parseDot_digraph {n : Tok} {n' : List Char} {body : List Tok} {ss : List DStmt} (hn : idOf? n = some n')
    (h : parseStmts ((Tok.id "digraph".toList :: n :: Tok.lbrace :: body).length + 1) 0 body = some (ss, [])) :
    parseDot (Tok.id "digraph".toList :: n :: Tok.lbrace :: body) = some (some n', ss) := by
  have n1 : lowerChars "digraph".toList ≠ "strict".toList := by decide
  have e : lowerChars "digraph".toList = "digraph".toList := by decide
  unfold parseDot
  dsimp only
  rw [if_neg n1]
  dsimp only
  rw [if_pos e]
  cases n <;> first
    | (simp only [hn, h, Option.bind_eq_bind, Option.bind_some]; rfl)
    | (exact absurd hn (by simp [idOf?]))

/-- C20: the intended tokens of a well-bracketed item list parse into the intended statements -/
theorem docToks_parse (c : RenderCtx) (items : List Item) (hb : depthOk 0 items = true) :
    parseDot (docToks c items) = some (some "asynciojobs".toList, docStmts c items) := by
  have hs := startOk_items c items
  have ih := parseStmts_items c items 0
  generalize htoks : items.flatMap (itemToks c) ++ [Tok.rbrace] = toks at hs ih
  have hlen : toks.length = (items.flatMap (itemToks c)).length + 1 := by rw [← htoks]; simp
  have e : docToks c items =
      Tok.id "digraph".toList :: Tok.id "asynciojobs".toList :: Tok.lbrace :: Tok.id "compound".toList :: Tok.eq ::
        Tok.id "true".toList :: Tok.semi :: Tok.id "graph".toList :: Tok.lbrack :: Tok.rbrack :: Tok.semi :: toks := by
    simp [docToks, ← htoks]
  rw [e]
  refine parseDot_digraph idOf_asynciojobs ?_
  have hfuel : (Tok.id "digraph".toList :: Tok.id "asynciojobs".toList :: Tok.lbrace :: Tok.id "compound".toList ::
      Tok.eq :: Tok.id "true".toList :: Tok.semi :: Tok.id "graph".toList :: Tok.lbrack :: Tok.rbrack :: Tok.semi ::
        toks).length + 1 = (toks.length + 9) + 1 + 1 + 1 := by
    simp only [List.length_cons]
  rw [hfuel]
  exact parseStmts_idStmt compound_notKeyword (parseIdStmt_assign idOf_true)
    (parseStmts_graph (parseAttrList_one (parseAList_nil _ _) (parseAttrList_semi _ toks))
      (ih _ hb (by omega)))

/-- C20: for labels without backslash, the text of `dot_format()` is a syntactically valid DOT document: it lexes
    and parses, and its statements are exactly the intended ones -/
theorem render_parses (c : RenderCtx) (items : List Item)
    (hlab : ∀ j, ∀ ch ∈ (c.label j).toList, ch ≠ '\\') (hw : 0 < c.w) (hb : depthOk 0 items = true) :
    parseString (render c items) = some (some "asynciojobs".toList, docStmts c items) := by
  unfold parseString
  rw [render_lexes c items hlab hw]
  exact docToks_parse c items hb

/-- C20: for the items `_dot_body` produces, so in particular the clusters are well nested in the parse -/
theorem dot_format_parses (c : RenderCtx) (F fuel s : Nat) (items : List Item)
    (h : dotBody c.t F fuel s = .ok items)
    (hlab : ∀ j, ∀ ch ∈ (c.label j).toList, ch ≠ '\\') (hw : 0 < c.w) :
    parseString (render c items) = some (some "asynciojobs".toList, docStmts c items) :=
  render_parses c items hlab hw (dotBody_brackets c.t F fuel s items h)

/-- C20: no colour is inherited from an enclosing cluster. In the statements the document parses into
    (`docStmts`, see `render_parses`), the subgraph of every cluster `s` opens with its own `graph [...]` statement,
    and the attributes of that statement include `color`: `red` when `s` is critical, `black` otherwise -/
theorem cluster_color_parsed (c : RenderCtx) (items : List Item) (s : Nat) (h : Item.openCluster s ∈ items) :
    ∃ as, [DStmt.openSub (some (clusterName c s).toList), .assign "compound".toList "true".toList,
        .attr "graph".toList as] <:+: docStmts c items ∧
      ("color".toList, (if c.t.critical s = true then "red" else "black").toList) ∈ as := by
  obtain ⟨l1, l2, rfl⟩ := List.append_of_mem h
  refine ⟨attrsOf (styleAttrs c s), ⟨[.assign "compound".toList "true".toList, .attr "graph".toList []] ++
    l1.flatMap (stmtsOf c), l2.flatMap (stmtsOf c), ?_⟩, ?_⟩
  · simp [docStmts, stmtsOf]
  · obtain ⟨v, hv, rfl⟩ := cluster_color_explicit c s
    exact List.mem_map.2 ⟨_, hv, rfl⟩

/-! ### non-vacuity: a concrete scheduler (a nested scheduler 1 holding job 2, then the critical job 3 that
    requires the nested scheduler; job 2's label contains double quotes) -/

def exT : T where
  n := 4
  isSched := fun j => j == 0 || j == 1
  mem := fun j => if j == 0 then [1, 3] else if j == 1 then [2] else []
  req := fun j => if j == 3 then [1] else []
  forever := fun _ => false
  critical := fun j => j == 3

def exCtx : RenderCtx :=
  { t := exT, idOf := fun j => j, w := 1, label := fun j => if j == 2 then "a \"b\"" else "job" }

def exItems : List Item := [.openCluster 1, .node 2, .close, .node 3, .edge 2 3 none (some 1)]

/-- these are the items `_dot_body` produces for `exT` -/
theorem exItems_eq : dotBody exT 5 5 0 = .ok exItems := by rfl

/-- the text lexes and parses (computed by the lexer and the parser, not through the theorems) into one cluster,
    two nodes and one edge, the quoted label being recovered unescaped -/
example : parseString (render exCtx exItems) = some (some "asynciojobs".toList,
    [.assign "compound".toList "true".toList, .attr "graph".toList [],
     .openSub (some "cluster_1".toList), .assign "compound".toList "true".toList,
     .attr "graph".toList [("style".toList, []), ("label".toList, "1: job".toList), ("shape".toList, "box".toList),
       ("color".toList, "black".toList), ("penwidth".toList, "0.5".toList)],
     .node "2".toList [("style".toList, "rounded".toList), ("label".toList, "2: a \"b\"".toList),
       ("shape".toList, "box".toList), ("color".toList, "black".toList),
       ("penwidth".toList, "0.5".toList)],
     .closeSub,
     .node "3".toList [("style".toList, "rounded".toList), ("label".toList, "3: job".toList),
       ("shape".toList, "box".toList), ("color".toList, "red".toList), ("penwidth".toList, "2".toList)],
     .edge "2".toList "3".toList [("ltail".toList, "cluster_1".toList)]]) := by
  decide +kernel

/-- and `dot_format_parses` applies to it: its hypotheses hold -/
example : parseString (render exCtx exItems) = some (some "asynciojobs".toList, docStmts exCtx exItems) :=
  dot_format_parses exCtx 5 5 0 exItems exItems_eq
    (by
      intro j ch hch
      by_cases hj : j = 2
      · subst hj; revert ch; decide
      · have : exCtx.label j = "job" := by simp [exCtx, hj]
        rw [this] at hch
        revert ch; decide)
    (by decide)

/-! ### non-vacuity, the case that used to raise `ValueError`: the nested schedulers 1, 3 and 4 are empty;
    job 2 requires scheduler 1, scheduler 3 requires job 2 and scheduler 1; no edge is attached to scheduler 4 -/

def exT2 : T where
  n := 5
  isSched := fun j => j == 0 || j == 1 || j == 3 || j == 4
  mem := fun j => if j == 0 then [1, 2, 3, 4] else []
  req := fun j => if j == 2 then [1] else if j == 3 then [2, 1] else []
  forever := fun _ => false
  critical := fun _ => false

def exCtx2 : RenderCtx := { t := exT2, idOf := fun j => j, w := 1, label := fun _ => "x" }

def exItems2 : List Item :=
  [.openCluster 1, .holder 1, .close, .node 2, .edge 1 2 none (some 1),
   .openCluster 3, .holder 3, .close, .edge 2 3 (some 3) none, .edge 1 3 (some 3) (some 1),
   .openCluster 4, .close]

/-- an empty scheduler stands for itself -/
example : middleEntry exT2 5 1 = .ok 1 ∧ middleExit exT2 5 1 = .ok 1 := ⟨rfl, rfl⟩

/-- these are the items `dot_format()` produces for `exT2`: each empty nested scheduler that an edge is attached to
    owns an invisible node, inside its cluster, that the edges from / to the cluster use; scheduler 4, empty as
    well but neither required nor requiring, has none (its cluster is rendered as before the repair) -/
theorem exItems2_eq : dotBody exT2 5 5 0 = .ok exItems2 := by rfl

example : dotItems exT2 5 0 = .ok exItems2 := by rfl

/-- the first run of `_dot_body` (no `_dot_anchor` set) has no holder at all; its edges give the anchors 1 and 3 -/
example : dotBodyWith exT2 [] 5 5 0 = .ok (exItems2.filter fun i => match i with | .holder _ => false | _ => true) ∧
    anchorsOf exT2 exItems2 = [1, 3, 1, 3] := ⟨rfl, rfl⟩

example : Item.holder 1 ∈ exItems2 ∧ Item.holder 3 ∈ exItems2 ∧ Item.holder 4 ∉ exItems2 ∧
    Item.openCluster 4 ∈ exItems2 := by decide

/-- an empty scheduler reached by the descent of `_middle_exit_job` from a linked ancestor gets its node too:
    scheduler 1 holds the empty scheduler 2 only; job 3 requires scheduler 1 -/
def exT3 : T where
  n := 4
  isSched := fun j => j == 0 || j == 1 || j == 2
  mem := fun j => if j == 0 then [1, 3] else if j == 1 then [2] else []
  req := fun j => if j == 3 then [1] else []
  forever := fun _ => false
  critical := fun _ => false

example : dotBody exT3 5 5 0 =
    .ok [.openCluster 1, .openCluster 2, .holder 2, .close, .close, .node 3, .edge 2 3 none (some 1)] := by rfl

/-- the text, byte for byte -/
example : render exCtx2 exItems2 =
    "digraph asynciojobs{\ncompound=true;\ngraph [];\n" ++
    "subgraph cluster_1{\ncompound=true;\n" ++
    "graph [style=\"\",label=\"1: x\",shape=\"box\",color=\"black\",penwidth=\"0.5\"];\n" ++
    "1 [shape=\"point\",style=\"invis\"]\n}\n" ++
    "2 [style=\"rounded\",label=\"2: x\",shape=\"box\",color=\"black\",penwidth=\"0.5\"]\n" ++
    "1 -> 2 [ltail=cluster_1];\n" ++
    "subgraph cluster_3{\ncompound=true;\n" ++
    "graph [style=\"\",label=\"3: x\",shape=\"box\",color=\"black\",penwidth=\"0.5\"];\n" ++
    "3 [shape=\"point\",style=\"invis\"]\n}\n" ++
    "2 -> 3 [lhead=cluster_3];\n" ++
    "1 -> 3 [lhead=cluster_3 ltail=cluster_1];\n" ++
    "subgraph cluster_4{\ncompound=true;\n" ++
    "graph [style=\"\",label=\"4: x\",shape=\"box\",color=\"black\",penwidth=\"0.5\"];\n}\n" ++
    "}\n" := by
  decide +kernel

/-- the invisible node alone: its line lexes into the intended tokens and a document made of it parses into one
    node statement with the two attributes (computed by the lexer and the parser, not through the theorems) -/
example : lexString (renderItem exCtx2 (.holder 1)) = some (itemToks exCtx2 (.holder 1)) := by
  decide +kernel

example : parseString (render exCtx2 [.holder 1]) = some (some "asynciojobs".toList,
    [.assign "compound".toList "true".toList, .attr "graph".toList [],
     .node "1".toList [("shape".toList, "point".toList), ("style".toList, "invis".toList)]]) := by
  decide +kernel

/-- `dot_format_parses` applies to the whole example -/
theorem exItems2_parses :
    parseString (render exCtx2 exItems2) = some (some "asynciojobs".toList, docStmts exCtx2 exItems2) :=
  dot_format_parses exCtx2 5 5 0 exItems2 exItems2_eq
    (by intro j; show ∀ ch ∈ ("x" : String).toList, ch ≠ '\\'; decide) (by decide)

/-- … so the text parses into these statements: the invisible nodes are node statements inside their clusters -/
example : parseString (render exCtx2 exItems2) = some (some "asynciojobs".toList,
    [.assign "compound".toList "true".toList, .attr "graph".toList [],
     .openSub (some "cluster_1".toList), .assign "compound".toList "true".toList,
     .attr "graph".toList [("style".toList, []), ("label".toList, "1: x".toList), ("shape".toList, "box".toList),
       ("color".toList, "black".toList), ("penwidth".toList, "0.5".toList)],
     .node "1".toList [("shape".toList, "point".toList), ("style".toList, "invis".toList)],
     .closeSub,
     .node "2".toList [("style".toList, "rounded".toList), ("label".toList, "2: x".toList),
       ("shape".toList, "box".toList), ("color".toList, "black".toList),
       ("penwidth".toList, "0.5".toList)],
     .edge "1".toList "2".toList [("ltail".toList, "cluster_1".toList)],
     .openSub (some "cluster_3".toList), .assign "compound".toList "true".toList,
     .attr "graph".toList [("style".toList, []), ("label".toList, "3: x".toList), ("shape".toList, "box".toList),
       ("color".toList, "black".toList), ("penwidth".toList, "0.5".toList)],
     .node "3".toList [("shape".toList, "point".toList), ("style".toList, "invis".toList)],
     .closeSub,
     .edge "2".toList "3".toList [("lhead".toList, "cluster_3".toList)],
     .edge "1".toList "3".toList [("lhead".toList, "cluster_3".toList), ("ltail".toList, "cluster_1".toList)],
     .openSub (some "cluster_4".toList), .assign "compound".toList "true".toList,
     .attr "graph".toList [("style".toList, []), ("label".toList, "4: x".toList), ("shape".toList, "box".toList),
       ("color".toList, "black".toList), ("penwidth".toList, "0.5".toList)],
     .closeSub]) := by
  rw [exItems2_parses]
  decide +kernel

/-- and the hypotheses of `dotBody_total` hold for it -/
example : ∃ items, dotBody exT2 5 5 0 = .ok items :=
  dotBody_total exT2 5 5 0 [1, 2, 3, 4] (by decide)
    (by
      intro s' _ _ k hk
      by_cases h0 : s' = 0
      · subst h0
        have : k = 1 ∨ k = 2 ∨ k = 3 ∨ k = 4 := by simpa [exT2] using hk
        have hn : exT2.n = 5 := rfl
        omega
      · have : exT2.mem s' = [] := by simp [exT2, h0]
        rw [this] at hk; cases hk)
    (by decide) (by rfl)

/-! ### non-vacuity, the case that used to be drawn in red: the non-critical scheduler 2 lies inside the critical
    scheduler 1; its cluster states `color="black"` itself instead of inheriting `color="red"` from `cluster_1` -/

def exT4 : T where
  n := 4
  isSched := fun j => j == 0 || j == 1 || j == 2
  mem := fun j => if j == 0 then [1] else if j == 1 then [2] else if j == 2 then [3] else []
  req := fun _ => []
  forever := fun _ => false
  critical := fun j => j == 1

def exCtx4 : RenderCtx := { t := exT4, idOf := fun j => j, w := 1, label := fun _ => "x" }

def exItems4 : List Item := [.openCluster 1, .openCluster 2, .node 3, .close, .close]

theorem exItems4_eq : dotBody exT4 5 5 0 = .ok exItems4 := by rfl

/-- the text, byte for byte -/
example : render exCtx4 exItems4 =
    "digraph asynciojobs{\ncompound=true;\ngraph [];\n" ++
    "subgraph cluster_1{\ncompound=true;\n" ++
    "graph [style=\"\",label=\"1: x\",shape=\"box\",color=\"red\",penwidth=\"2\"];\n" ++
    "subgraph cluster_2{\ncompound=true;\n" ++
    "graph [style=\"\",label=\"2: x\",shape=\"box\",color=\"black\",penwidth=\"0.5\"];\n" ++
    "3 [style=\"rounded\",label=\"3: x\",shape=\"box\",color=\"black\",penwidth=\"0.5\"]\n" ++
    "}\n}\n}\n" := by
  decide +kernel

/-- … and what it parses into (through `dot_format_parses`): each of the two clusters has its own `color` -/
example : parseString (render exCtx4 exItems4) = some (some "asynciojobs".toList,
    [.assign "compound".toList "true".toList, .attr "graph".toList [],
     .openSub (some "cluster_1".toList), .assign "compound".toList "true".toList,
     .attr "graph".toList [("style".toList, []), ("label".toList, "1: x".toList), ("shape".toList, "box".toList),
       ("color".toList, "red".toList), ("penwidth".toList, "2".toList)],
     .openSub (some "cluster_2".toList), .assign "compound".toList "true".toList,
     .attr "graph".toList [("style".toList, []), ("label".toList, "2: x".toList), ("shape".toList, "box".toList),
       ("color".toList, "black".toList), ("penwidth".toList, "0.5".toList)],
     .node "3".toList [("style".toList, "rounded".toList), ("label".toList, "3: x".toList),
       ("shape".toList, "box".toList), ("color".toList, "black".toList), ("penwidth".toList, "0.5".toList)],
     .closeSub, .closeSub]) := by
  rw [dot_format_parses exCtx4 5 5 0 exItems4 exItems4_eq
    (by intro j; show ∀ ch ∈ ("x" : String).toList, ch ≠ '\\'; decide) (by decide)]
  decide +kernel

/-- `style_color` and `cluster_color_parsed` on it -/
example : ("color", "black") ∈ styleAttrs exCtx4 2 ∧ ("color", "red") ∈ styleAttrs exCtx4 1 :=
  ⟨((style_color exCtx4 2).2.2.1).2 rfl, ((style_color exCtx4 1).2.1).2 rfl⟩

example : ∃ as, [DStmt.openSub (some "cluster_2".toList), .assign "compound".toList "true".toList,
      .attr "graph".toList as] <:+: docStmts exCtx4 exItems4 ∧ ("color".toList, "black".toList) ∈ as :=
  cluster_color_parsed exCtx4 exItems4 2 (by decide)

end AJ.Proofs.C20Parse
