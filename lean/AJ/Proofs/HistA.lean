/-
  Layer A, history-level theorems: what the sequence of events says (C01, C02, C14 "truth").
-/

import AJ.Proofs.HistAStep
namespace AJ.Proofs.HistA
open AJ.Run

/-- acceptA of an append -/
theorem acceptA_append (c : Cfg) (st : StA) (e1 e2 : List EvA) :
    acceptA c st (e1 ++ e2) = (acceptA c st e1).bind fun st1 => acceptA c st1 e2 :=
  acceptA_append' c st e1 e2

/-! ### the ghost invariant: what an accepted history says about the state it leads to -/

theorem finishedIn_snoc (c : Cfg) (evs : List EvA) (e : EvA) (j : Nat) :
    finishedIn c (evs ++ [e]) j = (finishedIn c evs j || finishes c j e) := by
  simp [finishedIn, List.any_append]

theorem begunIn_snoc (evs : List EvA) (e : EvA) (j : Nat) :
    begunIn (evs ++ [e]) j = (begunIn evs j || begins j e) := by
  simp [begunIn, List.any_append]

theorem beginCount_snoc (evs : List EvA) (e : EvA) (j : Nat) :
    beginCount (evs ++ [e]) j = beginCount evs j + (if begins j e = true then 1 else 0) := by
  simp only [beginCount, List.filter_append, List.length_append]
  by_cases hb : begins j e = true <;> simp [List.filter, hb]

/-- relates a history accepted from the initial state to the state it leads to -/
structure Ghost (c : Cfg) (evs : List EvA) (st : StA) : Prop where
  /-- G1 -/
  done : ∀ j, isDone st j = finishedIn c evs j
  /-- G2 -/
  run : ∀ j, st.rflag j = begunIn evs j
  /-- G3 -/
  pc : ∀ s, st.pc s ≠ .notBegun → begunIn evs s = true
  /-- G4 -/
  once : ∀ j, beginCount evs j ≤ 1 ∧ (beginCount evs j = 1 → early (st.ph j) = false)
  /-- a job (other than the top) that left `idle` belongs to a run that has begun and has all its
      requirements finished (the `childIdle` and `reqsDone` fields of `CoreA.InvA`, proved here directly) -/
  started : ∀ k, k ≠ 0 → st.ph k ≠ .idle →
    st.pc (c.parent k) ≠ .notBegun ∧ ∀ r ∈ c.req k, isDone st r = true

theorem ghost_init (c : Cfg) : Ghost c [] StA.init where
  done := by intro j; simp [isDone, StA.init, Ph.isDone, finishedIn]
  run := by intro j; simp [StA.init, begunIn]
  pc := by intro s hs; simp [StA.init] at hs
  once := by intro j; simp [beginCount]
  started := by intro k _ h; simp [StA.init] at h

theorem ghost_step (c : Cfg) (evs : List EvA) (st st' : StA) (e : EvA)
    (g : Ghost c evs st) (h : stepA c st e = some st') : Ghost c (evs ++ [e]) st' where
  done := by
    intro j
    rw [finishedIn_snoc, step_isDone c st st' e h j, g.done j]
  run := by
    intro j
    rw [begunIn_snoc, step_rflag c st st' e h j, g.run j]
  pc := by
    intro s hs
    rw [begunIn_snoc]
    rcases step_pc c st st' e h s hs with h1 | h1
    · simp [g.pc s h1]
    · simp [h1]
  once := by
    intro j
    rw [beginCount_snoc]
    have ⟨h1, h2⟩ := g.once j
    by_cases hb : begins j e = true
    · have he := step_begins_early c st st' e h j hb
      have h0 : beginCount evs j = 0 := by
        by_cases h01 : beginCount evs j = 1
        · rw [h2 h01] at he; cases he
        · omega
      simp only [hb, if_true, h0]
      refine ⟨by omega, fun _ => ?_⟩
      cases he' : early (st'.ph j) with
      | false => rfl
      | true => have := (step_early c st st' e h j he').2; rw [hb] at this; cases this
    · simp only [hb]
      refine ⟨by simpa using h1, fun h01 => ?_⟩
      have hst := h2 (by simpa using h01)
      cases he' : early (st'.ph j) with
      | false => rfl
      | true => have := (step_early c st st' e h j he').1; rw [hst] at this; cases this
  started := by
    intro k hk hn
    by_cases hi : st.ph k = .idle
    · exact step_leave_idle c st st' e h k hk hi hn
    · have ⟨h1, h2⟩ := g.started k hk hi
      refine ⟨step_pc_mono c st st' e h _ h1, fun r hr => ?_⟩
      rw [step_isDone c st st' e h r, h2 r hr]; rfl

theorem ghost_accept (c : Cfg) (evs : List EvA) :
    ∀ (pre : List EvA) (st0 st : StA), Ghost c pre st0 → acceptA c st0 evs = some st →
      Ghost c (pre ++ evs) st := by
  induction evs with
  | nil =>
    intro pre st0 st g h
    simp only [acceptA, Option.some.injEq] at h
    subst h; simpa using g
  | cons e es ih =>
    intro pre st0 st g h
    simp only [acceptA] at h
    cases h1 : stepA c st0 e with
    | none => simp [h1] at h
    | some st1 =>
      rw [h1] at h
      have := ih (pre ++ [e]) st1 st (ghost_step c pre st0 st1 e g h1) h
      simpa [List.append_assoc] using this

theorem ghost_reach (c : Cfg) (evs : List EvA) (st : StA) (h : acceptA c StA.init evs = some st) :
    Ghost c evs st := by
  simpa using ghost_accept c evs [] StA.init st (ghost_init c) h

theorem grant_guard {c : Cfg} {st st' : StA} {j : Nat} (h : stepA c st (.grant j) = some st') :
    0 < j ∧ j < c.n ∧ st.ph j = .queued := by
  simp only [stepA] at h
  split at h
  · next hg => exact ⟨hg.1, hg.2.1, hg.2.2.1⟩
  · cases h

/-! ### the theorems

  None of them needs well-formedness of the configuration (nor `CoreA.InvA`): `hwf` is kept in the
  statements but only mentioned (`have _ := hwf`) to keep the unused-variable linter quiet. -/

/-- C14 (truth): `is_done()` holds exactly when the body finished by returning or raising -/
theorem done_iff_finished (c : Cfg) (hwf : c.wf = true) (evs : List EvA) (st : StA)
    (h : acceptA c StA.init evs = some st) (j : Nat) :
    isDone st j = true ↔ finishedIn c evs j = true := by
  have _ := hwf
  rw [(ghost_reach c evs st h).done j]

/-- C14: `is_running()` holds exactly when the body has begun; `is_scheduled` at least then -/
theorem running_iff_begun (c : Cfg) (hwf : c.wf = true) (evs : List EvA) (st : StA)
    (h : acceptA c StA.init evs = some st) (j : Nat) :
    isRunning st j = true ↔ begunIn evs j = true := by
  have _ := hwf
  unfold isRunning
  rw [(ghost_reach c evs st h).run j]

/-- C01: in every accepted history, when the body of `j` begins each of its requirements has finished
    (returned or raised; for a nested scheduler: its whole run is over) -/
theorem requirements_first (c : Cfg) (hwf : c.wf = true) (evs : List EvA) (j : Nat) (st : StA)
    (h : acceptA c StA.init (evs ++ [.grant j]) = some st) :
    ∀ r ∈ c.req j, finishedIn c evs r = true := by
  have _ := hwf
  obtain ⟨st0, h0, hstep⟩ := acceptA_snoc_some h
  have ⟨hj, _, hq⟩ := grant_guard hstep
  have g := ghost_reach c evs st0 h0
  intro r hr
  rw [← g.done r]
  exact (g.started j (by omega) (by simp [hq])).2 r hr

/-- C01 (nesting): a job of a nested scheduler begins only after the run of that scheduler began
    (hence, by `requirements_first` applied to that prefix, after everything the scheduler requires) -/
theorem parent_first (c : Cfg) (hwf : c.wf = true) (evs : List EvA) (j : Nat) (st : StA)
    (h : acceptA c StA.init (evs ++ [.grant j]) = some st) :
    begunIn evs (c.parent j) = true := by
  have _ := hwf
  obtain ⟨st0, h0, hstep⟩ := acceptA_snoc_some h
  have ⟨hj, _, hq⟩ := grant_guard hstep
  have g := ghost_reach c evs st0 h0
  exact g.pc _ (g.started j (by omega) (by simp [hq])).1

/-- C02: within one run no body is entered more than once -/
theorem at_most_once (c : Cfg) (hwf : c.wf = true) (evs : List EvA) (st : StA)
    (h : acceptA c StA.init evs = some st) (j : Nat) : beginCount evs j ≤ 1 := by
  have _ := hwf
  exact ((ghost_reach c evs st h).once j).1

end AJ.Proofs.HistA
