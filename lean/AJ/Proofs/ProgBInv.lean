/-
  Layer B, progress (C03): the additional invariants `urgent_enabled` / `never_wedged` rest on.
-/
import AJ.Proofs.CoreB
namespace AJ.Proofs.ProgB
open AJ.Run AJ.Full AJ.Proofs.CoreA AJ.Proofs.CoreB
set_option linter.unusedVariables false
set_option linter.unusedSimpArgs false

/-! ### generic per-step facts -/

/- (`creq k → 0 < k` — "`cancel()` is never called on the top-level task" — was an invariant here, used to discharge the
   guard `0 < s` of `cancelArrive s`.  With `extCancel` it is false, and `cancelArrive` has lost that guard: the
   invariant and its two step lemmas `creq_pos_stepA/B` are gone; nothing else used them.) -/

theorem done_stable_stepB (c : Cfg) (st st' : StB) (e : EvB) (h : stepB c st e = some st') (k : Nat) (r : Res)
    (hd : st.a.ph k = .done r) : st'.a.ph k = .done r := by
  rcases stepB_refines c st st' e h with heq | ⟨ea, hea⟩
  · rw [heq]; exact hd
  · exact (step_monotone c _ _ ea hea k).1 r hd

theorem finishRun_spec {c : Cfg} {st st' : StB} {s : Nat} {x : Exit} {pick : Nat}
    (h : finishRun c st s x pick = some st') :
    ∃ r a', verdict c st s x pick = some r ∧ stepA c st.a (.finish s r) = some a' ∧
      st' = { st with a := a', pcB := setAt st.pcB s .over } := by
  unfold finishRun at h
  split at h
  · cases h
  · rename_i r hv
    split at h
    · cases h
    · rename_i a' ha
      cases h
      exact ⟨r, a', hv, ha, rfl⟩

theorem beginB_pcB (c : Cfg) (st : StB) (s : Nat) (a' : StA) (s' : Nat) :
    (beginB c st s a').pcB s' = if s' = s then (if (c.children s).isEmpty then .over else .loop) else st.pcB s' := by
  unfold beginB; split <;> simp [setAt] <;> split <;> rfl

theorem crit_step (c : Cfg) (st st' : StB) (e : EvB) (h : stepB c st e = some st') (s : Nat)
    (hx : (st'.pcB s).exitOf = some .critical) :
    (st.pcB s).exitOf = some .critical ∨ (st.pcB s = .loop ∧ ∃ D, st.a.rx s = some D ∧ critIn c st.a D = true) := by
  cases e <;> simp only [stepB] at h <;> (repeat' split at h) <;>
    first
    | (cases h; done)
    | (obtain ⟨r, a', _, _, rfl⟩ := finishRun_spec h; simp only [setAt] at hx; grind [PcB.exitOf])
    | (cases h; simp only [beginB_pcB, exitLoop, broadcast, setAt] at hx; grind [PcB.exitOf])

/-- make the layer-A step found in the context explicit -/
macro "open_stepA" : tactic => `(tactic|
  (have ha := ‹stepA _ _ _ = some _›
   simp only [stepA] at ha
   (repeat' split at ha) <;> cases ha))

theorem runPc_step (c : Cfg) (st st' : StB) (e : EvB) (h : stepB c st e = some st')
    (hp : ∀ s, c.isSched s = true → st.a.ph s = .running → st.pcB s ≠ .notBegun ∧ st.pcB s ≠ .over) :
    ∀ s, c.isSched s = true → st'.a.ph s = .running → st'.pcB s ≠ .notBegun ∧ st'.pcB s ≠ .over := by
  intro s hs
  have := hp s hs
  cases e <;> simp only [stepB] at h <;> (repeat' split at h) <;> (try (cases h; done))
  all_goals first
    | (obtain ⟨r, a', _, ha, rfl⟩ := finishRun_spec h
       clear h
       open_stepA <;> simp only [setAt, release] <;> grind)
    | (cases h; open_stepA <;>
       (try unfold beginRun) <;> (repeat' split) <;> simp only [beginB_pcB, beginB_a, exitLoop, broadcast, release, startJobs, setAt] <;> grind)
    | (cases h; simp only [beginB_pcB, beginB_a, exitLoop, broadcast, setAt]; grind)

def NotStuck (c : Cfg) (st : StB) : Prop :=
  ∀ s, st.pcB s = .loop → st.a.rx s = none → st.nbDone s ≠ nbFinite c s ∨ ∃ k ∈ c.children s, st.a.deliv k = false

theorem beginB_nbDone (c : Cfg) (st : StB) (s : Nat) (a' : StA) (s' : Nat) (h : s' ≠ s) :
    (beginB c st s a').nbDone s' = st.nbDone s' := by
  unfold beginB; split <;> simp [setAt, h]

theorem notStuck_begin (c : Cfg) (st : StB) (s0 : Nat) (a' : StA) (hA : InvA c st.a)
    (hnb : st.a.pc s0 = .notBegun) (hdeliv : a'.deliv = st.a.deliv)
    (hrx : ∀ s, s ≠ s0 → a'.rx s = st.a.rx s) (hp : NotStuck c st) : NotStuck c (beginB c st s0 a') := by
  intro s hl hr
  rw [beginB_pcB] at hl
  rw [beginB_a] at hr ⊢
  rw [hdeliv]
  by_cases hs : s = s0
  · subst hs
    right
    simp only [if_true] at hl
    split at hl
    · cases hl
    · rename_i hne
      cases hch : c.children s with
      | nil => simp [hch] at hne
      | cons k l =>
        refine ⟨k, by simp, ?_⟩
        have hk : k ∈ c.children s := by simp [hch]
        have hi := hA.childrenIdle hnb k hk
        exact hA.delivOff (Or.inl hi)
  · rw [if_neg hs] at hl
    rw [beginB_nbDone _ _ _ _ _ hs]
    rw [hrx s hs] at hr
    exact hp s hl hr

theorem notStuck_step (c : Cfg) (st st' : StB) (e : EvB) (hA : InvA c st.a) (hB : InvB c st)
    (h : stepB c st e = some st') (hp : NotStuck c st) : NotStuck c st' := by
  have hbegin : ∀ s0 a' ev, stepA c st.a ev = some a' → (ev = .runBegin ∧ s0 = 0) ∨ (ev = .grant s0 ∧ c.isSched s0 = true) →
      NotStuck c (beginB c st s0 a') := by
    intro s0 a' ev ha hev
    rcases hev with ⟨rfl, rfl⟩ | ⟨rfl, hs⟩
    · obtain ⟨⟨hi, hpc⟩, hcreq, hdeliv, hnow, hrest⟩ := stepA_runBegin ha
      refine notStuck_begin c st 0 a' hA hpc hdeliv ?_ hp
      intro s hs
      rcases hrest with ⟨_, _, _, hrx⟩ | ⟨_, _, _, hrx⟩ <;> simp [hrx, setAt, hs]
    · obtain ⟨⟨hj0, hjn, hjq, hjc⟩, hcreq, hdeliv, hnow, hrest⟩ := stepA_grant ha
      refine notStuck_begin c st s0 a' hA (hA.notBegun s0 hs (Or.inr hjq)) hdeliv ?_ hp
      intro s hs
      rcases hrest with ⟨_, _, _, hrx⟩ | ⟨_, _, _, _, hrx⟩ | ⟨_, _, _, _, hrx⟩ <;> simp [hrx, setAt, hs]
  intro s
  have := hp s
  cases e <;> simp only [stepB] at h <;> (repeat' split at h) <;> (try (cases h; done))
  all_goals first
    | (cases h; exact hbegin _ _ _ ‹_› (by simp [*]) s)
    | (obtain ⟨r, a', _, ha, rfl⟩ := finishRun_spec h
       clear h
       open_stepA <;> simp only [setAt, release] <;> grind)
    | (cases h; open_stepA <;>
       (try unfold beginRun) <;> (repeat' split) <;> simp only [beginB_pcB, beginB_a, exitLoop, broadcast, release, startJobs, setAt] <;> grind [CoreB.mem_doneSet, CoreB.mem_children])
    | (cases h; simp only [beginB_pcB, beginB_a, exitLoop, broadcast, setAt]; grind)

/-! ### the additional invariant -/

structure InvP (c : Cfg) (st : StB) : Prop where
  /-- converse of `InvB.runPh`: a scheduler whose task is running is inside its `co_run` -/
  runPc : ∀ s, c.isSched s = true → st.a.ph s = .running → st.pcB s ≠ .notBegun ∧ st.pcB s ≠ .over
  /-- a run that left its loop for reason `critical` has a critical job that raised -/
  critMeans : ∀ s, (st.pcB s).exitOf = some .critical →
      ∃ k ∈ c.children s, c.critical k = true ∧ ∃ ex, st.a.ph k = .done (.exc ex)
  /-- a run waiting in its main loop, no reaction pending, still expects something: the count of reported jobs
      has not reached the number of regular jobs (otherwise the last reaction would have left the loop), or
      nothing was reported yet -/
  notStuck : NotStuck c st

theorem invP_init (c : Cfg) : InvP c StB.init := by
  refine ⟨?_, ?_, ?_⟩
  · intro s _ h; simp [StB.init, StA.init] at h
  · intro s h; simp [StB.init, PcB.exitOf] at h
  · intro s h; simp [StB.init] at h

theorem critIn_true {c : Cfg} {a : StA} {D : List Nat} (h : critIn c a D = true) :
    ∃ d ∈ D, c.critical d = true ∧ ∃ ex, a.ph d = .done (.exc ex) := by
  simp only [critIn, List.any_eq_true, Bool.and_eq_true] at h
  obtain ⟨d, hd, hc, hm⟩ := h
  refine ⟨d, hd, hc, ?_⟩
  split at hm
  · rename_i e he; exact ⟨e, he⟩
  · cases hm

theorem invP_step (c : Cfg) (st st' : StB) (e : EvB) (hA : InvA c st.a) (hB : InvB c st) (hP : InvP c st)
    (h : stepB c st e = some st') : InvP c st' := by
  refine ⟨runPc_step c st st' e h hP.runPc, ?_,
    notStuck_step c st st' e hA hB h hP.notStuck⟩
  intro s hx
  rcases crit_step c st st' e h s hx with h1 | ⟨hl, D, hD, hc⟩
  · obtain ⟨k, hk, hck, ex, hex⟩ := hP.critMeans s h1
    exact ⟨k, hk, hck, ex, done_stable_stepB c st st' e h k _ hex⟩
  · obtain ⟨d, hd, hcd, ex, hex⟩ := critIn_true hc
    obtain ⟨q, hq⟩ := hB.rxSub s D hD
    rw [hq] at hd
    exact ⟨d, (List.mem_filter.1 hd).1, hcd, ex, done_stable_stepB c st st' e h d _ hex⟩

theorem invP_accept (c : Cfg) (hwf : c.wf = true) (evs : List EvB) (st0 st : StB)
    (hA : InvA c st0.a) (hB : InvB c st0) (hP : InvP c st0) (h : acceptB c st0 evs = some st) : InvP c st := by
  induction evs generalizing st0 with
  | nil => simp only [acceptB] at h; cases h; exact hP
  | cons e es ih =>
    simp only [acceptB] at h
    split at h
    · rename_i st1 hs
      have hB1 := invB_step c hwf st0 st1 e hA hB hs
      have hP1 := invP_step c st0 st1 e hA hB hP hs
      have hA1 : InvA c st1.a := by
        rcases stepB_refines c st0 st1 e hs with heq | ⟨ea, hea⟩
        · rw [heq]; exact hA
        · exact invA_step c hwf st0.a st1.a ea hA hea
      exact ih st1 hA1 hB1 hP1 h
    · cases h

theorem invP_reach (c : Cfg) (hwf : c.wf = true) (evs : List EvB) (st : StB)
    (h : acceptB c StB.init evs = some st) : InvP c st :=
  invP_accept c hwf evs StB.init st (invA_init c) (invB_init c) (invP_init c) h

end AJ.Proofs.ProgB
