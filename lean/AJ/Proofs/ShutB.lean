/-
  Layer B: shutdown reaches every job exactly once, in bounded time (C13); once a run is over nothing it started
  is still running (C11).
-/
import AJ.Proofs.CoreB
import AJ.Proofs.ProgBInv
namespace AJ.Proofs.ShutB
open AJ.Run AJ.Full AJ.Proofs.CoreA AJ.Proofs.CoreB
set_option linter.unusedVariables false
set_option linter.unusedSimpArgs false

/-- `d` is a job of the subtree of scheduler `s`, at any depth -/
inductive DescOf (c : Cfg) : Nat → Nat → Prop
  | child {s k : Nat} : k ∈ c.children s → DescOf c s k
  | deeper {s k d : Nat} : k ∈ c.children s → DescOf c k d → DescOf c s d

/-! ### what a step does to the shutdown components -/

/-- `finishRun` is one `finish` step of layer A and `pcB := over` (the diagnosis was recorded by `exitLoop`) -/
theorem finishRun_spec {c : Cfg} {st st' : StB} {s : Nat} {x : Exit} {pick : Nat}
    (h : finishRun c st s x pick = some st') :
    ∃ r a', stepA c st.a (.finish s r) = some a' ∧
      st' = { st with a := a', pcB := setAt st.pcB s .over } := by
  unfold finishRun at h
  split at h
  · cases h
  · split at h
    · cases h
    · rename_i a' ha
      cases h
      exact ⟨_, a', ha, rfl⟩

/-- `beginB` touches none of the shutdown components -/
theorem beginB_spec (c : Cfg) (st : StB) (s : Nat) (a' : StA) :
    (beginB c st s a').hcalls = st.hcalls ∧ (beginB c st s a').didSd = st.didSd ∧ (beginB c st s a').bc = st.bc ∧
    (beginB c st s a').hph = st.hph ∧ (beginB c st s a').hcreq = st.hcreq ∧ (beginB c st s a').sdValue = st.sdValue ∧
    (beginB c st s a').pcB = setAt st.pcB s (if (c.children s).isEmpty then .over else .loop) := by
  unfold beginB; split <;> simp [*]

/-- `hcalls` changes only inside `broadcast` -/
theorem hcalls_step {c : Cfg} {st st' : StB} {e : EvB} (h : stepB c st e = some st') :
    st'.hcalls = st.hcalls ∨
    ∃ s, st.didSd s = false ∧ st'.hcalls = (fun k => if k ∈ c.children s then st.hcalls k + 1 else st.hcalls k) ∧
      ((∃ p x, e = .tidyReturn s p ∧ st.pcB s = .tidy x ∧ liveChildren c st.a s = []) ∨
       (e = .hStep s ∧ 0 < s ∧ s < c.n ∧ c.isSched s = true ∧ st.hph s = .hactive)) := by
  cases e <;> simp only [stepB] at h
  all_goals (repeat' split at h)
  all_goals first
    | (cases h; done)
    | (cases h; exact Or.inl rfl)
    | (cases h; exact Or.inl (beginB_spec _ _ _ _).1)
    | (obtain ⟨r, a', _, rfl⟩ := finishRun_spec h; exact Or.inl rfl)
    | skip
  · rename_i s pick _ x hx hg hd
    cases h
    exact Or.inr ⟨s, by simpa using hd, rfl, Or.inl ⟨pick, x, rfl, hx, hg.1⟩⟩
  · rename_i j hg hd
    cases h
    exact Or.inr ⟨j, by simpa using hd, rfl, Or.inr ⟨rfl, hg.1, hg.2.1, hg.2.2.1, hg.2.2.2.1⟩⟩

/-- C13: `co_shutdown()` is sent to a job only when no job of the same scheduler is unfinished -/
theorem shutdown_when_quiet (c : Cfg) (hwf : c.wf = true) (st st' : StB) (e : EvB) (k : Nat)
    (hA : InvA c st.a) (hB : InvB c st) (h : stepB c st e = some st') (hk : st'.hcalls k ≠ st.hcalls k) :
    0 < k ∧ k < c.n ∧ st'.hcalls k = 1 ∧ ∀ k' ∈ c.children (c.parent k), (st.a.ph k').live = false := by
  rcases hcalls_step h with heq | ⟨s, hd, heq, hev⟩
  · rw [heq] at hk; exact absurd rfl hk
  · rw [heq] at hk ⊢
    simp only at hk ⊢
    by_cases hks : k ∈ c.children s
    · obtain ⟨hkn, hk0, hkp⟩ := CoreB.mem_children.1 hks
      have hk0' : 0 < k := by omega
      have h1 := hB.hcallsLe k
      have h2 := (hB.hcallsDid k hk0' hkn)
      rw [hkp, hd] at h2
      have h3 : st.hcalls k = 0 := by
        have : st.hcalls k ≠ 1 := fun h => by simpa using h2.1 h
        omega
      refine ⟨hk0', hkn, by simp [hks, h3], ?_⟩
      rw [hkp]
      rcases hev with ⟨p, x, _, _, hl⟩ | ⟨_, hs0, hsn, hss, hsh⟩
      · exact liveChildren_nil hl
      · have hnl := hB.relayIdle s hss hs0 (by simp [hsh])
        intro k' hk'
        obtain ⟨hk'n, hk'0, hk'p⟩ := CoreB.mem_children.1 hk'
        by_cases hnb : st.pcB s = .notBegun
        · have := hA.childIdle k' (by omega) hk'n (by rw [hk'p]; exact (hB.pcNotBegun s).1 hnb)
          simp [this, Ph.live]
        · by_cases hov : st.pcB s = .over
          · exact hB.overQuiet s hov k' hk'
          · have := hB.runPh s hnb hov
            simp [this, Ph.live] at hnl
    · simp [hks] at hk

/-- C13: a later `co_shutdown()` sends nothing more: once `_did_shutdown`, no event increases `hcalls` of a job of `s` -/
theorem shutdown_idempotent (c : Cfg) (hwf : c.wf = true) (st st' : StB) (e : EvB) (s : Nat)
    (hA : InvA c st.a) (hB : InvB c st) (h : stepB c st e = some st') (hdid : st.didSd s = true) :
    ∀ k ∈ c.children s, st'.hcalls k = st.hcalls k := by
  intro k hk
  rcases hcalls_step h with heq | ⟨s', hd, heq, _⟩
  · rw [heq]
  · rw [heq]
    simp only
    split
    · rename_i hk'
      have h1 := (CoreB.mem_children.1 hk).2.2
      have h2 := (CoreB.mem_children.1 hk').2.2
      rw [h1] at h2; subst h2
      rw [hdid] at hd; cases hd
    · rfl

/-- C13: the bounded wait of the shutdown phase lasts at most `shutdown_timeout` -/
theorem shutdown_bounded (c : Cfg) (hwf : c.wf = true) (evs : List EvB) (st : StB)
    (h : acceptB c StB.init evs = some st) (s T : Nat) (hw : (st.bc s).isWait = true)
    (hT : c.sdTimeout s = some T) : st.tsd s ≤ st.a.now ∧ st.a.now ≤ st.tsd s + T := by
  have hB := invB_reach c hwf evs st h
  have h1 := hB.hdeadlineEq s hw
  rw [hT] at h1
  simp only [Option.map_some] at h1
  have h2 := hB.hdeadlineGe s _ hw h1
  omega

/-- C13: at expiry the handlers still pending are cancelled, at that instant -/
theorem shutdown_expiry_cancels (c : Cfg) (st st' : StB) (s : Nat)
    (h : stepB c st (.sdTimeoutFire s) = some st') :
    (∀ k ∈ c.children s, st.hph k = .hactive → st'.hcreq k = true) ∧ (st'.bc s).isTidy = true ∧ st'.a.now = st.a.now := by
  simp only [stepB] at h
  split at h
  · cases h
    refine ⟨?_, by simp [setAt, Bc.isTidy], rfl⟩
    intro k hk hh
    simp [mem_activeHandlers, hk, hh]
  · cases h

/-- C13: `co_shutdown()` reports `True` iff no handler had to be cancelled: the value `some true` is produced only
    by `sdWaitReturn` (all handlers done within the bounded wait), `some false` only by `sdTidyReturn` -/
theorem sdvalue_truthful (c : Cfg) (st st' : StB) (e : EvB) (s : Nat) (b : Bool)
    (h : stepB c st e = some st') (hv : st'.sdValue s = some b) (hchg : st.sdValue s ≠ some b) :
    (b = true → ∃ p, e = .sdWaitReturn s p) ∧ (b = false → ∃ p, e = .sdTidyReturn s p) := by
  cases e <;> simp only [stepB] at h
  all_goals (repeat' split at h)
  all_goals first
    | (cases h; done)
    | (cases h; exact absurd hv hchg)
    | (cases h; rw [(beginB_spec _ _ _ _).2.2.2.2.2.1] at hv; exact absurd hv hchg)
    | (obtain ⟨r, a', _, rfl⟩ := finishRun_spec h
       simp only [setAt] at hv
       split at hv
       · subst_vars; simp_all
       · exact absurd hv hchg)
    | (cases h
       simp only [setAt, broadcast] at hv
       split at hv
       · subst_vars; simp_all
       · exact absurd hv hchg)
    | skip

/-- C11: a run that is over stays over.
    STATEMENT AMENDED: hypothesis `hA : InvA c st.a` added.  With `InvB` alone the statement is false (see
    `overCex`, `overCexSt`, `overCex_invB` below): `InvB` does not say that the task of a scheduler whose run is
    over is not `queued` (that is `InvA.notBegun`), and `grant` would then begin the run again. -/
theorem over_is_final (c : Cfg) (st st' : StB) (e : EvB) (s : Nat) (hA : InvA c st.a)
    (hB : InvB c st) (h : stepB c st e = some st') (hover : st.pcB s = .over) : st'.pcB s = .over := by
  have hpo := (hB.pcOver s).1 hover
  cases e <;> simp only [stepB] at h
  all_goals (repeat' split at h)
  all_goals first
    | (cases h; done)
    | (cases h; exact hover)
    | (obtain ⟨r, a', _, rfl⟩ := finishRun_spec h
       simp only [setAt]; split <;> simp_all)
    | (cases h; simp only [exitLoop, broadcast, setAt]; split <;> simp_all)
    | skip
  · rename_i a' ha
    cases h
    rw [(beginB_spec _ _ _ _).2.2.2.2.2.2]
    have := (stepA_runBegin ha).1.2
    simp only [setAt]; split
    · subst_vars; rw [this] at hpo; cases hpo
    · exact hover
  · rename_i j _ a' ha hs
    cases h
    rw [(beginB_spec _ _ _ _).2.2.2.2.2.2]
    have := (stepA_grant ha).1.2.2.1
    simp only [setAt]; split
    · rename_i hsj
      have := hA.notBegun j hs (Or.inr this)
      rw [← hsj, hpo] at this; cases this
    · exact hover


/-! ### `over_is_final` needs `InvA`: a state satisfying `InvB` alone in which a finished nested run begins again -/

def overCex : Cfg :=
  { n := 3, parent := fun j => if j = 2 then 1 else 0, isSched := fun j => j = 0 || j = 1, req := fun _ => [],
    critical := fun _ => false, forever := fun _ => false, window := fun _ => 0, timeout := fun _ => none,
    sdTimeout := fun _ => none, topPure := true }

def overCexSt : StB :=
  { StB.init with
    a := { StA.init with
           ph := fun j => if j = 0 then .running else if j = 1 then .queued else if j = 2 then .done .retOwn else .idle
           pc := fun j => if j = 0 then .loop else if j = 1 then .over else .notBegun }
    pcB := fun j => if j = 0 then .loop else if j = 1 then .over else .notBegun
    didSd := fun j => j = 1
    bc := fun j => if j = 1 then .bover else .bnone
    hph := fun j => if j = 2 then .hdone else .hnone
    hcalls := fun j => if j = 2 then 1 else 0 }

/-- job `1` is a nested scheduler whose run is over, yet its task is `queued`: `grant 1` begins its run again -/
example : overCex.wf = true ∧ overCexSt.pcB 1 = .over ∧
    (stepB overCex overCexSt (.grant 1)).map (fun st' => st'.pcB 1) = some .loop := by
  decide

theorem overCex_children (s k : Nat) : k ∈ overCex.children s ↔ (s = 0 ∧ k = 1) ∨ (s = 1 ∧ k = 2) := by
  rw [CoreB.mem_children]
  simp only [overCex]
  constructor
  · intro ⟨h1, h2, h3⟩
    split at h3 <;> omega
  · rintro (⟨rfl, rfl⟩ | ⟨rfl, rfl⟩) <;> simp

example : ¬ InvA overCex overCexSt.a := by
  intro h
  have := h.notBegun 1 (by decide) (Or.inr (by decide))
  revert this; decide

/-- the state of the counter-example satisfies `InvB` (it does not satisfy `InvA`: it is not reachable) -/
theorem overCex_invB : InvB overCex overCexSt := by
  constructor
  all_goals intro s
  all_goals try simp only [overCex_children]
  all_goals simp only [overCexSt, StB.init, StA.init, rxD, relayActive]
  all_goals try (by_cases h0 : s = 0 <;> by_cases h1 : s = 1 <;> by_cases h2 : s = 2 <;> simp_all [overCex, Ph.live, PcB.exiting, PcB.exitOf, Bc.isWait, Bc.isTidy]; done)
  intro _
  simp only [Bool.and_false, Bool.false_and]
  generalize overCex.children s = l
  induction l with
  | nil => rfl
  | cons x xs ih => simpa [List.filter] using ih


/-! ### settled schedulers: the invariant behind the tree-level theorems -/

/-- what holds, beyond `InvB`, in every reachable state, about schedulers that have shut down:
    the relay of a nested scheduler ends only once that scheduler has broadcast (or had done so before), and a run
    that had jobs is over only once its broadcast is finished -/
structure SdInv (c : Cfg) (st : StB) : Prop where
  relayDone : ∀ k, c.isSched k = true → (st.hph k = .hdone ∨ st.hph k = .hcancelled) → st.didSd k = true
  overBc : ∀ s, st.pcB s = .over → c.children s ≠ [] → st.bc s = .bover

/-- `SdInv` is preserved by every step (given `InvA`, `InvB`) -/
theorem sdInv_step (c : Cfg) (w : CoreB.WF c) (st st' : StB) (e : EvB) (hA : InvA c st.a) (hB : InvB c st)
    (hS : SdInv c st) (h : stepB c st e = some st') : SdInv c st' := by
  cases e <;> simp only [stepB] at h
  all_goals (repeat' split at h)
  all_goals first
    | (cases h; done)
    | (cases h; exact ⟨hS.1, hS.2⟩)
    | (obtain ⟨r, a', _, rfl⟩ := finishRun_spec h
       refine ⟨hS.1, ?_⟩
       intro s' h1 h2
       have := hS.overBc s'
       simp only [setAt] at *
       grind)
    | (cases h
       constructor
       · intro k
         have := hS.relayDone k
         simp only [setAt, broadcast, exitLoop] at *
         grind
       · intro s'
         have := hS.overBc s'
         simp only [setAt, broadcast, exitLoop] at *
         grind)
    | skip
  -- runBegin
  · rename_i a' ha
    cases h
    obtain ⟨e1, e2, e3, e4, e5, e6, e7⟩ := beginB_spec c st 0 a'
    constructor
    · intro k; rw [e4, e2]; exact hS.relayDone k
    · intro s'; rw [e7, e3]
      have := hS.overBc s'
      simp only [setAt]; grind
  -- grant
  · rename_i j _ a' ha hs
    cases h
    obtain ⟨e1, e2, e3, e4, e5, e6, e7⟩ := beginB_spec c st j a'
    constructor
    · intro k; rw [e4, e2]; exact hS.relayDone k
    · intro s'; rw [e7, e3]
      have := hS.overBc s'
      simp only [setAt]; grind
  -- tidyReturn, already shut down
  · rename_i s pick _ x hx hg hd
    obtain ⟨r, a', _, rfl⟩ := finishRun_spec h
    refine ⟨hS.1, ?_⟩
    intro s' h1 h2
    have := hS.overBc s'
    have hrun := hB.runPh s (by simp [hx]) (by simp [hx])
    have h3 := hB.bcNone s
    have h4 := hB.bcInlineWait s
    have h5 := hB.bcInlineTidy s
    have h6 := hB.bcRelay s
    have h7 := hB.relayIdle s
    have h8 := hB.hcallsRange s
    have h9 := hB.hphNone s
    simp only [setAt, relayActive] at *
    by_cases hs : s' = s
    · subst hs
      cases hb : st.bc s' with
      | bnone => simp_all
      | bover => rfl
      | bwait w => cases w <;> simp_all [Ph.live]
      | btidy w => cases w <;> simp_all [Ph.live]
    · simp_all
  -- hStep, broadcast
  · rename_i j hg hd
    cases h
    have h1 := hB.overDid j hg.2.1 hg.2.2.1
    constructor
    · intro k
      have := hS.relayDone k
      simp only [setAt, broadcast] at *
      grind
    · intro s'
      have := hS.overBc s'
      simp only [setAt, broadcast] at *
      grind
  -- sdWaitReturn, relay
  · rename_i s pick hg _ hbc
    cases h
    have h1 := hB.bcNone s
    constructor
    · intro k
      have := hS.relayDone k
      simp only [setAt] at *
      grind
    · intro s'
      have := hS.overBc s'
      simp only [setAt] at *
      grind
  -- sdTimeoutFire
  · rename_i s hg _ _ _
    cases h
    refine ⟨hS.1, ?_⟩
    intro s'
    have := hS.overBc s'
    simp only [setAt] at *
    grind [Bc.isWait]
  -- sdTidyReturn, relay
  · rename_i s pick hg _ hbc _
    cases h
    have h1 := hB.bcNone s
    constructor
    · intro k
      have := hS.relayDone k
      simp only [setAt] at *
      grind
    · intro s'
      have := hS.overBc s'
      simp only [setAt] at *
      grind
  · rename_i s pick hg _ hbc _
    cases h
    have h1 := hB.bcNone s
    constructor
    · intro k
      have := hS.relayDone k
      simp only [setAt] at *
      grind
    · intro s'
      have := hS.overBc s'
      simp only [setAt] at *
      grind

theorem sdInv_init (c : Cfg) : SdInv c StB.init := by
  constructor <;> intros <;> simp_all [StB.init]

/-- the three invariants are carried along any accepted history -/
theorem all_accept (c : Cfg) (hwf : c.wf = true) (evs : List EvB) (st0 st : StB)
    (hA : InvA c st0.a) (hB : InvB c st0) (hS : SdInv c st0) (h : acceptB c st0 evs = some st) :
    InvA c st.a ∧ InvB c st ∧ SdInv c st := by
  induction evs generalizing st0 with
  | nil => simp only [acceptB] at h; cases h; exact ⟨hA, hB, hS⟩
  | cons e es ih =>
    simp only [acceptB] at h
    split at h
    · rename_i st1 hs
      have hB1 := invB_step c hwf st0 st1 e hA hB hs
      have hS1 := sdInv_step c (wf_of c hwf) st0 st1 e hA hB hS hs
      have hA1 : InvA c st1.a := by
        rcases stepB_refines c st0 st1 e hs with heq | ⟨ea, hea⟩
        · rw [heq]; exact hA
        · exact invA_step c hwf st0.a st1.a ea hA hea
      exact ih st1 hA1 hB1 hS1 h
    · cases h

theorem sdInv_reach (c : Cfg) (hwf : c.wf = true) (evs : List EvB) (st : StB)
    (h : acceptB c StB.init evs = some st) : SdInv c st :=
  (all_accept c hwf evs StB.init st (invA_init c) (invB_init c) (sdInv_init c) h).2.2


/-- the scheduler has shut down, for good -/
def Settled (st : StB) (s : Nat) : Prop :=
  st.didSd s = true ∧ st.bc s = .bover ∧ (st.pcB s = .notBegun ∨ st.pcB s = .over)

/-- what holds of a job below a settled scheduler -/
def Quiet (c : Cfg) (st : StB) (d : Nat) : Prop :=
  st.hcalls d = 1 ∧ (st.a.ph d).live = false ∧ (st.hph d = .hdone ∨ st.hph d = .hcancelled) ∧
  (c.isSched d = true → Settled st d)

/-- a scheduler that is neither running nor being relayed is not inside a broadcast -/
theorem bc_idle {c : Cfg} {st : StB} (hB : InvB c st) (s : Nat) (hpc : st.pcB s = .notBegun ∨ st.pcB s = .over)
    (hh : st.hph s ≠ .hactive) : st.bc s = .bnone ∨ st.bc s = .bover := by
  have h4 := hB.bcInlineWait s
  have h5 := hB.bcInlineTidy s
  have h6 := hB.bcRelay s
  simp only [relayActive] at h6
  cases hb : st.bc s with
  | bnone => simp
  | bover => simp
  | bwait w => cases w <;> rcases hpc with hpc | hpc <;> simp_all
  | btidy w => cases w <;> rcases hpc with hpc | hpc <;> simp_all

/-- one level: below a settled scheduler every job has been shut down exactly once, is not live, its handler has
    ended, and if it is a scheduler it is settled too -/
theorem settled_child {c : Cfg} {st : StB} (hB : InvB c st) (hS : SdInv c st) {s k : Nat}
    (hs : Settled st s) (hk : k ∈ c.children s) : Quiet c st k := by
  obtain ⟨hd, hbc, hpc⟩ := hs
  obtain ⟨hkn, hk0, hkp⟩ := CoreB.mem_children.1 hk
  have hk0' : 0 < k := by omega
  have hc1 : st.hcalls k = 1 := (hB.hcallsDid k hk0' hkn).2 (by rw [hkp]; exact hd)
  have hnl := hB.sdQuiet s hd k hk
  have hna : st.hph k ≠ .hactive := by
    intro h
    have := hB.hactiveBc k hk0' hkn h
    rw [hkp, hbc] at this
    simp [Bc.isWait, Bc.isTidy] at this
  have hnn : st.hph k ≠ .hnone := by
    intro h
    have := (hB.hphNone k).1 h
    omega
  have hdc : st.hph k = .hdone ∨ st.hph k = .hcancelled := by
    cases hh : st.hph k <;> simp_all
  refine ⟨hc1, hnl, hdc, ?_⟩
  intro hks
  have hdk := hS.relayDone k hks hdc
  have hpck : st.pcB k = .notBegun ∨ st.pcB k = .over := by
    by_cases h1 : st.pcB k = .notBegun
    · exact Or.inl h1
    · by_cases h2 : st.pcB k = .over
      · exact Or.inr h2
      · have := hB.runPh k h1 h2
        rw [this] at hnl; simp [Ph.live] at hnl
  refine ⟨hdk, ?_, hpck⟩
  rcases bc_idle hB k hpck hna with h | h
  · have := (hB.bcNone k).1 h
    rw [hdk] at this; cases this
  · exact h

theorem descOf_sched {c : Cfg} (w : CoreB.WF c) {s d : Nat} (h : DescOf c s d) : c.isSched s = true := by
  cases h with
  | child hk =>
    obtain ⟨hkn, hk0, hkp⟩ := CoreB.mem_children.1 hk
    rw [← hkp]; exact w.parSched _ (by omega) hkn
  | deeper hk _ =>
    obtain ⟨hkn, hk0, hkp⟩ := CoreB.mem_children.1 hk
    rw [← hkp]; exact w.parSched _ (by omega) hkn

/-- … hence at any depth -/
theorem settled_desc {c : Cfg} (w : CoreB.WF c) {st : StB} (hB : InvB c st) (hS : SdInv c st) {s d : Nat}
    (hd : DescOf c s d) (hs : Settled st s) : Quiet c st d := by
  induction hd with
  | child hk => exact settled_child hB hS hs hk
  | deeper hk hkd ih =>
    have hq := settled_child hB hS hs hk
    exact ih (hq.2.2.2 (descOf_sched w hkd))

theorem over_settled {c : Cfg} {st : StB} (hB : InvB c st) (hS : SdInv c st) {s : Nat}
    (hover : st.pcB s = .over) (hne : c.children s ≠ []) : Settled st s := by
  obtain ⟨hsn, hss⟩ := hB.pcRange s (by simp [hover])
  exact ⟨hB.overDid s hsn hss hover hne, hS.overBc s hover hne, Or.inr hover⟩

/-- C13: by the time a run is over — whatever the exit path — every job of it, at any depth, whether it ran,
    failed, was cancelled or never started, has received `co_shutdown()` exactly once -/
theorem shutdown_once_at_end (c : Cfg) (hwf : c.wf = true) (evs : List EvB) (st : StB)
    (h : acceptB c StB.init evs = some st) (s : Nat) (hover : st.pcB s = .over) (hne : c.children s ≠ []) :
    ∀ d, DescOf c s d → st.hcalls d = 1 := by
  intro d hd
  have hB := invB_reach c hwf evs st h
  have hS := sdInv_reach c hwf evs st h
  exact (settled_desc (wf_of c hwf) hB hS hd (over_settled hB hS hover hne)).1

theorem descOf_ne {c : Cfg} {s d : Nat} (h : DescOf c s d) : c.children s ≠ [] := by
  cases h with
  | child hk => intro h; rw [h] at hk; cases hk
  | deeper hk _ => intro h; rw [h] at hk; cases hk

theorem quiet_concl {c : Cfg} {st : StB} (hB : InvB c st) {d : Nat} (hq : Quiet c st d) :
      (st.a.ph d).live = false ∧ st.hph d ≠ .hactive ∧
      (c.isSched d = true →
        (st.pcB d = .notBegun ∨ st.pcB d = .over) ∧ (st.bc d).isWait = false ∧ (st.bc d).isTidy = false) := by
  obtain ⟨_, h2, h3, h4⟩ := hq
  refine ⟨h2, by rcases h3 with h | h <;> simp [h], ?_⟩
  intro hs
  obtain ⟨_, hb, hp⟩ := h4 hs
  exact ⟨hp, by simp [hb, Bc.isWait], by simp [hb, Bc.isTidy]⟩

/-- C11: once a run is over, none of its jobs at any depth is executing or waiting, no shutdown handler it
    launched is pending, and its nested schedulers are not in any phase of a run or of a broadcast -/
theorem over_subtree_quiet (c : Cfg) (hwf : c.wf = true) (evs : List EvB) (st : StB)
    (h : acceptB c StB.init evs = some st) (s : Nat) (hover : st.pcB s = .over) :
    ∀ d, DescOf c s d →
      (st.a.ph d).live = false ∧ st.hph d ≠ .hactive ∧
      (c.isSched d = true →
        (st.pcB d = .notBegun ∨ st.pcB d = .over) ∧ (st.bc d).isWait = false ∧ (st.bc d).isTidy = false) := by
  intro d hd
  have hB := invB_reach c hwf evs st h
  have hS := sdInv_reach c hwf evs st h
  exact quiet_concl hB (settled_desc (wf_of c hwf) hB hS hd (over_settled hB hS hover (descOf_ne hd)))

theorem descOf_snoc {c : Cfg} {s k d : Nat} (h : DescOf c s k) (hd : d ∈ c.children k) : DescOf c s d := by
  induction h with
  | child hk => exact .deeper hk (.child hd)
  | deeper hk _ ih => exact .deeper hk (ih hd)

/-- every job but the top-level scheduler is in the subtree of the top-level scheduler -/
theorem all_desc {c : Cfg} (w : CoreB.WF c) : ∀ j, 0 < j → j < c.n → DescOf c 0 j := by
  intro j
  induction j using Nat.strongRecOn with
  | ind j ih =>
    intro h0 hn
    have hp := w.parLt j h0 hn
    have hmem : j ∈ c.children (c.parent j) := CoreB.mem_children.2 ⟨hn, by omega, rfl⟩
    by_cases hz : c.parent j = 0
    · rw [hz] at hmem; exact .child hmem
    · exact descOf_snoc (ih (c.parent j) hp (by omega) (by omega)) hmem

/-- C11: after the top-level run is over, the only thing that can happen is the passing of time -/
theorem top_over_only_ticks (c : Cfg) (hwf : c.wf = true) (evs : List EvB) (st st' : StB) (e : EvB)
    (h : acceptB c StB.init evs = some st) (h0 : st.pcB 0 = .over) (hs : stepB c st e = some st') :
    ∃ d, e = .tick d := by
  have w := wf_of c hwf
  have hB := invB_reach c hwf evs st h
  have hS := sdInv_reach c hwf evs st h
  have hq : ∀ j, 0 < j → j < c.n → Quiet c st j := by
    intro j hj0 hjn
    have hd := all_desc w j hj0 hjn
    exact settled_desc w hB hS hd (over_settled hB hS h0 (descOf_ne hd))
  have hlive : ∀ j, 0 < j → j < c.n → (st.a.ph j).live = false := fun j a b => (hq j a b).2.1
  have hhAll : ∀ j, st.hph j ≠ .hactive := by
    intro j hh
    have h1 : st.hcalls j ≠ 0 := by
      intro h1
      have := (hB.hphNone j).2 h1
      rw [hh] at this; cases this
    obtain ⟨a, b⟩ := hB.hcallsRange j h1
    rcases (hq j a b).2.2.1 with h2 | h2 <;> rw [hh] at h2 <;> cases h2
  have hpcAll : ∀ s, st.pcB s = .notBegun ∨ st.pcB s = .over := by
    intro s
    by_cases h1 : st.pcB s = .notBegun
    · exact Or.inl h1
    · obtain ⟨a, b⟩ := hB.pcRange s h1
      by_cases hz : s = 0
      · subst hz; exact Or.inr h0
      · exact ((hq s (by omega) a).2.2.2 b).2.2
  have hbcAll : ∀ s, st.bc s = .bnone ∨ st.bc s = .bover := fun s => bc_idle hB s (hpcAll s) (hhAll s)
  have hpo := (hB.pcOver 0).1 h0
  -- the top-level task is finished: nobody can cancel it any more, no cancellation can be delivered into it
  have hph0 : st.a.ph 0 ≠ .running := fun hr =>
    ((ProgB.invP_reach c hwf evs st h).runPc 0 w.sched0 hr).2 h0
  cases e with
  | tick d => exact ⟨d, rfl⟩
  | extCancel =>
    simp only [stepB] at hs
    split at hs
    · cases hs
    · rename_i a' ha
      exact absurd (stepA_extCancel ha).1.1 hph0
  | runBegin =>
    simp only [stepB] at hs
    split at hs
    · cases hs
    · rename_i a' ha
      have := (stepA_runBegin ha).1.2
      rw [hpo] at this; cases this
  | grant j =>
    simp only [stepB] at hs
    split at hs
    · cases hs
    · rename_i a' ha
      obtain ⟨a, b, c', _⟩ := (stepA_grant ha).1
      have := hlive j a b
      rw [c'] at this; simp [Ph.live] at this
  | bodyEnd j ok =>
    simp only [stepB] at hs
    split at hs
    · cases hs
    · rename_i a' ha
      obtain ⟨a, b, _, c', _⟩ := (stepA_bodyEnd ha).1
      have := hlive j a b
      rw [c'] at this; simp [Ph.live] at this
  | cancelAck j =>
    simp only [stepB] at hs
    split at hs
    · cases hs
    · rename_i a' ha
      obtain ⟨a, b, _, c'⟩ := (stepA_cancelAck ha).1
      have := hlive j a b
      rcases c' with c' | ⟨c', _⟩ <;> rw [c'] at this <;> simp [Ph.live] at this
  | cancelArrive s =>
    simp only [stepB] at hs
    split at hs
    · rename_i hg
      by_cases hz : s = 0
      · subst hz; exact absurd hg.2.2.1 hph0
      · have := hlive s (by omega) hg.1
        rw [hg.2.2.1] at this; simp [Ph.live] at this
    · cases hs
  | waitReturn s =>
    simp only [stepB] at hs
    split at hs
    · rename_i hg
      have := hpcAll s
      rw [hg.1] at this; simp at this
    · cases hs
  | react s =>
    simp only [stepB] at hs
    split at hs
    · rename_i hl _
      have := hpcAll s
      rw [hl] at this; simp at this
    · cases hs
  | orchFail s =>
    simp only [stepB] at hs
    split at hs
    · rename_i hl _
      have := hpcAll s
      rw [hl] at this; simp at this
    · cases hs
  | timeoutFire s =>
    simp only [stepB] at hs
    split at hs
    · rename_i hg
      have := hpcAll s
      rw [hg.1] at this; simp at this
    · cases hs
  | tidyReturn s pick =>
    simp only [stepB] at hs
    split at hs
    · rename_i x hl
      have := hpcAll s
      rw [hl] at this; simp at this
    · cases hs
  | hStep j =>
    simp only [stepB] at hs
    split at hs
    · rename_i hg
      exact absurd hg.2.2.2.1 (hhAll j)
    · cases hs
  | hEnd j =>
    simp only [stepB] at hs
    split at hs
    · rename_i hg
      exact absurd hg.2.2.2.1 (hhAll j)
    · cases hs
  | hCancelAck j =>
    simp only [stepB] at hs
    split at hs
    · rename_i hg
      exact absurd hg.2.2.2.1 (hhAll j)
    · cases hs
  | hCancelArrive j =>
    simp only [stepB] at hs
    split at hs
    · rename_i hg
      exact absurd hg.2.2.2.1 (hhAll j)
    · cases hs
  | sdWaitReturn s pick =>
    simp only [stepB] at hs
    have := hbcAll s
    split at hs
    · split at hs <;> simp_all
    · cases hs
  | sdTimeoutFire s =>
    simp only [stepB] at hs
    have := hbcAll s
    split at hs
    · rename_i hg
      rcases this with h1 | h1 <;> rw [h1] at hg <;> simp [Bc.isWait] at hg
    · cases hs
  | sdTidyReturn s pick =>
    simp only [stepB] at hs
    have := hbcAll s
    split at hs
    · split at hs <;> simp_all
    · cases hs

end AJ.Proofs.ShutB
